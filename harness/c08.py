"""
C08 — xyz round trip and unit handling: coordinates mean what the file says.

Proof:  Molli.Props.C08 (xyz_read_write, xyz_frames, xyz_read_write_preserves, xyz_token_fixed, symbol_roundtrip,
        unit_invariance, toAngstrom_sub, angstrom_identity, toAngstrom_injective, distance_scaling,
        physical_distance_unchanged, unit_independent; numeric layer shared with C07) + generated obligations Molli.Gen.Units (every DistanceUnit member is a
        known, non-zero unit with its physical value) and Molli.Gen.Mol2Types.symbol_roundtrip.
Tie:    unit table and element symbols regenerated from the live modules; text differential: geometries and
        ensembles written by the real dumps_xyz and by the model writer (byte-identical), read by the real
        loads_all_xyz / ConformerEnsemble.loads_xyz and by the model reader; for EVERY member (and alias) of
        DistanceUnit the geometry expressed in that unit is loaded with source_units through the xyz and the
        mol2 reader and compared with the model's exact conversion; bundled and foreign-style xyz texts.
Oracle: model-free: atom count / order / elements / coordinates (1e-6) of object vs read-back frame by
        frame; pair distances of the geometry loaded with source_units=u vs the original geometry.
"""
from __future__ import annotations

import json
import math
from pathlib import Path

from harness import common
from harness import textlib as tl


# physical reference, independent of the code's table: units per Ångström (CODATA Bohr radius 0.529177210903 Å)
UNIT_REF = {"A": 1.0, "Angstrom": 1.0, "Bohr": 1.0 / 0.529177210903, "au": 1.0 / 0.529177210903,
            "fm": 1.0e5, "pm": 100.0, "nm": 0.1}


def gen_geom_spec(rng, en, max_atoms: int, specials: bool) -> dict:
    n = min(rng.weighted([(0, 1), (1, 2), (2, 3), (4, 3), (7, 2), (max_atoms, 1)]), max_atoms)
    common_e = [en.ei[en.Element[s]] for s in ("C", "N", "O", "H", "Unknown", "Cl", "Og", "He")]
    atoms = []
    for _ in range(n):
        e = rng.choice(common_e) if rng.chance(1, 2) else rng.below(len(en.E))
        dummy = 1 if rng.chance(1, 8) else 0
        atoms.append({"e": e, "d": dummy, "x": tl.gen_coord(rng, specials), "y": tl.gen_coord(rng, specials),
                      "z": tl.gen_coord(rng, specials)})
    return {"comment": rng.choice(["geom", "a b c", "", "12", "  padded", "C 0 0 0"]), "atoms": atoms}


def build_geom(en, spec, cls=None):
    import molli as ml
    from molli.chem import Atom

    cls = cls or ml.Molecule
    atoms = [Atom(en.E[a["e"]], atype=(en.AtomType.Dummy if a["d"] else en.AtomType.Regular)) for a in spec["atoms"]]
    coords = [[a["x"], a["y"], a["z"]] for a in spec["atoms"]]
    if atoms:
        return cls(atoms, name=spec["comment"], coords=coords)
    return cls(None, n_atoms=0, name=spec["comment"])


def oracle_frames(ctx, en, specs, back, what, replay, tol_fn=None):
    if len(back) != len(specs):
        ctx.violation("C08:frame-count", f"{what}: {len(specs)} frames written, {len(back)} read", replay)
        return
    for fi, (s, b) in enumerate(zip(specs, back)):
        if len(s["atoms"]) != len(b["atoms"]):
            ctx.violation("C08:atom-count", f"{what}: frame {fi}: {len(s['atoms'])} atoms written, {len(b['atoms'])} read", replay)
            continue
        for i, (p, q) in enumerate(zip(s["atoms"], b["atoms"])):
            if p["e"] != q["e"]:
                ctx.violation("C08:element-changed", f"{what}: frame {fi} atom {i}: {en.E[p['e']].name} read back as {en.E[q['e']].name}", replay)
            for k in "xyz":
                tol = tl.COORD_TOL if tol_fn is None else tol_fn(p[k])
                if not tl.same_float(p[k], q[k], abs_=tol):
                    ctx.violation("C08:coordinate-precision", f"{what}: frame {fi} atom {i}: {k}={p[k]!r} read back as {q[k]!r}", replay)


def run(ctx):
    import molli as ml
    from molli.chem.geometry import DistanceUnit

    en = tl.Enums()
    ctx.rule = ("geometries of 0..n atoms over all elements incl. Unknown and dummy atoms, coordinates from the boundary "
                "set (±0, 7th-decimal ties, 1e-7, ±1e7, 1e15, NaN/inf), 1..5 frames (equal and unequal atom counts, "
                "0-atom frames); every member and alias of DistanceUnit through the xyz and the mol2 reader — through EVERY "
                "entry point (load_/loads_/load_all_/loads_all_ of Molecule, Structure, CartesianGeometry, "
                "ConformerEnsemble) and input kind (str path, Path, open stream, string); bundled and "
                "foreign-style xyz texts ('*' atoms, lower-case symbols, CRLF, tabs, exponents). "
                "Non-trivial: ≥1 atom with a non-zero coordinate; distinct by canonical hash.")
    ctx.assumptions += [
        "A-dec: format(x,'12.6f') is the exact value rounded half-even at 6 decimals, float(s) the nearest double",
        "unit conversion is compared in exact rational arithmetic against float64 with relative tolerance 1e-9",
        "ASCII whitespace only",
    ]
    ctx.proof(props=["Molli.Props.C08"], gen=["Units", "Mol2Types"])
    quick = ctx.quick()
    rng = ctx.rng
    reqs = []

    def ask(line, cb):
        reqs.append((line, cb))

    def nontriv(spec):
        return any(a["x"] or a["y"] or a["z"] for a in spec["atoms"])

    # ------------------------------------------------------------------ single geometries and multi-frame texts
    corpus = [c for c in tl.load_corpus("C08")]
    frame_sets = [c["frames"] for c in corpus if "frames" in c]
    for i in range(200 if quick else 10000):
        k = rng.weighted([(1, 5), (2, 2), (3, 2), (5, 1)])
        frame_sets.append([gen_geom_spec(rng, en, 12 if quick else 40, specials=(i % 6 == 0)) for _ in range(k)])
    for fi, frames in enumerate(frame_sets):
        ctx.check_deadline()
        ctx.case({"frames": frames}, any(nontriv(f) for f in frames))
        ctx.count(f"frames={len(frames)}")
        for f in frames:
            ctx.count(f"atoms={min(len(f['atoms']), 9)}{'+' if len(f['atoms']) > 9 else ''}")
        replay = {"kind": "frames", "frames": frames}
        try:
            objs = [build_geom(en, f, ml.Molecule if fi % 2 == 0 else ml.CartesianGeometry) for f in frames]
        except Exception as e:  # noqa: BLE001
            ctx.disagree("could not build the geometry through the public API", frames, repr(e), "ok")
            continue
        st, text = tl.limited(lambda: "".join(o.dumps_xyz() for o in objs))
        if st != "ok":
            ctx.violation("C08:dumps-xyz-raises", f"dumps_xyz failed: {text!r}", replay)
            continue
        ask("xwrite " + "#".join(tl.frame_request(f) for f in frames),
            lambda resp, text=text, frames=frames: (resp == "ok " + tl.hx(text)) or ctx.disagree(
                "dumps_xyz text differs from the model writer", frames, text, tl.unhx(resp[3:]) if resp.startswith("ok ") else resp))
        st, back = tl.limited(lambda: ml.Molecule.loads_all_xyz(text))
        if st != "ok":
            kind = "C08:zero-atom-frame-rejected" if any(len(f["atoms"]) == 0 for f in frames) else "C08:own-output-rejected"
            ctx.violation(kind, f"loads_all_xyz rejects text written by dumps_xyz: {type(back).__name__}: {back}", replay)
            ask(f"xread 1/1 {tl.hx(text)}", lambda resp, text=text: resp.startswith("err") or ctx.disagree(
                "model reader accepts an xyz text the real reader rejects", text, "err", resp[:300]))
            continue
        cb = [tl.canon_geom(en, g) for g in back]
        oracle_frames(ctx, en, frames, cb, "xyz", replay)
        ask(f"xread 1/1 {tl.hx(text)}",
            lambda resp, cb=cb, text=text: tl.frames_equal(cb, tl.parse_frames_response(resp)) or ctx.disagree(
                "loads_all_xyz differs from the model reader", text, tl.short_frames(cb), tl.short_frames(tl.parse_frames_response(resp))))
        if fi < 2:
            ctx.sample({"frames": [len(f["atoms"]) for f in frames], "text_head": text[:300]})

    # ------------------------------------------------------------------ view classes as xyz writers: Substructure of a Molecule /
    # Structure (non-leading subsets, `.heavy`, the empty selection) and Conformer views of an ensemble — objects whose
    # atoms and coordinates live in another object. The text must be the model writer's text for the canonical form of
    # the object being written (its own atom list and the coordinates its public `coords` gives) and read back as it.
    def check_xyz_writer(obj, what, replay):
        ctx.count(f"xyz_writer:{what.split(':')[0]}")
        try:
            want = tl.canon_geom(en, obj)
            want["comment"] = obj.name if hasattr(obj, "name") else f"{type(obj)}"
        except Exception as e:  # noqa: BLE001
            ctx.disagree("could not take the canonical form of the object to be written", what, repr(e), "ok")
            return
        ctx.case({"xyz-writer": what, "geom": want}, nontriv(want))
        st, text = tl.limited(obj.dumps_xyz)
        if st != "ok":
            ctx.violation("C08:dumps-xyz-raises", f"{what}: dumps_xyz raised {type(text).__name__}: {text}", replay)
            return
        ask("xwrite " + tl.frame_request(want),
            lambda resp, text=text, what=what, want=want: (resp == "ok " + tl.hx(text)) or ctx.disagree(
                f"{what}: dumps_xyz text differs from the model writer applied to the object written", want, text,
                tl.unhx(resp[3:]) if resp.startswith("ok ") else resp))
        st, back = tl.limited(lambda: ml.Molecule.loads_all_xyz(text))
        if st != "ok":
            ctx.violation("C08:own-output-rejected", f"{what}: the written xyz text is not read back ({back!r})", replay)
            return
        oracle_frames(ctx, en, [want], [tl.canon_geom(en, g) for g in back], what, replay)

    for i in range(40 if quick else 600):
        ctx.check_deadline()
        g = gen_geom_spec(rng, en, 8, False)
        n = len(g["atoms"])
        if n < 2:
            continue
        g["comment"] = "parent"
        for cls in (ml.Molecule, ml.Structure):
            parent = build_geom(en, g, cls)
            ksub = rng.range(1, n - 1)
            idx = rng.shuffle(list(range(n)))[:ksub]
            if idx == list(range(ksub)):
                idx = idx[::-1] if ksub > 1 else [n - 1]
            rp = {"kind": "xyz-view-writer", "class": cls.__name__, "geom": g}
            for what, make in ((f"Substructure of {cls.__name__}: atoms {idx}", lambda: parent.substructure(idx)),
                               (f"Substructure of {cls.__name__}: heavy", lambda: parent.heavy),
                               (f"Substructure of {cls.__name__}: empty selection", lambda: parent.substructure([]))):
                try:
                    view = make()
                except Exception as e:  # noqa: BLE001
                    ctx.disagree("could not build the view through the public API", what, repr(e), "ok")
                    continue
                check_xyz_writer(view, what, dict(rp, view=what))
            check_xyz_writer(parent, f"parent after views: {cls.__name__}", rp)
        # Conformer views (with non-uniform weights on the ensemble)
        confs = []
        for _ in range(rng.range(1, 4)):
            sp = json.loads(json.dumps(g))
            for a in sp["atoms"]:
                a["x"], a["y"], a["z"] = tl.gen_coord(rng, False), tl.gen_coord(rng, False), tl.gen_coord(rng, False)
            confs.append(build_geom(en, sp, ml.Molecule))
        ens = ml.ConformerEnsemble(confs)
        tl.set_weights(rng, ens)
        for j in rng.shuffle(list(range(ens.n_conformers))):
            check_xyz_writer(ens[j], f"Conformer: {j} of {ens.n_conformers}", {"kind": "xyz-conformer-writer", "geom": g, "conformer": j})

    # ------------------------------------------------------------------ ensembles: frame by frame
    for i in range(30 if quick else 1000):
        base = gen_geom_spec(rng, en, 8, False)
        if not base["atoms"]:
            continue
        k = rng.range(1, 5)
        confs = []
        for _ in range(k):
            s = json.loads(json.dumps(base))
            for a in s["atoms"]:
                a["x"], a["y"], a["z"] = tl.gen_coord(rng, False), tl.gen_coord(rng, False), tl.gen_coord(rng, False)
                a["d"] = base["atoms"][0]["d"] if False else a["d"]
            confs.append(s)
        ctx.case({"ens": confs}, True)
        ctx.count("ensembles")
        replay = {"kind": "ensemble", "frames": confs}
        try:
            ens = ml.ConformerEnsemble([build_geom(en, s, ml.Molecule) for s in confs])
            replay["weights"] = tl.set_weights(rng, ens)     # frame k of the text is conformer k of the object, whatever the weights
        except Exception as e:  # noqa: BLE001
            ctx.disagree("could not build the ensemble", base, repr(e), "ok")
            continue
        st, text = tl.limited(ens.dumps_xyz)
        if st != "ok":
            ctx.violation("C08:dumps-xyz-raises", f"ConformerEnsemble.dumps_xyz failed: {text!r}", replay)
            continue
        ask("xwrite " + "#".join(tl.frame_request(f) for f in confs),
            lambda resp, text=text, confs=confs: (resp == "ok " + tl.hx(text)) or ctx.disagree(
                "ConformerEnsemble.dumps_xyz text differs from the model writer", confs[0], text, tl.unhx(resp[3:]) if resp.startswith("ok ") else resp))
        st, pair = tl.limited(lambda: tl.reentrant_dump(ens, "xyz"))
        ctx.count("overlapping_dumps")
        if st != "ok" or pair[0] != text or pair[1] != text:
            ctx.violation("C08:overlapping-dumps-differ",
                          "two overlapping xyz dumps of one ensemble do not both contain every frame "
                          f"({'raised ' + repr(pair) if st != 'ok' else 'frames: %d / %d of %d' % (pair[0].count(chr(10) + confs[0]['comment'] + chr(10)), pair[1].count(chr(10) + confs[0]['comment'] + chr(10)), k)})", replay)
        st, back = tl.limited(lambda: ml.ConformerEnsemble.loads_xyz(text))
        if st != "ok":
            ctx.violation("C08:own-output-rejected", f"ConformerEnsemble.loads_xyz rejects the ensemble's own text: {back!r}", replay)
            continue
        if back.n_conformers != k:
            ctx.violation("C08:frame-count", f"{k} conformers written, {back.n_conformers} read", replay)
            continue
        cb = [tl.canon_geom(en, back[j]) for j in range(k)]
        oracle_frames(ctx, en, confs, cb, "ensemble", replay)
        ask(f"xread 1/1 {tl.hx(text)}",
            lambda resp, cb=cb, text=text: tl.frames_equal(cb, tl.parse_frames_response(resp), dummy=False) or ctx.disagree(
                "ConformerEnsemble.loads_xyz differs from the model reader", text, tl.short_frames(cb), tl.short_frames(tl.parse_frames_response(resp))))

    # ------------------------------------------------------------------ large xyz texts (below / above 1 MiB, several MiB):
    # string, stream and path readers against the model reader on the same text
    def large_case(tag, target_chars, n_frames):
        lr = rng.fork("large:" + tag)
        n_at = max(2, target_chars // (45 * n_frames))
        elems = [en.ei[en.Element[x]] for x in ("C", "N", "O", "H", "Cl", "Unknown", "Og")]
        base = [lr.choice(elems) for _ in range(n_at)]
        frames = [{"comment": "large " + tag, "atoms": [{"e": e, "d": 0, "x": tl.gen_coord(lr, False), "y": tl.gen_coord(lr, False),
                                                         "z": tl.gen_coord(lr, False)} for e in base]} for _ in range(n_frames)]
        replay = {"kind": "large-text", "tag": tag, "n_atoms": n_at, "n_frames": n_frames}
        objs = [build_geom(en, f, ml.Molecule) for f in frames]
        text = "".join(o.dumps_xyz() for o in objs)
        ctx.case(f"large:{tag}:{len(text)}", True)
        ctx.count(f"large_text:{'<' if len(text) < (1 << 20) else '>='}1MiB")
        ctx.extra_cov.setdefault("large_texts", []).append({"tag": tag, "chars": len(text), "atoms": n_at, "frames": n_frames})
        path = ctx.scratch / f"large_{tag}.xyz"
        path.write_text(text)

        def via_stream():
            with open(path, "rt") as f:
                return ml.Molecule.load_all_xyz(f)

        readers = [("string", lambda: ml.Molecule.loads_all_xyz(text)), ("stream", via_stream),
                   ("str path", lambda: ml.Molecule.load_all_xyz(str(path))), ("Path", lambda: ml.CartesianGeometry.load_all_xyz(path))]
        if n_frames > 1:
            readers.append(("ConformerEnsemble.load_xyz(path)", lambda: ml.ConformerEnsemble.load_xyz(str(path))))
        results = []
        for how, fn in readers:
            st, r = tl.limited(fn, 120)
            if st != "ok":
                ctx.violation("C08:own-output-rejected", f"large xyz text {tag} ({len(text)} characters) through {how}: "
                              f"{type(r).__name__}: {str(r)[:120]}", replay)
                continue
            got = [tl.canon_geom(en, x) for x in (([r[j] for j in range(r.n_conformers)]) if isinstance(r, ml.ConformerEnsemble) else r)]
            oracle_frames(ctx, en, frames, got, f"large xyz text {tag} through {how}", replay)
            results.append((how, got))
        ask(f"xread 1/1 {tl.hx(text)}",
            lambda resp, results=results, tag=tag: [
                tl.frames_equal(got, tl.parse_frames_response(resp), dummy=False) or ctx.disagree(
                    f"large xyz text {tag} read through {how} differs from the model reader on the same text", tag,
                    tl.short_frames(got[:1]), resp[:200]) for how, got in results])

    for tag, chars, nf in ([("above-1MiB", (1 << 20) + 30_000, 1)] if quick else
                           [("below-1MiB", (1 << 20) - 50_000, 1), ("above-1MiB", (1 << 20) + 30_000, 1),
                            ("3MiB", 3 * (1 << 20) + 100_000, 1), ("frames-2MiB", 2 * (1 << 20) + 50_000, 500)]):
        ctx.check_deadline()
        large_case(tag, chars, nf)

    # ------------------------------------------------------------------ write – grow – write on ONE ensemble
    # append / extend(list) / extend(ensemble), before and after a first dump or iteration: every xyz text holds every
    # frame the ensemble has at that moment (its coordinate array), in order
    def growth_history(base):
        def make_conf():
            sp = json.loads(json.dumps(base))
            for a in sp["atoms"]:
                a["x"], a["y"], a["z"] = tl.gen_coord(rng, False), tl.gen_coord(rng, False), tl.gen_coord(rng, False)
            return build_geom(en, sp, ml.Molecule)

        def dump(ens, steps):
            want = tl.canon_ensemble(en, ens)
            ctx.case({"growth": steps, "n": len(want), "atoms": len(base["atoms"])}, True)
            ctx.count("ensemble_growth_dumps")
            replay = {"kind": "growth-history", "base": base, "steps": steps}
            st, text = tl.limited(ens.dumps_xyz)
            if st != "ok":
                ctx.violation("C08:dumps-xyz-raises", f"ensemble after {steps}: dumps_xyz raised {text!r}", replay)
                return
            st, back = tl.limited(lambda: ml.Molecule.loads_all_xyz(text))
            if st != "ok" or len(back) != len(want):
                ctx.violation("C08:frame-count", f"ensemble after {'; '.join(steps)}: {len(want)} conformers "
                              f"(n_conformers={ens.n_conformers}), {len(back) if st == 'ok' else back!r} frames in the xyz text", replay)
            else:
                oracle_frames(ctx, en, want, [tl.canon_geom(en, g) for g in back], "ensemble after growth", replay)
            ask("xwrite " + "#".join(tl.frame_request(w) for w in want),
                lambda resp, text=text, steps=steps: (resp == "ok " + tl.hx(text)) or ctx.disagree(
                    "ensemble dumps_xyz after a growth history differs from the model writer on its current arrays", steps, text[:500],
                    (tl.unhx(resp[3:]) if resp.startswith("ok ") else resp)[:500]))

        try:
            tl.grow_ensemble(rng, en, ml, base, make_conf, dump, rng.range(0, 3))
        except Exception as e:  # noqa: BLE001
            ctx.disagree("growing an ensemble through the public API raised", base, repr(e), "ok")

    for i in range(25 if quick else 400):
        ctx.check_deadline()
        gb = gen_geom_spec(rng, en, 6, False)
        if gb["atoms"]:
            gb["comment"] = "grow"
            growth_history(gb)

    # ------------------------------------------------------------------ units: every member and alias, xyz and mol2 readers
    from harness.gen import Units as GU
    unit_tab = GU.observe()
    for name, num, den, val in unit_tab:
        for rep in range(12 if quick else 300):
            ctx.check_deadline()
            g = gen_geom_spec(rng, en, 6, False)
            for a in g["atoms"]:
                a["d"] = 0
                for k in "xyz":
                    a[k] = round((rng.uniform() * 2 - 1) * rng.choice([1.0, 5.0, 30.0]), 4)
            if rep == 0:
                # the witnesses of the design round: 1.4 Bohr, 74 pm
                g = {"comment": "h2", "atoms": [{"e": 1, "d": 0, "x": 0.0, "y": 0.0, "z": 0.0},
                                                {"e": 1, "d": 0, "x": 0.0, "y": 0.0, "z": 0.7408}]}
            if not g["atoms"]:
                continue
            ctx.case({"unit": name, "geom": g}, nontriv(g))
            ctx.count(f"unit={name}")
            replay = {"kind": "unit", "unit": name, "geom": g}
            # the same geometry expressed in unit `name` — by the PHYSICAL size of the unit, not by the code's table
            ref = UNIT_REF.get(name)
            if ref is None:
                ctx.count("unit_without_reference")
                ref = val
            gu = json.loads(json.dumps(g))
            for a in gu["atoms"]:
                for k in "xyz":
                    a[k] = a[k] * ref
            # written precision in the unit, in Å, plus the 6 significant digits the table gives for Bohr
            tol = lambda x, ref=ref: 1e-6 / ref + 1e-5 * abs(x)
            obj = build_geom(en, gu, ml.Molecule)
            # --- xyz
            text = obj.dumps_xyz()
            st, back = tl.limited(lambda: ml.Molecule.loads_all_xyz(text, source_units=name))
            if st != "ok":
                ctx.violation("C08:unit-load-raises", f"loads_all_xyz(source_units={name!r}) raised {back!r}", replay)
            else:
                cb = [tl.canon_geom(en, x) for x in back]
                _unit_oracle(ctx, g, cb, name, "xyz", replay, tol)
                ask(f"xread {num}/{den} {tl.hx(text)}",
                    lambda resp, cb=cb, text=text, name=name: tl.frames_equal(cb, tl.parse_frames_response(resp), rel=1e-9, abs_=1e-12) or ctx.disagree(
                        f"loads_all_xyz(source_units={name}) differs from the model's toAngstrom", text, tl.short_frames(cb), tl.short_frames(tl.parse_frames_response(resp))))
            # --- mol2
            text2 = obj.dumps_mol2()
            st, back2 = tl.limited(lambda: ml.Molecule.loads_all_mol2(text2, source_units=name))
            if st != "ok":
                ctx.violation("C08:unit-load-raises", f"loads_all_mol2(source_units={name!r}) raised {back2!r}", replay)
            else:
                cb2 = [tl.canon_geom(en, x) for x in back2]
                _unit_oracle(ctx, g, cb2, name, "mol2", replay, tol)
                cm2 = [tl.canon_mol(en, x) for x in back2]
                ask(f"read molecule ~ {num}/{den} {tl.hx(text2)}",
                    lambda resp, cm2=cm2, text2=text2, name=name: tl.mols_equal(cm2, tl.parse_read_response(resp), rel=1e-9, abs_=1e-12) or ctx.disagree(
                        f"loads_all_mol2(source_units={name}) differs from the model's toAngstrom", text2, tl.short_mols(cm2), tl.short_mols(tl.parse_read_response(resp))))

    # ------------------------------------------------------------------ EVERY reader entry point x input kind x unit
    # load_* / loads_* / load_all_* / loads_all_* of Molecule, Structure, CartesianGeometry, ConformerEnsemble, given a
    # str path, a pathlib.Path, an open stream or a string, for xyz and mol2, with every member of DistanceUnit:
    # all must give the geometry in Ångström (oracle) and agree with the model's conversion of the same text
    classes = [("Molecule", ml.Molecule), ("Structure", ml.Structure), ("CartesianGeometry", ml.CartesianGeometry),
               ("ConformerEnsemble", ml.ConformerEnsemble)]
    work = ctx.scratch

    def as_frames(obj):
        if isinstance(obj, ml.ConformerEnsemble):
            return [obj[j] for j in range(obj.n_conformers)]
        return list(obj) if isinstance(obj, (list, tuple)) else [obj]

    for name, num, den, val in unit_tab:
        ref = UNIT_REF.get(name, val)
        tol = lambda x, ref=ref: 1e-6 / ref + 1e-5 * abs(x)
        for rep in range(1 if quick else 6):
            ctx.check_deadline()
            g1 = gen_geom_spec(rng, en, 5, False)
            while len(g1["atoms"]) < 2:
                g1 = gen_geom_spec(rng, en, 5, False)
            g1["comment"] = "entry"
            for a in g1["atoms"]:
                a["d"] = 0
                for k in "xyz":
                    a[k] = round((rng.uniform() * 2 - 1) * rng.choice([1.0, 5.0, 30.0]), 4)
            g2 = json.loads(json.dumps(g1))
            for a in g2["atoms"]:
                for k in "xyz":
                    a[k] = round((rng.uniform() * 2 - 1) * 5.0, 4)
            gs = [g1, g2]
            objs = []
            for g in gs:
                gu = json.loads(json.dumps(g))
                for a in gu["atoms"]:
                    for k in "xyz":
                        a[k] = a[k] * ref
                objs.append(build_geom(en, gu, ml.Molecule))
            for fmt in ("xyz", "mol2"):
                text = "".join(getattr(o, "dumps_" + fmt)() for o in objs)
                path = work / f"entry_{name}_{rep}.{fmt}"
                path.write_text(text)
                results = []      # (label, canonical frames, expected number of frames)
                for cname, cls in classes:
                    for meth, inputs in ((f"load_{fmt}", ("str-path", "Path", "stream")), (f"loads_{fmt}", ("string",)),
                                         (f"load_all_{fmt}", ("str-path", "Path", "stream")), (f"loads_all_{fmt}", ("string",))):
                        fn = getattr(cls, meth, None)
                        if fn is None:
                            continue
                        for kind in inputs:
                            label = f"{cname}.{meth}({kind}, source_units={name!r})"
                            ctx.case(f"entry:{label}:{rep}", True)
                            ctx.count(f"entry_point={cname}.{meth}({kind})")
                            replay = {"kind": "entry-point", "call": label, "unit": name, "format": fmt, "text": text}

                            def call(fn=fn, kind=kind):
                                if kind == "str-path":
                                    return fn(str(path), source_units=name)
                                if kind == "Path":
                                    return fn(Path(path), source_units=name)
                                if kind == "stream":
                                    with open(path, "rt") as f:
                                        return fn(f, source_units=name)
                                return fn(text, source_units=name)

                            st, r = tl.limited(call)
                            if st != "ok":
                                ctx.violation("C08:unit-load-raises", f"{label} raised {type(r).__name__}: {r}", replay)
                                continue
                            fr = [tl.canon_geom(en, x) for x in as_frames(r)]
                            want = 2 if ("_all_" in meth or cls is ml.ConformerEnsemble) else 1
                            if len(fr) != want:
                                ctx.violation("C08:frame-count", f"{label}: {len(fr)} frames returned, {want} expected", replay)
                                continue
                            for gi, f1 in zip(gs, fr):
                                _unit_oracle(ctx, gi, [f1], name, label, replay, tol)
                            results.append((label, fr, replay))
                if fmt == "xyz":
                    ask(f"xread {num}/{den} {tl.hx(text)}",
                        lambda resp, results=results: [
                            tl.frames_equal(fr, (tl.parse_frames_response(resp) if not resp.startswith("err") else [])[: len(fr)], rel=1e-9, abs_=1e-12, dummy=False)
                            or ctx.disagree(f"{label} differs from the model's toAngstrom", rp, tl.short_frames(fr), resp[:300])
                            for label, fr, rp in results])
                else:
                    def cmp_mol2(resp, results=results):
                        mm = tl.parse_read_response(resp)
                        mf = "err" if mm == "err" else [{"atoms": [{"e": a["e"], "d": 0, "x": a["x"], "y": a["y"], "z": a["z"]} for a in m["atoms"]]} for m in mm]
                        for label, fr, rp in results:
                            if mf == "err" or not tl.frames_equal(fr, mf[: len(fr)], rel=1e-9, abs_=1e-12, dummy=False):
                                ctx.disagree(f"{label} differs from the model's toAngstrom", rp, tl.short_frames(fr), resp[:300])
                    ask(f"read molecule ~ {num}/{den} {tl.hx(text)}", cmp_mol2)

    # ------------------------------------------------------------------ bundled and foreign-style texts
    texts = [(p.name, p.read_text()) for p in tl.bundled_files(common.REPO, ".xyz")]
    texts += [
        ("star", "2\ndummies\n*   0.0 0.0 0.0\n*  0.0 0.0 1.275\n"),
        ("lower", "3\nlower case\nc 0 0 0\ncl 1.0 0 0\nCL 0 1e0 0\n"),
        ("crlf", "2\r\ncomment\r\nH 0 0 0\r\nH 0 0 0.74\r\n"),
        ("tabs", "1\n\nHe\t1.5\t-2.5e-1\t+3.\n"),
        ("noeol", "1\nx\nO 1 2 3"),
        ("two", "1\na\nH 0 0 0\n2\nb\nO 0 0 0\nH 0 0 1\n"),
        ("blank-between", "1\na\nH 0 0 0\n\n1\nb\nH 0 0 0\n"),
        ("plus-count", "+1\nc\nH 0 0 0\n"),
        ("neg-count", "-1\nc\n"),
        ("zero", "0\nempty\n"),
        ("unknown-symbol", "1\nc\nXx 0 0 0\n"),
        ("extra-field", "1\nc\nH 0 0 0 0\n"),
        ("short", "2\nc\nH 0 0 0\n"),
        ("nan", "1\nc\nH nan inf -Infinity\n"),
        ("underscore", "1_0\nc\n"),
        ("empty", ""),
        ("only-count", "3\n"),
    ]
    for name, text in texts:
        if not text.isascii():
            continue
        ctx.case(f"text:{name}:{len(text)}", True)
        ctx.count("foreign_texts")
        st, r = tl.limited(lambda: ml.Molecule.loads_all_xyz(text))
        impl = [tl.canon_geom(en, x) for x in r] if st == "ok" else "err"
        ask(f"xread 1/1 {tl.hx(text)}",
            lambda resp, impl=impl, name=name: tl.frames_equal(impl, tl.parse_frames_response(resp)) or ctx.disagree(
                f"xyz text {name!r}: real reader and model reader differ", name, tl.short_frames(impl), tl.short_frames(tl.parse_frames_response(resp))))

    outs = ctx.driver([r[0] for r in reqs])
    for (line, cb), resp in zip(reqs, outs):
        cb(resp)
    ctx.extra_cov["driver_requests"] = len(reqs)
    ctx.extra_cov["units"] = [u[0] for u in unit_tab]


def _unit_oracle(ctx, g, back, unit, via, replay, tol):
    """distances are physical: the geometry loaded with source_units=u must be the original one"""
    if len(back) != 1 or len(back[0]["atoms"]) != len(g["atoms"]):
        ctx.violation("C08:atom-count", f"{via}, source_units={unit}: wrong number of frames/atoms read", replay)
        return
    b = back[0]["atoms"]
    for i, (p, q) in enumerate(zip(g["atoms"], b)):
        for k in "xyz":
            if not tl.same_float(p[k], q[k], abs_=tol(p[k])):
                ctx.violation("C08:unit-scaling-wrong",
                              f"{via} reader, source_units={unit}: atom {i} {k}={p[k]!r} Å was written as {unit} and loaded as {q[k]!r} Å", replay)
                return
    n = len(b)
    for i in range(n):
        for j in range(i + 1, n):
            d0 = math.dist([g["atoms"][i][k] for k in "xyz"], [g["atoms"][j][k] for k in "xyz"])
            d1 = math.dist([b[i][k] for k in "xyz"], [b[j][k] for k in "xyz"])
            if abs(d0 - d1) > 4 * tol(d0):
                ctx.violation("C08:unit-scaling-wrong", f"{via} reader, source_units={unit}: distance {d0!r} Å became {d1!r} Å", replay)
                return


def replay(ctx, path):
    import molli as ml

    obj = json.loads(Path(path).read_text())
    print(json.dumps(obj, indent=1)[:3000])
    r = obj.get("replay") or {}
    en = tl.Enums()
    if r.get("kind") == "unit":
        from molli.chem.geometry import DistanceUnit
        val = DistanceUnit[r["unit"]].value
        gu = json.loads(json.dumps(r["geom"]))
        for a in gu["atoms"]:
            for k in "xyz":
                a[k] *= val
        text = build_geom(en, gu).dumps_xyz()
        print(text)
        st, back = tl.limited(lambda: ml.Molecule.loads_all_xyz(text, source_units=r["unit"]))
        print("loaded:", st, [tl.canon_geom(en, x) for x in back] if st == "ok" else repr(back))
    elif "frames" in r:
        objs = [build_geom(en, f) for f in r["frames"]]
        text = "".join(o.dumps_xyz() for o in objs)
        print(text)
        st, back = tl.limited(lambda: ml.Molecule.loads_all_xyz(text))
        print("loaded:", st, [tl.canon_geom(en, x) for x in back] if st == "ok" else repr(back))
    return 0
