"""
C07 — mol2 written by molli reads back as the same molecule; typing tables exhaustive.

Proof:  Molli.Props.C07 (split_join, read_write, read_write_many, read_write_preserves, coordinate_precision,
        text_second_cycle_fixed(_many), every_emitted_type_token_accepted, element_preserved,
        type_token_second_cycle_fixed) + generated obligations Molli.Gen.Mol2Types (all Element x AtomType x AtomGeom states,
        all bond types: every_emitted_token_accepted, element_preserved, second_cycle_fixed, set_model_agrees,
        bond_token_accepted, expressible_bond_type_preserved).
Tie:    (i) typing tables regenerated exhaustively from the live Atom/Bond classes on every run;
        (ii) text differential: generated molecules / structures / ensembles are written by the real
        dumps_mol2 and by the model writer (byte-identical text demanded), and the real text is read by the real
        loads_all_mol2 / ConformerEnsemble.loads_mol2 and by the model reader (identical molecules demanded);
        every bundled .mol2 through both readers; foreign and mutated type tokens through set_mol2_type and the
        model; float()/int()/format() against the numeric layer.
Oracle: model-free double round trip on the implementation: field-by-field comparison object vs read-back
        (1e-6 coordinates, 1e-3 charges), exact text comparison cycle 2 vs cycle 3.
"""
from __future__ import annotations

import json
import math
from pathlib import Path

from harness import common
from harness import textlib as tl

EXPRESSIBLE = ("Single", "Double", "Triple", "Aromatic", "Amide", "Dummy", "NotConnected", "Unknown")


def _admissible_name(nm: str) -> bool:
    return "\n" not in nm and "\r" not in nm and nm == nm.strip()


# --------------------------------------------------------------------------------------------
# oracle: the property itself, on the implementation's behaviour
# --------------------------------------------------------------------------------------------
def oracle_roundtrip(ctx, en, spec: dict, back, what: str, replay: dict, check_charges=True):
    """spec = what was written, back = canonical molecule read back by the real reader"""
    def bad(kind, msg):
        ctx.violation(kind, f"{what}: {msg}", replay)

    if back["name"] != spec["name"]:
        bad("C07:name-changed", f"name {spec['name']!r} read back as {back['name']!r}")
    if len(back["atoms"]) != len(spec["atoms"]):
        bad("C07:atom-count", f"{len(spec['atoms'])} atoms written, {len(back['atoms'])} read")
        return
    for i, (a, b) in enumerate(zip(spec["atoms"], back["atoms"])):
        if a["e"] != b["e"]:
            bad("C07:element-changed", f"atom {i}: element {en.E[a['e']].name} read back as {en.E[b['e']].name}")
        if a["label"] and a["label"] != b["label"]:
            bad("C07:label-changed", f"atom {i}: label {a['label']!r} read back as {b['label']!r}")
        for k in "xyz":
            if not tl.same_float(a[k], b[k], abs_=tl.COORD_TOL):
                bad("C07:coordinate-precision", f"atom {i}: {k}={a[k]!r} read back as {b[k]!r}")
        if check_charges and not tl.same_float(a["c"], b["c"], abs_=tl.CHARGE_TOL):
            bad("C07:charge-precision", f"atom {i}: charge {a['c']!r} read back as {b['c']!r}")
    if len(back["bonds"]) != len(spec["bonds"]):
        bad("C07:bond-count", f"{len(spec['bonds'])} bonds written, {len(back['bonds'])} read")
        return
    for i, (p, q) in enumerate(zip(spec["bonds"], back["bonds"])):
        if (p[0], p[1]) != (q[0], q[1]):
            bad("C07:bond-endpoints", f"bond {i}: endpoints {p[:2]} read back as {q[:2]}")
        if en.B[p[2]].name in EXPRESSIBLE and p[2] != q[2]:
            bad("C07:bond-type-changed", f"bond {i}: {en.B[p[2]].name} read back as {en.B[q[2]].name}")


def three_cycles(ctx, en, cls, text1: str, what: str, replay: dict):
    """t1 -> read -> t2 -> read -> t3 ; the property claims t3 == t2 and that nothing is rejected"""
    st, r1 = tl.limited(lambda: cls.loads_all_mol2(text1))
    if st != "ok":
        ctx.violation("C07:own-output-rejected", f"{what}: molli's own mol2 text was not accepted by its reader ({st}: {r1!r})", replay)
        return None
    st, t2 = tl.limited(lambda: "".join(m.dumps_mol2() for m in r1))
    if st != "ok":
        ctx.violation("C07:own-output-rejected", f"{what}: read-back molecule could not be written again ({t2!r})", replay)
        return r1
    st, r2 = tl.limited(lambda: cls.loads_all_mol2(t2))
    if st != "ok":
        ctx.violation("C07:own-output-rejected", f"{what}: second-cycle text rejected ({r2!r})", replay)
        return r1
    st, t3 = tl.limited(lambda: "".join(m.dumps_mol2() for m in r2))
    if st != "ok" or t3 != t2:
        ctx.violation("C07:second-cycle-not-fixed", f"{what}: text of cycle 3 differs from text of cycle 2", replay)
    ctx.count("first_cycle_changed_text" if t2 != text1 else "first_cycle_kept_text")
    return r1


# --------------------------------------------------------------------------------------------
def run(ctx):
    import molli as ml
    from molli.chem import Atom

    en = tl.Enums()
    ctx.rule = ("molecules over ALL elements x atom types x geometries x bond types (0..40 atoms; labels from a "
                "whitespace-free ASCII alphabet incl. '#', '@', '****', over-long; names incl. empty, '@<TRIPOS>…'-like, "
                "'#'-like; coordinates from a boundary set: ±0, ties at the 7th decimal, 1e-7, ±1e7, 1e15, NaN, ±inf; "
                "charges with ties at the 4th decimal; MULTIGRAPHS: 2..3 parallel bonds on one atom pair with equal and "
                "different types in both orientations, occasional self-bonds; repeated labels), written as Molecule, as Structure, as ConformerEnsemble, as Substructure "
                "views of non-leading atom subsets, and as molecules whose atoms' parent link was taken over by another object or is dead. "
                "A case = one object (write differential + read differential + 3-cycle oracle), one bundled file, "
                "or one type/number token. Non-trivial: ≥1 atom and (≥1 bond or a non-Regular atom type); "
                "distinct by canonical hash.")
    ctx.assumptions += [
        "A-dec: format(x,'.6f') is the exact value of the double rounded half-even at 6 decimals and float(s) is the nearest double (validated on every written/read token of the run)",
        "ASCII: str.split/strip are modelled for ASCII whitespace (incl. \\x1c-\\x1f); the generator keeps to ASCII",
        "domain: labels whitespace-free, names one line without leading/trailing whitespace (the property's quantifier)",
    ]
    ctx.proof(props=["Molli.Props.C07"], gen=["Mol2Types"])

    quick = ctx.quick()
    rng = ctx.rng
    reqs = []          # (driver line, callback(model_response))

    def ask(line, cb):
        reqs.append((line, cb))

    # ------------------------------------------------------------------ corpus + generated molecules
    specs = [c["spec"] for c in tl.load_corpus("C07") if "spec" in c]
    n_gen = 260 if quick else 12000
    max_atoms = 24 if quick else 60
    for i in range(n_gen):
        specs.append(tl.gen_mol_spec(rng, en, max_atoms, specials=(i % 5 == 0)))

    # ------------------------------------------------------------------ process history: the read of a text is a
    # function of the text alone. BEFORE anything is read in this process, every token of the table (and foreign
    # ones) is applied by "user code" to atoms pre-set to other (element, atom type, geometry) states; then a set of
    # texts is read in two orders and compared with the same texts read in a FRESH process (and, like every read of
    # this run, with the stateless model reader).
    from harness.gen import Mol2Types as G0
    obs0 = G0.observe()
    vocab0 = sorted(set(obs0["emit"].values()))
    states = [(e, t, g) for e in (en.ei[en.Element.C], en.ei[en.Element.N], en.ei[en.Element.S], en.ei[en.Element.Unknown], en.ei[en.Element.Fe])
              for t in range(len(en.T)) for g in range(len(en.G))]
    per_token = 3 if quick else 40
    extra_toks = ["C.x", "c.3", "Du", "Du.3", "N.am", "S.O", "O.co2", "C.cat", "Xx", "C.", "Unknown"]
    history_calls = []
    for tok in vocab0 + extra_toks:
        for k in range(per_token):
            e0, t0, g0 = rng.choice(states) if k else (rng.choice(states)[0], en.ti[en.AtomType.Aromatic], en.gi[en.AtomGeom.R3_Planar])
            a = Atom(en.E[e0], atype=en.T[t0], geom=en.G[g0])
            history_calls.append([tok, e0, t0, g0])
            try:
                a.set_mol2_type(tok)
                impl = f"ok {en.ei[en.Element(a.element)]},{en.ti[en.AtomType(a.atype)]},{en.gi[en.AtomGeom(a.geom)]}"
            except Exception:  # noqa: BLE001
                impl = "err"
            ctx.case(f"pretyped:{e0},{t0},{g0}:{tok}", True)
            ctx.count("set_mol2_type_on_pretyped_atom")
            ask(f"settypefrom {e0},{t0},{g0} {tl.hx(tok)}",
                lambda resp, impl=impl, tok=tok, s0=(e0, t0, g0): (resp == impl or (impl == "err" and resp.startswith("err"))) or ctx.disagree(
                    "Atom(e, atype, geom).set_mol2_type(token) differs from the model", [s0, tok], impl, resp))
    hist_specs = [c["spec"] for c in tl.load_corpus("C07") if "spec" in c][:3]
    hrng = rng.fork("history")
    hist_specs += [tl.gen_mol_spec(hrng, en, 8, specials=False, name="hist%d" % i) for i in range(12 if quick else 60)]
    hist_texts = []
    for hs in hist_specs:
        try:
            hist_texts.append(tl.build_molecule(en, hs, ml.Molecule).dumps_mol2())
        except Exception:  # noqa: BLE001
            pass
    # every token of the table as a text of its own (one atom per token, 40 tokens per text)
    for i in range(0, len(vocab0), 40):
        chunk = vocab0[i: i + 40]
        hist_texts.append("@<TRIPOS>MOLECULE\ntokens\n%d 0\nSMALL\nNO_CHARGES\n\n@<TRIPOS>ATOM\n" % len(chunk) +
                          "".join(f"{j + 1} X{j} 0.0 0.0 {j}.0 {t}\n" for j, t in enumerate(chunk)) + "@<TRIPOS>BOND\n")
    for fp in tl.bundled_files(common.REPO, ".mol2"):
        if fp.stat().st_size < 6000 and fp.read_text().isascii():
            hist_texts.append(fp.read_text())

    def read_here(t):
        st, r = tl.limited(lambda: ml.Molecule.loads_all_mol2(t))
        return [tl.canon_mol(en, x) for x in r] if st == "ok" else "err"

    order_a = [read_here(t) for t in hist_texts]
    perm = hrng.shuffle(list(range(len(hist_texts))))

    def child_read(tag, job):
        fin, fout = ctx.scratch / f"{tag}_in.json", ctx.scratch / f"{tag}_out.json"
        fin.write_text(json.dumps(job))
        child = common.run_child([common.repo_python(), str(Path(__file__).with_name("fresh_read.py")), str(common.VERIF),
                                  str(common.REPO), str(fin), str(fout)], timeout=300)
        if child is None or child.returncode != 0 or not fout.exists():
            ctx.disagree("the separate-process reader could not be run", tag, (child.stderr[-400:] if child else "timeout"), "ok")
            return None
        return json.loads(fout.read_text())["results"]

    # three separate processes: nothing before the reads / the pre-typed calls first / another reading order
    fresh = child_read("fresh", {"texts": hist_texts})
    after_calls = child_read("after_calls", {"texts": hist_texts, "history": history_calls})
    reordered = child_read("reordered", {"texts": hist_texts, "order": perm})
    if fresh is not None:
        for i, t in enumerate(hist_texts):
            ctx.case("history:" + t, True)
            ctx.count("texts_read_after_history_and_in_a_fresh_process")
            for what, res in (("in a process where user code had applied every type token to pre-typed atoms before", after_calls),
                              ("in another reading order", reordered), ("in the check's own process", order_a)):
                if res is None:
                    continue
                got = res[i]
                if not tl.mols_equal(got, fresh[i]):
                    ctx.violation("C07:read-depends-on-history",
                                  f"the same mol2 text read {what} and read first thing in a fresh process gives different molecules "
                                  f"(atom (type, geometry) indices {[(a['t'], a['g']) for a in got[0]['atoms'][:6]] if got != 'err' and got else got} vs "
                                  f"{[(a['t'], a['g']) for a in fresh[i][0]['atoms'][:6]] if fresh[i] != 'err' and fresh[i] else fresh[i]})",
                                  {"kind": "history", "text": t,
                                   "history": "Atom(e, atype, geom).set_mol2_type(tok) for every token of the table on pre-typed atoms, then reads"})
                    break
            ask(f"read molecule ~ 1/1 {tl.hx(t)}",
                lambda resp, got=order_a[i], t=t: tl.mols_equal(got, tl.parse_read_response(resp)) or ctx.disagree(
                    "a text read after the history phase differs from the model reader", t, tl.short_mols(got), tl.short_mols(tl.parse_read_response(resp))))

    def check_written(obj, cls, kind_word, what, replay, with_charges):
        """obj.dumps_mol2() against the model writer fed with the canonical form of `obj` itself, and the round trip
        oracle: the written bond table is the object's bond list (indices relative to the object written)"""
        ctx.count(f"writer:{what.split(':')[0]}")
        try:
            want = tl.canon_mol(en, obj, with_charges=with_charges)
        except Exception as e:  # noqa: BLE001
            ctx.disagree("could not take the canonical form of the object to be written", what, repr(e), "ok")
            return
        ctx.case({"writer": what, "mol": want}, len(want["bonds"]) >= 1)
        st, text = tl.limited(obj.dumps_mol2)
        if st != "ok":
            ctx.violation("C07:dumps-mol2-raises", f"{what}: dumps_mol2 raised {type(text).__name__}: {text}", replay)
            return
        ask(f"write {kind_word} {tl.mol_request(want)}",
            lambda resp, text=text, what=what, want=want: (resp == "ok " + tl.hx(text)) or ctx.disagree(
                f"{what}: dumps_mol2 text differs from the model writer applied to the object written", want, text,
                tl.unhx(resp[3:]) if resp.startswith("ok ") else resp))
        st, back = tl.limited(lambda: cls.loads_all_mol2(text))
        if st != "ok" or len(back) != 1:
            ctx.violation("C07:own-output-rejected", f"{what}: the written text is not read back as one molecule ({back!r})", replay)
            return
        oracle_roundtrip(ctx, en, want, tl.canon_mol(en, back[0], with_charges=with_charges), what, replay,
                         check_charges=with_charges)

    def alt_writers(spec):
        n = len(spec["atoms"])
        # (a) Substructure views: a non-leading subset of the atoms (random order), written by Structure.dump_mol2
        for cls in (ml.Molecule, ml.Structure):
            parent = tl.build_molecule(en, spec, cls)
            ksub = rng.range(1, n - 1) if n > 2 else 1
            idx = rng.shuffle(list(range(n)))[:ksub]
            if idx == list(range(ksub)):
                idx = [i + (n - ksub) for i in idx] if n - ksub > 0 else idx[::-1]
            try:
                sub = parent.substructure(idx)
            except Exception as e:  # noqa: BLE001
                ctx.disagree("could not build a substructure", idx, repr(e), "ok")
                continue
            check_written(sub, ml.Structure, "structure", f"Substructure of {cls.__name__}: atoms {idx}",
                          {"kind": "substructure", "spec": spec, "atoms": idx, "parent": cls.__name__}, False)
            # the parent itself must not have been disturbed by the view
            check_written(parent, cls, "molecule" if cls is ml.Molecule else "structure",
                          f"parent after substructure: {cls.__name__}", {"kind": cls.__name__.lower(), "spec": spec},
                          cls is ml.Molecule)
        # (b) the atoms' back-reference was taken over by another (live) object built from the same atoms, uncopied
        k0 = rng.range(1, n - 1)
        m = tl.build_molecule(en, spec, ml.Molecule)
        thief = ml.Promolecule(m.atoms[k0:])
        check_written(m, ml.Molecule, "molecule", f"parent link stolen: Promolecule(m.atoms[{k0}:]) alive",
                      {"kind": "stolen-parent", "spec": spec, "from": k0}, True)
        del thief
        # (c) ... or is dead: the other owner was short-lived
        m = tl.build_molecule(en, spec, ml.Molecule)
        ml.Promolecule(m.atoms[k0:]).formula
        ml.Structure(m.atoms[:k0])      # both owners are gone at once (reference counting): the weak parent link is dead
        check_written(m, ml.Molecule, "molecule", f"parent link dead: Promolecule(m.atoms[{k0}:]).formula",
                      {"kind": "dead-parent", "spec": spec, "from": k0}, True)

    def edit_history(spec, cls):
        """write – edit – write on ONE object: every written text is the model writer's text for the object's CURRENT
        state (atom positions of the bond endpoints as they are now)"""
        from molli.chem import Bond

        m = tl.build_molecule(en, spec, cls)
        kw = "molecule" if cls is ml.Molecule else "structure"
        done = []
        plan = ["write"] + [rng.choice(["del+add", "del+add", "add", "del", "add-bond", "del-bond", "del+add+bond"])
                            for _ in range(rng.range(1, 3))] + ["write", "del+add", "write"]
        for op in plan:
            done.append(op)
            n = m.n_atoms
            try:
                if op == "write":
                    check_written(m, cls, kw, f"{cls.__name__} after edits: {'; '.join(done)}",
                                  {"kind": "edit-history", "class": cls.__name__, "spec": spec, "ops": list(done)}, cls is ml.Molecule)
                    continue
                new_atom = lambda: Atom(en.E[rng.choice([6, 7, 8, 17])], label=tl.gen_label(rng) or None)
                xyz = [tl.gen_coord(rng, False) for _ in range(3)]
                if op.startswith("del+add") and n >= 1:
                    m.del_atom(rng.below(n))
                    a = new_atom()
                    m.add_atom(a, xyz, tl.gen_charge(rng, False)) if cls is ml.Molecule else m.add_atom(a, xyz)
                    if op.endswith("bond") and m.n_atoms >= 2:
                        m.append_bond(Bond(a, m.atoms[rng.below(m.n_atoms - 1)], btype=en.B[rng.below(len(en.B))]))
                elif op == "add":
                    a = new_atom()
                    m.add_atom(a, xyz, tl.gen_charge(rng, False)) if cls is ml.Molecule else m.add_atom(a, xyz)
                elif op == "del" and n >= 2:
                    m.del_atom(rng.below(n))
                elif op == "add-bond" and n >= 2:
                    i, j = rng.below(n), rng.below(n)
                    if i != j:
                        m.append_bond(Bond(m.atoms[i], m.atoms[j], btype=en.B[rng.below(len(en.B))]))
                elif op == "del-bond" and m.n_bonds >= 1:
                    m.del_bond(m.bonds[rng.below(m.n_bonds)])
            except Exception as e:  # noqa: BLE001
                ctx.disagree("an edit through the public API raised", {"ops": done, "spec": spec}, repr(e), "ok")
                return

    def growth_history(base):
        """write – grow – write on ONE ensemble (append / extend in both forms, before and after a first dump or
        iteration): every mol2 text holds every conformer the ensemble has at that moment, in order"""
        def make_conf():
            s = json.loads(json.dumps(base))
            for a in s["atoms"]:
                a["x"], a["y"], a["z"] = tl.gen_coord(rng, False), tl.gen_coord(rng, False), tl.gen_coord(rng, False)
                a["c"] = tl.gen_charge(rng, False)
            return tl.build_molecule(en, s, ml.Molecule)

        def dump(ens, steps):
            want = tl.canon_ensemble(en, ens)
            ctx.case({"growth": steps, "n": len(want), "base": base["name"]}, True)
            ctx.count("ensemble_growth_dumps")
            replay = {"kind": "growth-history", "base": base, "steps": steps}
            st, text = tl.limited(ens.dumps_mol2)
            if st != "ok":
                ctx.violation("C07:dumps-mol2-raises", f"ensemble after {steps}: dumps_mol2 raised {text!r}", replay)
                return
            n_written = sum(1 for l in text.split("\n") if l == "@<TRIPOS>MOLECULE")
            if n_written != len(want):
                ctx.violation("C07:conformer-count", f"ensemble after {'; '.join(steps)}: {len(want)} conformers "
                              f"(n_conformers={ens.n_conformers}), {n_written} written", replay)
            ask("write molecule " + "#".join(tl.mol_request(w) for w in want),
                lambda resp, text=text, steps=steps: (resp == "ok " + tl.hx(text)) or ctx.disagree(
                    "ensemble dumps_mol2 after a growth history differs from the model writer on its current arrays", steps, text[:600],
                    (tl.unhx(resp[3:]) if resp.startswith("ok ") else resp)[:600]))

        try:
            tl.grow_ensemble(rng, en, ml, base, make_conf, dump, rng.range(0, 3))
        except Exception as e:  # noqa: BLE001
            ctx.disagree("growing an ensemble through the public API raised", base["name"], repr(e), "ok")

    # ------------------------------------------------------------------ large texts: just below / above 1 MiB and several
    # MiB (one molecule of 14 000+ atoms; an ensemble of hundreds of conformers), read as string, stream and path.
    # The model reader gets the SAME text in one piece (the driver reads a 3.5 MB text in about 2 s).
    def large_case(tag, target_chars, n_conf):
        lr = rng.fork("large:" + tag)
        per_atom = 76
        if n_conf == 1:
            n_at = max(2, target_chars // per_atom)
        else:
            n_at = 30
            n_conf = max(2, target_chars // ((n_at + 12) * per_atom // 1 + 300) + 1)
        elems = [en.ei[en.Element[x]] for x in ("C", "N", "O", "H", "Cl", "Unknown")]
        base_atoms = [{"e": lr.choice(elems), "t": lr.below(len(en.T)), "g": lr.below(len(en.G)),
                       "label": tl.gen_label(lr) if lr.chance(1, 3) else f"A{i}"} for i in range(n_at)]
        bonds = [(i, i + 1, lr.below(len(en.B))) for i in range(min(n_at - 1, 25))] + \
                [(lr.below(n_at), lr.below(n_at), lr.below(len(en.B))) for _ in range(40)]
        bonds = [b for b in bonds if b[0] != b[1]]
        confs = []
        for c in range(n_conf):
            atoms = [dict(a, x=tl.gen_coord(lr, False), y=tl.gen_coord(lr, False), z=tl.gen_coord(lr, False),
                          c=tl.gen_charge(lr, False)) for a in base_atoms]
            confs.append({"name": "large " + tag, "atoms": atoms, "bonds": bonds})
        replay = {"kind": "large-text", "tag": tag, "n_atoms": n_at, "n_conformers": n_conf, "seed_fork": "large:" + tag}
        mols = [tl.build_molecule(en, sp, ml.Molecule) for sp in confs]
        obj = mols[0] if n_conf == 1 else ml.ConformerEnsemble(mols)
        st, text = tl.limited(obj.dumps_mol2, 120)
        if st != "ok":
            ctx.violation("C07:dumps-mol2-raises", f"large text {tag}: dumps_mol2 raised {text!r}", replay)
            return
        ctx.case(f"large:{tag}:{len(text)}", True)
        ctx.count(f"large_text:{'<' if len(text) < (1 << 20) else '>='}1MiB")
        ctx.extra_cov.setdefault("large_texts", []).append({"tag": tag, "chars": len(text), "atoms": n_at, "conformers": n_conf})
        ask("write molecule " + "#".join(tl.mol_request(sp) for sp in confs),
            lambda resp, text=text, tag=tag: (resp == "ok " + tl.hx(text)) or ctx.disagree(
                f"large text {tag}: dumps_mol2 differs from the model writer", tag, text[:300], resp[:300]))
        path = ctx.scratch / f"large_{tag}.mol2"
        path.write_text(text)

        def via_stream():
            with open(path, "rt") as f:
                return ml.Molecule.load_all_mol2(f)

        readers = [("string", lambda: ml.Molecule.loads_all_mol2(text)), ("stream", via_stream),
                   ("str path", lambda: ml.Molecule.load_all_mol2(str(path))), ("Path", lambda: ml.Molecule.load_all_mol2(path))]
        if n_conf > 1:
            readers.append(("ConformerEnsemble.load_mol2(path)", lambda: ml.ConformerEnsemble.load_mol2(str(path))))
        results = []
        for how, fn in readers:
            ctx.count("large_text_reads")
            st, r = tl.limited(fn, 120)
            if st != "ok":
                ctx.violation("C07:own-output-rejected", f"large text {tag} ({len(text)} characters) read through {how}: "
                              f"molli's own mol2 text was not accepted ({type(r).__name__}: {str(r)[:120]})", replay)
                continue
            got = tl.canon_ensemble(en, r) if isinstance(r, ml.ConformerEnsemble) else [tl.canon_mol(en, x) for x in r]
            if len(got) != n_conf:
                ctx.violation("C07:conformer-count", f"large text {tag} through {how}: {n_conf} molecules written, {len(got)} read", replay)
                continue
            for sp, g in zip(confs, got):
                oracle_roundtrip(ctx, en, sp, g, f"large text {tag} through {how}", replay)
            results.append((how, got))
        ask(f"read molecule ~ 1/1 {tl.hx(text)}",
            lambda resp, results=results, tag=tag: [
                tl.mols_equal(got, tl.parse_read_response(resp), extras=False) or ctx.disagree(
                    f"large text {tag} read through {how} differs from the model reader on the same text", tag,
                    tl.short_mols(got[:1]), resp[:200]) for how, got in results])

    large_plan = [("above-1MiB", (1 << 20) + 40_000, 1)] if quick else \
        [("below-1MiB", (1 << 20) - 60_000, 1), ("above-1MiB", (1 << 20) + 40_000, 1), ("3MiB", 3 * (1 << 20) + 200_000, 1),
         ("ensemble-2MiB", 2 * (1 << 20) + 100_000, 2)]
    for tag, chars, nc in large_plan:
        ctx.check_deadline()
        large_case(tag, chars, nc)

    for i in range(25 if quick else 400):
        ctx.check_deadline()
        gb = tl.gen_mol_spec(rng, en, 6, specials=False, name=rng.choice(["grow", "g 2"]))
        if gb["atoms"]:
            growth_history(gb)

    for si, spec in enumerate(specs):
        ctx.check_deadline()
        if not _admissible_name(spec["name"]):
            continue
        if si % 3 == 2 and (quick or si < 3000):
            edit_history(spec, ml.Molecule if si % 2 else ml.Structure)
        nontrivial = len(spec["atoms"]) >= 1 and (len(spec["bonds"]) >= 1 or any(en.T[a["t"]].name != "Regular" for a in spec["atoms"]))
        ctx.case({"mol": spec}, nontrivial)
        ctx.count(f"atoms={min(len(spec['atoms']), 9)}{'+' if len(spec['atoms']) > 9 else ''}")
        replay = {"kind": "molecule", "spec": spec}
        # ---- Molecule
        try:
            m = tl.build_molecule(en, spec, ml.Molecule)
        except Exception as e:  # noqa: BLE001
            ctx.disagree("could not build the molecule through the public API", spec, repr(e), "ok")
            continue
        st, t1 = tl.limited(m.dumps_mol2)
        if st != "ok":
            ctx.violation("C07:dumps-mol2-raises", f"Molecule.dumps_mol2 failed: {t1!r}", replay)
            continue
        ask(f"write molecule {tl.mol_request(spec)}",
            lambda resp, t1=t1, spec=spec: (resp == "ok " + tl.hx(t1)) or ctx.disagree(
                "Molecule.dumps_mol2 text differs from the model writer", spec, t1, tl.unhx(resp[3:]) if resp.startswith("ok ") else resp))
        r1 = three_cycles(ctx, en, ml.Molecule, t1, "Molecule", replay)
        if r1 is not None:
            c1 = [tl.canon_mol(en, x) for x in r1]
            # hidden state across reads in one process: the same text read again gives the same molecules
            st, r1b = tl.limited(lambda: ml.Molecule.loads_all_mol2(t1))
            if st != "ok" or not tl.mols_equal(c1, [tl.canon_mol(en, x) for x in r1b]):
                ctx.violation("C07:read-depends-on-history", "the same mol2 text read twice in one process gives different molecules", replay)
            if len(c1) != 1:
                ctx.violation("C07:molecule-count", f"one molecule written, {len(c1)} read", replay)
            else:
                oracle_roundtrip(ctx, en, spec, c1[0], "Molecule", replay)
            ask(f"read molecule ~ 1/1 {tl.hx(t1)}",
                lambda resp, c1=c1, t1=t1: tl.mols_equal(c1, tl.parse_read_response(resp)) or ctx.disagree(
                    "Molecule.loads_all_mol2 differs from the model reader", t1, tl.short_mols(c1), tl.short_mols(tl.parse_read_response(resp))))
        else:
            ask(f"read molecule ~ 1/1 {tl.hx(t1)}",
                lambda resp, t1=t1: resp.startswith("err") or ctx.disagree(
                    "model reader accepts a text the real reader rejects", t1, "err", resp[:300]))
        if si < 2:
            ctx.sample({"molecule": {"name": spec["name"], "n_atoms": len(spec["atoms"]), "n_bonds": len(spec["bonds"])},
                        "text_head": t1[:400]})
        # ---- other writers of the same atoms (every 2nd molecule with >= 2 atoms): what is written must be the object
        #      being written — bond endpoints relative to ITS atom list — whoever the atoms' `parent` currently is
        if si % 2 == 1 and len(spec["atoms"]) >= 2 and (quick or si < 3000):
            alt_writers(spec)
        # ---- Structure (every 3rd)
        if si % 3 == 0:
            ctx.count("structures")
            sreplay = {"kind": "structure", "spec": spec}
            try:
                s = tl.build_molecule(en, spec, ml.Structure)
            except Exception as e:  # noqa: BLE001
                ctx.disagree("could not build the Structure through the public API", spec, repr(e), "ok")
                continue
            st, ts = tl.limited(s.dumps_mol2)
            if st != "ok":
                ctx.violation("C07:structure-dumps-mol2-raises",
                              f"Structure.dumps_mol2() raises {type(ts).__name__}: {ts}", sreplay)
            else:
                ask(f"write structure {tl.mol_request(spec)}",
                    lambda resp, ts=ts, spec=spec: (resp == "ok " + tl.hx(ts)) or ctx.disagree(
                        "Structure.dumps_mol2 text differs from the model writer", spec, ts, tl.unhx(resp[3:]) if resp.startswith("ok ") else resp))
                rs = three_cycles(ctx, en, ml.Structure, ts, "Structure", sreplay)
                if rs is not None:
                    cs = [tl.canon_mol(en, x, with_charges=False) for x in rs]
                    if len(cs) == 1:
                        oracle_roundtrip(ctx, en, spec, cs[0], "Structure", sreplay, check_charges=False)
                    ask(f"read structure ~ 1/1 {tl.hx(ts)}",
                        lambda resp, cs=cs, ts=ts: tl.mols_equal(cs, tl.parse_read_response(resp)) or ctx.disagree(
                            "Structure.loads_all_mol2 differs from the model reader", ts, tl.short_mols(cs), tl.short_mols(tl.parse_read_response(resp))))

    # ------------------------------------------------------------------ several molecules with DIFFERENT names in one text /
    # stream / file, written one after another by molli's writers and read in one go by every multi-molecule entry
    # point of every class: block k comes back with ITS name (and atoms, bonds) — nothing carries over between blocks
    def multi_case(mspecs):
        text = "".join(tl.build_molecule(en, sp, ml.Molecule).dumps_mol2() for sp in mspecs)
        ctx.case({"multi": mspecs}, True)
        ctx.count(f"multi_molecule_texts={len(mspecs)}")
        replay = {"kind": "multi-molecule-text", "specs": mspecs}
        path = ctx.scratch / "multi.mol2"
        path.write_text(text)
        from io import StringIO

        def stream_of(fn):
            def run_():
                with open(path, "rt") as f:
                    return fn(f)
            return run_

        readers = []
        for cname, cls in (("Molecule", ml.Molecule), ("Structure", ml.Structure)):
            readers += [(f"{cname}.loads_all_mol2(string)", cls, lambda cls=cls: cls.loads_all_mol2(text)),
                        (f"{cname}.load_all_mol2(str path)", cls, lambda cls=cls: cls.load_all_mol2(str(path))),
                        (f"{cname}.load_all_mol2(Path)", cls, lambda cls=cls: cls.load_all_mol2(path)),
                        (f"{cname}.load_all_mol2(stream)", cls, stream_of(cls.load_all_mol2)),
                        (f"list({cname}.yield_from_mol2(string))", cls, lambda cls=cls: list(cls.yield_from_mol2(text))),
                        (f"list({cname}.yield_from_mol2(StringIO))", cls, lambda cls=cls: list(cls.yield_from_mol2(StringIO(text))))]
        results = []
        for how, cls, fn in readers:
            ctx.count("multi_molecule_reads")
            wc = cls is ml.Molecule
            st, r = tl.limited(fn)
            if st != "ok":
                ctx.violation("C07:own-output-rejected", f"{how}: a text of {len(mspecs)} molecules written by molli was rejected ({r!r})", replay)
                continue
            got = [tl.canon_mol(en, x, with_charges=wc) for x in r]
            if len(got) != len(mspecs):
                ctx.violation("C07:molecule-count", f"{how}: {len(mspecs)} molecules written, {len(got)} read", replay)
                continue
            for bi, (sp, g) in enumerate(zip(mspecs, got)):
                oracle_roundtrip(ctx, en, sp, g, f"{how}, block {bi}", replay, check_charges=wc)
            results.append((how, got, wc))
        for kindw in ("molecule", "structure"):
            sel = [(how, got) for how, got, wc in results if wc == (kindw == "molecule")]
            ask(f"read {kindw} ~ 1/1 {tl.hx(text)}",
                lambda resp, sel=sel: [tl.mols_equal(got, tl.parse_read_response(resp)) or ctx.disagree(
                    f"{how} differs from the model reader on a multi-molecule text", [sp["name"] for sp in mspecs],
                    [m["name"] for m in got], resp[:200]) for how, got in sel])

    name_pool = [n for n in tl.NAMES if _admissible_name(n)] + ["alpha", "beta 2", "Gamma_3", "m-4"]
    for i in range(20 if quick else 300):
        ctx.check_deadline()
        k = rng.range(2, 4)
        names = rng.shuffle(list(name_pool))[:k]
        multi_case([tl.gen_mol_spec(rng, en, 5, specials=False, name=nm) for nm in names])

    # ------------------------------------------------------------------ ensembles: conformer count and order
    n_ens = 40 if quick else 1500
    for i in range(n_ens):
        ctx.check_deadline()
        base = tl.gen_mol_spec(rng, en, 10, specials=False, name=rng.choice(["ens", "pentane", "a b", "x_1"]))
        if not base["atoms"]:
            continue
        k = rng.range(1, 5)
        confs = []
        for c in range(k):
            s = json.loads(json.dumps(base))
            for a in s["atoms"]:
                a["x"], a["y"], a["z"] = tl.gen_coord(rng, False), tl.gen_coord(rng, False), tl.gen_coord(rng, False)
                a["c"] = tl.gen_charge(rng, False)
            confs.append(s)
        ctx.case({"ens": confs}, True)
        ctx.count(f"conformers={k}")
        replay = {"kind": "ensemble", "confs": confs}
        try:
            mols = [tl.build_molecule(en, s, ml.Molecule) for s in confs]
            ens = ml.ConformerEnsemble(mols)
            replay["weights"] = tl.set_weights(rng, ens)     # conformer k of the text is conformer k of the object, whatever the weights
            ctx.count("ensemble_" + replay["weights"].split("=")[0])
        except Exception as e:  # noqa: BLE001
            ctx.disagree("could not build the ensemble through the public API", base, repr(e), "ok")
            continue
        st, te = tl.limited(ens.dumps_mol2)
        if st != "ok":
            ctx.violation("C07:dumps-mol2-raises", f"ConformerEnsemble.dumps_mol2 failed: {te!r}", replay)
            continue
        ask("write molecule " + "#".join(tl.mol_request(s) for s in confs),
            lambda resp, te=te, confs=confs: (resp == "ok " + tl.hx(te)) or ctx.disagree(
                "ConformerEnsemble.dumps_mol2 text differs from the model writer", confs[0], te, tl.unhx(resp[3:]) if resp.startswith("ok ") else resp))
        # two dumps of the same ensemble that overlap in time (the stream's first write() starts a second dump):
        # each text must still be the whole ensemble — conformer count and order of what was written
        st, pair = tl.limited(lambda: tl.reentrant_dump(ens, "mol2"))
        ctx.count("overlapping_dumps")
        if st != "ok":
            ctx.violation("C07:overlapping-dumps-differ", f"overlapping dump_mol2 calls on one ensemble raised {pair!r}", replay)
        elif pair[0] != te or pair[1] != te:
            which = "outer" if pair[0] != te else "inner"
            n_out = (pair[0] if which == "outer" else pair[1]).count("@<TRIPOS>MOLECULE")
            ctx.violation("C07:overlapping-dumps-differ",
                          f"two overlapping mol2 dumps of one ensemble: the {which} text has {n_out} of {k} conformers "
                          "(the dumps share iteration state)", replay)
        st, back = tl.limited(lambda: ml.ConformerEnsemble.loads_mol2(te))
        if st != "ok":
            ctx.violation("C07:own-output-rejected", f"ConformerEnsemble.loads_mol2 rejects the ensemble's own text: {back!r}", replay)
            continue
        if back.n_conformers != k:
            ctx.violation("C07:conformer-count", f"{k} conformers written, {back.n_conformers} read", replay)
            continue
        cb = [tl.canon_mol(en, back[j]) for j in range(k)]
        for j in range(k):
            oracle_roundtrip(ctx, en, confs[j], cb[j], f"conformer {j}", replay)
        ask(f"read molecule ~ 1/1 {tl.hx(te)}",
            lambda resp, cb=cb, te=te: tl.mols_equal(cb, tl.parse_read_response(resp)) or ctx.disagree(
                "ConformerEnsemble.loads_mol2 differs from the model reader", te, tl.short_mols(cb), tl.short_mols(tl.parse_read_response(resp))))
        st, te2 = tl.limited(back.dumps_mol2)
        st2, back2 = tl.limited(lambda: ml.ConformerEnsemble.loads_mol2(te2)) if st == "ok" else ("err", None)
        st3, te3 = tl.limited(back2.dumps_mol2) if st2 == "ok" else ("err", None)
        if st3 != "ok" or te3 != te2:
            ctx.violation("C07:second-cycle-not-fixed", "ensemble: text of cycle 3 differs from text of cycle 2", replay)

    # ------------------------------------------------------------------ bundled files (foreign writers)
    for p in tl.bundled_files(common.REPO, ".mol2"):
        if quick and p.stat().st_size > 100_000:
            continue
        text = p.read_text()
        if not text.isascii():
            ctx.count("bundled_non_ascii_skipped")
            continue
        ctx.case(f"file:{p.name}:{len(text)}", True)
        ctx.count("bundled_files")
        st, r = tl.limited(lambda: ml.Molecule.loads_all_mol2(text), 60)
        impl = [tl.canon_mol(en, x) for x in r] if st == "ok" else "err"
        ask(f"read molecule ~ 1/1 {tl.hx(text)}",
            lambda resp, impl=impl, name=p.name: tl.mols_equal(impl, tl.parse_read_response(resp)) or ctx.disagree(
                f"bundled file {name}: real reader and model reader differ", name, tl.short_mols(impl), tl.short_mols(tl.parse_read_response(resp))))
        if st == "ok":
            # molli's own rendering of a foreign file must be a fixed point from the second cycle on
            t1 = "".join(m.dumps_mol2() for m in r)
            three_cycles(ctx, en, ml.Molecule, t1, f"bundled {p.name}", {"kind": "file", "file": p.name})

    # ------------------------------------------------------------------ type tokens: set_mol2_type vs the hand-written model
    from harness.gen import Mol2Types as G
    obs = G.observe()
    vocab = sorted(set(obs["emit"].values()))
    toks = set(rng.choice(vocab) for _ in range(60 if quick else 400))
    sufs = ["1", "2", "3", "4", "ar", "am", "cat", "pl3", "co2", "O", "O2", "oh", "th", "x", "", "3x", "AR", "C", "Du"]
    heads = ["C", "N", "O", "S", "c", "n", "cl", "CL", "Cl", "Du", "du", "DU", "Xx", "Unknown", "unknown", "", "H", "Fe", "fE"]
    for _ in range(150 if quick else 1500):
        h, s = rng.choice(heads), rng.choice(sufs)
        toks.add(rng.choice([h, f"{h}.{s}", f"{h}.{s}.{rng.choice(sufs)}", f"Du.{h}"]))
    for tok in sorted(toks):
        if not tok.isascii() or any(c.isspace() for c in tok):
            continue
        ctx.case(f"tok:{tok}", tok not in vocab)
        ctx.count("type_tokens")
        a = Atom()
        try:
            a.set_mol2_type(tok)
            impl = f"ok {en.ei[en.Element(a.element)]},{en.ti[en.AtomType(a.atype)]},{en.gi[en.AtomGeom(a.geom)]}"
        except Exception:  # noqa: BLE001
            impl = "err"
        ask(f"settype {tl.hx(tok)}",
            lambda resp, impl=impl, tok=tok: (resp == impl or (impl == "err" and resp.startswith("err"))) or ctx.disagree(
                "Atom.set_mol2_type differs from the model", tok, impl, resp))

    # ------------------------------------------------------------------ numeric layer: format / float / int
    vals = list(tl.BOUNDARY_COORDS) + list(tl.BOUNDARY_CHARGES) + [tl.gen_coord(rng, False) for _ in range(100 if quick else 2000)]
    for v in vals:
        for d in (6, 3):
            ctx.case(f"fmt:{d}:{v!r}", True)
            ctx.count("format_tokens")
            ask(f"fmt {d} {tl.num_token(v)}",
                lambda resp, v=v, d=d: (resp == "ok " + tl.hx(format(v, f'.{d}f'))) or ctx.disagree(
                    "format(x,'.Nf') differs from the numeric layer (A-dec)", [v, d], format(v, f'.{d}f'), resp))
    ftoks = ["1", "-1.5", "+.5", "5.", ".", "1e5", "1E-3", "1e", "e5", "1_0", "_1", "1__0", "1_", "inf", "-Infinity", "nAn",
             " 2.5 ", "1.5x", "0x10", "1 2", "", "--1", "+-1", "1e+5", "1.2.3", "1e5.5", "٣", "１", "1_0.0_1e1_0", "infinit", "-nan",
             "00012", "-0", "-0.0", "1e-400", "12345678901234567890.123456789"]
    for t in ftoks:
        ctx.case(f"float:{t}", True)
        ctx.count("number_tokens")
        try:
            fv = float(t)
            impl_f = fv
        except ValueError:
            impl_f = None
        if t.isascii():
            ask(f"float {tl.hx(t)}",
                lambda resp, impl_f=impl_f, t=t: ((impl_f is None and resp.startswith("err")) or
                                                   (impl_f is not None and resp.startswith("ok ") and tl.same_float(impl_f, tl.num_value(resp[3:])))) or
                ctx.disagree("float(token) differs from the model", t, impl_f, resp))
            try:
                impl_i = int(t)
            except ValueError:
                impl_i = None
            ask(f"int {tl.hx(t)}",
                lambda resp, impl_i=impl_i, t=t: ((impl_i is None and resp.startswith("err")) or
                                                   (impl_i is not None and resp == f"ok {impl_i}")) or
                ctx.disagree("int(token) differs from the model", t, impl_i, resp))

    # ------------------------------------------------------------------ model side
    outs = ctx.driver([r[0] for r in reqs])
    for (line, cb), resp in zip(reqs, outs):
        cb(resp)
    ctx.extra_cov["driver_requests"] = len(reqs)
    ctx.extra_cov["typing_table"] = {"states": len(obs["emit"]), "distinct_tokens": len(vocab), "bond_types": len(obs["B"])}
    ctx.exhaustive = False


def replay(ctx, path):
    import molli as ml

    obj = json.loads(Path(path).read_text())
    print(json.dumps(obj, indent=1)[:3000])
    r = obj.get("replay") or {}
    en = tl.Enums()
    if r.get("kind") in ("molecule", "structure") and "spec" in r:
        cls = ml.Molecule if r["kind"] == "molecule" else ml.Structure
        m = tl.build_molecule(en, r["spec"], cls)
        st, t = tl.limited(m.dumps_mol2)
        print(f"{cls.__name__}.dumps_mol2 ->", st, (t if st == "ok" else repr(t)))
        if st == "ok":
            st, back = tl.limited(lambda: cls.loads_all_mol2(t))
            print("loads_all_mol2 ->", st, [tl.canon_mol(en, x, with_charges=(cls is ml.Molecule)) for x in back] if st == "ok" else repr(back))
    return 0
