"""
C12 — joining fragments at attachment points builds exactly the intended molecule.

Proof:  Molli.Props.C12 over Molli.Model.Join / Molli.Model.Geom: join_atoms_bonds, join_no_extra_bonds,
        join_charge_mult (+ join_charge_override_counterexample: D24), joinGeomOK_repaired(_ordered), join_rigid, join_new_bond_ends,
        join_bond_length, join_bond_direction, join_bond_same_sense, join_fragment_faces, optimize_keeps_bond,
        join_deterministic (+ join_hidden_state_counterexample: D25), join_sources_untouched,
        iterated_join_index, iterated_join_index_sorted (+ iterated_join_unsorted_counterexample: D26), assemble_atoms.
        The whole command `molli combine` (molli_main) is tied to `assemble` product by product, each core with ITS OWN attachment indices.
Tie:    random 3-D tree/ring fragments (attachment point on any atom, at any position of the atom list) through the real
        `Structure.join` and the real loop of `molli.scripts.combine._ml_assemble`:
        combinatorial part exact diff against the model (atoms, bonds with payload, charge, mult);
        geometric part (i) entry-wise against the model run over exact rationals on the very floats the code saw
        (all 12 candidates of the rotamer scan when optimize_rotation is on), (ii) the spec predicates of the theorems
        (A translated, B rigid, anchor, bond length², collinearity + sense) evaluated EXACTLY in Lean on the returned floats.
Oracle: model-free numpy / graph comparison: product graph by labels, charge/mult rule, distance matrices and signed volumes of
        each fragment, new bond length and direction, two calls under different global numpy RNG states, snapshots of A and B.
Partial charges of the product are deliberately not looked at (D13 belongs to C06).
"""
from __future__ import annotations

import json
import math
import sys
import types
from fractions import Fraction
from pathlib import Path

import numpy as np

from harness import geomlib as G
from harness.geomlib import fbits, ftoks, TOL
from harness.c11 import Batch, expect_flags

ELEMENTS = ["C", "N", "O", "H", "F", "S", "Cl", "P", "Si", "Br"]
BTYPES = ["Single", "Double", "Aromatic", "Triple"]
NEWDATA = "Single/Unknown/1.0/-/-"
FRESH: list = []     # optimize_rotation joins to be repeated in fresh interpreters

AXES = [(1.0, 0.0, 0.0), (-1.0, 0.0, 0.0), (0.0, 1.0, 0.0), (0.0, -1.0, 0.0), (0.0, 0.0, 1.0), (0.0, 0.0, -1.0)]
SPEC_KINDS = {"shape": "C12:join-wrong-atoms", "partA": "C12:join-distorts-first-fragment", "rigidB": "C12:join-distorts-second-fragment",
              "anchor": "C12:join-distorts-first-fragment", "len": "C12:join-wrong-bond-length", "dir": "C12:join-wrong-bond-direction"}


# ------------------------------------------------------------------------------------------
# fragments
# ------------------------------------------------------------------------------------------
def gen_fragment(rng, name, n_aps=1, nmin=1, nmax=7, parallel_to=None, ap_labels=None):
    """JSON description of a random 3-D tree/ring fragment with `n_aps` attachment points.
    parallel_to = (vector, sign): place the (single) attachment point exactly along ±vector."""
    n = rng.range(nmin, nmax)
    ring = n >= 4 and rng.chance(1, 2)
    edges = G.random_topology(rng, n, ring)
    coords = [list(map(float, p)) for p in G.random_coords(rng, n)]
    elements = [rng.choice(ELEMENTS) for _ in range(n)]
    is_ap = [False] * n
    btypes = [edge_spec(rng) for _ in edges]
    for j in range(n_aps):
        for _ in range(200):
            host = rng.below(n)
            if parallel_to is not None:
                vec, sign = parallel_to[0], parallel_to[1]
                eps = parallel_to[2] if len(parallel_to) > 2 else 0.0
                k = rng.choice([0.5, 1.0, 2.0, 0.25])
                p = [coords[host][i] + sign * k * vec[i] for i in range(3)]
                if eps:
                    # nearly (anti)parallel: tilt the attachment vector by about `eps` radians
                    r = [rng.uniform() - 0.5 for _ in range(3)]
                    vv = sum(x * x for x in vec)
                    dot = sum(a * b for a, b in zip(r, vec))
                    perp = [a - dot / vv * b for a, b in zip(r, vec)]
                    pn = math.sqrt(sum(x * x for x in perp)) or 1.0
                    p = [p[i] + eps * k * math.sqrt(vv) * perp[i] / pn for i in range(3)]
            else:
                p = [coords[host][i] + rng.range(-12, 12) / 8 for i in range(3)]
            dmin = min(math.dist(p, q) for q in coords)
            if 0.5 <= math.dist(p, coords[host]) <= 2.5 and dmin >= 0.45:
                break
        else:
            p = [coords[host][0] + 9.0 + j, coords[host][1], coords[host][2]]
        coords.append(p)
        elements.append("Unknown")
        is_ap.append(True)
        edges.append((host, len(coords) - 1) if rng.chance(1, 2) else (len(coords) - 1, host))
        btypes.append("Single")
    # any position of the atom list for the attachment point: permute the atom order
    total = len(coords)
    perm = rng.shuffle(list(range(total)))        # new position -> old index
    inv = {old: new for new, old in enumerate(perm)}
    return {
        "name": name,
        "elements": [elements[o] for o in perm],
        "labels": [(ap_labels[o - n] if (ap_labels and is_ap[o]) else f"{name}{'ap' if is_ap[o] else 'a'}{o}") for o in perm],
        "ap": [i for i, o in enumerate(perm) if is_ap[o]],
        "coords": [coords[o] for o in perm],
        "edges": [[inv[a], inv[b], t] for (a, b), t in zip(edges, btypes)],
        "charge": rng.range(-2, 2),
        "mult": rng.range(1, 3),
        # some atoms carry attributes, most carry an (initially) EMPTY dict
        "attribs": {str(i): rng.choice([{"src": "gen"}, {"n": i, "path": [1, 2]}]) for i, o in enumerate(perm) if not is_ap[o] and rng.chance(1, 4)},
    }


def build(ml, fj):
    from molli.chem import Atom, Bond, Element, AtomType, BondType
    atoms = []
    for i, (el, lbl) in enumerate(zip(fj["elements"], fj["labels"])):
        if i in fj["ap"]:
            atoms.append(Atom(Element.Unknown, label=lbl, atype=AtomType.AttachmentPoint))
        else:
            atoms.append(Atom(Element[el], label=lbl))
    for i, at in (fj.get("attribs") or {}).items():
        atoms[int(i)].attrib = json.loads(json.dumps(at))
    m = ml.Molecule(atoms, name=fj["name"], copy_atoms=False, charge=fj["charge"], mult=fj["mult"])
    from molli.chem import BondStereo
    for a, b, t in fj["edges"]:
        bt, st, fo, lb, at = parse_edge(t)
        m.append_bond(Bond(atoms[a], atoms[b], label=lb, btype=BondType[bt], stereo=BondStereo[st], f_order=fo, attrib=at))
    m.coords = np.array(fj["coords"], dtype=float)
    return m


def _ename(enum_cls, v) -> str:
    try:
        return v.name
    except AttributeError:      # IntEnum fields come back from a library as plain ints
        return enum_cls(v).name


def _attrhex(d) -> str:
    """an attribute dict as one token (no blanks, commas, colons): hex of its canonical JSON; `-` when empty"""
    if not d:
        return "-"
    return json.dumps(d, sort_keys=True, default=str).encode().hex()


def _lbl(x) -> str:
    return "-" if x is None else str(x)


def atom_tok(a) -> str:
    from molli.chem import Element, AtomType
    return f"{_ename(Element, a.element)}/{a.label}/{_ename(AtomType, a.atype)}/{_attrhex(a.attrib)}"


def bond_tok(b) -> str:
    """EVERY field of a bond: type, stereo, fractional order, label, attributes"""
    from molli.chem import BondType, BondStereo
    return f"{_ename(BondType, b.btype)}/{_ename(BondStereo, b.stereo)}/{float(b.f_order)!r}/{_lbl(b.label)}/{_attrhex(b.attrib)}"


def edge_spec(rng) -> str:
    """bond description of a generated fragment: `BType;Stereo;f_order;label;attrib-json-hex` with non-default values in every field"""
    r = rng.below(4)
    if r == 0:
        return "Single"
    bt = rng.choice(["Single", "Double", "Aromatic", "Triple", "FractionalOrder", "Amide", "Dummy"])
    fo = rng.choice([1.5, 0.5, 2.5, 1.25]) if bt in ("FractionalOrder", "Aromatic") or rng.chance(1, 3) else 1.0
    from molli.chem import BondStereo
    st = rng.choice([nm for nm in BondStereo.__members__ if BondStereo[nm].name == nm])      # canonical member names only (Cis/Trans are aliases)
    lb = rng.choice(["-", "b1", "ring", "x9"])
    at = rng.choice([{}, {"order_src": "fit"}, {"w": 3, "tags": ["a", "b"]}])
    return f"{bt};{st};{fo!r};{lb};{_attrhex(at)}"


def parse_edge(t: str):
    if ";" not in t:
        return t, "Unknown", 1.0, None, {}
    bt, st, fo, lb, ah = t.split(";")
    return bt, st, float(fo), (None if lb == "-" else lb), ({} if ah == "-" else json.loads(bytes.fromhex(ah).decode()))


def edge_tok(t: str) -> str:
    """the canonical bond token (see bond_tok) a fragment's edge description stands for"""
    bt, st, fo, lb, at = parse_edge(t)
    return f"{bt}/{st}/{float(fo)!r}/{_lbl(lb)}/{_attrhex(at)}"


def atom_tok_json(f, i) -> str:
    at = (f.get("attribs") or {}).get(str(i)) or {}
    return f"{f['elements'][i]}/{f['labels'][i]}/Regular/{_attrhex(at)}"


def frag_tokens(m) -> str:
    idx = {id(a): i for i, a in enumerate(m.atoms)}
    toks = [str(m.n_atoms)] + [atom_tok(a) for a in m.atoms] + [str(m.n_bonds)]
    for b in m.bonds:
        toks += [str(idx[id(b.a1)]), str(idx[id(b.a2)]), bond_tok(b)]
    toks += [str(int(getattr(m, "charge", 0) or 0)), str(int(getattr(m, "mult", 1) or 1))]   # a Substructure view has neither
    return " ".join(toks)


def canon(m) -> str:
    """canonical text of a product in the model's output format (without the `new=` field)"""
    idx = {id(a): i for i, a in enumerate(m.atoms)}
    atoms = ",".join(atom_tok(a) for a in m.atoms)
    bonds = ",".join(sorted(f"{min(idx[id(b.a1)], idx[id(b.a2)])}-{max(idx[id(b.a1)], idx[id(b.a2)])}:{bond_tok(b)}" for b in m.bonds))
    return f"ok atoms={atoms} bonds={bonds} charge={int(m.charge)} mult={int(m.mult)}"


def canon_model(out: str) -> str:
    """the model's answer in the same canonical form: bonds as an unordered set of unordered pairs"""
    head = out.rsplit(" new=", 1)[0]
    parts = head.split(" ")
    res = []
    for p in parts:
        if p.startswith("bonds="):
            items = [x for x in p[6:].split(",") if x]
            norm = []
            for it in items:
                ends, data = it.split(":", 1)
                a, b = ends.split("-")
                norm.append(f"{min(int(a), int(b))}-{max(int(a), int(b))}:{data}")
            res.append("bonds=" + ",".join(sorted(norm)))
        else:
            res.append(p)
    return " ".join(res)


def label_graph(m):
    """model-free view of a molecule: {label: (element, atype)}, {frozenset(labels): bond token}"""
    nodes = {a.label: (a.element.name, a.atype.name, _attrhex(a.attrib)) for a in m.atoms}
    edges = {}
    for b in m.bonds:
        edges[frozenset((b.a1.label, b.a2.label))] = bond_tok(b)
    return nodes, edges


def snapshot(m):
    """everything observable of a structure: every field of every atom and bond (attribute dicts by value), coordinates,
    partial charges, charge, multiplicity, name"""
    ac = getattr(m, "atomic_charges", None)
    return (
        tuple((id(a), a.element.name, a.label, a.atype.name, a.isotope, a.formal_charge, a.formal_spin, str(a.stereo), str(a.geom),
               json.dumps(a.attrib, sort_keys=True, default=str)) for a in m.atoms),
        tuple((id(b.a1), id(b.a2), b.btype.name, b.stereo.name, float(b.f_order), b.label, json.dumps(b.attrib, sort_keys=True, default=str))
              for b in m.bonds),
        np.array(m.coords).tobytes(), None if ac is None else np.array(ac, dtype=float).tobytes(),
        getattr(m, "charge", None), getattr(m, "mult", None), getattr(m, "name", None),
    )


def scribble(m, mark):
    """write into every mutable part of a structure: attribute dicts of all atoms and bonds (also the initially empty ones),
    labels, isotopes, bond fields, coordinates, partial charges, charge, name"""
    from molli.chem import BondType
    for i, a in enumerate(m.atoms):
        a.attrib[mark] = i
        for v in a.attrib.values():
            if isinstance(v, list):
                v.append(mark)
        a.label = f"{mark}{i}"
        a.isotope = 13
        a.formal_charge = 1
    for i, b in enumerate(m.bonds):
        b.attrib[mark] = i
        for v in b.attrib.values():
            if isinstance(v, list):
                v.append(mark)
        b.label = f"{mark}b{i}"
        b.f_order = 3.25
        b.btype = BondType.H_Donor
    try:
        m.coords = np.array(m.coords) + 1.0
    except Exception:  # noqa: BLE001
        pass
    try:
        m.atomic_charges = np.array(m.atomic_charges) + 0.5
    except Exception:  # noqa: BLE001
        pass
    for attr, val in (("charge", 7), ("name", mark)):
        try:
            setattr(m, attr, val)
        except Exception:  # noqa: BLE001
            pass


def neighbour_of(fj, i):
    for a, b, _ in fj["edges"]:
        if a == i:
            return b
        if b == i:
            return a
    return None


def reidx(k, j):
    return j if j < k else j - 1


# ------------------------------------------------------------------------------------------
# variants the code exhibits now (witnesses of D24, D25, D26)
# ------------------------------------------------------------------------------------------
def witness_frag(name, charge=0):
    return {"name": name, "elements": ["C", "C", "Unknown"], "labels": [f"{name}a0", f"{name}a1", f"{name}ap2"], "ap": [2],
            "coords": [[0, 0, 0], [1.25, 0.5, 0], [0, 0, 1.0]], "edges": [[0, 1, "Single"], [0, 2, "Single"]], "charge": charge, "mult": 1}


def detect_variants(ml, combine_mod):
    """which variant of each known defect does the code exhibit now?  A witness that cannot even run counts as
    `repaired` (the model of the demanded behaviour), so that the seeded stream reports the failure with a replay."""
    out = {"charge": "repaired", "rng": "repaired", "combine": "repaired"}
    A, Bm = build(ml, witness_frag("p", charge=1)), build(ml, witness_frag("q"))
    try:
        r = ml.Molecule.join(A, Bm, 2, 2, dist=1.5, charge=0)
        out["charge"] = "repaired" if r.charge == 0 else "shipped"
    except Exception:  # noqa: BLE001
        pass
    try:
        # parallel attachment vectors → antiparallel branch of the rotation
        np.random.seed(11)
        r1 = ml.Molecule.join(A, Bm, 2, 2, dist=1.5)
        np.random.seed(12)
        r2 = ml.Molecule.join(A, Bm, 2, 2, dist=1.5)
        out["rng"] = "repaired" if np.array_equal(r1.coords, r2.coords) else "shipped"
    except Exception:  # noqa: BLE001
        pass
    core = {"name": "k", "elements": ["C", "Unknown", "N", "Unknown"], "labels": ["ka0", "kap1", "ka2", "kap3"], "ap": [1, 3],
            "coords": [[0, 0, 0], [0, 0, 1.0], [1.5, 0, 0], [2.5, 0.5, 0]], "edges": [[0, 1, "Single"], [0, 2, "Single"], [2, 3, "Single"]],
            "charge": 0, "mult": 1}
    subs = [witness_frag("s"), witness_frag("t")]
    sorted_ok = run_assemble(ml, combine_mod, core, [1, 3], subs)
    res = run_assemble(ml, combine_mod, core, [3, 1], subs)
    if not isinstance(sorted_ok, str) and label_graph(sorted_ok) == expected_product_graph(core, [1, 3], subs):
        if isinstance(res, str) or label_graph(res) != expected_product_graph(core, [3, 1], subs):
            out["combine"] = "shipped"
    return out


OPERANDS = ["plain", "plain", "plain", "parent-taken-live", "parent-taken-dead", "view"]


def make_operand(ml, rng, fj, kind):
    """The fragment `fj` as an operand of join.  Whatever the kind, the operand lists the atoms, bonds and coordinates of `fj`
    in `fj`'s own order — the property (and the model) speak about nothing else.
      plain              a freshly built Molecule
      parent-taken-live  … whose atom objects were afterwards also listed, in another order and without copying, by another
                         Promolecule / Molecule that is still alive (the atoms now name THAT object as their parent)
      parent-taken-dead  … by another container that has been dropped again (the atoms name no parent)
      view               a Substructure of a bigger structure: a permuted, non-leading subset of its atoms
    returns (operand, things to keep alive, other structures whose state must not change)"""
    import gc
    if kind != "view":
        m = build(ml, fj)
        keep = []
        if kind.startswith("parent-taken"):
            order = rng.shuffle(list(m.atoms))
            if order == list(m.atoms) and len(order) > 1:
                order = order[1:] + order[:1]
            thief = ml.Promolecule(order) if rng.chance(1, 2) else ml.Molecule(order, name="thief")
            if kind.endswith("live"):
                keep.append(thief)
            else:
                del thief
                gc.collect()
        return m, keep, []
    extra = gen_fragment(rng, "Vx", nmin=2, nmax=5)
    nf, ne = len(fj["labels"]), len(extra["labels"])
    order = rng.shuffle([("f", i) for i in range(nf)] + [("e", i) for i in range(ne)])     # new position -> (source, old index)
    if order[0][0] == "f" and ("f", 0) == order[0]:
        order = order[1:] + order[:1]                                                     # the view is not a leading, in-order slice
    pos = {k: i for i, k in enumerate(order)}
    src = {"f": fj, "e": extra}
    shift = {"f": [0.0, 0.0, 0.0], "e": [25.0, 0.0, 0.0]}
    bigj = {
        "name": "host",
        "elements": [src[k]["elements"][i] for k, i in order],
        "labels": [src[k]["labels"][i] for k, i in order],
        "ap": [pos[("f", i)] for i in fj["ap"]] + [pos[("e", i)] for i in extra["ap"]],
        "coords": [[c + d for c, d in zip(src[k]["coords"][i], shift[k])] for k, i in order],
        "edges": [[pos[("f", a)], pos[("f", b)], t] for a, b, t in fj["edges"]] + [[pos[("e", a)], pos[("e", b)], t] for a, b, t in extra["edges"]],
        "charge": 0, "mult": 1,
        "attribs": {**{str(pos[("f", int(i))]): v for i, v in (fj.get("attribs") or {}).items()},
                    **{str(pos[("e", int(i))]): v for i, v in (extra.get("attribs") or {}).items()}},
    }
    host = build(ml, bigj)
    view = host.substructure([pos[("f", i)] for i in range(nf)])
    return view, [host], [host]


def json_of(m, name):
    """the fragment description of a structure AS IT IS NOW (atoms, bonds with every field, coordinates)"""
    idx = {id(a): i for i, a in enumerate(m.atoms)}
    edges = []
    for b in m.bonds:
        edges.append([idx[id(b.a1)], idx[id(b.a2)],
                      f"{b.btype.name};{b.stereo.name};{float(b.f_order)!r};{_lbl(b.label)};{_attrhex(b.attrib)}"])
    return {"name": name, "elements": [a.element.name for a in m.atoms], "labels": [a.label for a in m.atoms],
            "ap": [i for i, a in enumerate(m.atoms) if a.atype.name == "AttachmentPoint"],
            "coords": np.array(m.coords, dtype=float).tolist(), "edges": edges, "charge": int(m.charge), "mult": int(m.mult),
            "attribs": {str(i): json.loads(json.dumps(a.attrib)) for i, a in enumerate(m.atoms) if a.attrib}}


def rejoin_after_inplace_change(ctx, B, ml, A, Bm, fa, fb, args, variants):
    """The same two objects are joined again after one or both were changed IN PLACE: rigid motion, an internal change of
    geometry that turns the attachment vector, the attachment point re-connected to another atom.  The product must be the
    join of the operands as they are at THIS call (all oracles and the model, via join_case on the very same objects)."""
    from molli.chem import Bond
    rng = ctx.rng
    from harness.c11 import rational_rotation
    changed = []
    for m, fj in ((A, fa), (Bm, fb)):
        if not rng.chance(2, 3):
            continue
        n = m.n_atoms
        ap = fj["ap"][0]
        kind = rng.choice(["rigid", "bend", "reconnect"])
        if kind == "rigid":
            m.transform(rational_rotation(rng)[1])
            m.translate(np.array([rng.range(-24, 24) / 8 for _ in range(3)]))
        elif kind == "bend":
            # the attachment point (and a few more atoms) are shifted: the attachment vector turns and changes length
            sel = sorted({ap} | set(rng.shuffle(list(range(n)))[:rng.range(0, max(0, n - 2))]) - {neighbour_of(fj, ap)})
            m.substructure(sel).translate(np.array([rng.choice([-1, 1]) * rng.range(3, 9) / 8 for _ in range(3)]))
        else:
            host = neighbour_of(fj, ap)
            cands = [i for i in range(n) if i not in (ap, host) and np.linalg.norm(np.array(m.coords[i]) - np.array(m.coords[ap])) > 0.4]
            if not cands:
                kind = "rigid"
                m.translate(np.array([0.5, -0.25, 1.0]))
            else:
                new = rng.choice(cands)
                old_bond = [b for b in m.bonds if m.atoms[ap] in b][0]
                m.del_bond(old_bond)
                m.append_bond(Bond(m.atoms[new], m.atoms[ap]))
        changed.append(kind)
        ctx.count(f"join.rejoin-after-inplace.{kind}")
    if not changed:
        return
    fa2, fb2 = json_of(A, fa["name"]), json_of(Bm, fb["name"])
    args2 = dict(args, operandA="plain", operandB="plain", pose=args["pose"] + "+changed-in-place")
    join_case(ctx, B, ml, fa2, fb2, args2, variants, prebuilt=(A, Bm), depth=1)


# ------------------------------------------------------------------------------------------
# one join case
# ------------------------------------------------------------------------------------------
def join_case(ctx, B, ml, fa, fb, args, variants, sample=False, prebuilt=None, depth=0):
    rng = ctx.rng
    opA, opB = args.get("operandA", "plain"), args.get("operandB", "plain")
    if prebuilt is not None:
        (A, Bm), keepA_, keepB_, hostsA, hostsB = prebuilt, [], [], [], []      # the SAME objects as in an earlier join, changed in place since
    else:
        A, keepA_, hostsA = make_operand(ml, rng, fa, opA)
        Bm, keepB_, hostsB = make_operand(ml, rng, fb, opB)
    hosts = hostsA + hostsB
    snapH = [snapshot(h) for h in hosts]
    ctx.count(f"join.operandA={opA}")
    ctx.count(f"join.operandB={opB}")
    i1, i2 = fa["ap"][0], fb["ap"][0]
    n1, n2 = neighbour_of(fa, i1), neighbour_of(fb, i2)
    nA, nB = A.n_atoms, Bm.n_atoms
    tag = {"op": "join", "A": fa, "B": fb, "args": args}
    kw = {}
    if args["dist"] is not None:
        kw["dist"] = args["dist"]
    if args["charge"] is not None:
        kw["charge"] = args["charge"]
    if args["mult"] is not None:
        kw["mult"] = args["mult"]
    kw["optimize_rotation"] = args["opt"]
    snapA, snapB = snapshot(A), snapshot(Bm)
    seed1, seed2 = rng.below(2 ** 31), rng.below(2 ** 31)
    try:
        np.random.seed(seed1)
        res = ml.Molecule.join(A, Bm, i1, i2, **kw)
        np.random.seed(seed2)
        res2 = ml.Molecule.join(A, Bm, i1, i2, **kw)
    except Exception as e:  # noqa: BLE001  (a valid join must not raise)
        ctx.violation("C12:join-raises", f"join of two valid fragments raised {type(e).__name__}: {e}", tag)
        ctx.case(["join", fa, fb, args], nontrivial=True)
        return
    coords = np.array(res.coords, dtype=float)
    ctx.count("join." + args["pose"])
    ctx.count("join.optimize_rotation=" + str(bool(args["opt"])))

    # ---------- hidden state ----------
    if not np.array_equal(coords, np.array(res2.coords), equal_nan=True) or canon(res) != canon(res2):
        dmax = float(np.abs(coords - np.array(res2.coords)).max()) if coords.shape == np.array(res2.coords).shape else float("nan")
        ctx.violation("C12:join-depends-on-hidden-rng-state",
                      f"two identical join calls under different numpy RNG states differ by {dmax:.3g} Å ({args['pose']} attachment vectors)", tag)
    # ---------- hidden state carried from one call to the next ----------
    if args["opt"]:
        nrem = nB - 1
        big = gen_fragment(rng, "Hbx", nmin=nrem + 1, nmax=nrem + 6)
        small = gen_fragment(rng, "Hsx", nmin=1, nmax=max(1, nrem - 2))
        try:
            okw = {"charge": 0, "mult": 1} if "view" in (opA, opB) else {}
            for other in (big, small) if rng.chance(1, 2) else (small, big):
                ml.Molecule.join(A, build(ml, other), i1, other["ap"][0], optimize_rotation=True, **okw)
            np.random.seed(seed1)
            res3 = ml.Molecule.join(A, Bm, i1, i2, **kw)
            if not np.array_equal(coords, np.array(res3.coords), equal_nan=True):
                d3 = float(np.nanmax(np.abs(coords - np.array(res3.coords)))) if coords.shape == np.array(res3.coords).shape else float("nan")
                ctx.violation("C12:join-depends-on-earlier-calls",
                              f"the same join gives coordinates {d3:.3g} Å apart after unrelated joins of a larger ({len(big['labels']) - 1} atoms) and a "
                              f"smaller ({len(small['labels']) - 1} atoms) fragment were made in between (B has {nrem} atoms, optimize_rotation=True)",
                              dict(tag, in_between=[big, small]))
            ctx.count("join.repeated-after-unrelated-joins")
        except Exception as e:  # noqa: BLE001
            ctx.violation("C12:join-raises", f"join raised {type(e).__name__}: {e} when repeated after unrelated joins", tag)
        FRESH.append({"A": fa, "B": fb, "args": args, "seed": None, "hex": None})
    # ---------- sources untouched ----------
    if snapshot(A) != snapA or snapshot(Bm) != snapB or [snapshot(h) for h in hosts] != snapH:
        ctx.violation("C12:join-mutates-source", "A or B (or the structure an operand is a view of) changed during join", tag)
    # ---------- combinatorics: model-free ----------
    nodes, edges = label_graph(res)
    expn = {}
    for f in (fa, fb):
        for i, (el, lbl) in enumerate(zip(f["elements"], f["labels"])):
            if i not in f["ap"]:
                expn[lbl] = (el, "Regular", _attrhex((f.get("attribs") or {}).get(str(i)) or {}))
    expe = {}
    for f in (fa, fb):
        for a, b, t in f["edges"]:
            if a not in f["ap"] and b not in f["ap"]:
                expe[frozenset((f["labels"][a], f["labels"][b]))] = edge_tok(t)
    expe[frozenset((fa["labels"][n1], fb["labels"][n2]))] = NEWDATA
    if nodes != expn or res.n_atoms != nA + nB - 2:
        ctx.violation("C12:join-wrong-atoms", f"product has atoms {sorted(nodes)} expected {sorted(expn)}", tag)
    if edges != expe or res.n_bonds != A.n_bonds + Bm.n_bonds - 1:
        ctx.violation("C12:join-wrong-bonds", f"product bonds differ from (A ∪ B minus attachment bonds) + 1 new bond", tag)
    # ---------- charge / multiplicity ----------
    exp_q = args["charge"] if args["charge"] is not None else fa["charge"] + fb["charge"]
    if res.charge != exp_q:
        kind = "C12:join-charge-override-ignored" if args["charge"] is not None else "C12:join-wrong-charge"
        ctx.violation(kind, f"charge {res.charge}, expected {exp_q} (override {args['charge']}, qA {fa['charge']}, qB {fb['charge']})", tag)
    if args["mult"] != 0:
        exp_m = args["mult"] if args["mult"] is not None else fa["mult"] + fb["mult"] - 1
        if res.mult != exp_m:
            ctx.violation("C12:join-wrong-mult", f"mult {res.mult}, expected {exp_m} (override {args['mult']})", tag)
    # ---------- combinatorics: model ----------
    cv = "repaired" if variants["charge"] == "repaired" else "shipped"
    ov = lambda x: "-" if x is None else str(int(x))

    def cb_topo(line, out, impl=canon(res)):
        m = canon_model(out) if out.startswith("ok ") else out
        if m != impl:
            ctx.disagree("join: atoms/bonds/charge/mult differ from the model", {"tag": tag, "request": line[:1500]}, impl, out[:1500])
    B.add(f"join {cv} {frag_tokens(A)} {frag_tokens(Bm)} {i1} {i2} {NEWDATA} {ov(args['charge'])} {ov(args['mult'])}", cb_topo)
    # ---------- geometry: model-free ----------
    ca, cbm = np.array(fa["coords"], dtype=float), np.array(fb["coords"], dtype=float)
    keepA = [j for j in range(nA) if j != i1]
    keepB = [j for j in range(nB) if j != i2]
    v1 = ca[i1] - ca[n1]
    newbond = res.bonds[-1] if res.n_bonds else None
    d = args["dist"] if args["dist"] is not None else ((newbond.expected_length if newbond is not None else None) or 1.5)
    geo_ok = coords.shape == (nA + nB - 2, 3) and bool(np.all(np.isfinite(coords)))
    if coords.shape == (nA + nB - 2, 3) and not np.all(np.isfinite(coords)):
        bad = int(np.sum(~np.isfinite(coords).all(axis=1)))
        ctx.violation("C12:join-nonfinite-coordinates",
                      f"{bad} of {len(coords)} atoms of the product have NaN/inf coordinates ({args['pose']} attachment vectors, "
                      f"A's attachment vector {(np.array(fa['coords'][i1]) - np.array(fa['coords'][n1])).tolist()})", tag)
    elif not geo_ok:
        ctx.violation("C12:join-wrong-atoms", f"coordinate array has shape {coords.shape}", tag)
    else:
        gotA, gotB = coords[:nA - 1], coords[nA - 1:]
        if not G.close(gotA, ca[keepA] - ca[n1], 1e-9):
            ctx.violation("C12:join-distorts-first-fragment", "A's atoms are not A − r1", tag)
        d_ok, v_ok = G.rigid_same(cbm[keepB], gotB, G.some_quads(len(keepB), rng, 30))
        if not d_ok:
            ctx.violation("C12:join-distorts-second-fragment", "B's internal distances changed", tag)
        if not v_ok:
            ctx.violation("C12:join-mirrors-second-fragment", "B's signed volumes changed", tag)
        p, q = coords[reidx(i1, n1)], coords[nA - 1 + reidx(i2, n2)]
        bl = float(np.linalg.norm(q - p))
        if abs(bl - d) > 1e-8:
            ctx.violation("C12:join-wrong-bond-length", f"new bond is {bl!r} Å, requested {d!r}", tag)
        sn = float(np.linalg.norm(np.cross(q - p, v1)) / (bl * np.linalg.norm(v1))) if bl > 0 else 1.0
        if sn > 1e-8 or np.dot(q - p, v1) <= 0:
            ctx.violation("C12:join-wrong-bond-direction", f"new bond not along A's attachment vector (sin = {sn:.3g}, dot = {float(np.dot(q - p, v1)):.3g})", tag)
        # B must face A: the image of B's own attachment point lies on the bond axis, behind B's bonded atom
        # (theorem join_fragment_faces).  Its image is recovered from the rigid motion of B's remaining atoms when these fix it.
        if d_ok and v_ok and len(keepB) >= 3:
            P0, P1 = cbm[keepB], gotB
            c0, c1 = P0.mean(axis=0), P1.mean(axis=0)
            if np.linalg.svd(P0 - c0, compute_uv=False)[1] > 0.3:          # not collinear: the rotation is determined
                Rfit, rfit = G.kabsch(P0 - c0, P1 - c1)
                if rfit < 1e-7:
                    img = (cbm[i2] - c0) @ Rfit + c1
                    w = img - q
                    cs = float(np.dot(w, -(q - p)) / (np.linalg.norm(w) * np.linalg.norm(q - p))) if np.linalg.norm(w) > 0 and bl > 0 else -1.0
                    if cs < 1 - 1e-9:
                        ctx.violation("C12:join-second-fragment-not-facing",
                                      f"B's own attachment direction is not turned onto the new bond (cos = {cs:.9f} instead of 1): "
                                      "B is joined in a wrong orientation", tag)
                    ctx.count("join.facing-checked")
        # ---------- geometry: exact spec predicates in Lean on the returned floats ----------
        # nearly (anti)parallel attachment vectors: the code divides by 1 + c down to 1e-6, rounding is amplified accordingly
        spec_tol = "1/100000" if args["pose"].startswith("near") else "1/100000000"
        B.add(f"spec {nA} {ftoks(ca)} {nB} {ftoks(cbm)} {i1} {i2} {n1} {n2} {ftoks(coords)} {fbits(d)} {spec_tol}",
              expect_flags(ctx, "join", tag, SPEC_KINDS))
        # ---------- geometry: the model over exact rationals on the floats the code saw ----------
        v2 = cbm[i2] - cbm[n2]
        v1n, v2n = v1 / np.linalg.norm(v1), v2 / np.linalg.norm(v2)
        bneg = (-v1) / np.linalg.norm(-v1)
        c = float(np.dot(v2n, bneg))
        anti = c <= -1 + 1e-6
        rv, nfl = np.zeros(3), 1.0
        rvar = "repaired" if variants["rng"] == "repaired" else "shipped"
        if anti:
            if rvar == "repaired":
                e = np.zeros(3)
                e[int(np.argmin(np.abs(bneg)))] = 1.0
                nfl = float(np.linalg.norm(e - bneg * np.dot(e, bneg)))
            else:
                np.random.seed(seed1)
                rv = np.random.rand(3)
                rv /= np.linalg.norm(rv)
                nfl = float(np.linalg.norm(rv - bneg * np.dot(rv, bneg)))
        near_threshold = abs(c - (-1 + 1e-6)) < 1e-9
        if not near_threshold:
            if args["opt"]:
                angles = np.radians(np.arange(0, 360, step=30))
                sc = " ".join(f"{fbits(math.sin(a))} {fbits(math.cos(a))}" for a in angles)
                kreq = f"12 {sc}"
            else:
                kreq = "0"

            def cb_geo(line, out, impl=coords):
                cands = [G.model_array(part.strip(), "c", impl.shape) for part in out.split("|")]
                hit = [k for k, m in enumerate(cands) if m is not None and G.close(impl, m, 1e-9 if (not anti and 1 + c > 1e-2) else 1e-7)]
                if not hit:
                    ctx.disagree("join: coordinates differ from the model (every scan candidate)" if args["opt"] else
                                 "join: coordinates differ from the model", {"tag": tag, "request": line[:800]}, impl.tolist(), out[:800])
                elif args["opt"]:
                    ctx.count(f"join.scan-angle={hit[0] * 30}")
            B.add(f"coords {rvar} {nA} {ftoks(ca)} {nB} {ftoks(cbm)} {i1} {i2} {n1} {n2} {ftoks(v1n)} {ftoks(v2n)} {fbits(d)} "
                  f"1/1000000 {fbits(nfl)} {ftoks(rv)} {kreq}", cb_geo)
    # ---------- the product is separate from its sources ----------
    try:
        scribble(res, "wr")
    except Exception as e:  # noqa: BLE001
        ctx.notes.append(f"could not write into every part of a product: {type(e).__name__}: {e}")
    if snapshot(A) != snapA or snapshot(Bm) != snapB or [snapshot(h) for h in hosts] != snapH:
        ctx.violation("C12:join-mutates-source", "writing into the product (atom / bond attributes incl. initially empty ones, labels, fields, "
                      "coordinates, charges) changed A or B: the product shares mutable state with its sources", tag)
    # ---------- join, change an operand IN PLACE, join the same objects again ----------
    if depth == 0 and opA != "view" and opB != "view" and rng.chance(1, 2):
        rejoin_after_inplace_change(ctx, B, ml, A, Bm, fa, fb, args, variants)
    # ---------- … and the other way round: writing into A and B must not show in a product ----------
    snapP = snapshot(res2)
    try:
        scribble(A, "wa")
        scribble(Bm, "wb")
    except Exception as e:  # noqa: BLE001
        ctx.notes.append(f"could not write into every part of an operand: {type(e).__name__}: {e}")
    if snapshot(res2) != snapP:
        ctx.violation("C12:join-mutates-source", "writing into A / B after the join changed the product: they share mutable state", tag)
    nontriv = (nA > 2 or nB > 2)
    ctx.case(["join", fa, fb, args], nontrivial=nontriv)
    if sample:
        ctx.sample({"op": "join", "nA": nA, "nB": nB, "apA": i1, "apB": i2, "args": args, "charge": int(res2.charge), "mult": int(res2.mult)})


# ------------------------------------------------------------------------------------------
# iterated joins through the real loop of `molli combine`
# ------------------------------------------------------------------------------------------
def import_combine():
    if "molli.external.openbabel" not in sys.modules:
        try:
            import molli.external.openbabel  # noqa: F401
        except Exception:
            sys.modules["molli.external.openbabel"] = types.ModuleType("molli.external.openbabel")
    import molli.scripts.combine as cb
    return cb


def run_assemble(ml, cb, core_j, aps, subs_j, taken=None):
    core = build(ml, core_j)
    subs = [build(ml, s) for s in subs_j]
    keep = []
    if taken is not None:
        # the atom objects of the core / of substituents are also listed (re-ordered, not copied) by other containers
        for m in [core] + subs:
            if taken.chance(1, 2):
                order = list(reversed(m.atoms))
                keep.append(ml.Promolecule(order) if taken.chance(1, 2) else ml.Molecule(order, name="listing"))
                if taken.chance(1, 3):
                    keep.pop()
    try:
        call = cb._ml_assemble(core, tuple(aps), [tuple(subs)], hadd=False, obopt=None, separator="_")
        results = call[0](*call[1], **call[2]) if isinstance(call, tuple) else call
        (_, mol), = results.items()
        return mol
    except Exception as e:  # noqa: BLE001
        return f"err:{type(e).__name__}"


def expected_product_graph(core_j, aps, subs_j):
    nodes, edges = {}, {}
    for f in [core_j] + list(subs_j):
        for i, (el, lbl) in enumerate(zip(f["elements"], f["labels"])):
            if i not in f["ap"]:
                nodes[lbl] = (el, "Regular", _attrhex((f.get("attribs") or {}).get(str(i)) or {}))
        for a, b, t in f["edges"]:
            if a not in f["ap"] and b not in f["ap"]:
                edges[frozenset((f["labels"][a], f["labels"][b]))] = edge_tok(t)
    for ap, s in zip(aps, subs_j):
        edges[frozenset((core_j["labels"][neighbour_of(core_j, ap)], s["labels"][neighbour_of(s, s["ap"][0])]))] = NEWDATA
    return nodes, edges


def combine_case(ctx, B, ml, cb, core_j, aps, subs_j, variants, sample=False):
    tag = {"op": "combine", "core": core_j, "aps": aps, "subs": subs_j}
    res = run_assemble(ml, cb, core_j, aps, subs_j, taken=(ctx.rng if ctx.rng.chance(1, 2) else None))
    asc = all(a < b for a, b in zip(aps, aps[1:]))
    ctx.count("combine.aps-" + ("ascending" if asc else "unsorted"))
    ctx.count(f"combine.n_aps={len(aps)}")
    exp = expected_product_graph(core_j, aps, subs_j)
    if isinstance(res, str):
        ctx.violation("C12:combine-joins-wrong-atom", f"the loop of `molli combine` raised {res} for attachment indices {aps}", tag)
        impl = "err:join"
    else:
        if label_graph(res) != exp:
            ctx.violation("C12:combine-joins-wrong-atom",
                          f"product of the `molli combine` loop is not core ∪ substituents joined at attachment indices {aps}", tag)
        else:
            # geometry of the product: every fragment rigid, new bonds of the expected length
            lab = {a.label: i for i, a in enumerate(res.atoms)}
            coords = np.array(res.coords)
            for f in [core_j] + list(subs_j):
                keep = [i for i in range(len(f["labels"])) if i not in f["ap"]]
                old = np.array(f["coords"], dtype=float)[keep]
                new = coords[[lab[f["labels"][i]] for i in keep]]
                d_ok, v_ok = G.rigid_same(old, new, G.some_quads(len(keep), ctx.rng, 20))
                if not (d_ok and v_ok):
                    ctx.violation("C12:combine-distorts-fragment", f"fragment {f['name']} is not moved rigidly", tag)
            for b in res.bonds:
                if frozenset((b.a1.label, b.a2.label)) in [frozenset((core_j["labels"][neighbour_of(core_j, ap)], s["labels"][neighbour_of(s, s["ap"][0])]))
                                                          for ap, s in zip(aps, subs_j)]:
                    bl = float(np.linalg.norm(coords[lab[b.a1.label]] - coords[lab[b.a2.label]]))
                    if abs(bl - (b.expected_length or 1.5)) > 1e-8:
                        ctx.violation("C12:join-wrong-bond-length", f"combine: new bond {bl!r}, expected {b.expected_length!r}", tag)
        impl = canon(res)
    core, subs = build(ml, core_j), [build(ml, s) for s in subs_j]
    mv = "repaired" if variants["combine"] == "repaired" else "shipped"
    req = (f"combine {mv} {frag_tokens(core)} {len(aps)} {' '.join(map(str, aps))} {NEWDATA} {len(subs)} " +
           " ".join(f"{frag_tokens(s)} {sj['ap'][0]}" for s, sj in zip(subs, subs_j)))

    def cb_(line, out, impl=impl):
        m = canon_model(out) if out.startswith("ok ") else out
        if m != impl:
            ctx.disagree("combine loop: product differs from the model", {"tag": tag, "request": line[:1500]}, impl[:1500], out[:1500])
    B.add(req, cb_)
    ctx.case(["combine", core_j, aps, subs_j], nontrivial=len(aps) >= 2)
    if sample:
        ctx.sample({"op": "combine", "aps": aps, "core_atoms": len(core_j["labels"]), "subs": [len(s["labels"]) for s in subs_j],
                    "product_atoms": None if isinstance(res, str) else res.n_atoms})


# ------------------------------------------------------------------------------------------
# the whole `molli combine` command: molli_main on core / substituent LIBRARIES
# ------------------------------------------------------------------------------------------
def expected_product_indexed(core_j, aps, subs_j):
    """model-free reference of one product in canonical form (atom tokens in order, bonds as an unordered set of unordered
    index pairs with payload, charge, mult): each join drops the attachment point and appends the substituent's other atoms."""
    toks, pos = [], {}
    frs = [core_j] + list(subs_j)
    for fi, f in enumerate(frs):
        for i, (el, lbl) in enumerate(zip(f["elements"], f["labels"])):
            if i not in f["ap"]:
                pos[(fi, i)] = len(toks)
                toks.append(atom_tok_json(f, i))
    bonds = []
    for fi, f in enumerate(frs):
        for a, b, t in f["edges"]:
            if a not in f["ap"] and b not in f["ap"]:
                x, y = pos[(fi, a)], pos[(fi, b)]
                bonds.append(f"{min(x, y)}-{max(x, y)}:{t}/Unknown/1.0")
    for si, (ap, sj) in enumerate(zip(aps, subs_j)):
        x, y = pos[(0, neighbour_of(core_j, ap))], pos[(si + 1, neighbour_of(sj, sj["ap"][0]))]
        bonds.append(f"{min(x, y)}-{max(x, y)}:{NEWDATA}")
    q = core_j["charge"] + sum(sj["charge"] for sj in subs_j)
    m = core_j["mult"] + sum(sj["mult"] - 1 for sj in subs_j)
    return f"ok atoms={','.join(toks)} bonds={','.join(sorted(bonds))} charge={q} mult={m}"


def multigraph_of(m):
    """a molecule up to atom order: multiset of atom tokens, multiset of bonds as (unordered pair of atom tokens, payload), charge, mult
    (labels may repeat when one substituent is used several times)"""
    from collections import Counter
    nodes = Counter(atom_tok(a) for a in m.atoms)
    edges = Counter((tuple(sorted((atom_tok(b.a1), atom_tok(b.a2)))), bond_tok(b)) for b in m.bonds)
    return nodes, edges, int(m.charge), int(m.mult)


def expected_multigraph(core_j, aps, subs_j):
    from collections import Counter
    nodes, edges = Counter(), Counter()
    tok = atom_tok_json
    for f in [core_j] + list(subs_j):
        for i in range(len(f["labels"])):
            if i not in f["ap"]:
                nodes[tok(f, i)] += 1
        for a, b, t in f["edges"]:
            if a not in f["ap"] and b not in f["ap"]:
                edges[(tuple(sorted((tok(f, a), tok(f, b)))), edge_tok(t))] += 1
    for ap, sj in zip(aps, subs_j):
        edges[(tuple(sorted((tok(core_j, neighbour_of(core_j, ap)), tok(sj, neighbour_of(sj, sj["ap"][0]))))), NEWDATA)] += 1
    return nodes, edges, core_j["charge"] + sum(sj["charge"] for sj in subs_j), core_j["mult"] + sum(sj["mult"] - 1 for sj in subs_j)


def combos_for_mode(mode, subs, k):
    from itertools import permutations, combinations, combinations_with_replacement
    if mode == "same":
        return [tuple([sx] * k) for sx in subs]
    if mode == "permutns":
        return list(permutations(subs, k))
    if mode == "combns":
        return list(combinations(subs, k))
    return list(combinations_with_replacement(subs, k))


def main_case(ctx, B, ml, cb, variants, mode, label_form, case_no, sample=False):
    """`molli combine cores.mlib -s subs.mlib -m <mode> [-a label …] -o out.mlib` through the real molli_main, on a core library
    of several cores whose attachment points sit at DIFFERENT atom-list positions; every product of the output library is
    compared with the model-free reference and with the model's iterated join for ITS core's attachment indices."""
    import contextlib
    import io
    rng = ctx.rng
    k = rng.range(1, 2)
    if label_form == "labels-any-order":
        k = rng.range(2, 3)            # the order of the labels only matters with at least two attachment points
    ncores = rng.range(2, 3)
    nsubs = rng.range(max(2, k), 3)
    # attachment-point labels: a shared label on every attachment point, or one label per attachment point (same set in every core)
    if label_form == "shared-label":
        aplabels = ["AP"] * k
    else:
        aplabels = [f"AP{j}" for j in range(k)]
    cores = []
    for _ in range(60):
        cores = [gen_fragment(rng, f"K{case_no}c{ci}x", n_aps=k, nmin=max(2, k), nmax=6, ap_labels=aplabels) for ci in range(ncores)]
        if len({tuple(sorted(c["ap"])) for c in cores}) > 1:
            break                      # the cores' attachment points sit at different positions of the atom list
    subs = [gen_fragment(rng, f"S{case_no}s{si}x", nmin=1, nmax=4) for si in range(nsubs)]
    for c in cores:
        c["name"] = c["name"].rstrip("x")
    for sj in subs:
        sj["name"] = sj["name"].rstrip("x")
    # the attachment indices molli_main has to use for each core
    argv_labels = []
    if label_form == "none":
        per_core_aps = [sorted(c["ap"]) for c in cores]
    elif label_form == "shared-label":
        argv_labels = ["AP"]
        per_core_aps = [sorted(c["ap"]) for c in cores]          # yield_atoms_by_label: atom order
    else:
        # labels given in any order: make sure that for at least one core the labelled attachment points are then NOT in
        # atom-table order (and, when possible, for another core they are)
        for _ in range(40):
            order = rng.shuffle(list(range(k)))
            per_core_aps = [[c["labels"].index(f"AP{j}") for j in order] for c in cores]
            asc = [all(a < b for a, b in zip(p_, p_[1:])) for p_ in per_core_aps]
            if not all(asc):
                break
        argv_labels = [f"AP{j}" for j in order]
        ctx.count("main.labels-any-order.cores-with-non-ascending-indices", sum(1 for a in asc if not a))
    work = ctx.scratch / f"combine{case_no}"
    work.mkdir(exist_ok=True)
    cpath, spath, opath = work / "cores.mlib", work / "subs.mlib", work / "out.mlib"
    for path, frs in ((cpath, cores), (spath, subs)):
        lib = ml.MoleculeLibrary(str(path), readonly=False, overwrite=True)
        with lib.writing():
            for f in frs:
                lib[f["name"]] = build(ml, f)
    argv = [str(cpath), "-s", str(spath), "-m", mode, "-o", str(opath), "-n", "1", "--overwrite"]
    for lbl in argv_labels:
        argv += ["-a", lbl]
    tag = {"op": "molli combine (molli_main)", "argv": argv[2:], "mode": mode, "attachment_labels": argv_labels,
           "cores": cores, "subs": subs, "attachment_indices_per_core": per_core_aps}
    ctx.count(f"main.mode={mode}")
    ctx.count(f"main.labels={label_form}")
    ctx.count(f"main.n_aps={k}")
    err = None
    try:
        with contextlib.redirect_stdout(io.StringIO()), contextlib.redirect_stderr(io.StringIO()):
            cb.molli_main(argv)
    except BaseException as e:  # noqa: BLE001  (assert / SystemExit / anything: a valid command line must succeed)
        if isinstance(e, KeyboardInterrupt):
            raise
        err = f"{type(e).__name__}: {e}"
    products = {}
    if opath.exists():
        try:
            out = ml.MoleculeLibrary(str(opath), readonly=True)
            with out.reading():
                for key in out.keys():
                    products[key] = out[key]
        except Exception as e:  # noqa: BLE001
            err = err or f"output library unreadable: {type(e).__name__}: {e}"
    # combinations are drawn in the order in which the substituent library lists its records
    slib = ml.MoleculeLibrary(str(spath), readonly=True)
    with slib.reading():
        key_order = list(slib.keys())
    subs_lib = sorted(subs, key=lambda sj: key_order.index(sj["name"]))
    expected = {}
    for c, aps in zip(cores, per_core_aps):
        for combo in combos_for_mode(mode, subs_lib, k):
            name = "_".join([c["name"]] + [sj["name"] for sj in combo])
            expected[name] = (c, aps, list(combo))
    if err is not None:
        ctx.violation("C12:combine-main-wrong-product", f"`molli combine cores.mlib {' '.join(argv[1:])}` failed: {err[:200]} "
                      f"({len(products)} of {len(expected)} products written)", tag)
    elif set(products) != set(expected):
        ctx.violation("C12:combine-main-wrong-product", f"output library has products {sorted(products)[:6]}…, expected {sorted(expected)[:6]}…", tag)
    mv = "repaired" if variants["combine"] == "repaired" else "shipped"
    for name, (c, aps, combo) in sorted(expected.items()):
        prod = products.get(name)
        ctx.case(["main", mode, label_form, c, aps, combo], nontrivial=True)
        if prod is None:
            continue
        impl = canon(prod)
        if multigraph_of(prod) != expected_multigraph(c, aps, combo):     # up to atom order: harmless re-orderings are not failures
            left = [a.label for a in prod.atoms if "AttachmentPoint" in atom_tok(a)]
            ctx.violation("C12:combine-main-wrong-product",
                          f"product {name}: not core ∪ substituents joined at the core's own attachment indices {aps}"
                          + (f"; attachment points {left} are still in the product" if left else ""), dict(tag, product=name))
        core_m, subs_m = build(ml, c), [build(ml, sj) for sj in combo]
        req = (f"combine {mv} {frag_tokens(core_m)} {len(aps)} {' '.join(map(str, aps))} {NEWDATA} {len(subs_m)} " +
               " ".join(f"{frag_tokens(sm)} {sj['ap'][0]}" for sm, sj in zip(subs_m, combo)))

        def cb_(line, out, impl=impl, name=name):
            m = canon_model(out) if out.startswith("ok ") else out
            if m != impl:
                ctx.disagree("molli combine (molli_main): product differs from the model's iterated join", {"tag": dict(tag, product=name), "request": line[:1200]},
                             impl[:1200], out[:1200])
        B.add(req, cb_)
        ctx.count("main.products")
    if sample:
        ctx.sample({"op": "molli combine", "argv": argv[2:], "cores": [c["name"] for c in cores], "attachment_indices_per_core": per_core_aps,
                    "products": len(products)})


def fresh_process_check(ctx, ml, limit):
    """every recorded optimize_rotation join is repeated (i) by this process once more, now that many other joins have been
    made, (ii) in a fresh interpreter in REVERSED order, (iii) the first one alone in its own interpreter; all must be
    bit-identical."""
    import subprocess
    from harness import common
    cases = FRESH[:limit]
    if not cases:
        return

    def here(r):
        A, Bm = build(ml, r["A"]), build(ml, r["B"])
        a = r["args"]
        kw = {k: a[k] for k in ("dist", "charge", "mult") if a.get(k) is not None}
        np.random.seed(12345)
        res = ml.Molecule.join(A, Bm, r["A"]["ap"][0], r["B"]["ap"][0], optimize_rotation=a["opt"], **kw)
        return np.ascontiguousarray(np.array(res.coords, dtype=float)).tobytes().hex()

    mine = []
    for r in cases:
        try:
            mine.append(here(r))
        except Exception as e:  # noqa: BLE001
            mine.append(f"err:{type(e).__name__}")

    def child(sub):
        fin, fout = ctx.scratch / "fresh_in.json", ctx.scratch / "fresh_out.json"
        fin.write_text(json.dumps([{"A": r["A"], "B": r["B"], "args": r["args"]} for r in sub]))
        if fout.exists():
            fout.unlink()
        try:
            p = subprocess.run([common.repo_python(), "-m", "harness.c12_child", str(fin), str(fout)], cwd=str(common.VERIF),
                               capture_output=True, text=True, timeout=600)
        except subprocess.TimeoutExpired:
            return None
        if p.returncode != 0 or not fout.exists():
            ctx.notes.append("fresh-process reference could not run: " + (p.stderr or "")[-300:])
            return None
        return json.loads(fout.read_text())

    rev = child(list(reversed(cases)))
    if rev is not None:
        rev = list(reversed(rev))
        for r, m, c in zip(cases, mine, rev):
            ctx.case(["fresh", r["A"], r["B"], r["args"]], nontrivial=True)
            if m != c:
                ctx.violation("C12:join-depends-on-earlier-calls",
                              "the join made in this process (after many other joins) differs bit-wise from the same join made in a fresh "
                              "interpreter after a different history of joins", {"op": "join", "A": r["A"], "B": r["B"], "args": r["args"]})
        ctx.count("join.compared-with-fresh-process", len(cases))
    alone = child(cases[:1])
    if alone is not None and alone[0] != mine[0]:
        ctx.violation("C12:join-depends-on-earlier-calls",
                      "the join differs bit-wise from the same join made as the very first call of a fresh interpreter",
                      {"op": "join", "A": cases[0]["A"], "B": cases[0]["B"], "args": cases[0]["args"]})


# ------------------------------------------------------------------------------------------
def gen_args(rng, pose):
    return {
        "pose": pose,
        "dist": rng.choice([None, 1.0, 1.5, 2.25, 0.75, 3.0]),
        "opt": rng.chance(1, 2),
        "charge": rng.choice([None, None, 0, 1, -2]),
        "mult": rng.choice([None, None, 1, 2, 3, 0]),
        "operandA": "plain",
        "operandB": "plain",
    }


def with_operands(rng, args):
    """operand kinds for A and B; a Substructure view has no charge / multiplicity of its own, so both are then given explicitly"""
    args["operandA"], args["operandB"] = rng.choice(OPERANDS), rng.choice(OPERANDS)
    if "view" in (args["operandA"], args["operandB"]):
        args["charge"] = rng.choice([0, 0, 1, -2])
        args["mult"] = rng.choice([1, 2, 3])
    return args


def corpus_cases():
    cdir = Path(__file__).resolve().parent.parent / "corpus" / "C12"
    out = []
    for f in sorted(cdir.glob("*.json")):
        out += json.loads(f.read_text())
    return out


def run(ctx):
    import molli as ml
    cb = import_combine()
    ctx.rule = ("join: pairs of random 3-D fragments (1–7 atoms + attachment point, tree or one ring, atom order permuted so the attachment "
                "point sits at any index, attached to any atom, bond types Single/Double/Aromatic/Triple, charge −2…2, mult 1…3) in random poses "
                "on a 1/8 Å grid; requested length ∈ {None, 0.75, 1, 1.5, 2.25, 3}; optimize_rotation on/off; charge override ∈ {None, 0, 1, −2}; "
                "mult override ∈ {None, 0, 1, 2, 3}; attachment vectors in general position, exactly parallel, exactly antiparallel (also with A's vector exactly along each of ±x, ±y, ±z) and tilted off those by 1e-2…1e-7 rad; operands: freshly built molecules, molecules whose atom objects were also listed (re-ordered, uncopied) by another live or dropped "
                "Promolecule/Molecule, Substructure views (permuted, non-leading subsets of a bigger structure) as A and as B; every call "
                "made twice under different global numpy RNG states; half of the joins are repeated ON THE SAME OBJECTS after one or both operands were changed in place "
                "(rigid motion, attachment vector bent, attachment point re-connected); after every join every mutable part of the product is written to (and then of A and B) "
                "and the other side must be bit-identical; bonds carry non-default type / stereo / fractional order / label / attributes, some atoms attributes; every optimize_rotation join repeated after unrelated joins of a larger and a smaller "
                "fragment, and compared bit-wise with the same join in fresh interpreters (reversed order; alone). combine: cores with 1–3 attachment points, attachment indices in ascending "
                "order (as `core.attachment_points`) and in every other order (as with `-a` labels), through the real `_ml_assemble`; the whole command `molli_main` on core libraries of 2–3 cores with "
                "DIFFERENT attachment layouts × 2–3 substituents, every -m mode (same, permutns, combns, combns_repl) × attachment points found by type, by one "
                "shared -a label, by several -a labels in any order: every product of the output library vs the reference and the model. "
                "Non-trivial: a fragment with more than one remaining atom (join) / at least two attachment points (combine); distinct by input.")
    ctx.assumptions += [
        "A-fp: float64 evaluation of join's rotation/translation is within 1e-9 of exact arithmetic on the generated inputs (1e-7 in the antiparallel branch)",
        "the angle picked by the 12-step rotamer scan (float32 steric loss, external molli_xt kernel) is not modelled: the product must equal one of the 12 candidates, all of which satisfy the theorems",
        "atoms of one structure are distinct objects and two joined structures share no atom (object model, C06)",
    ]
    ctx.proof(props=["Molli.Props.C12"])
    if not ctx.quick():
        G.leanchecker(ctx, ["Molli.Props.C12", "Molli.Lemmas.JoinGeom", "Molli.Lemmas.Join"])
    rng = ctx.rng
    variants = detect_variants(ml, cb)
    for k, v in variants.items():
        ctx.count(f"variant.{k}={v}")
    FRESH.clear()
    B = Batch()
    # corpus first
    for r in corpus_cases():
        if r.get("op") == "join":
            join_case(ctx, B, ml, r["A"], r["B"], r["args"], variants)
            ctx.count("corpus.join")
        elif r.get("op") == "combine":
            combine_case(ctx, B, ml, cb, r["core"], r["aps"], r["subs"], variants)
            ctx.count("corpus.combine")
    q = ctx.quick()
    njoin = 250 if q else 7000
    for i in range(njoin):
        ctx.check_deadline()
        pose = rng.weighted([("general", 6), ("parallel", 2), ("antiparallel", 2), ("near-parallel", 2), ("near-antiparallel", 2),
                             ("axis-parallel", 1), ("axis-antiparallel", 1)])
        if i < 12:      # every run: A's attachment vector exactly along each of ±x, ±y, ±z, B's exactly parallel / antiparallel to it
            pose = "axis-parallel" if i % 2 == 0 else "axis-antiparallel"
        if pose.startswith("axis"):
            ax = AXES[(i // 2) % 6] if i < 12 else rng.choice(AXES)
            fa = gen_fragment(rng, f"A{i}x", parallel_to=(ax, 1))
            fb = gen_fragment(rng, f"B{i}x", parallel_to=(ax, -1 if pose.endswith("antiparallel") else 1))
            join_case(ctx, B, ml, fa, fb, gen_args(rng, pose), variants, sample=False)
            continue
        fa = gen_fragment(rng, f"A{i}x")
        if pose == "general":
            fb = gen_fragment(rng, f"B{i}x")
        else:
            i1 = fa["ap"][0]
            n1 = neighbour_of(fa, i1)
            v1 = [fa["coords"][i1][k] - fa["coords"][n1][k] for k in range(3)]
            eps = rng.choice([1e-2, 1e-3, 3e-4, 1e-4, 1e-5, 1e-6, 1e-7]) if pose.startswith("near") else 0.0
            fb = gen_fragment(rng, f"B{i}x", parallel_to=(v1, -1 if pose.endswith("antiparallel") else 1, eps))
        join_case(ctx, B, ml, fa, fb, with_operands(rng, gen_args(rng, pose)), variants, sample=(i < 2))
        if len(B.items) > 400:
            B.run(ctx)
    B.run(ctx)
    fresh_process_check(ctx, ml, 40 if q else 600)
    ncomb = 100 if q else 3500
    for i in range(ncomb):
        ctx.check_deadline()
        k = rng.range(1, 3)
        core = gen_fragment(rng, f"K{i}x", n_aps=k, nmin=max(2, k), nmax=7)
        subs = [gen_fragment(rng, f"S{i}x{j}x", nmin=1, nmax=5) for j in range(k)]
        aps = sorted(core["ap"])
        if k > 1 and rng.chance(1, 2):
            while all(a < b for a, b in zip(aps, aps[1:])):
                aps = rng.shuffle(list(aps))
        combine_case(ctx, B, ml, cb, core, aps, subs, variants, sample=(i < 2))
        if len(B.items) > 200:
            B.run(ctx)
    B.run(ctx)
    # the whole command on libraries: every mode × every way of naming the attachment points
    forms = ["none", "shared-label", "labels-any-order"]
    modes = ["permutns", "same", "combns", "combns_repl"]
    nmain = 12 if q else 160
    for i in range(nmain):
        ctx.check_deadline()
        main_case(ctx, B, ml, cb, variants, modes[i % 4], forms[(i // 4) % 3], i, sample=(i < 1))
        if len(B.items) > 200:
            B.run(ctx)
    B.run(ctx)


def replay(ctx, path):
    import molli as ml
    obj = json.loads(Path(path).read_text())
    r = obj.get("replay") or {}
    print(json.dumps({k: v for k, v in obj.items() if k != "replay"}, indent=1)[:1500])
    if r.get("op") == "join":
        A, Bm = build(ml, r["A"]), build(ml, r["B"])
        a = r["args"]
        kw = {k: a[k] for k in ("dist", "charge", "mult") if a.get(k) is not None}
        for seed in (1, 2):
            np.random.seed(seed)
            res = ml.Molecule.join(A, Bm, r["A"]["ap"][0], r["B"]["ap"][0], optimize_rotation=a["opt"], **kw)
            print(f"numpy seed {seed}: charge={res.charge} mult={res.mult} atoms={[x.label for x in res.atoms]}")
            print(np.array(res.coords))
    elif r.get("op") == "combine":
        cb = import_combine()
        res = run_assemble(ml, cb, r["core"], r["aps"], r["subs"])
        print("attachment indices:", r["aps"])
        print("real loop gives:", res if isinstance(res, str) else canon(res))
        print("expected bonds between:", [(r["core"]["labels"][neighbour_of(r["core"], ap)], s["labels"][neighbour_of(s, s["ap"][0])])
                                         for ap, s in zip(r["aps"], r["subs"])])
    return 0
