"""
C13 — CDXML parsing reproduces the drawing: constitution, charges, handedness (partial).

Proof:  Molli.Props.C13 — constitution_counts, join_counts, join_charge_mult, join_charge_mult_neutral, nested_counts, constitution_ignores_stereo_marks,
        resolve_spec, resolve_translation_invariant, resolve_permutation_invariant, determinism, orientation_flips,
        orientation_flips_improper, orient_mirror, orient_sound; + Molli.Gen.CdxmlConsts (enum values of the live code).
Tie:    every fragment of every bundled CDXML file, of synthetic drawings (all Order x Display x Radical x NodeType
        cases, nested fragments, hapto nodes, malformed records) and of generated variants (stereo marks mirrored,
        page children permuted, page translated, atoms renumbered): molli's CDXMLFile vs the Lean model through the
        driver, for the constitution (atoms in order, bonds as multiset, charge, multiplicity, attachment points) and
        for label -> fragment.  The records come from an independent ElementTree walk (harness/c13lib.py).
Oracle: model-free — (a) counts straight from the XML (nodes, <b>, sum of Charge, radicals, isotopes, bond orders);
        (b) mirrored drawing: same constitution, and the exact orientation predicate (Lean `orient`, proved sound by
        orientation_flips) on the coordinates molli returns must flip at every non-planar centre (atoms bonded to
        hapto centres excluded); (c) parsing twice gives the same molecule and the same fragment per label;
        (d) label -> fragment is unchanged by permuting / translating / renumbering, and a grouped label resolves
        to the fragment of its group.
"""
from __future__ import annotations

import json
import os
import warnings
from fractions import Fraction
from pathlib import Path

from harness import c13lib as L

COORD_TOL = 1e-9


# --------------------------------------------------------------------------------------
# running molli on a file
# --------------------------------------------------------------------------------------
def edit_molecule(m):
    """what a user does with a parsed molecule: move it, rename it, change and delete atoms"""
    for step in (lambda: m.translate([1.0, -2.0, 3.0]), lambda: setattr(m, "name", "edited"),
                 lambda: setattr(m.atoms[0], "formal_charge", (m.atoms[0].formal_charge or 0) + 1),
                 lambda: setattr(m.atoms[0], "label", "edited"), lambda: m.del_atom(m.atoms[-1])):
        try:
            step()
        except Exception:  # noqa: BLE001 - an edit that is not possible on this molecule is simply skipped
            pass


class Parsed:
    """everything observed from one CDXMLFile instance.
    `session=True`: a parse - edit - parse session on this ONE object: every fragment / label is requested, the
    returned molecule is edited, and it is requested again; what is recorded is the SECOND answer."""

    def __init__(self, path, session=False):
        from molli.ftypes.cdxml import CDXMLFile

        self.aliased = []          # requests that handed out the very object of an earlier request
        with warnings.catch_warnings():
            warnings.simplefilter("ignore")
            self.cdxf = CDXMLFile(path)
            self.frag_ids = [x.get("id") for x in self.cdxf.xfrags]
            self.keys = list(self.cdxf.keys())
            self.by_frag = {}      # fragment id -> (canon | "err:syntax", coords | None)
            for xf in self.cdxf.xfrags:
                try:
                    m = self.cdxf._parse_fragment(xf)
                    if session:
                        edit_molecule(m)
                        m2 = self.cdxf._parse_fragment(xf)
                        if m2 is m:
                            self.aliased.append("fragment " + str(xf.get("id")))
                        m = m2
                    self.by_frag[xf.get("id")] = (L.canon_mol(m), m.coords.copy())
                except SyntaxError:
                    self.by_frag[xf.get("id")] = ("err:syntax", None)
            self.resolved = {}     # key -> fragment id | "!"
            self.by_key = {}       # key -> (canon, coords, name)
            for pos, k in enumerate(self.keys):
                try:
                    m = self.cdxf[k]
                    if session:
                        edit_molecule(m)
                        m2 = self.cdxf[pos] if pos % 2 else self.cdxf[k]     # by label and by position
                        if m2 is m:
                            self.aliased.append("label " + repr(k))
                        edit_molecule(m2)
                        m = self.cdxf[k]
                        if m is m2:
                            self.aliased.append("label " + repr(k))
                    self.by_key[k] = (L.canon_mol(m), m.coords.copy(), m.name)
                except SyntaxError:
                    self.by_key[k] = ("err:syntax", None, None)
                except LookupError:
                    self.by_key[k] = ("err:lookup", None, None)
                fr = self.cdxf.xfrag_cache.get(k)
                self.resolved[k] = "!" if fr is None else fr.get("id")


def rel(path) -> str:
    from harness.common import REPO

    try:
        return "repo:" + str(Path(path).relative_to(REPO))
    except ValueError:
        return Path(path).name


def replay_of(source, variant, extra=None, text=None):
    r = {"source": source, "variant": variant}
    if text is not None:
        r["cdxml_text"] = text
    r.update(extra or {})
    return r


# --------------------------------------------------------------------------------------
# checks on one file (original or variant)
# --------------------------------------------------------------------------------------
def check_file(ctx, path, source, variant, text=None, want_stats=None, session=None):
    """model tie + counts oracle + determinism for one CDXML file; returns (Drawing, Parsed)"""
    d = L.Drawing(path)
    p = Parsed(path)
    rp = lambda extra=None: replay_of(source, variant, extra, text)  # noqa: E731
    ctx.count(f"files:{variant.split(':')[0]}")
    # discovery
    if p.frag_ids != [f["id"] for f in d.frags]:
        ctx.disagree("fragments listed", rp(), p.frag_ids, [f["id"] for f in d.frags])
    if p.keys != [l["key"] for l in d.labels]:
        ctx.disagree("labels listed", rp(), p.keys, [l["key"] for l in d.labels])
    # constitution: model tie
    reqs = [L.encode_fragment(f["elt"]) for f in d.frags]
    outs = ctx.driver(reqs) if reqs else []
    for f, o in zip(d.frags, outs):
        impl = p.by_frag.get(f["id"], ("missing", None))[0]
        model = L.parse_model_mol(o)
        diff = L.same_constitution(impl, model)
        dc = L.drawn_counts(f["elt"])
        nontrivial = not isinstance(impl, str)
        ctx.case(f"frag:{source}:{variant}:{f['id']}", nontrivial=nontrivial)
        ctx.count("fragments")
        if isinstance(impl, str):
            ctx.count("fragments:rejected")
        if dc["joins"]:
            ctx.count("fragments:with-nested")
        if dc["hapto"]:
            ctx.count("fragments:with-hapto")
        if diff:
            import xml.etree.ElementTree as ET

            ctx.disagree("constitution of a fragment",
                         {"source": source, "variant": variant, "fragment": f["id"], "diff": diff,
                          "fragment_xml": ET.tostring(f["elt"], encoding="unicode")[:2500]},
                         str(impl)[:600], str(model)[:600])
        # a parsed molecule has coordinates: NaN / inf for a drawing whose atoms all sit at different places is a defect
        x_ = p.by_frag.get(f["id"], (None, None))[1]
        if x_ is not None and not finite(x_):
            pts = [n.get("p") for n in f["elt"].iter("n") if n.get("p")]
            if len(set(pts)) == len(pts) and not dc["malformed"]:
                ctx.violation("C13:non-finite-coordinates", f"{source} [{variant}] fragment {f['id']}: the parsed molecule has NaN / infinite coordinates",
                              rp({"fragment": f["id"]}))
            p.by_frag[f["id"]] = (impl, None)       # nothing geometric can be asked of it
        # (a) counts straight from the XML
        if not isinstance(impl, str) and not dc["malformed"]:
            oracle_counts(ctx, impl, dc, rp({"fragment": f["id"]}))
            # (absolute direction is evaluated on the drawings as bundled and their variants, not on the randomly
            #  re-drawn stereo marks, which put marks on ends that are not stereogenic)
            if dc["joins"] == 0 and not variant.startswith("restereo"):
                if p.by_frag[f["id"]][1] is not None:
                    oracle_wedge_direction(ctx, f, p.by_frag[f["id"]][1], rp({"fragment": f["id"]}))
    # labels: model tie
    ids = {f["id"]: i for i, f in enumerate(d.frags)}
    if d.labels and d.frags:
        line = ctx.driver([L.encode_resolve(d, ids)])[0]
        mres = {}
        for item in ([] if line == "-" else line.split(";")):
            k, _, v = item.partition(">")
            mres[k] = v
        for lab in d.labels:
            key = lab["key"]
            mv = mres.get(key.encode("utf-8").hex() or "00")
            mid = "!" if mv in ("!", None) else d.frags[int(mv)]["id"]
            got = p.resolved.get(key)
            distinct = L.distinct_distances(d, lab)
            ctx.case(f"label:{source}:{variant}:{key}", nontrivial=distinct)
            ctx.count("labels")
            ctx.count("labels:grouped" if lab["sibling"] else "labels:free")
            if mid == "!":
                ctx.count("labels:unresolvable")
            if not distinct:
                ctx.count("labels:equidistant-candidates")
            if got != mid and (distinct or lab["sibling"]):
                ctx.disagree("label -> fragment", {"source": source, "variant": variant, "label": key,
                                                    "group_fragment": lab["sibling"]}, got, mid)
            # (d) a grouped label belongs to the fragment of its group
            if lab["sibling"] is not None and got != lab["sibling"]:
                ctx.violation("C13:label-not-resolved-to-group-fragment",
                              f"{source} [{variant}]: label {key!r} is grouped with fragment {lab['sibling']} but resolves to {got}",
                              rp({"label": key, "group_fragment": lab["sibling"], "resolved": got}))
            # (d') a free label resolves to the nearest fragment above it (brute force over exact rationals)
            if lab["sibling"] is None and distinct:
                cand = sorted(d.frags, key=lambda f: L.l1(f["pos"], lab["pos"]))[:5]
                want = next((f["id"] for f in cand if f["pos"][1] < lab["pos"][1]), "!")
                if got != want:
                    ctx.violation("C13:label-not-nearest-fragment-above",
                                  f"{source} [{variant}]: label {key!r} resolves to {got}; the nearest of the 5 closest fragments that lies above it is {want}",
                                  rp({"label": key, "resolved": got, "expected": want}))
            # a labelled fragment parses to the same molecule as the fragment itself, named after the label
            if got not in ("!", None) and key in p.by_key:
                kc = p.by_key[key]
                fc = p.by_frag.get(got, ("missing", None))
                if L.same_constitution(kc[0], fc[0]) is not None:
                    ctx.violation("C13:labelled-fragment-differs", f"{source} [{variant}]: CDXMLFile[{key!r}] differs from its fragment {got}",
                                  rp({"label": key}))
                if not isinstance(kc[0], str) and kc[2] != key:
                    ctx.violation("C13:molecule-not-named-after-label", f"{source} [{variant}]: CDXMLFile[{key!r}].name == {kc[2]!r}", rp({"label": key}))
    # (c) determinism: a second, independent CDXMLFile object, used in a parse - edit - parse session: every fragment
    #     and every label is requested, the returned molecule is edited (moved, renamed, atoms changed and deleted) and
    #     requested again (labels: by position and by label, three times); the LAST answer must be the fresh parse
    if session is None:      # quick tier: sessions on the drawings as bundled / generated and their mirror images
        session = (not ctx.quick()) or variant in ("original", "mirror")
    if not session:
        return d, p
    p2 = Parsed(path, session=True)
    ctx.count("sessions:parse-edit-parse", len(p2.by_frag) + len(p2.by_key))
    for what in p2.aliased[:1]:
        ctx.violation("C13:session:same-object-handed-out-twice", f"{source} [{variant}] {what}: a later request returned the object of an earlier request",
                      rp({"what": what}))
    for fid, (c1, x1) in p.by_frag.items():
        c2, x2 = p2.by_frag.get(fid, ("missing", None))
        if L.same_constitution(c1, c2) is not None:
            ctx.violation("C13:nondeterministic-constitution",
                          f"{source} [{variant}] fragment {fid}: parsing it again after the first result was edited differs from a fresh parse: "
                          f"{L.same_constitution(c1, c2)}", rp({"fragment": fid, "session": True}))
        elif x1 is not None and not coords_equal(x1, x2):
            ctx.violation("C13:nondeterministic-coordinates",
                          f"{source} [{variant}] fragment {fid}: two parses give different coordinates (max dev {max_dev(x1, x2):.3g})",
                          rp({"fragment": fid, "session": True}))
    for k, (c1, x1, n1) in p.by_key.items():
        c2, x2, n2 = p2.by_key.get(k, ("missing", None, None))
        diff = L.same_constitution(c1, c2)
        if diff is None and not isinstance(c1, str):
            if n1 != n2:
                diff = f"name {n2!r} instead of {n1!r}"
            elif not coords_equal(x1, x2):
                diff = f"coordinates differ by up to {max_dev(x1, x2):.3g}"
        if diff is not None:
            ctx.violation("C13:session:label-parsed-again-differs",
                          f"{source} [{variant}] CDXMLFile[{k!r}] requested again on the same object, after the first result was edited, "
                          f"differs from a fresh parse: {diff}", rp({"label": k, "session": True}))
    if p.resolved != p2.resolved:
        ctx.violation("C13:nondeterministic-label-resolution", f"{source} [{variant}]: two parses resolve labels differently", rp())
    return d, p


def finite(x) -> bool:
    import numpy as np

    return bool(np.all(np.isfinite(x)))


def coords_equal(a, b) -> bool:
    import numpy as np

    return a is not None and b is not None and a.shape == b.shape and bool(np.allclose(a, b, atol=COORD_TOL, rtol=0, equal_nan=True))


def max_dev(a, b) -> float:
    import numpy as np

    return float(np.nanmax(np.abs(a - b))) if a.shape == b.shape and a.size else float("nan")


def oracle_wedge_direction(ctx, f, coords, rp):
    """the wide end of a wedge bond lies towards the viewer (+z) of its narrow end, of a hashed wedge away from it
    (fragments without nested fragments: atoms are then in node order)"""
    nodes = [n for n in f["elt"].findall("n") if n.get("NodeType") != "MultiAttachment"]
    idx = {n.get("id"): i for i, n in enumerate(nodes)}
    for b in f["elt"].findall("b"):
        disp = b.get("Display")
        if disp not in L.BEGIN_END or b.get("B") not in idx or b.get("E") not in idx:
            continue
        narrow, wide = idx[b.get("B")], idx[b.get("E")]
        if disp.endswith("End"):
            narrow, wide = wide, narrow
        dz = float(coords[wide][2] - coords[narrow][2])
        want = 1 if disp.startswith("Wedge") and not disp.startswith("WedgedHash") else -1
        ctx.count("wedge-direction:bonds")
        if dz * want <= 1e-9:
            ctx.violation("C13:wedge-direction",
                          f"{rp['source']} [{rp['variant']}] fragment {rp.get('fragment')}: {disp} bond {b.get('B')}->{b.get('E')}: "
                          f"wide end at dz={dz:+.3f} relative to the narrow end",
                          dict(rp, bond=[b.get("B"), b.get("E")], display=disp, dz=dz))


def oracle_counts(ctx, c, dc, rp):
    """plain arithmetic on what is drawn (no model involved)"""
    what = None
    kind = None
    if c["charge"] != dc["charge"]:
        kind, what = "C13:constitution:total-charge", f"total charge {c['charge']} but the drawn charges sum to {dc['charge']}"
    elif c["mult"] != dc["radicals"] + 1:
        kind, what = "C13:constitution:multiplicity", f"multiplicity {c['mult']} but {dc['radicals']} radical electrons are drawn"
    elif sum(a[4] for a in c["atoms"]) != dc["charge"]:
        kind, what = "C13:constitution:formal-charges", "formal charges of the atoms do not sum to the drawn charges"
    elif len(c["atoms"]) != dc["atoms"] - 2 * dc["joins"]:
        kind, what = "C13:constitution:atom-count", f"{len(c['atoms'])} atoms for {dc['atoms']} drawn nodes and {dc['joins']} nested fragments"
    elif sorted(a[1] for a in c["atoms"] if a[1] is not None) != sorted(dc["isotopes"]):
        kind, what = "C13:constitution:isotopes", f"isotopes {sorted(a[1] for a in c['atoms'] if a[1] is not None)} vs drawn {sorted(dc['isotopes'])}"
    elif not dc["hapto"]:
        if len(c["bonds"]) != dc["bonds"] - dc["joins"]:
            kind, what = "C13:constitution:bond-count", f"{len(c['bonds'])} bonds for {dc['bonds']} drawn bonds and {dc['joins']} nested fragments"
        elif dc["joins"] == 0:
            drawn = sorted({"1": 1, "2": 2, "3": 3, "4": 4, "1.5": 20, "dash": 98}.get(o, -1) for o in dc["orders"])
            if -1 not in drawn and drawn != sorted(b[2] for b in c["bonds"]):
                kind, what = "C13:constitution:bond-orders", f"bond types {sorted(b[2] for b in c['bonds'])} vs drawn {drawn}"
            elif len(c["ap"]) < dc["ext_points"]:
                kind, what = "C13:constitution:attachment-points", f"{len(c['ap'])} attachment points, {dc['ext_points']} external connection points drawn"
    if kind:
        ctx.violation(kind, f"{rp['source']} [{rp['variant']}] fragment {rp.get('fragment')}: {what}", rp)


# --------------------------------------------------------------------------------------
# variants
# --------------------------------------------------------------------------------------
def compare_variant(ctx, source, vname, base, var, id_labels=False, text=None, id_offset=0):
    """the variant is the SAME drawing: per fragment (fragment ids are kept) the constitution — node by node through
    the node ids — and the HANDEDNESS of every non-planar centre (same sign for the same centre and the same ordered
    neighbours, identified by node id) are unchanged; labels resolve to the same fragment"""
    (d0, p0), (d1, p1) = base, var
    kind = vname.split(":")[0]
    hand = []      # (fid, id-quads, coords0, index-quads0, coords1, index-quads1)
    for f0 in d0.frags:
        fid = f0["id"]
        c0, x0 = p0.by_frag.get(fid, ("missing", None))
        c1, x1 = p1.by_frag.get(fid, ("missing", None))
        f1 = d1.frag_by_id(fid)
        ids0 = L.atom_node_ids(f0["elt"]) if not isinstance(c0, str) else None
        ids1 = L.atom_node_ids(f1["elt"]) if f1 is not None and not isinstance(c1, str) else None
        ok_ids = (ids0 is not None and ids1 is not None and len(ids0) == len(c0["atoms"]) and len(ids1) == len(c1["atoms"])
                  and len({i for i, _ in ids0}) == len(ids0))
        if ok_ids:
            i0 = [i for i, _ in ids0]
            i1 = [str(int(i) - id_offset) if id_offset else i for i, _ in ids1]
            ok_ids = sorted(i0) == sorted(i1)
        if ok_ids:
            a, b = L.constitution_by_id(c0, i0), L.constitution_by_id(c1, i1)
            diff = None if a == b else next((f"{k}: {a[k]} vs {b[k]}"[:300] for k in ("charge", "mult", "ap", "bonds", "atoms") if a[k] != b[k]), "?")
        else:
            ctx.count("variants:fragments-compared-by-position")
            if id_labels:
                c0, c1 = L.strip_id_labels(c0, True), L.strip_id_labels(c1, True)
            diff = L.same_constitution(c0, c1) if kind != "reorder" else None
        if diff:
            ctx.violation(f"C13:{kind}:constitution-changed",
                          f"{source} [{vname}] fragment {fid}: constitution differs from the original drawing: {diff}",
                          replay_of(source, vname, {"fragment": fid}, text))
            continue
        if ok_ids and x0 is not None and x1 is not None:
            quads0 = L.centres(None, c0)
            if quads0:
                pos1 = {nid: k for k, nid in enumerate(i1)}
                quads1 = [tuple(pos1[i0[a]] for a in q) for q in quads0]
                hand.append((fid, [tuple(i0[a] for a in q) for q in quads0], x0, quads0, x1, quads1))
    if hand:
        outs = ctx.driver([L.encode_orient(x, q) for (_, _, x0, q0, x1, q1) in hand for (x, q) in ((x0, q0), (x1, q1))])
        for k, (fid, idq, x0, q0, x1, q1) in enumerate(hand):
            s0, s1 = outs[2 * k].split(","), outs[2 * k + 1].split(",")
            nonplanar = sum(1 for s_ in s0 if s_ != "0")
            ctx.case(f"same-handedness:{source}:{vname}:{fid}", nontrivial=nonplanar > 0)
            ctx.count(f"variants:{kind}:centre-triples", len(q0))
            ctx.count(f"variants:{kind}:nonplanar-centre-triples", nonplanar)
            bad = [(q, a, b) for q, a, b in zip(idq, s0, s1) if a != b]
            if bad:
                q, a, b = bad[0]
                ctx.violation(f"C13:{kind}:handedness-changed",
                              f"{source} [{vname}] fragment {fid}: the centre drawn as node {q[0]} with neighbour nodes {list(q[1:])} has "
                              f"handedness {a} in the original and {b} in the same drawing written in another order "
                              f"({len(bad)} of {len(idq)} centre triples differ)",
                              replay_of(source, vname, {"fragment": fid, "centre_node": q[0], "neighbour_nodes": list(q[1:]),
                                                        "original": a, "variant_sign": b}, text))
    for lab in d0.labels:
        k = lab["key"]
        lab1 = next((x for x in d1.labels if x["key"] == k), None)
        if not L.distinct_distances(d0, lab) or lab1 is None or not L.distinct_distances(d1, lab1) or k in d0.dup_keys:
            continue      # (ties in either drawing are outside the property; a key drawn twice: which one is "the first"
            #               depends on the document order)
        if p0.resolved.get(k) != p1.resolved.get(k):
            ctx.violation(f"C13:{kind}:label-resolves-differently",
                          f"{source} [{vname}]: label {k!r} resolves to {p1.resolved.get(k)} instead of {p0.resolved.get(k)}",
                          replay_of(source, vname, {"label": k}, text))


def mirror_check(ctx, source, base, mir, text=None):
    """(b) same constitution; handedness of every non-planar centre inverted"""
    (d0, p0), (d1, p1) = base, mir
    todo = []       # (fragment id, constitution, centre triples, number of stereo marks, coords, mirrored coords)
    for f in d0.frags:
        fid = f["id"]
        c0, x0 = p0.by_frag.get(fid, ("missing", None))
        c1, x1 = p1.by_frag.get(fid, ("missing", None))
        nstereo = sum(1 for b in f["elt"].iter("b") if b.get("Display") in L.STEREO_DISPLAYS)
        if isinstance(c0, str) or isinstance(c1, str):
            if c0 != c1:
                ctx.violation("C13:mirror:constitution-changed", f"{source} fragment {fid}: {c0 if isinstance(c0, str) else 'parsed'} vs mirrored {c1 if isinstance(c1, str) else 'parsed'}",
                              replay_of(source, "mirror", {"fragment": fid}, text))
            continue
        diff = L.same_constitution(c0, c1)
        if diff:
            ctx.violation("C13:mirror:constitution-changed", f"{source} fragment {fid}: {diff}", replay_of(source, "mirror", {"fragment": fid}, text))
            continue
        quads = L.centres(None, c0)
        if not quads or x0 is None or x1 is None:
            ctx.case(f"mirror:{source}:{fid}", nontrivial=False)
            continue
        todo.append((fid, c0, quads, nstereo, x0, x1))
    if not todo:
        return
    # one driver call for the whole file: the drawing's and the mirrored drawing's coordinates of every fragment
    outs = ctx.driver([L.encode_orient(x, q) for (_, _, q, _, x0, x1) in todo for x in (x0, x1)])
    flip = {"+": "-", "-": "+", "0": "0"}
    for k, (fid, c0, quads, nstereo, x0, x1) in enumerate(todo):
        s0, s1 = outs[2 * k].split(","), outs[2 * k + 1].split(",")
        nonplanar = sum(1 for s in s0 if s != "0")
        ctx.case(f"mirror:{source}:{fid}", nontrivial=nonplanar > 0)
        ctx.count("mirror:fragments")
        ctx.count("mirror:fragments-with-stereo-marks" if nstereo else "mirror:fragments-without-stereo-marks")
        ctx.count("mirror:centre-triples", len(quads))
        ctx.count("mirror:nonplanar-centre-triples", nonplanar)
        bad = [(q, a, b) for q, a, b in zip(quads, s0, s1) if b != flip[a]]
        if bad:
            q, a, b = bad[0]
            centre = q[0]
            el = c0["atoms"][centre][0]
            kind = "C13:mirror:handedness-not-inverted" if a != "0" and b != "0" else "C13:mirror:planar-in-one-drawing-only"
            ctx.violation(kind,
                          f"{source} fragment {fid}: centre atom {centre} (Z={el}) with neighbours {list(q[1:])}: handedness {a} in the "
                          f"original, {b} after mirroring the stereo marks ({len(bad)} of {len(quads)} centre triples wrong)",
                          replay_of(source, "mirror", {"fragment": fid, "centre": centre, "neighbours": list(q[1:]),
                                                       "original": a, "mirrored": b, "bad_triples": len(bad)}, text))


# --------------------------------------------------------------------------------------
# synthetic drawings
# --------------------------------------------------------------------------------------
def xml_attrs(d: dict) -> str:
    from xml.sax.saxutils import quoteattr

    return " ".join(f"{k}={quoteattr(str(v))}" for k, v in d.items() if v is not None)


class Synth:
    """builder of a CDXML text with small fragments laid out on a grid"""

    def __init__(self, rng):
        self.rng = rng
        self.next_id = 1000
        self.items = []   # xml strings directly below <page>

    def nid(self) -> int:
        self.next_id += 1
        return self.next_id

    def fragment(self, cx, cy, *, spec="random", depth=0):
        """returns (xml, bounding box); `spec` selects the family of node / bond attributes"""
        rng = self.rng
        n = rng.range(2, 6) if spec != "pair" else 2
        pts = [(cx + 14.4 * i, cy + (7.2 if i % 2 else 0.0)) for i in range(n)]
        ids = [self.nid() for _ in range(n)]
        nodes, bonds = [], []
        broken = spec == "malformed"
        for i, (x, y) in enumerate(pts):
            a = {"id": ids[i], "p": f"{x:.2f} {y:.2f}"}
            inner = ""
            if spec in ("random", "malformed", "nested", "hapto"):
                a["Element"] = rng.weighted([(None, 6), ("7", 2), ("8", 2), ("9", 1), ("15", 1), ("17", 1), ("26", 1), ("1", 1), ("0", 1)])
                a["Charge"] = rng.weighted([(None, 8), ("1", 2), ("-1", 2), ("2", 1), ("+1", 1), (" 1", 1), ("0", 1)])
                a["Isotope"] = rng.weighted([(None, 10), ("13", 1), ("2", 1), ("18", 1)])
                a["Radical"] = rng.weighted([(None, 8), ("Doublet", 2), ("Singlet", 1), ("Triplet", 1), ("None", 1)])
                a["NumHydrogens"] = rng.weighted([(None, 6), ("0", 1), ("1", 1), ("3", 1)])
                a["AtomNumber"] = rng.weighted([(None, 8), ("1", 1), ("12", 1), ("foo", 1)])
                nt = rng.weighted([(None, 12), ("ExternalConnectionPoint", 2), ("Nickname", 1), ("GenericNickname", 1), ("Unspecified", 1), ("Unknown", 1)])
                if i in (0,) and spec in ("nested", "hapto"):
                    nt = None
                if nt == "ExternalConnectionPoint":
                    a["ExternalConnectionNum"] = rng.weighted([(None, 1), ("1", 2), ("2", 1), ("", 1)])
                if nt == "GenericNickname":
                    a["GenericNickname"] = rng.weighted([(None, 1), ("R", 2), ("Ar", 1)])
                if nt == "Unspecified":
                    if not (broken and rng.chance(1, 2)):
                        inner = f'<t p="{x:.2f} {y:.2f}"><s face="96">{rng.choice(["R", "X", "R1"])}</s></t>'
                a["NodeType"] = nt
            if broken and rng.chance(1, 6):
                a["Element"] = rng.choice(["abc", "200", "-3", "6.0"])
            if broken and rng.chance(1, 8):
                a["Charge"] = rng.choice(["+", "1.0", ""])
            nodes.append((a, inner))
        for i in range(1, n):
            j = rng.below(i) if rng.chance(1, 3) else i - 1
            b = {"id": self.nid(), "B": ids[j], "E": ids[i]}
            b["Order"] = rng.weighted([(None, 8), ("1", 2), ("2", 3), ("3", 1), ("1.5", 2), ("4", 1)])
            b["Display"] = rng.weighted([(None, 10), ("Dash", 2), ("Wavy", 1), ("Solid", 1)])
            if broken and rng.chance(1, 5):
                b["Order"] = rng.choice(["2.5", "x", "7", "0.5", ""])
            if broken and rng.chance(1, 8):
                b["E"] = 999999
            bonds.append(b)
        extra = ""
        if spec == "nested" and depth < 2:
            # a place-holder node carrying a nested fragment, bonded to the first node
            ph = self.nid()
            x, y = cx - 14.4, cy
            sub_xml, _ = self.nested_fragment(x, y, depth + 1)
            nodes.append(({"id": ph, "p": f"{x:.2f} {y:.2f}", "NodeType": rng.choice(["Fragment", "Nickname"])}, sub_xml))
            if rng.chance(1, 12):   # the place-holder bonded to itself only: nothing to join to
                bonds.append({"id": self.nid(), "B": ph, "E": ph})
            else:
                bonds.append({"id": self.nid(), "B": ids[0], "E": ph})
            if rng.chance(1, 10):   # a place-holder with two bonds is not a valid attachment
                bonds.append({"id": self.nid(), "B": ids[1], "E": ph})
        if spec == "hapto":
            m = self.nid()
            k = rng.range(1, min(3, n - 1))
            att = " ".join(str(ids[1 + t]) for t in range(k)) if not rng.chance(1, 12) else ""
            nodes.append(({"id": m, "p": f"{cx:.2f} {cy - 14.4:.2f}", "NodeType": "MultiAttachment", "Attachments": att}, ""))
            if rng.chance(1, 2):
                bonds.append({"id": self.nid(), "B": m, "E": ids[0]})
            else:
                bonds.append({"id": self.nid(), "B": ids[0], "E": m})
        xs = [p[0] for p in pts] + [cx - 14.4]
        ys = [p[1] for p in pts] + [cy - 14.4]
        bb = (min(xs), min(ys), max(xs), max(ys))
        body = "".join(f"<n {xml_attrs(a)}>{inner}</n>" for a, inner in nodes) + "".join(f"<b {xml_attrs(b)}/>" for b in bonds)
        return body + extra, bb

    def nested_fragment(self, x, y, depth):
        rng = self.rng
        ep, a1, a2 = self.nid(), self.nid(), self.nid()
        nodes = [({"id": ep, "p": f"{x + 3:.2f} {y + 2:.2f}", "NodeType": "ExternalConnectionPoint", "ExternalConnectionNum": "1"}, ""),
                 ({"id": a1, "p": f"{x - 14.4:.2f} {y + 1:.2f}", "Element": rng.choice([None, "7", "8"]), "Charge": rng.choice([None, "1", "-1"])}, ""),
                 ({"id": a2, "p": f"{x - 28.8:.2f} {y - 5:.2f}", "Radical": rng.choice([None, "Doublet"])}, "")]
        bonds = [{"id": self.nid(), "B": ep, "E": a1}, {"id": self.nid(), "B": a1, "E": a2, "Order": rng.choice([None, "2"])}]
        if rng.chance(1, 10):
            nodes[0][0]["NodeType"] = None      # no attachment point inside: cannot be joined
        if depth < 2 and rng.chance(1, 3):
            ph = self.nid()
            sub, _ = self.nested_fragment(x - 43.2, y - 5, depth + 1)
            nodes.append(({"id": ph, "p": f"{x - 43.2:.2f} {y - 5:.2f}", "NodeType": "Fragment"}, sub))
            bonds.append({"id": self.nid(), "B": a2, "E": ph})
        body = "".join(f"<n {xml_attrs(a)}>{inner}</n>" for a, inner in nodes) + "".join(f"<b {xml_attrs(b)}/>" for b in bonds)
        return f'<fragment id="{self.nid()}">{body}</fragment>', None

    def add_fragment(self, cx, cy, spec, label=None, label_pos=None, grouped=False):
        fid = self.nid()
        body, bb = self.fragment(cx, cy, spec=spec)
        frag = f'<fragment id="{fid}" BoundingBox="{bb[0]:.2f} {bb[1]:.2f} {bb[2]:.2f} {bb[3]:.2f}">{body}</fragment>'
        lab = ""
        if label is not None:
            lx, ly = label_pos
            lab = f'<t id="{self.nid()}" p="{lx:.2f} {ly:.2f}"><s face="1">{label}</s></t>'
        if grouped:
            self.items.append(f'<group id="{self.nid()}">{frag}{lab}</group>')
        else:
            self.items.append(frag)
            if lab:
                self.items.append(lab)
        return fid

    def add_label(self, label, x, y, face="1"):
        self.items.append(f'<t id="{self.nid()}" p="{x:.2f} {y:.2f}"><s face="{face}">{label}</s></t>')

    def text(self) -> str:
        return ('<?xml version="1.0" encoding="UTF-8" ?>\n<CDXML BondLength="14.40"><page id="1">' + "".join(self.items) + "</page></CDXML>\n")


def synth_constitution(rng, nfrag=14):
    """fragments of every family, each with its label below it"""
    s = Synth(rng)
    specs = ["random", "random", "nested", "hapto", "malformed", "random", "nested"]
    for i in range(nfrag):
        cx, cy = 60.0 + 130.0 * (i % 4) + rng.below(900) / 100, 80.0 + 95.0 * (i // 4) + rng.below(900) / 100
        spec = specs[i % len(specs)]
        s.add_fragment(cx, cy, spec, label=f"m{i}", label_pos=(cx + 10, cy + 30 + rng.below(500) / 100), grouped=rng.chance(1, 4))
    return s.text()


RADICAL_ATTR = {0: None, 1: "Doublet", 2: "Singlet"}


def synth_charge_grid(rng, thorough: bool):
    """CONTRACTED LABELS WITH CHARGE AND SPIN: a skeleton of three atoms carrying formal charge `o` (on one atom, or split
    over two) and radical `r`, bonded to a place-holder whose nested fragment carries net charge `q` and radical `s` —
    the full grid of sign combinations, including every case where the total is exactly 0 although neither part is
    neutral (zwitterions across the label boundary), and nested-in-nested labels in the thorough tier."""
    s = Synth(rng)
    charges = [-2, -1, 0, 1, 2]
    spins = [(0, 0), (1, 0), (0, 1), (1, 1), (2, 1)] if not thorough else [(a, b) for a in (0, 1, 2) for b in (0, 1, 2)]
    k = 0
    for q in charges:
        for o in charges:
            for (sn, r) in spins:
                cx, cy = 70.0 + 120.0 * (k % 6), 70.0 + 70.0 * (k // 6)
                k += 1
                ids = [s.nid() for _ in range(3)]
                ph, ep, b1, b2 = s.nid(), s.nid(), s.nid(), s.nid()
                split = o != 0 and rng.chance(1, 2)
                outer = []
                for i, nid in enumerate(ids):
                    a = {"id": nid, "p": f"{cx + 14.4 * i:.2f} {cy + (7.2 if i % 2 else 0):.2f}"}
                    if i == 1:
                        ch = (o - (1 if o > 0 else -1)) if split else o
                        a["Charge"] = str(ch) if ch else None
                        a["Element"] = rng.choice([None, "7", "8", "15"])
                    if i == 2 and split:
                        a["Charge"] = "1" if o > 0 else "-1"
                    if i == 2:
                        a["Radical"] = RADICAL_ATTR[r]
                    outer.append(a)
                deep = ""
                inner_nodes = [{"id": ep, "p": f"{cx - 11:.2f} {cy + 2:.2f}", "NodeType": "ExternalConnectionPoint", "ExternalConnectionNum": "1"},
                               {"id": b1, "p": f"{cx - 28.8:.2f} {cy + 1:.2f}", "Charge": str(q) if q else None, "Element": rng.choice([None, "7", "8"])},
                               {"id": b2, "p": f"{cx - 43.2:.2f} {cy - 5:.2f}", "Radical": RADICAL_ATTR[sn]}]
                inner_bonds = [{"id": s.nid(), "B": ep, "E": b1}, {"id": s.nid(), "B": b1, "E": b2}]
                if thorough and rng.chance(1, 3):
                    # a label inside the label, carrying a charge of its own that the middle level compensates
                    ph2, ep2, c1 = s.nid(), s.nid(), s.nid()
                    dq = rng.choice([-1, 1])
                    sub2 = (f'<fragment id="{s.nid()}"><n {xml_attrs({"id": ep2, "p": f"{cx - 54:.2f} {cy - 4:.2f}", "NodeType": "ExternalConnectionPoint"})}></n>'
                            f'<n {xml_attrs({"id": c1, "p": f"{cx - 70:.2f} {cy - 9:.2f}", "Charge": str(dq)})}></n>'
                            f'<b {xml_attrs({"id": s.nid(), "B": ep2, "E": c1})}/></fragment>')
                    inner_nodes[1]["Charge"] = str(q - dq) if q - dq else None
                    deep = f'<n {xml_attrs({"id": ph2, "p": f"{cx - 57.6:.2f} {cy - 5:.2f}", "NodeType": "Fragment"})}>{sub2}</n>'
                    inner_bonds.append({"id": s.nid(), "B": b2, "E": ph2})
                sub = (f'<fragment id="{s.nid()}">' + "".join(f"<n {xml_attrs(a)}></n>" for a in inner_nodes) + deep +
                       "".join(f"<b {xml_attrs(b)}/>" for b in inner_bonds) + "</fragment>")
                body = ("".join(f"<n {xml_attrs(a)}></n>" for a in outer) +
                        f'<n {xml_attrs({"id": ph, "p": f"{cx - 14.4:.2f} {cy:.2f}", "NodeType": rng.choice(["Fragment", "Nickname"])})}>{sub}</n>' +
                        f'<b {xml_attrs({"id": s.nid(), "B": ids[0], "E": ids[1]})}/><b {xml_attrs({"id": s.nid(), "B": ids[1], "E": ids[2]})}/>'
                        f'<b {xml_attrs({"id": s.nid(), "B": ids[0], "E": ph})}/>')
                fid = s.nid()
                s.items.append(f'<fragment id="{fid}" BoundingBox="{cx - 14.4:.2f} {cy - 5:.2f} {cx + 28.8:.2f} {cy + 7.2:.2f}">{body}</fragment>')
                s.add_label(f"q{q}o{o}s{sn}r{r}", cx, cy + 25)
    return s.text()


def synth_labels(rng):
    """label placement: free labels above/below, far labels (5-nearest cut), grouped labels not nearest-above"""
    s = Synth(rng)
    n = rng.range(2, 9)
    centres = []
    for i in range(n):
        cx, cy = 50.0 + rng.below(40000) / 100, 60.0 + rng.below(50000) / 100
        centres.append((cx, cy))
        style = rng.weighted([("below", 5), ("above", 2), ("grouped-below", 2), ("grouped-above", 2), ("none", 1)])
        if style == "none":
            s.add_fragment(cx, cy, "pair")
        else:
            dy = (25 + rng.below(1500) / 100) * (1 if "below" in style else -1)
            s.add_fragment(cx, cy, "pair", label=f"L{i}", label_pos=(cx + rng.below(3000) / 100 - 10, cy + dy), grouped=style.startswith("grouped"))
    for j in range(rng.range(0, 3)):     # labels placed anywhere; also a non-bold text that is no label
        s.add_label(f"X{j}", 30.0 + rng.below(45000) / 100, 30.0 + rng.below(56000) / 100)
    s.add_label("plain", 10.0, 10.0, face="0")
    return s.text()


# --------------------------------------------------------------------------------------
# process level: fresh interpreters, hash seeds, parse - drop - parse sequences
# --------------------------------------------------------------------------------------
CHILD_TIMEOUT = 300


def start_child(files, hashseed):
    """a fresh interpreter parsing `files` in this order (hard timeout when collected)"""
    import subprocess
    from harness.common import VERIF, repo_python

    env = dict(os.environ)
    env["PYTHONHASHSEED"] = str(hashseed)
    env["PYTHONWARNINGS"] = "ignore"
    return subprocess.Popen([repo_python(), str(VERIF / "harness" / "c13_child.py"), str(VERIF)] + [str(f) for f in files],
                            stdout=subprocess.PIPE, stderr=subprocess.PIPE, text=True, env=env)


def collect_child(proc):
    import subprocess

    try:
        out, err = proc.communicate(timeout=CHILD_TIMEOUT)
    except subprocess.TimeoutExpired:
        proc.kill()
        proc.communicate()
        return None, "timeout"
    if proc.returncode != 0:
        return None, (err or "")[-600:]
    try:
        return json.loads(out[out.index("{"):]), None
    except ValueError:
        return None, "unparsable output: " + out[:200]


def snapshot_of(parsed):
    from harness import c13_child

    return json.loads(json.dumps(c13_child.snapshot(parsed)))


def diff_snapshots(a, b):
    """first difference between two snapshots of one drawing (coordinates within COORD_TOL), or None"""
    import numpy as np

    def arr(h):
        return None if h is None else np.frombuffer(bytes.fromhex(h), dtype="float64")

    if a["resolved"] != b["resolved"]:
        k = next(k for k in set(a["resolved"]) | set(b["resolved"]) if a["resolved"].get(k) != b["resolved"].get(k))
        return f"label {k!r} resolves to fragment {a['resolved'].get(k)} vs {b['resolved'].get(k)}"
    for part in ("frags", "keys"):
        if set(a[part]) != set(b[part]):
            return f"{part} listed differ"
        for k in a[part]:
            ca, cb = a[part][k], b[part][k]
            if ca[0] != cb[0]:
                return f"{part[:-1]} {k!r}: constitution differs"
            xa, xb = arr(ca[1]), arr(cb[1])
            if (xa is None) != (xb is None) or (xa is not None and (xa.shape != xb.shape or not np.allclose(xa, xb, atol=COORD_TOL, rtol=0, equal_nan=True))):
                dev = float(np.nanmax(np.abs(xa - xb))) if xa is not None and xb is not None and xa.shape == xb.shape and xa.size else float("nan")
                return f"{part[:-1]} {k!r}: coordinates differ by up to {dev:.3g}"
            if part == "keys" and ca[2] != cb[2]:
                return f"label {k!r}: name {ca[2]!r} vs {cb[2]!r}"
    return None


def process_level_checks(ctx, files):
    """(e) THE PARSE OF A DRAWING DOES NOT DEPEND ON THE PROCESS IT HAPPENS IN:
    reference = each drawing parsed alone in a fresh interpreter (PYTHONHASHSEED=0);
    * fresh interpreters under other hash seeds (1..4 and `random`) parsing all the drawings one after the other must
      give the same molecules, coordinates and label -> fragment;
    * in THIS process the drawings are parsed, dropped (garbage collected) and parsed again in several orders — each
      parse must equal the reference (no state may survive a dropped CDXMLFile)."""
    import gc

    files = [Path(f) for f in files]
    refs_p = [(f, start_child([f], 0)) for f in files]
    seeds = ["1", "2", "random"] if ctx.quick() else ["1", "2", "3", "4", "random", "random"]
    order2 = list(reversed(files))
    multi_p = [(hs, start_child(files if i % 2 == 0 else order2, hs)) for i, hs in enumerate(seeds)]
    refs = {}
    for f, pr in refs_p:
        snap, err = collect_child(pr)
        if snap is None:
            ctx.disagree("fresh interpreter could not parse a drawing", str(f), err, "a snapshot")
            continue
        refs[str(f)] = snap[str(f)]
    for hs, pr in multi_p:
        snap, err = collect_child(pr)
        ctx.count("process:hash-seed-runs")
        if snap is None:
            ctx.disagree("fresh interpreter could not parse the drawings", f"PYTHONHASHSEED={hs}", err, "snapshots")
            continue
        for f in files:
            if str(f) not in refs:
                continue
            d = diff_snapshots(refs[str(f)], snap[str(f)])
            ctx.case(f"process:hashseed:{hs}:{f.name}", nontrivial=True)
            if d:
                ctx.violation("C13:process:depends-on-hash-seed-or-earlier-parses",
                              f"{rel(f)} parsed in a fresh interpreter with PYTHONHASHSEED={hs} (after other drawings) differs from the same file "
                              f"parsed alone with PYTHONHASHSEED=0: {d}", replay_of(rel(f), "process", {"hashseed": hs, "files": [rel(x) for x in files], "diff": d}))
                break
    # parse - drop - parse in this process, several orders
    rng = ctx.rng
    orders = [list(files), list(reversed(files))]
    for _ in range(1 if ctx.quick() else 4):
        o = list(files)
        rng.shuffle(o)
        orders.append(o)
    found = False
    for oi, order in enumerate(orders):
        for f in order:
            if str(f) not in refs or found:
                continue
            with warnings.catch_warnings():
                warnings.simplefilter("ignore")
                p = Parsed(f)
            snap = snapshot_of(p)
            del p
            gc.collect()
            ctx.case(f"process:sequence:{oi}:{f.name}", nontrivial=True)
            ctx.count("process:parse-drop-parse")
            d = diff_snapshots(refs[str(f)], snap)
            if d:
                ctx.violation("C13:process:parse-depends-on-earlier-parses",
                              f"{rel(f)} parsed in a process that had parsed and dropped other drawings before differs from the same file parsed "
                              f"in a fresh interpreter: {d}", replay_of(rel(f), "process", {"order": [rel(x) for x in order], "diff": d}))
                found = True


# --------------------------------------------------------------------------------------
def run(ctx):
    from harness.common import REPO, VERIF

    ctx.rule = ("cases: (file variant, fragment) for the constitution [non-trivial = molli parses the fragment], (file variant, "
                "label) for label->fragment [non-trivial = no two fragments equidistant from the label], (drawing, fragment) for "
                "the mirror test [non-trivial = at least one non-planar centre triple]. Files: every bundled *.cdxml, synthetic "
                "drawings (random node/bond attribute families incl. nested, hapto and malformed records; random label "
                "placements incl. grouped labels above their fragment), and for each the variants mirror / permute / translate / "
                "renumber / reorder (nodes shuffled, bonds from the other end), compared node by node incl. handedness; every "
                "fragment and label also in a parse-edit-parse session on one CDXMLFile object. Distinct by (source, variant, fragment or label).")
    ctx.assumptions += [
        "C13 partial: the 3-D embedding heuristic (_cdxml_3dify_, mean plane by SVD, join geometry) is not modelled; its effect is "
        f"checked per drawing with the exact predicate `orient` (threshold {L.EPS} on 6 x signed volume) on the returned floats",
        "C13: a dashed bond (Display='Dash') is read as a Ligand bond, Order='1.5' as Aromatic — the code's reading of the drawing",
        f"C13: fractional bond orders compared within {L.F_ORDER_TOL}; coordinates of two parses within {COORD_TOL}",
        "C13: label resolution is compared only when it is decided with a margin of 1e-6 page units: no two fragments (nearly) equidistant "
        "(L1) from the label and no fragment centre at (nearly) the label's height — ties are decided by the rounding of the decimal text "
        "and are outside the property",
    ]
    ctx.proof(props=["Molli.Props.C13"], gen=["CdxmlConsts"])
    work = ctx.scratch
    rng = ctx.rng

    sources = []     # (source tag, path, text or None)
    for p in sorted((VERIF / "corpus" / "C13").glob("*.cdxml")):
        sources.append(("corpus:" + p.name, p, p.read_text()))
    for p in sorted((REPO / "molli" / "files").glob("*.cdxml")):
        sources.append((rel(p), p, None))
    nsyn = (3, 8) if ctx.quick() else (150, 500)
    for i in range(nsyn[0]):
        t = synth_constitution(rng, 14 if ctx.quick() else 20)
        p = work / f"synth_const_{i}.cdxml"
        p.write_text(t)
        sources.append((f"synthetic-constitution-{i}", p, t))
    for i in range(1 if ctx.quick() else 3):
        t = synth_charge_grid(rng, not ctx.quick())
        p = work / f"synth_charge_grid_{i}.cdxml"
        p.write_text(t)
        sources.append((f"synthetic-charge-grid-{i}", p, t))
    for i in range(nsyn[1]):
        t = synth_labels(rng)
        p = work / f"synth_labels_{i}.cdxml"
        p.write_text(t)
        sources.append((f"synthetic-labels-{i}", p, t))

    # (e) process level: chosen drawings with several non-commuting stereo marks, nested labels and many labels
    fdir = REPO / "molli" / "files"
    chosen = [fdir / n for n in ("BOX_cores.cdxml", "parser_demo2.cdxml", "parser_demo.cdxml", "charges_mult.cdxml")]
    if not ctx.quick():
        chosen += [p for p in sorted(fdir.glob("*.cdxml")) if p not in chosen] + [p for (_, p, t) in sources if t is not None][:6]
    chosen = [p for p in chosen if Path(p).exists()]
    process_level_checks(ctx, chosen)

    def one_source(si, source, path, text):
        base = check_file(ctx, path, source, "original", text)
        d0 = base[0]
        if si < 2:
            ctx.sample({"source": source, "fragments": len(d0.frags), "labels": len(d0.labels),
                        "variants": "mirror, permute, translate, renumber"})
        stem = f"v{si}"
        has_stereo = any(b.get("Display") in L.STEREO_DISPLAYS for b in d0.tree.getroot().iter("b"))
        # mirror
        if has_stereo:
            mp = L.variant_mirror(d0, work / f"{stem}_mirror.cdxml")
            mir = check_file(ctx, mp, source, "mirror", mp.read_text())
            mirror_check(ctx, source, base, mir)
            # new drawings: stereo marks re-drawn at random (other stereoisomers, marks at the other bond end), then mirrored
            nre = 6 if not ctx.quick() else (0 if "BOX_4position" in source else 1)
            for r in range(nre):
                sp = L.variant_restereo(d0, work / f"{stem}_restereo.cdxml", rng)
                tag = f"restereo-{r}"
                sb = check_file(ctx, sp, source, tag, sp.read_text())
                smp = L.variant_mirror(sb[0], work / f"{stem}_restereo_mirror.cdxml")
                sm = check_file(ctx, smp, source, tag + ":mirror", smp.read_text())
                mirror_check(ctx, source + ":" + tag, sb, sm, text=sp.read_text())
        # contracted labels of the drawing given a net charge that the skeleton compensates (and the other sign
        # combinations): total charge / multiplicity must follow the drawn formal charges and radicals
        if not source.startswith("synthetic-charge-grid"):
            combos = [(1, -1, False), (-1, 1, True)] if ctx.quick() else [(1, -1, False), (-1, 1, True), (1, 1, False), (-2, 1, True), (2, -2, False)]
            for (q, o, rad) in combos:
                cp = L.variant_charge_split(d0, work / f"{stem}_chargesplit.cdxml", q, o, rad)
                if cp is None:
                    break
                check_file(ctx, cp, source, f"charge-split:{q},{o},{int(rad)}", cp.read_text(), session=False)
        # the same drawing written in another order (nodes shuffled, bonds written from the other end): same
        # constitution and same handedness node by node — every stereo-bearing drawing in both tiers
        if has_stereo or not source.startswith("repo:") or not ctx.quick():
            for r in range(1 if ctx.quick() else 3):
                op = L.variant_reorder(d0, work / f"{stem}_reorder.cdxml", rng)
                compare_variant(ctx, source, f"reorder:{r}", base, check_file(ctx, op, source, f"reorder:{r}", op.read_text()),
                                text=op.read_text())
        # page-level variants; the quick tier gives every bundled drawing ONE of them (rotating with the seed), small
        # drawings (corpus, synthetic) and the thorough tier all three
        small = not source.startswith("repo:")
        pick = (si + ctx.seed) % 3
        if small or not ctx.quick() or pick == 0:
            pp = L.variant_permute(d0, work / f"{stem}_permute.cdxml", rng)
            compare_variant(ctx, source, "permute", base, check_file(ctx, pp, source, "permute", pp.read_text()), text=pp.read_text())
        if small or not ctx.quick() or pick == 1:
            dx, dy = Fraction(rng.range(-2000, 30000), 100), Fraction(rng.range(-2000, 30000), 100)
            tp = L.variant_translate(d0, work / f"{stem}_translate.cdxml", dx, dy)
            compare_variant(ctx, source, f"translate:{dx},{dy}", base,
                            check_file(ctx, tp, source, f"translate:{dx},{dy}", tp.read_text()), text=tp.read_text())
        if small or not ctx.quick() or pick == 2:
            off = rng.choice([100000, 250000, 7000000])
            rp_ = L.variant_renumber(d0, work / f"{stem}_renumber.cdxml", off)
            compare_variant(ctx, source, f"renumber:{off}", base,
                            check_file(ctx, rp_, source, f"renumber:{off}", rp_.read_text()), id_labels=True, text=rp_.read_text(),
                            id_offset=off)
        for f in work.glob(f"{stem}_*.cdxml"):
            f.unlink()

    for si, (source, path, text) in enumerate(sources):
        ctx.check_deadline()
        try:
            one_source(si, source, path, text)
        except (ValueError, KeyError, IndexError, TypeError, AttributeError, ZeroDivisionError, RuntimeError) as ex:
            # whatever the implementation returned could not even be examined: a broken correspondence, with a verdict
            import traceback

            ctx.disagree("the result of parsing a drawing could not be examined", {"source": source},
                         "".join(traceback.format_exception(ex))[-900:], "a molecule per fragment")
    # ... and again after this process has parsed (and dropped) hundreds of drawings
    process_level_checks(ctx, chosen[:2] if ctx.quick() else chosen)


# --------------------------------------------------------------------------------------
def replay(ctx, path):
    from harness.common import REPO

    path = Path(path)
    if not path.exists() and not path.is_absolute():
        from harness.common import VERIF

        path = VERIF / path
    obj = json.loads(path.read_text())
    r = obj.get("replay") or {}
    print(json.dumps({k: v for k, v in obj.items() if k not in ("replay", "disagreements")}, indent=1)[:1500])
    print(json.dumps({k: v for k, v in r.items() if k != "cdxml_text"}, indent=1))
    src = r.get("source", "")
    work = ctx.scratch
    if "cdxml_text" in r:
        p = work / "replay.cdxml"
        p.write_text(r["cdxml_text"])
    elif src.startswith("repo:"):
        p = REPO / src[5:].split(":")[0]
    else:
        print("(no file to replay)")
        return 0
    files = [("this drawing", p)]
    if "mirrored" in r:      # a mirror-test witness: the drawing and the drawing with wedge <-> hash
        files = [("drawing", p), ("stereo marks mirrored", L.variant_mirror(L.Drawing(p), work / "replay_mirror.cdxml"))]
    elif src.startswith("repo:") and "cdxml_text" not in r and str(r.get("variant")) == "mirror":
        files = [("stereo marks mirrored", L.variant_mirror(L.Drawing(p), work / "replay_mirror.cdxml"))]
    if str(r.get("variant")) == "process":
        names = r.get("files") or r.get("order") or [src]
        files = [REPO / n[5:] if n.startswith("repo:") else Path(n) for n in names]
        target = REPO / src[5:] if src.startswith("repo:") else Path(src)
        ref, err = collect_child(start_child([target], 0))
        hs = r.get("hashseed", "random")
        other, err2 = collect_child(start_child(files, hs))
        if ref is None or other is None:
            print("child failed:", err or err2)
            return 0
        print(f"{src}: alone in a fresh interpreter (PYTHONHASHSEED=0)  vs  after {[Path(f).name for f in files]} with PYTHONHASHSEED={hs}:")
        print("  ", diff_snapshots(ref[str(target)], other[str(target)]) or "identical")
        return 0
    if r.get("session"):
        fresh, sess = Parsed(p), Parsed(p, session=True)
        if "label" in r:
            k = r["label"]
            print(f"fresh CDXMLFile[{k!r}]           :", str(fresh.by_key.get(k, ('missing',))[0])[:300])
            print(f"requested again after an edit :", str(sess.by_key.get(k, ('missing',))[0])[:300], "| name", sess.by_key.get(k, (0, 0, None))[2])
        if "fragment" in r:
            f_ = r["fragment"]
            print("fresh parse of the fragment   :", str(fresh.by_frag.get(f_, ('missing',))[0])[:300])
            print("parsed again after an edit    :", str(sess.by_frag.get(f_, ('missing',))[0])[:300])
        return 0
    if "centre_node" in r and "cdxml_text" in r and src.split(":")[0] in ("repo", "corpus"):
        from harness.common import VERIF

        base = (REPO / src.split(":")[1]) if src.startswith("repo:") else (VERIF / "corpus" / "C13" / src.split(":")[1])
        ids_q = [r["centre_node"]] + r["neighbour_nodes"]
        for what, fp in (("drawing as bundled", base), ("same drawing, other order", p)):
            d_ = L.Drawing(fp)
            pr_ = Parsed(fp)
            fr = d_.frag_by_id(r["fragment"])
            ids = [str(int(i) - int(str(r.get("variant")).split(":")[1])) if str(r.get("variant")).startswith("renumber") and what != "drawing as bundled" else i
                   for i, _ in L.atom_node_ids(fr["elt"])]
            q = tuple(ids.index(i) for i in ids_q)
            print(f"[{what}] handedness at node {ids_q[0]} (neighbour nodes {ids_q[1:]}):",
                  ctx.driver([L.encode_orient(pr_.by_frag[r['fragment']][1], [q])])[0])
        return 0
    for what, fp in files:
        pr = Parsed(fp)
        if "fragment" in r:
            c, x = pr.by_frag.get(r["fragment"], ("missing", None))
            print(f"[{what}] fragment", r["fragment"], "->", c if isinstance(c, str) else {k: c[k] for k in ("charge", "mult", "ap")},
                  "" if isinstance(c, str) else f"{len(c['atoms'])} atoms {len(c['bonds'])} bonds")
            if "centre" in r and x is not None:
                q = [r["centre"]] + r["neighbours"]
                print(f"[{what}] handedness of centre", r["centre"], "with neighbours", r["neighbours"], ":",
                      ctx.driver([L.encode_orient(x, [tuple(q)])])[0])
    if "label" in r:
        print("label", repr(r["label"]), "resolves to fragment", pr.resolved.get(r["label"]))
    return 0
