"""Helpers shared by the storage checks (C02, C03, C04): running the real UKVFile, canonical output
tokens identical to the Lean driver's, an independent file scanner, write-stream recording."""
from __future__ import annotations

import json
import struct
from io import UnsupportedOperation
from pathlib import Path

VERIF = Path(__file__).resolve().parent.parent


def hx(b: bytes) -> str:
    return b.hex() if b else "-"


def unhx(s: str) -> bytes:
    return b"" if s == "-" else bytes.fromhex(s)


def keys_token(keys) -> str:
    return "keys:" + ",".join(hx(k) for k in sorted(keys))


def err_token(e: BaseException, op: str) -> str:
    if isinstance(e, FileNotFoundError):
        return "err:not-found"
    if isinstance(e, FileExistsError):
        return "err:exists"
    if isinstance(e, UnsupportedOperation):
        return "err:not-writable" if op == "put" else "err:closed"
    if isinstance(e, KeyError):
        return "err:key-exists" if op == "put" else "err:no-key"
    if isinstance(e, struct.error):
        return "err:too-long"
    if isinstance(e, TypeError) and op in ("new", "reopen"):
        return "err:bad-header"
    if isinstance(e, ValueError) and op in ("get", "put"):
        return "err:closed"          # I/O operation on closed file
    return f"err:other:{type(e).__name__}"


# ------------------------------------------------------------------ sessions for C03
def session_json(s) -> dict:
    return {"h2": hx(s["h2"]), "b0": hx(s["b0"]),
            "committed": [[hx(k), hx(v)] for k, v in s["committed"]],
            "session": [[hx(k), hx(v)] for k, v in s["session"]],
            "extra": [hx(s["extra"][0]), hx(s["extra"][1])] if "extra" in s else None,
            "extra2": [hx(s["extra2"][0]), hx(s["extra2"][1])] if "extra2" in s else None}


def session_from_json(j) -> dict:
    s = {"h2": unhx(j["h2"]), "b0": unhx(j["b0"]),
         "committed": [(unhx(k), unhx(v)) for k, v in j["committed"]],
         "session": [(unhx(k), unhx(v)) for k, v in j["session"]]}
    for x in ("extra", "extra2"):
        if j.get(x):
            s[x] = (unhx(j[x][0]), unhx(j[x][1]))
    return s


def load_corpus(prop: str) -> list:
    out = []
    d = VERIF / "corpus" / prop
    if d.is_dir():
        for p in sorted(d.glob("*.json")):
            j = json.loads(p.read_text())
            if "session" in j:
                out.append(session_from_json(j["session"]))
    return out


class _Recorder:
    """proxy around the real stream: logs (offset, bytes) of every write in program order"""

    def __init__(self, stream, log):
        self._s = stream
        self._log = log

    def write(self, data):
        self._log.append((self._s.tell(), bytes(data)))
        return self._s.write(data)

    def truncate(self, size=None):
        # a file-mutating call that is not a write (the unchanged put() makes none): kept in program order
        self._log.append(("truncate", self._s.tell() if size is None else size))
        return self._s.truncate(size)

    def __getattr__(self, name):
        return getattr(self._s, name)


def only_writes(stream):
    return [op for op in stream if op[0] != "truncate"]


def apply_ops(base: bytes, stream, k: int, j: int) -> bytes:
    """the file when the first k file-mutating calls of the session took effect completely and, if call k is a write,
    its first j bytes (generalises apply_stream to streams that also resize the file)"""
    buf = bytearray(base)

    def wr(off, data):
        if off > len(buf):
            buf.extend(b"\x00" * (off - len(buf)))
        buf[off:off + len(data)] = data
    for op in stream[:k]:
        if op[0] == "truncate":
            n = op[1]
            if n <= len(buf):
                del buf[n:]
            else:
                buf.extend(b"\x00" * (n - len(buf)))
        else:
            wr(op[0], op[1])
    if k < len(stream) and stream[k][0] != "truncate" and j > 0:
        wr(stream[k][0], stream[k][1][:j])
    return bytes(buf)


def record_session(path: Path, s: dict, existing: bool = False):
    """run the real code: (create file, put committed, close,) open 'a', put the session records, close.
    Returns (file bytes right after the append-open, [(offset, data)] of the session's writes)."""
    from molli.storage.ukvfile import UKVFile

    if not existing:
        f = UKVFile(path, "w", h2=s["h2"], b0=s["b0"])
        for k, v in s["committed"]:
            f.put(k, v)
        f.close()
    f = UKVFile(path, "a")
    try:
        f._stream.flush()
        base = Path(path).read_bytes()
        log: list = []
        f._stream = _Recorder(f._stream, log)
        for k, v in s["session"]:
            f.put(k, v)
    finally:
        f.close()
    return base, log


def apply_stream(base: bytes, stream, n: int) -> bytes:
    """the file when only the first n bytes of the write stream reached it"""
    buf = bytearray(base)
    left = n
    for off, data in stream:
        if left <= 0:
            break
        chunk = data[:left]
        left -= len(chunk)
        if off > len(buf):
            buf.extend(b"\x00" * (off - len(buf)))
        buf[off:off + len(chunk)] = chunk
    return bytes(buf)


def observe_open(path: Path, mode: str, keys) -> dict:
    from molli.storage.ukvfile import UKVFile

    outs = []
    listed = None
    vals = {}
    try:
        f = UKVFile(path, mode)
    except Exception as e:
        return {"outs": [err_token(e, "new"), "err:no-handle"] + ["err:no-handle"] * len(keys), "listed": None, "vals": {}}
    outs.append("ok")
    try:
        listed = list(f.keys())
        outs.append(keys_token(listed))
        for k in keys:
            try:
                v = f.get(k)
                vals[k] = v
                outs.append("val:" + hx(v))
            except Exception as e:
                outs.append(err_token(e, "get"))
        # the other public ways to enumerate the file must tell the same story as keys() + get()
        enum = {}
        try:
            enum["items"] = [(bytes(k), bytes(v)) for k, v in f.items()]
        except Exception as e:
            enum["items"] = f"{type(e).__name__}: {e}"
        try:
            enum["values"] = [bytes(v) for v in f.values()]
        except Exception as e:
            enum["values"] = f"{type(e).__name__}: {e}"
    finally:
        f.close()
    return {"outs": outs, "listed": listed, "vals": vals, "enum": enum}


def observe_append(path: Path, k2: bytes, v2: bytes, keys) -> dict:
    from molli.storage.ukvfile import UKVFile

    outs = []
    try:
        f = UKVFile(path, "a")
        outs.append("ok")
        try:
            try:
                f.put(k2, v2)
                outs.append("ok")
            except Exception as e:
                outs.append(err_token(e, "put"))
        finally:
            f.close()
        outs.append("ok")
    except Exception as e:
        outs += [err_token(e, "new"), "err:no-handle", "err:no-handle"]
    ro = observe_open(path, "r", keys)
    return {"outs": outs + ro["outs"], "listed": ro["listed"], "vals": ro["vals"], "file": hx(Path(path).read_bytes()),
            "raw": Path(path).read_bytes()}


def observe_read_then_append(path: Path, k2: bytes, v2: bytes, keys) -> dict:
    """one long-lived handle object: open 'r' (the torn tail is seen but cannot be cut), close, reopen 'a' on the
    SAME object (cached table of contents and end-of-file mark), put, close; then a fresh reader lists everything"""
    from molli.storage.ukvfile import UKVFile

    outs = []
    try:
        f = UKVFile(path, "r")
        outs.append("ok")
        f.close()
        outs.append("ok")
        try:
            f.open("a")
            outs.append("ok")
            try:
                f.put(k2, v2)
                outs.append("ok")
            except Exception as e:
                outs.append(err_token(e, "put"))
        except Exception as e:
            outs += [err_token(e, "reopen"), "err:not-writable"]
        finally:
            f.close()
        outs.append("ok")
    except Exception as e:
        outs += [err_token(e, "new")] + ["err:no-handle"] * 4
    ro = observe_open(path, "r", keys)
    return {"outs": outs + ro["outs"], "listed": ro["listed"], "vals": ro["vals"], "file": hx(Path(path).read_bytes()),
            "raw": Path(path).read_bytes()}


def observe_one_object_recovery(path: Path, k2: bytes, v2: bytes, k3: bytes, v3: bytes, keys) -> dict:
    """ONE handle object does the whole recovery: open 'a' on the crashed file, put, close; the same object is opened
    again read-only (lists, reads), closed, opened again for appending, puts once more, closed; then a fresh reader."""
    from molli.storage.ukvfile import UKVFile

    outs = []
    f = None
    try:
        f = UKVFile(path, "a")
        outs.append("ok")
    except Exception as e:
        outs.append(err_token(e, "new"))
    def step(fn, op):
        if f is None:
            outs.append("err:no-handle")
            return
        try:
            r = fn()
            outs.append("ok" if r is None else r)
        except Exception as e:
            outs.append(err_token(e, op))
    step(lambda: f.put(k2, v2), "put")
    step(lambda: f.close(), "close")
    step(lambda: f.open("r"), "reopen")
    step(lambda: keys_token(list(f.keys())), "keys")
    for k in keys:
        step(lambda k=k: "val:" + hx(f.get(k)), "get")
    step(lambda: f.close(), "close")
    step(lambda: f.open("a"), "reopen")
    step(lambda: f.put(k3, v3), "put")
    step(lambda: f.close(), "close")
    ro = observe_open(path, "r", list(keys) + [k3])
    return {"outs": outs + ro["outs"], "listed": ro["listed"], "vals": ro["vals"], "file": hx(Path(path).read_bytes()),
            "raw": Path(path).read_bytes(), "lead": outs[:5] + outs[5 + len(keys):]}


def observe_stale_handle_recovery(path: Path, base: bytes, img: bytes, k2: bytes, v2: bytes, keys) -> dict:
    """a handle object that cached the library BEFORE the crashed session (opened read-only on the committed file, closed)
    is the one that meets the crash image: reopened 'r' (lists, reads), closed, reopened 'a', put, closed; then a fresh reader"""
    from molli.storage.ukvfile import UKVFile

    outs = []
    Path(path).write_bytes(base)
    f = None
    try:
        f = UKVFile(path, "r")
        outs.append("ok")
    except Exception as e:
        outs.append(err_token(e, "new"))

    def step(fn, op):
        if f is None:
            outs.append("err:no-handle")
            return
        try:
            fn()
            outs.append("ok")
        except Exception as e:
            outs.append(err_token(e, op))
    step(lambda: f.close(), "close")
    Path(path).write_bytes(img)                 # the session of another handle ran and died
    step(lambda: f.open("r"), "reopen")
    listed = None
    vals = {}
    if f is not None:
        try:
            listed = list(f.keys())
            outs.append(keys_token(listed))
        except Exception as e:
            outs.append(err_token(e, "keys"))
    else:
        outs.append("err:no-handle")
    for k in keys:
        if f is None:
            outs.append("err:no-handle")
            continue
        try:
            v = f.get(k)
            vals[k] = v
            outs.append("val:" + hx(v))
        except Exception as e:
            outs.append(err_token(e, "get"))
    step(lambda: f.close(), "close")
    step(lambda: f.open("a"), "reopen")
    step(lambda: f.put(k2, v2), "put")
    step(lambda: f.close(), "close")
    nlead = len(outs)
    ro = observe_open(path, "r", list(keys) + [k2])
    return {"outs": outs + ro["outs"], "listed": ro["listed"], "vals": ro["vals"], "file": hx(Path(path).read_bytes()),
            "raw": Path(path).read_bytes(), "stale_listed": listed, "stale_vals": vals,
            "lead": outs[:3] + outs[4 + len(keys):nlead]}


# ------------------------------------------------------------------ independent scanner (oracle)
def scan_file(data: bytes):
    """independent re-parse: returns (header dict, [(key, value)], clean) where clean means the blocks tile
    the file exactly up to EOF"""
    if len(data) < 32:
        return None, [], False
    h1 = data[:16]
    h2len = int.from_bytes(data[16:18], "big")
    b0len = int.from_bytes(data[18:22], "big")
    pos = 32 + h2len + b0len
    hdr = {"h1": h1, "h2": data[32:32 + h2len], "b0": data[32 + h2len:pos]}
    recs = []
    while pos + 5 <= len(data):
        kl = data[pos]
        vl = int.from_bytes(data[pos + 1:pos + 5], "big")
        if pos + 5 + kl + vl > len(data):
            return hdr, recs, False
        recs.append((data[pos + 5:pos + 5 + kl], data[pos + 5 + kl:pos + 5 + kl + vl]))
        pos += 5 + kl + vl
    return hdr, recs, pos == len(data)


def enum_problem(obs):
    """items() / values() of the handle against its own keys() + get(): None, or what differs"""
    enum = obs.get("enum")
    if not enum or obs.get("listed") is None:
        return None
    want = [(k, obs["vals"].get(k)) for k in obs["listed"]]
    if any(v is None for _, v in want):
        return None                     # a listed key that cannot be read is reported by the other oracles
    if isinstance(enum["items"], str):
        return f"items() raised {enum['items'][:80]}"
    if sorted(enum["items"]) != sorted(want):
        extra = [hx(k)[:20] for k, v in enum["items"] if (k, v) not in want][:3]
        return f"items() yields {len(enum['items'])} pairs, keys()+get() give {len(want)} (not among them: {extra})"
    if isinstance(enum["values"], str):
        return f"values() raised {enum['values'][:80]}"
    if sorted(enum["values"]) != sorted(v for _, v in want):
        return f"values() yields {len(enum['values'])} values that are not those of the listed keys"
    return None


def oracle_crash(ctx, mode, obs, committed: dict, session: dict, session_list, tag):
    ep = enum_problem(obs)
    if ep:
        ctx.violation("C03:enumeration-shows-something-else-than-the-listed-records",
                      f"after a crash at byte {tag.get('offset')} the reopened file: {ep}", tag)
        return
    if obs["listed"] is None:
        ctx.violation("C03:reopen-fails-after-crash", f"reopening the crash image raised {obs['outs'][0]}", tag)
        return
    history = dict(committed) | dict(session)
    for k in obs["listed"]:
        if k not in history:
            ctx.violation("C03:partial-key-listed-after-crash",
                          f"after a crash at byte {tag.get('offset')} the reopened file lists key {hx(k)!r} that was never put", tag)
            return
        if obs["vals"].get(k) != history[k]:
            ctx.violation("C03:truncated-value-after-crash",
                          f"after a crash at byte {tag.get('offset')} key {hx(k)} reads back {hx(obs['vals'].get(k) or b'')[:40]!r}, not the value that was put", tag)
            return
    for k, v in committed.items():
        if k not in obs["listed"]:
            ctx.violation("C03:committed-record-lost", f"committed key {hx(k)} missing after crash at byte {tag.get('offset')}", tag)
            return


def oracle_append(ctx, obs, committed: dict, session_list, new, tag):
    k2, v2 = new
    nlead = 5 if tag.get("mode") == "r,a+put" else 3
    if tag.get("mode") in ("one-object", "stale-handle"):
        bad = [t for t in obs["lead"] if t.startswith("err:")]
        if bad:
            ctx.violation("C03:recovery-with-one-handle-fails",
                          f"after a crash at byte {tag.get('offset')} the handle that did the recovery append cannot be reused: {bad[:2]}", tag)
            return
    elif obs["listed"] is None or not obs["outs"][:nlead] == ["ok"] * nlead:
        ctx.violation("C03:append-after-crash-fails", f"reopen-for-append + put after a crash at byte {tag.get('offset')}: {obs['outs'][:3]}", tag)
        return
    history = dict(committed) | dict(session_list) | {k2: v2}
    if k2 not in obs["listed"] or obs["vals"].get(k2) != v2:
        ctx.violation("C03:append-after-crash-not-readable", f"the record appended after a crash at byte {tag.get('offset')} does not read back", tag)
        return
    for k in obs["listed"]:
        if k not in history or obs["vals"].get(k) != history[k]:
            ctx.violation("C03:damaged-record-after-recovery-append",
                          f"after crash at byte {tag.get('offset')} + recovery append, key {hx(k)[:40]} reads {hx(obs['vals'].get(k) or b'')[:40]!r}", tag)
            return
    for k, v in committed.items():
        if k not in obs["listed"]:
            ctx.violation("C03:committed-record-lost", f"committed key {hx(k)} missing after recovery append", tag)
            return
    hdr, recs, clean = scan_file(obs["raw"])
    if not clean or [k for k, _ in recs] != obs_sorted_like(recs, obs):
        ctx.violation("C03:hole-or-garbage-after-recovery-append",
                      f"after crash at byte {tag.get('offset')} + recovery append the file is not header + whole blocks", tag)


def obs_sorted_like(recs, obs):
    # the independent scan must list exactly the keys the real reader listed (as sets), in file order
    keys = [k for k, _ in recs]
    if sorted(keys) != sorted(obs["listed"]):
        return None
    return keys
