"""
Reference runs of `Structure.join` in a FRESH interpreter (C12: "the result does not depend on hidden state").
usage: python -m harness.c12_child <cases.json> <out.json>      (PYTHONPATH puts the repository under test first)
cases: [{"A": fragment, "B": fragment, "args": {...}}]  →  [hex of the float64 coordinate bytes of each product | "err:<type>"]
"""
import json
import sys

import numpy as np


def main():
    from harness import c12
    import molli as ml
    cases = json.load(open(sys.argv[1]))
    out = []
    for r in cases:
        try:
            A, Bm = c12.build(ml, r["A"]), c12.build(ml, r["B"])
            a = r["args"]
            kw = {k: a[k] for k in ("dist", "charge", "mult") if a.get(k) is not None}
            np.random.seed(12345)
            res = ml.Molecule.join(A, Bm, r["A"]["ap"][0], r["B"]["ap"][0], optimize_rotation=a["opt"], **kw)
            out.append(np.ascontiguousarray(np.array(res.coords, dtype=float)).tobytes().hex())
        except Exception as e:  # noqa: BLE001
            out.append(f"err:{type(e).__name__}")
    json.dump(out, open(sys.argv[2], "w"))


if __name__ == "__main__":
    main()
