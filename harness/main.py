"""./check <id> [--tier quick|thorough] [--replay file]"""
import argparse
import importlib
import os
import sys
import traceback
from pathlib import Path

VERIF = Path(__file__).resolve().parent.parent
sys.path.insert(0, str(VERIF))
sys.dont_write_bytecode = True

from harness import common  # noqa: E402


def _reset_signals():
    """A check may be started from a shell that ignores SIGINT/SIGQUIT/SIGHUP (background job, nohup). Ignored signals
    are inherited by every child, so a scripted command that kills itself with such a signal would survive and the
    run would differ from a foreground run. Give this process, and thereby its children, the default dispositions."""
    import signal
    for name in ("SIGINT", "SIGQUIT", "SIGHUP", "SIGTERM", "SIGUSR1", "SIGUSR2", "SIGALRM", "SIGSEGV", "SIGABRT", "SIGFPE", "SIGILL", "SIGBUS"):
        sig = getattr(signal, name, None)
        if sig is not None:
            try:
                signal.signal(sig, signal.SIG_DFL)
            except (OSError, ValueError, RuntimeError):
                pass
    signal.signal(signal.SIGINT, signal.default_int_handler)


def main() -> int:
    _reset_signals()
    ap = argparse.ArgumentParser()
    ap.add_argument("prop")
    ap.add_argument("--tier", default=os.environ.get("VERIF_TIER", "quick"))
    ap.add_argument("--replay", default=None)
    ap.add_argument("--seed", type=int, default=None)
    a = ap.parse_args()
    tier = a.tier if a.tier in ("quick", "thorough") else "quick"
    try:
        seed = a.seed if a.seed is not None else int(os.environ.get("VERIF_SEED", "1"))
    except ValueError:
        seed = 1
    prop = a.prop.upper()
    common.use_repo()
    ctx = common.Ctx(prop, tier, seed)
    try:
        mod = importlib.import_module(f"harness.{prop.lower()}")
    except ModuleNotFoundError:
        print(f"no check registered for {prop}", file=sys.stderr)
        return 2
    try:
        if a.replay:
            rc = mod.replay(ctx, a.replay)
            ctx.cleanup()
            return rc
        ctx.clear_replays()
        mod.run(ctx)
        return ctx.finish()
    except common.Timeout:
        print(f"TIMEOUT {prop}: deadline reached before the check finished (no verdict)", file=sys.stderr)
        ctx.cleanup()
        return 2
    except Exception as e:
        traceback.print_exc()
        frames = traceback.extract_tb(e.__traceback__)
        if any(str(f.filename).startswith(str(common.REPO)) for f in frames):
            # the implementation raised where the unchanged tree does not: the correspondence is broken
            ctx.disagree("implementation raised an exception the model does not predict",
                         "(see traceback)", "".join(traceback.format_exception(e))[-1500:], "no exception")
            if ctx.proof_result is None:
                ctx.proof_result = common.ProofResult()
            return ctx.finish()
        print(f"ERROR {prop}: the check machinery failed (no verdict)", file=sys.stderr)
        ctx.cleanup()
        return 2


if __name__ == "__main__":
    sys.exit(main())
