"""
C17 — a job runs exactly what was asked and reports exactly what happened.

Proof:  Molli.Props.C17 (bind_history_independent, bind_same_for_all_histories, run_in_order_until_failure,
        files_materialised, named_output_captured, files_byte_for_byte, exit_zero_iff, output_hash_is_input_hash,
        no_residue, + closed counterexamples for the pinned commit) about Molli.Model.Job.
Tie:    Part 1 — driver classes are created from molli.pipeline.driver.DriverBase with a `@Job(...).prep` task;
        EVERY order of creating/using 2..3 instances with distinct settings is replayed on the real `Job.__get__`
        and on the model (`bind`), plus the real XTBDriver.optimize_m.
        Part 2 — the real runner `molli.pipeline.runner.run_local` is executed in a forked child (argv set, cwd in
        ctx.scratch, hard timeout) and, for a subset, through the `_molli_run` entry point; the commands are
        `sh -c` scripts generated from the same scripted outcomes the model gets (stdout, stderr, files written /
        copied / removed, environment dumps, exit code, a trace file recording what really ran).
Oracle: model-free — trace = 0..k-1 up to the first failure; JobOutput present; captured streams = scripted text;
        returned files = a direct simulation of the scripted effects; exit 0 iff all succeeded and all requested
        files exist, JobOutput.exitcode 0 iff exit 0; input_hash = JobInput.hash; scratch listing unchanged.
"""
from __future__ import annotations

import itertools
import json
import os
import shlex
import signal
import subprocess
import sys
import time
from concurrent.futures import ThreadPoolExecutor
from pathlib import Path

from harness import common

NAMES = ["a", "b", "xtb", "step2", "c_d"]
FILES = ["in.txt", "data.bin", "r.dat", "copy.txt", "res.out2", "env.txt", "x.y.z", "Ünï.txt",
         "sub/r.bin", "other/r.bin", "a/b/c.txt", "a/r.dat", "sub/deep/er/r.bin"]      # (the first 8 are flat names)
SH = None            # absolute path of the shell that interprets the scripted commands (the job may set any PATH)


def spell(rng, f):
    """another spelling of the same relative path, as a caller may write it in return_files"""
    k = rng.below(4)
    return f if k < 2 else "./" + f if k == 2 else f.replace("/", "//", 1) if "/" in f else "./" + f


def norm(f: str) -> str:
    return str(Path(f))
VARS = ["C17_A", "C17_B", "OMP_NUM_THREADS"]


def hx(b) -> str:
    if isinstance(b, str):
        b = b.encode()
    return b.hex() if b else "-"


# --------------------------------------------------------------------------------------
# Part 1: binding
# --------------------------------------------------------------------------------------
def attrs_tok(a: dict) -> str:
    env = a.get("envars") or {}
    e = "&".join(f"{hx(k)}={hx(v)}" for k, v in env.items()) or "-"
    exe = a.get("executable")
    return f"{hx(exe) if exe else '-'},{a.get('nprocs') or '-'},{a.get('memory') or '-'},{e}"


PROGRAMS = ["c17_a", "c17_b", "c17_c", "c17_def0", "c17_def1"]
WHICH = {}          # name -> what shutil.which finds (fake programs in ctx.scratch/bin, first on the PATH)


def install_programs(ctx):
    import shutil

    bindir = ctx.scratch / "bin"
    bindir.mkdir(exist_ok=True)
    for n in PROGRAMS:
        f = bindir / n
        f.write_text("#!/bin/sh\nexit 0\n")
        f.chmod(0o755)
    if str(bindir) not in os.environ.get("PATH", "").split(os.pathsep):
        os.environ["PATH"] = str(bindir) + os.pathsep + os.environ.get("PATH", "")
    WHICH.clear()
    WHICH.update({n: shutil.which(n) for n in PROGRAMS})


def norm_scen(scen):
    """one shape for old and new binding scenarios: `classes` = [{attrs, default}], `insts` = [{cls, req, flags}]"""
    if "classes" not in scen:
        scen = dict(scen, classes=[{"attrs": scen.get("cls") or {}, "default": None}])
    scen["insts"] = [a if isinstance(a, dict) and "req" in a else {"cls": 0, "req": a, "flags": "FF"} for a in scen["insts"]]
    return scen


def make_driver_classes(classes, decl: dict):
    """driver classes derived from one base that owns the job object (all of them share it through inheritance);
    each may declare a `default_executable` and class-level attributes"""
    from molli.pipeline.driver import DriverBase
    from molli.pipeline.job import Job, JobInput

    class TBase(DriverBase):
        @Job(return_files=("r.txt",), **decl).prep
        def task(self, obj, *args, **kwargs):
            settings = {"exe": self.executable, "nprocs": self.nprocs, "memory": self.memory, "args": list(args)}
            return JobInput(str(obj), commands=[(json.dumps(settings), "t")], files={}, return_files=self.return_files,
                            envars=dict(self.envars or {}))

    out = []
    for k, c in enumerate(classes):
        ns = {key: v for key, v in (c.get("attrs") or {}).items() if v is not None}
        if c.get("default"):
            ns["default_executable"] = c["default"]
        out.append(type(f"TDriver{k}", (TBase,), ns))
    return out


def gen_attrs(rng, idx, level):
    """distinct, recognisable settings; some absent"""
    a = {}
    p = {"inst": (9, 8, 3, 5), "cls": (3, 2, 1, 4), "decl": (1, 1, 1, 3)}[level]
    if rng.chance(p[0], 10):
        a["executable"] = f"/opt/{level}{idx}/prog"
    if rng.chance(p[1], 10):
        a["nprocs"] = 2 + idx + (10 if level == "cls" else 20 if level == "decl" else 0)
    if rng.chance(p[2], 10):
        a["memory"] = 100 * (idx + 1) + (7 if level == "cls" else 9 if level == "decl" else 0)
    if rng.chance(p[3], 10):
        env = {}
        for v in VARS:
            if rng.chance(1, 2):
                env[v] = f"{level}{idx}-{v[-1]}"
        a["envars"] = env
    return a


def histories(n, rng, quick):
    """every order of creating / using n instances (each created once, used once, creation before use),
    plus a few with repeated uses"""
    evs = [("c", i) for i in range(n)] + [("u", i) for i in range(n)]
    out = []
    for perm in itertools.permutations(evs):
        pos = {e: k for k, e in enumerate(perm)}
        if all(pos[("c", i)] < pos[("u", i)] for i in range(n)):
            out.append(list(perm))
    extra = []
    for _ in range(6 if quick else 40):
        h = list(rng.choice(out))
        for _ in range(rng.range(1, 3)):
            i = rng.below(n)
            at = rng.range(h.index(("c", i)) + 1, len(h))
            h.insert(at, ("u", i))
        extra.append(h)
    return out + extra


def random_history(rng, quick):
    """creations, uses, attribute changes and disposals in random order; a disposal is usually followed at once by the
    creation of a new driver with other settings (CPython then tends to reuse the address of the dropped object)"""
    insts, hist, live = [], [], []
    n_ev = rng.range(6, 12 if quick else 18)

    def create():
        insts.append(gen_attrs(rng, len(insts) + 1, "inst"))
        hist.append(["c", len(insts) - 1])
        live.append(len(insts) - 1)

    create()
    while len(hist) < n_ev:
        k = rng.weighted([("u", 5), ("c", 2), ("m", 2), ("d", 2)]) if live else "c"
        if k == "c":
            create()
        elif k == "u":
            hist.append(["u", rng.choice(live)])
        elif k == "m":
            i = rng.choice(live)
            hist.append(["m", i, gen_attrs(rng, 30 + len(hist), "inst")])
            if rng.chance(2, 3):
                hist.append(["u", i])
        else:
            i = rng.choice(live)
            live.remove(i)
            hist.append(["d", i])
            if rng.chance(3, 4):
                create()
                hist.append(["u", live[-1]])
    return insts, hist


def gen_init_scenario(rng, n, rot=0):
    """several driver classes (at least one declaring a default_executable), instances with an explicit executable or relying
    on the class default, created with the PATH lookup on or off"""
    classes = [{"attrs": gen_attrs(rng, 0, "cls") if rng.chance(1, 3) else {}, "default": rng.choice([None, "c17_def0", "c17_def0"])},
               {"attrs": gen_attrs(rng, 1, "cls") if rng.chance(1, 3) else {}, "default": "c17_def1"}]
    for c in classes:
        c["attrs"].pop("executable", None)
    insts = []
    for i in range(n):
        k = rng.below(2)
        req = gen_attrs(rng, i + 1, "inst")
        req.pop("executable", None)
        explicit = rng.choice([None, None, "c17_a", "c17_b", "c17_c"])
        if explicit:
            req["executable"] = explicit
        has_exe = explicit or classes[k]["default"]
        flags = ["TT", "FT", "TT", "FF"][(rot + i) % 4] if has_exe else "FF"      # (check_exe, find)
        insts.append({"cls": k, "req": req, "flags": flags})
    if all(x["req"].get("executable") for x in insts):        # at least one explicit and one default instance
        insts[-1]["req"].pop("executable")
        insts[-1]["cls"], insts[-1]["flags"] = 1, "TT"
    if not any(x["req"].get("executable") for x in insts):
        insts[0]["req"]["executable"], insts[0]["flags"] = "c17_a", "TT"
    return classes, insts


def check_binding(ctx):
    install_programs(ctx)
    reqs = []

    def one(scen, counts):
        observed, evtoks = run_bind_scenario(scen)
        ctx.case(json.dumps(scen, sort_keys=True), nontrivial=True)
        for c in counts:
            ctx.count(c)
        oracle_bind(ctx, scen, observed)
        if not any("raised" in o for o in observed):
            reqs.append((bind_line(scen, evtoks), observed, scen))

    n_settings = 2 if ctx.quick() else 8
    for n in (2, 3):
        for rep in range(n_settings):
            cls_attrs = gen_attrs(ctx.rng, 0, "cls")
            decl = gen_attrs(ctx.rng, 0, "decl") if ctx.rng.chance(1, 3) else {}
            insts = [gen_attrs(ctx.rng, i + 1, "inst") for i in range(n)]
            hs = histories(n, ctx.rng, ctx.quick())
            for h in hs:
                ctx.check_deadline()
                one({"section": "bind", "cls": cls_attrs, "decl": decl, "insts": insts, "history": [list(e) for e in h]},
                    [f"bind-instances={n}", f"bind-history-length={len(h)}"])
            # explicit / default executables, several classes sharing the job, PATH lookup: all creation / use orders
            classes, specs = gen_init_scenario(ctx.rng, n, rep)
            for h in hs:
                one({"section": "bind", "classes": classes, "decl": {}, "insts": specs, "history": [list(e) for e in h]},
                    [f"bind-init-instances={n}"] + [f"bind-init:{'explicit' if x['req'].get('executable') else 'class-default'}/{x['flags']}" for x in specs])
    # histories with attribute changes and disposals
    for rep in range(60 if ctx.quick() else 600):
        decl = gen_attrs(ctx.rng, 0, "decl") if ctx.rng.chance(1, 4) else {}
        insts, h = random_history(ctx.rng, ctx.quick())
        if ctx.rng.chance(1, 2):
            classes, _ = gen_init_scenario(ctx.rng, 2)
            specs = []
            for a in insts:
                k = ctx.rng.below(2)
                if ctx.rng.chance(1, 2):
                    a = {x: v for x, v in a.items() if x != "executable"}
                    if ctx.rng.chance(1, 2):
                        a["executable"] = ctx.rng.choice(PROGRAMS[:3])
                named = a.get("executable") in PROGRAMS or (not a.get("executable") and classes[k]["default"])
                specs.append({"cls": k, "req": a, "flags": ctx.rng.choice(["TT", "TT", "FF"]) if named else "FF"})
            scen = {"section": "bind", "classes": classes, "decl": decl, "insts": specs, "history": h}
        else:
            scen = {"section": "bind", "cls": gen_attrs(ctx.rng, 0, "cls") if ctx.rng.chance(1, 2) else {}, "decl": decl, "insts": insts, "history": h}
        one(scen, ["bind-random-history"] + [{"c": "bind-event:create", "u": "bind-event:use", "m": "bind-event:attributes-changed",
                                              "d": "bind-event:driver-discarded"}[e[0]] for e in h])
    # the real XTB driver: two instances, used in the order second, first, second
    xs = xtb_scenario(ctx)
    outs = ctx.driver([r[0] for r in reqs])
    for (line, observed, scen), mo in zip(reqs, outs):
        want = [] if mo == "-" else mo.split(" ")
        got = [bound_tok(o) for o in observed]
        if want != got:
            ctx.disagree("settings of the prepared input differ from the model", scen, got, want)
    if reqs:
        ctx.sample({"bind_scenario": reqs[-1][2], "observed": reqs[-1][1]})
    ctx.extra_cov["bind_histories"] = len(reqs)
    return xs


def bound_tok(o):
    if o is None:
        return "none"
    env = "&".join(f"{k}={v}" for k, v in sorted((hx(k), hx(v)) for k, v in o["envars"].items())) or "-"
    return f"{hx(o['exe']) if o['exe'] else '-'},{o['nprocs']},{o['memory']},{env}"


def run_bind_scenario(scen):
    """replay a history on the real descriptor; returns the settings seen in each prepared JobInput"""
    import gc

    scen = norm_scen(scen)
    T = make_driver_classes(scen["classes"], scen["decl"])
    drivers = {}
    current = {}
    observed, evtoks = [], []

    def seen_tok(d):
        return attrs_tok({"executable": d.executable, "nprocs": d.nprocs, "memory": d.memory, "envars": d.envars})

    for ev in scen["history"]:
        kind, i = ev[0], ev[1]
        if kind == "c":
            spec = scen["insts"][i]
            a, k, flags = spec["req"], spec["cls"], spec.get("flags", "FF")
            try:
                drivers[i] = T[k](executable=a.get("executable"), nprocs=a.get("nprocs"), memory=a.get("memory"),
                                  envars=a.get("envars"), check_exe=flags[0] == "T", find=flags[1] == "T")
            except Exception as e:
                observed.append({"raised": f"{type(e).__name__}: {e}", "inst": i, "spec": spec})
                return observed, evtoks
            asked = a.get("executable") or scen["classes"][k].get("default")
            if flags[1] == "T":
                asked = WHICH.get(asked) if asked else None
            current[i] = dict(a, executable=asked)
            evtoks.append(f"C{i}:{k}:{attrs_tok(a)}:{1 if flags[1] == 'T' else 0}")
        elif kind == "m":
            a = ev[2]
            d = drivers[i]
            d.executable, d.nprocs, d.memory, d.envars = a.get("executable"), a.get("nprocs"), a.get("memory"), a.get("envars")
            current[i] = a
            evtoks.append(f"m{i}:{seen_tok(d)}")
        elif kind == "d":
            del drivers[i]
            current.pop(i, None)
            gc.collect()
            evtoks.append(f"d{i}")
        else:
            inp = drivers[i].task.prepare(f"obj{i}", "arg", i)
            st = json.loads(inp.commands[0][0])
            observed.append({"exe": st["exe"], "nprocs": st["nprocs"], "memory": st["memory"], "args": st["args"],
                             "envars": dict(inp.envars or {}), "jid": inp.jid, "inst": i, "attrs": dict(current[i]),
                             "cls": scen["insts"][i]["cls"], "return_files": list(inp.return_files or ())})
            evtoks.append(f"u{i}")
    return observed, evtoks


def bind_line(scen, evtoks) -> str:
    scen = norm_scen(scen)
    classes = "|".join(f"{attrs_tok(c.get('attrs') or {})}~{hx(c['default']) if c.get('default') else '-'}" for c in scen["classes"])
    which = "&".join(f"{hx(k)}={hx(v)}" for k, v in WHICH.items() if v) or "-"
    return f"bind2 r {attrs_tok(scen['decl'])} {classes} {which} " + " ".join(evtoks)


def oracle_bind(ctx, scen, observed):
    scen = norm_scen(scen)
    decl = scen["decl"]
    for o in observed:
        if "raised" in o:
            ctx.violation("C17:driver-construction-raised",
                          f"creating driver {o['inst']} ({o['spec']}) raised {o['raised']}", scen)
            return
        cls = scen["classes"][o["cls"]].get("attrs") or {}
        a = o["attrs"]     # what this driver was asked to run with when it is used: its own arguments (or class default), or what was assigned since
        what = None
        if not decl.get("executable") and a.get("executable") and o["exe"] != a["executable"]:
            what = f"executable {o['exe']!r}, the driver used has {a['executable']!r}"
        elif not decl.get("nprocs") and a.get("nprocs") and o["nprocs"] != a["nprocs"]:
            what = f"nprocs {o['nprocs']!r}, the driver used has {a['nprocs']!r}"
        elif not decl.get("memory") and a.get("memory") and o["memory"] != a["memory"]:
            what = f"memory {o['memory']!r}, the driver used has {a['memory']!r}"
        else:
            want_env = dict(cls.get("envars") or {}) | dict(a.get("envars") or {}) | dict(decl.get("envars") or {})
            if o["envars"] != want_env:
                what = f"environment {o['envars']!r}, expected class|instance|declaration = {want_env!r}"
            elif o["args"] != ["arg", o["inst"]] or o["jid"] != f"obj{o['inst']}":
                what = f"caller's arguments not reflected: {o['args']!r} {o['jid']!r}"
        if what:
            ctx.violation("C17:jobinput-does-not-reflect-driver-instance",
                          f"history {scen['history']}: input prepared through driver {o['inst']} has {what}", scen)
            return


def xtb_scenario(ctx):
    """the shipped XTB driver: settings of two instances must reach the command line of optimize_m"""
    import molli as ml
    from molli.pipeline.xtb import XTBDriver

    try:
        mol = ml.Molecule(["H", "H"], name="h2")
        mol.coords = [[0.0, 0.0, 0.0], [0.0, 0.0, 0.74]]
        a = XTBDriver(executable="/opt/xtb-A/xtb", nprocs=3, check_exe=False, find=False)
        b = XTBDriver(executable="/opt/xtb-B/xtb", nprocs=7, check_exe=False, find=False)
        seen = []
        for d in (b, a, b):
            inp = d.optimize_m.prepare(mol)
            seen.append((d.executable, d.nprocs, inp.commands[0][0]))
    except Exception as e:
        ctx.disagree("XTBDriver.optimize_m.prepare raised", "two XTBDriver instances", f"{type(e).__name__}: {e}", "JobInput")
        return None
    ctx.case("xtb-two-instances", nontrivial=True)
    ctx.count("bind-xtb-driver")
    for exe, nprocs, cmd in seen:
        toks = shlex.split(cmd)
        if toks[0] != exe or f"-P {nprocs}" not in cmd:
            ctx.violation("C17:jobinput-does-not-reflect-driver-instance",
                          f"XTBDriver(executable={exe!r}, nprocs={nprocs}).optimize_m prepared {cmd!r}",
                          {"section": "xtb", "seen": seen})
            break
    return seen


# --------------------------------------------------------------------------------------
# Part 2: running
# --------------------------------------------------------------------------------------
def octal(b: bytes) -> str:
    return "printf '" + "".join("\\%03o" % x for x in b) + "'"


def gen_content(rng, kind):
    if kind == "text":
        return rng.choice(["", "hello\n", "two\nlines\n", "no newline", "crlf\r\nline\r\n", "ünïcödé ✓\n", "  spaces  \n\n"])
    return rng.choice([b"", b"\x00", b"\x00\x01\xff\xfe", b"\xff" * 5, bytes(range(256)), b"text-like\n", b"\r\n\x00\r"])


def gen_run_scenario(rng, quick, _depth=0):
    ncmd = rng.range(1, 4)
    fail_at = rng.choice([None, None] + list(range(ncmd)))
    names = list(NAMES)
    rng.shuffle(names)
    infiles = {}
    for _ in range(rng.range(0, 3)):
        fn = rng.choice(FILES[:3] + FILES[6:8])      # input files have flat names
        kind = rng.choice(["text", "bin"])
        infiles[fn] = {"kind": kind, "data": gen_content(rng, kind) if kind == "text" else gen_content(rng, kind).hex()}
    envars = {v: f"job-{v}" for v in VARS if rng.chance(1, 3)}
    # variables preset in the runner's own environment: often the very ones the job overrides
    base = {v: f"base-{v}" for v in VARS if rng.chance(1, 2 if v in envars else 4)}
    cmds = []
    created = set(infiles)
    caps = []
    for i in range(ncmd):
        name = names[i] if rng.chance(2, 3) else None
        effects = []
        for _ in range(rng.range(0, 3)):
            k = rng.weighted([("w", 4), ("c", 2), ("r", 1), ("e", 2)])
            if k == "w":
                fn = rng.choice(FILES)
                kind = rng.choice(["text", "bin"])
                data = gen_content(rng, kind)
                effects.append(["w", fn, (data.encode() if kind == "text" else data).hex()])
                if "/" in fn and rng.chance(1, 2):      # the same base name in another directory, other content
                    twin = rng.choice([f for f in FILES if f != fn and f.rsplit("/", 1)[-1] == fn.rsplit("/", 1)[-1]] or [fn])
                    if twin != fn:
                        effects.append(["w", twin, (b"twin:" + twin.encode()).hex()])
                        created.add(twin)
                created.add(fn)
            elif k == "c":
                srcs = sorted(created) + caps + ["nosuch.txt"]
                src = rng.choice(srcs)
                dst = rng.choice([f for f in FILES if f != src])
                effects.append(["c", src, dst])
                created.add(dst)
            elif k == "r":
                effects.append(["r", rng.choice(sorted(created) + ["nosuch.txt"])])
            else:
                dst = rng.choice(FILES[3:6])
                effects.append(["e", rng.choice(VARS), dst])
                created.add(dst)
        out = rng.choice(["", "out of %d\n" % i, "ünï ✓ %d\n" % i, "multi\nline\n", "x" * 300])
        err = rng.choice(["", "", "warn %d\n" % i, "E: bad thing\n"])
        code = 0
        if fail_at == i:
            # positive exit statuses and deaths by signal (subprocess reports -signal)
            code = rng.choice([1, 2, 3, 127, 255, -9, -15, -11, -2, -9])
        cmds.append({"name": name, "code": code, "out": out, "err": err, "effects": effects})
        if name:
            caps += [f"{name}.out", f"{name}.err"]
    probe = None
    if (envars or base) and rng.chance(2, 3):
        # the first command reports one of these variables in a file that is requested back
        both = [v for v in envars if v in base]
        probe = rng.choice(both or sorted(set(envars) | set(base)))
        cmds[0]["effects"].append(["e", probe, "env.txt"])
        created.add("env.txt")
    rstyle = rng.weighted([("some", 6), ("empty", 1), ("none", 1)])
    if rstyle == "some":
        pool = sorted(created) + ["missing.dat", "never.txt", "sub/missing.bin"] + caps[:2]
        nested = [f for f in pool if "/" in f]
        ret, seen = [], set()
        for k in range(rng.range(1, 5)):
            f = rng.choice(nested) if nested and k == 0 and rng.chance(2, 3) else rng.choice(pool)
            if f not in seen:
                seen.add(f)
                ret.append(spell(rng, f))
    else:
        ret = [] if rstyle == "empty" else None
    if probe and ret is not None and "env.txt" not in [norm(f) for f in ret]:
        ret.append("env.txt")
    attempts = []
    if _depth == 0 and rng.chance(1, 3):
        # the same input is executed again (1..2 more times) into the same output directory; what the programs do changes
        for _ in range(rng.range(1, 2)):
            for _try in range(20):
                other = gen_run_scenario(rng, quick, _depth=1)
                if len(other["cmds"]) >= ncmd:
                    break
            else:
                continue
            v = [dict(other["cmds"][i], name=cmds[i]["name"]) for i in range(ncmd)]
            if rng.chance(1, 3):      # ... or exactly the same again
                v = [dict(c) for c in cmds]
            elif rng.chance(1, 2):    # ... or everything succeeds this time
                v = [dict(c, code=0) for c in v]
            attempts.append(v)
    return {"section": "run", "jid": rng.choice(["job", "mol_1", "x"]), "files": infiles, "envars": envars, "base": base,
            "cmds": cmds, "ret": ret, "scratch_entries": rng.choice([[], ["keep.txt"], ["keep.txt", "other_dir"]]),
            "paths": {"inp": rng.choice(["abs", "rel"]), "out": rng.choice(["abs", "rel"]), "scr": rng.choice(["abs", "rel"]),
                      "cwd": rng.choice(["base", "sub", "elsewhere"])}, **({"attempts": attempts} if attempts else {})}


def shell() -> str:
    global SH
    if SH is None:
        import shutil
        SH = shutil.which("sh") or "/bin/sh"
    return SH


def command_body(c) -> str:
    parts = []
    if c["out"]:
        parts.append(octal(c["out"].encode()))
    if c["err"]:
        parts.append(octal(c["err"].encode()) + " >&2")
    for e in c["effects"]:
        tgt = e[2] if e[0] in ("c", "e") else e[1]
        mk = f"mkdir -p {shlex.quote(os.path.dirname(tgt))}; " if "/" in tgt and e[0] != "r" else ""
        if e[0] == "w":
            parts.append(f"{mk}{octal(bytes.fromhex(e[2]))} > {shlex.quote(e[1])}")
        elif e[0] == "c":
            parts.append(f"if [ -f {shlex.quote(e[1])} ]; then {mk}cat {shlex.quote(e[1])} > {shlex.quote(e[2])}; fi")
        elif e[0] == "r":
            parts.append(f"rm -f {shlex.quote(e[1])}")
        else:
            parts.append(f"{mk}printf '%s' \"${e[1]}\" > {shlex.quote(e[2])}")
    if c["code"] < 0:
        parts.append(f"ulimit -c 0; kill -{-c['code']} $$; sleep 5")     # the shell kills itself
    parts.append(f"exit {c['code'] if c['code'] >= 0 else 0}")
    return "; ".join(parts)


def build_job(scen, trace: Path):
    """the JobInput of a scenario.  When the scenario has further `attempts` (the same input executed again into the same output
    directory while the programs behave differently), every command looks up the number of the current execution in a file
    next to the trace and behaves as scripted for that execution — the input itself is the same for all of them."""
    from molli.pipeline.job import JobInput

    variants = [scen["cmds"]] + list(scen.get("attempts") or [])
    commands = []
    for i, c in enumerate(scen["cmds"]):
        head = f"echo {i} >> {shlex.quote(str(trace))}"
        if len(variants) == 1:
            script = head + "; " + command_body(c)
        else:
            att = shlex.quote(str(trace.with_name("attempt")))
            cases = " ".join(f"{k + 1}) {command_body(v[i])};;" for k, v in enumerate(variants))
            script = f"{head}; n=$(cat {att}); case $n in {cases} esac; exit 98"
        commands.append((shlex.join([shell(), "-c", script]), c["name"]))
    files = {fn: (f["data"] if f["kind"] == "text" else bytes.fromhex(f["data"])) for fn, f in scen["files"].items()}
    kw = {}
    if scen["ret"] is not None:
        kw["return_files"] = tuple(scen["ret"])
    return JobInput(scen["jid"], commands=commands, files=files, envars=dict(scen["envars"]) or None, **kw)


def run_forked(argv, cwd: Path, env: dict, timeout: float):
    """call run_local() of the imported repo in a forked child; returns exit status or None on timeout"""
    from molli.pipeline import runner

    pid = os.fork()
    if pid == 0:
        code = 70
        try:
            dn = os.open(os.devnull, os.O_RDWR)
            os.dup2(dn, 0), os.dup2(dn, 1), os.dup2(dn, 2)
            os.chdir(cwd)
            os.environ.update(env)
            sys.argv = list(argv)
            runner.run_local()
            code = 0
        except SystemExit as e:
            code = e.code if isinstance(e.code, int) else (0 if e.code is None else 1)
        except BaseException:
            code = 70          # the runner died with an exception
        finally:
            os._exit(code & 0xFF)
    deadline = time.time() + timeout
    while True:
        p, st = os.waitpid(pid, os.WNOHANG)
        if p:
            return os.waitstatus_to_exitcode(st)
        if time.time() > deadline:
            os.kill(pid, signal.SIGKILL)
            os.waitpid(pid, 0)
            return None
        time.sleep(0.002)


def run_entry_point(argv, cwd: Path, env: dict, timeout: float):
    """the installed `_molli_run` console script with the repo under test first on the path"""
    e = dict(os.environ)
    e.update(env)
    exe = Path(sys.executable).with_name("_molli_run")
    try:
        r = subprocess.run([str(exe)] + list(argv[1:]), cwd=cwd, env=e, capture_output=True, text=True, timeout=timeout)
    except subprocess.TimeoutExpired:
        return None
    return r.returncode


def observe_run(ctx, scen, idx, via_entry=False, attempt=0):
    """one execution of the scenario's input; `attempt` > 0: the same input file is executed AGAIN into the same output directory"""
    from molli.pipeline.job import JobOutput

    base = ctx.scratch / f"run{idx}{'e' if via_entry else ''}"
    trace = base / "trace"
    scr = base / "scr"
    inp = build_job(scen, trace)
    want_hash = inp.hash
    if attempt == 0:
        base.mkdir()
        inp.dump(base / "job.inp")
        if scen["scratch_entries"]:
            scr.mkdir()
            for e in scen["scratch_entries"]:
                (scr / e).mkdir() if e.endswith("_dir") else (scr / e).write_text("keep")
    (base / "attempt").write_text(str(attempt + 1))
    if trace.exists():
        trace.unlink()
    before = sorted(os.listdir(scr)) if scr.exists() else []
    # every path-valued argument absolute or relative, from the job's directory, a sub-directory of it or an unrelated one
    ps = scen.get("paths") or {}
    cwd = {"base": base, "sub": base / "sub" / "deeper", "elsewhere": base.parent / f"elsewhere{idx}{'e' if via_entry else ''}"}[ps.get("cwd", "base")]
    cwd.mkdir(parents=True, exist_ok=True)

    def arg(path: Path, which: str) -> str:
        return os.path.relpath(path, cwd) if ps.get(which, "abs") == "rel" else str(path)

    argv = ["_molli_run", arg(base / "job.inp", "inp"), "-o", arg(base / "out", "out"), "-s", arg(scr, "scr")]
    runner = run_entry_point if via_entry else run_forked
    status = runner(argv, cwd, scen["base"], 120 if via_entry else 60)
    obs = {"exit": status, "timeout": status is None}
    if cwd != base:
        obs["launch_dir_leftovers"] = sorted(p.name for p in cwd.iterdir())
    obs["trace"] = [int(x) for x in trace.read_text().split()] if trace.exists() else []
    obs["scratch_before"] = before
    obs["scratch_after"] = sorted(os.listdir(scr)) if scr.exists() else None
    obs["cwd_leftovers"] = sorted(p.name for p in base.iterdir() if p.name not in ("trace", "attempt", "job.inp", "scr", "out", "sub")) + \
        obs.get("launch_dir_leftovers", [])
    outp = base / "out" / "job.out"
    if outp.exists():
        try:
            o = JobOutput.load(outp)
            obs["out"] = {"exitcode": o.exitcode,
                          "stdouts": {k: v.encode().hex() for k, v in (o.stdouts or {}).items()},
                          "stderrs": {k: v.encode().hex() for k, v in (o.stderrs or {}).items()},
                          "files": {k: bytes(v).hex() for k, v in (o.files or {}).items()},
                          "hash_ok": o.input_hash == want_hash}
        except Exception as e:
            obs["out"] = {"unreadable": f"{type(e).__name__}: {e}"}
    else:
        obs["out"] = None
    return obs


def simulate(scen):
    """reference semantics of the scripted commands (a plain dict as the private directory)"""
    fs = {fn: (f["data"].encode() if f["kind"] == "text" else bytes.fromhex(f["data"])) for fn, f in scen["files"].items()}
    env = dict(scen["base"]) | dict(scen["envars"])
    ran, failed = [], None
    for i, c in enumerate(scen["cmds"]):
        ran.append(i)
        if c["name"]:
            fs[c["name"] + ".out"] = b""
            fs[c["name"] + ".err"] = b""
        for e in c["effects"]:
            if e[0] == "w":
                fs[e[1]] = bytes.fromhex(e[2])
            elif e[0] == "c":
                if e[1] in fs:
                    fs[e[2]] = fs[e[1]]
            elif e[0] == "r":
                fs.pop(e[1], None)
            else:
                fs[e[2]] = env.get(e[1], "").encode()
        if c["name"]:
            fs[c["name"] + ".out"] = c["out"].encode()
            fs[c["name"] + ".err"] = c["err"].encode()
        if c["code"] != 0:
            failed = c["code"]
            break
    return fs, ran, failed


def clean_scenario(scen) -> bool:
    return all(_clean_one({**scen, "cmds": v}) for v in [scen["cmds"]] + list(scen.get("attempts") or []))


def _clean_one(scen) -> bool:
    """the hypothesis `Clean` of the theorems: capture files distinct and never a target of an effect; the output of a
    running command is not read by its own effects"""
    caps = []
    for c in scen["cmds"]:
        if c["name"]:
            caps += [c["name"] + ".out", c["name"] + ".err"]
    if len(set(caps)) != len(caps):
        return False
    for c in scen["cmds"]:
        own = [c["name"] + ".out", c["name"] + ".err"] if c["name"] else []
        for e in c["effects"]:
            tgt = e[2] if e[0] in ("c", "e") else e[1]
            if tgt in caps:
                return False
            if e[0] == "c" and (e[1] in own or e[1] == e[2]):
                return False
    return True


def oracle_run(ctx, scen, obs, tag):
    fs, ran, failed = simulate(scen)
    req = [norm(f) for f in (scen["ret"] or [])]      # the runner names returned files by their normalised relative path
    if obs["timeout"]:
        ctx.violation("C17:runner-hung", "run_local did not finish within the hard timeout", tag)
        return
    if obs["trace"] != ran:
        ctx.violation("C17:commands-not-run-in-order-until-first-failure",
                      f"commands started: {obs['trace']}, expected {ran} (first failure at {ran[-1] if failed else None})", tag)
        return
    if obs["scratch_after"] != obs["scratch_before"] and not (obs["scratch_after"] == [] and obs["scratch_before"] == []):
        ctx.violation("C17:scratch-residue", f"scratch directory before {obs['scratch_before']} after {obs['scratch_after']}", tag)
    if obs["cwd_leftovers"]:
        ctx.violation("C17:scratch-residue", f"files left in the caller's directory: {obs['cwd_leftovers']}", tag)
    out = obs["out"]
    if out is None or "unreadable" in out:
        kind = "C17:runner-dies-without-return-files" if scen["ret"] is None else "C17:no-joboutput-written"
        ctx.violation(kind, f"no readable JobOutput (exit status {obs['exit']}, return_files={scen['ret']!r})", tag)
        return
    names = {c["name"]: c for i, c in enumerate(scen["cmds"]) if i in ran and c["name"]}
    want_out = {n: c["out"].encode().hex() for n, c in names.items()}
    want_err = {n: c["err"].encode().hex() for n, c in names.items()}
    if out["stdouts"] != want_out or out["stderrs"] != want_err:
        ctx.violation("C17:named-output-not-captured", f"stdouts {out['stdouts']} / stderrs {out['stderrs']}, the commands printed {want_out} / {want_err}", tag)
    want_files = {f: fs[f].hex() for f in req if f in fs}
    if out["files"] != want_files:
        diff = sorted(set(out["files"]) ^ set(want_files)) or [f for f in want_files if out["files"][f] != want_files[f]]
        ctx.violation("C17:returned-files-differ", f"returned files differ from the directory contents for {diff[:3]}", tag)
    success = failed is None and all(f in fs for f in req)
    if (obs["exit"] == 0) != success:
        ctx.violation("C17:exit-status-wrong", f"exit status {obs['exit']}; all commands succeeded and all files exist: {success}", tag)
    elif (out["exitcode"] == 0) != (obs["exit"] == 0):
        ctx.violation("C17:joboutput-exitcode-disagrees-with-exit-status",
                      f"process exit status {obs['exit']} but JobOutput.exitcode={out['exitcode']} (missing files: {[f for f in req if f not in fs]})", tag)
    elif failed is not None and out["exitcode"] != failed:
        ctx.violation("C17:joboutput-exitcode-not-the-failing-code", f"command failed with {failed}, JobOutput.exitcode={out['exitcode']}", tag)
    if not out["hash_ok"]:
        ctx.violation("C17:output-hash-differs", "JobOutput.input_hash is not JobInput.hash", tag)


def run_line(scen) -> str:
    def env_tok(d):
        return "&".join(f"{hx(k)}={hx(v)}" for k, v in d.items()) or "-"

    files = "&".join(f"{hx(fn)}:{hx(f['data'].encode() if f['kind'] == 'text' else bytes.fromhex(f['data']))}"
                     for fn, f in scen["files"].items()) or "-"
    ret = "none" if scen["ret"] is None else ("&".join(hx(f) for f in scen["ret"]) or "-")
    cmds = []
    for c in scen["cmds"]:
        effs = []
        for e in c["effects"]:
            if e[0] == "w":
                effs.append(f"w:{hx(e[1])}:{e[2] or '-'}")
            elif e[0] == "c":
                effs.append(f"c:{hx(e[1])}:{hx(e[2])}")
            elif e[0] == "r":
                effs.append(f"r:{hx(e[1])}")
            else:
                effs.append(f"e:{hx(e[1])}:{hx(e[2])}")
        cmds.append(f"{hx(c['name']) if c['name'] else '-'}/{c['code']}/{hx(c['out'])}/{hx(c['err'])}/{','.join(effs) or '-'}")
    return f"run r {env_tok(scen['base'])} {env_tok(scen['envars'])} {files} {ret} {';'.join(cmds)}"


def obs_line(obs) -> str:
    def d(m):
        return "&".join(f"{k}:{v or '-'}" for k, v in sorted((hx(k), v) for k, v in m.items())) or "-"

    out = obs["out"]
    o = "none" if out is None or "unreadable" in out else f"{out['exitcode']}|{d(out['stdouts'])}|{d(out['stderrs'])}|{d(out['files'])}"
    extra = 0 if obs["scratch_after"] is None else len(set(obs["scratch_after"]) - set(obs["scratch_before"]))
    ex = obs["exit"] if obs["out"] is not None else 1    # any death of the runner is "exit 1, no output" in the model
    return f"ran={len(obs['trace'])} exit={ex} residue={extra} out={o}"


def check_running(ctx, n_cases, n_entry, corpus):
    scens = [c for c in corpus if c.get("section") == "run"]
    while len(scens) < n_cases + len(corpus):
        s = gen_run_scenario(ctx.rng, ctx.quick())
        if clean_scenario(s):
            scens.append(s)
    reqs = []
    for idx, s in enumerate(scens):
        ctx.check_deadline()
        obs = observe_run(ctx, s, idx)
        fail_pos = next((i for i, c in enumerate(s["cmds"]) if c["code"] != 0), None)
        ctx.case(json.dumps(s, sort_keys=True), nontrivial=len(s["cmds"]) > 1 or bool(s["ret"]))
        ctx.count(f"run-commands={len(s['cmds'])}")
        ctx.count(f"run-first-failure={'none' if fail_pos is None else fail_pos}")
        if fail_pos is not None:
            ctx.count("run-failure-kind:" + ("signal" if s["cmds"][fail_pos]["code"] < 0 else "exit-status"))
        ctx.count("run-return_files=" + ("None" if s["ret"] is None else "empty" if not s["ret"] else "some"))
        ctx.count(f"run-input-files={len(s['files'])}")
        ps = s.get("paths") or {}
        ctx.count("run-paths:" + "/".join(f"{k}={ps.get(k, 'abs')}" for k in ("inp", "out", "scr")))
        ctx.count(f"run-launch-directory:{ps.get('cwd', 'base')}")
        if s["envars"]:
            ctx.count("run-env-overrides")
        if any(v in s["base"] for v in s["envars"]):
            ctx.count("run-env-override-of-a-preset-variable")
        oracle_run(ctx, s, obs, s)
        reqs.append((run_line(s), obs_line(obs), s))
        for k, variant in enumerate(s.get("attempts") or []):
            # executed again into the same output directory: the commands must run and the report must be about THIS execution
            sk = {**{x: y for x, y in s.items() if x != "attempts"}, "cmds": variant}
            obs_k = observe_run(ctx, s, idx, attempt=k + 1)
            prev_failed = any(c["code"] != 0 for c in (s["cmds"] if k == 0 else s["attempts"][k - 1]))
            ctx.count("run-executed-again-after:" + ("a-failing-execution" if prev_failed else "a-successful-or-incomplete-execution"))
            ctx.case(json.dumps(sk, sort_keys=True) + f":again{k + 1}", nontrivial=True)
            oracle_run(ctx, sk, obs_k, {**s, "execution": k + 2})
            reqs.append((run_line(sk), obs_line(obs_k), {**s, "execution": k + 2}))
        if idx < 2:
            ctx.sample({"run_scenario": {"cmds": [{k: c[k] for k in ("name", "code")} for c in s["cmds"]], "ret": s["ret"]},
                        "observed": {k: obs[k] for k in ("exit", "trace")}, "joboutput_exitcode": (obs["out"] or {}).get("exitcode")})
    # a subset through the installed console script (separate interpreter: ≈1 s each, in parallel)
    sub = [(i, s) for i, s in enumerate(scens) if clean_scenario(s)][:n_entry]
    with ThreadPoolExecutor(max_workers=min(8, max(1, len(sub)))) as ex:
        futs = [(s, ex.submit(observe_run, ctx, s, i, True)) for i, s in sub]
        for s, f in futs:
            obs = f.result()
            ctx.case("entry:" + json.dumps(s, sort_keys=True), nontrivial=True)
            ctx.count("run-via-_molli_run-entry-point")
            oracle_run(ctx, s, obs, {**s, "via": "_molli_run"})
            reqs.append((run_line(s), obs_line(obs), {**s, "via": "_molli_run"}))
    outs = ctx.driver([r[0] for r in reqs])
    for (line, ol, s), mo in zip(reqs, outs):
        if mo != ol:
            ctx.disagree("run_local differs from the model", s, ol, mo)
    ctx.extra_cov["runs"] = len(reqs)


# --------------------------------------------------------------------------------------
# Part 3: which program a command starts
# --------------------------------------------------------------------------------------
TOOL = "c17tool"


def install_tools(ctx):
    """the same bare program name in two absolute directories (prints A / B)"""
    out = {}
    for tag in ("a", "b"):
        d = ctx.scratch / "tools" / tag
        d.mkdir(parents=True, exist_ok=True)
        f = d / TOOL
        f.write_text(f"#!/bin/sh\necho {tag.upper()}\n")
        f.chmod(0o755)
        out[tag.upper()] = str(d)
    return out


def gen_lookup(rng, dirs):
    sysdirs = "/usr/bin:/bin"
    ta, tb = dirs["A"], dirs["B"]
    job_path = rng.choice([f"{tb}:{ta}:{sysdirs}", f"{ta}:{tb}:{sysdirs}", f"rel:{ta}:{sysdirs}", f":{ta}:{sysdirs}", "", f"{tb}", None,
                           f"/nonexistent:{tb}:{ta}", f"{tb}::{ta}"])
    base_path = rng.choice([f"{ta}:{os.environ.get('PATH', sysdirs)}", f"{tb}:{os.environ.get('PATH', sysdirs)}"])
    progs = [rng.choice([TOOL, TOOL, TOOL, f"rel/{TOOL}", f"./{TOOL}", f"{ta}/{TOOL}", f"{tb}/{TOOL}"]) for _ in range(rng.range(1, 3))]
    return {"section": "lookup", "job_path": job_path, "base_path": base_path, "progs": progs,
            "other_env": {"C17_A": "x"} if rng.chance(1, 2) else {}}


def expected_program(scen, dirs):
    """first-match rule of execvpe, written down independently of the model: a name with a slash is used as it is, a bare
    name is tried in every entry of the PATH the COMMAND sees (empty entry = current directory)"""
    path = scen["job_path"] if scen["job_path"] is not None else scen["base_path"]
    have = {f"{dirs['A']}/{TOOL}": "A", f"{dirs['B']}/{TOOL}": "B", f"rel/{TOOL}": "R", TOOL: "C", f"./{TOOL}": "C"}
    out = []
    for p in scen["progs"]:
        if "/" in p:
            out.append(have.get(p))
            continue
        for d in path.split(":"):
            cand = p if d == "" else f"{d}/{p}"
            if cand in have:
                out.append(have[cand])
                break
        else:
            out.append(None)
    return out, have


def check_lookup(ctx, n):
    from molli.pipeline.job import JobInput, JobOutput

    dirs = install_tools(ctx)
    reqs = []
    for k in range(n):
        scen = gen_lookup(ctx.rng, dirs)
        want, have = expected_program(scen, dirs)
        if None in want:
            continue
        base = ctx.scratch / f"lookup{k}"
        base.mkdir()
        setup = (f"PATH=/usr/bin:/bin; mkdir rel; printf '#!/bin/sh\\necho R\\n' > rel/{TOOL}; printf '#!/bin/sh\\necho C\\n' > {TOOL}; "
                 f"chmod +x rel/{TOOL} {TOOL}")
        commands = [(shlex.join([shell(), "-c", setup]), None)] + [(f"{p} arg", f"p{i}") for i, p in enumerate(scen["progs"])]
        envars = dict(scen["other_env"])
        if scen["job_path"] is not None:
            envars["PATH"] = scen["job_path"]
        inp = JobInput("lookup", commands=commands, files={}, return_files=(), envars=envars or None)
        inp.dump(base / "job.inp")
        status = run_forked(["_molli_run", str(base / "job.inp"), "-o", str(base / "out"), "-s", str(base / "scr")], base,
                            {"PATH": scen["base_path"]}, 60)
        ctx.case(json.dumps({**scen, "job_path": (scen["job_path"] or "").replace(dirs["A"], "<A>").replace(dirs["B"], "<B>") if scen["job_path"] is not None else None,
                             "base_path": "<A>" if scen["base_path"].startswith(dirs["A"]) else "<B>",
                             "progs": [p.replace(dirs["A"], "<A>").replace(dirs["B"], "<B>") for p in scen["progs"]]}, sort_keys=True),
                 nontrivial=scen["job_path"] is not None)
        ctx.count("lookup-job-PATH:" + ("unset" if scen["job_path"] is None else "empty" if scen["job_path"] == "" else
                                       "relative-dir-first" if scen["job_path"].startswith("rel") else "empty-entry" if scen["job_path"].startswith(":") or "::" in scen["job_path"] else "absolute-dirs"))
        for p in scen["progs"]:
            ctx.count("lookup-program:" + ("bare-name" if "/" not in p else "relative" if not p.startswith("/") else "absolute"))
        got = None
        outp = base / "out" / "job.out"
        if outp.exists():
            o = JobOutput.load(outp)
            got = [(o.stdouts or {}).get(f"p{i}", "").strip() or None for i in range(len(scen["progs"]))]
        if status != 0 or got != want:
            ctx.violation("C17:command-started-another-program-than-the-job-environment-selects",
                          f"programs {scen['progs']} with job PATH {scen['job_path']!r} (runner PATH starts with {scen['base_path'].split(':')[0]!r}): "
                          f"output {got} (exit {status}), the job's environment selects {want}", scen)
        envtok = "&".join(f"{hx(a)}={hx(b)}" for a, b in envars.items()) or "-"
        line = f"lookup {hx('PATH')}={hx(scen['base_path'])} {envtok} {','.join(hx(f) for f in have)} " + " ".join(hx(p) for p in scen["progs"])
        reqs.append((line, got, have, scen))
    outs = ctx.driver([r[0] for r in reqs])
    for (line, got, have, scen), mo in zip(reqs, outs):
        sel = [None if t == "none" else have.get(bytes.fromhex(t).decode()) for t in mo.split(" ")]
        if sel != got:
            ctx.disagree("the program started differs from the model's lookup", scen, got, sel)
    ctx.extra_cov["program_lookups"] = len(reqs)


# --------------------------------------------------------------------------------------
# Part 4: the job-preparing methods of the bundled drivers
# --------------------------------------------------------------------------------------
def parse_cli(tokens, valued):
    """(positionals, flags, options) of a command line; `valued` = options that take one value"""
    pos, flags, opts = [], [], {}
    i = 0
    while i < len(tokens):
        t = tokens[i]
        if t in valued and i + 1 < len(tokens):
            opts[t] = tokens[i + 1]
            i += 2
        elif t.startswith("-"):
            flags.append(t)
            i += 1
        else:
            pos.append(t)
            i += 1
    return pos, sorted(flags), opts


def check_drivers(ctx):
    """Every job-preparing method of XTBDriver, CrestDriver and ORCADriver.basic_calc_m over a grid of arguments.  The reference is
    hand-written from what the arguments MEAN (net charge and number of unpaired electrons = multiplicity − 1 as asked for, else the
    molecule's; every option where its program expects it; every input text in a file the command names) — not generated
    from the source, so that it does not follow an edit of the source."""
    import molli as ml
    from molli.pipeline.crest import CrestDriver
    from molli.pipeline.orca import ORCADriver
    from molli.pipeline.xtb import XTBDriver

    rng = ctx.rng
    bad = []

    def expect(what, got, want, args):
        if got != want:
            bad.append((what, got, want, args))

    n = 0
    for mc, mm in ((0, 1), (1, 2), (-1, 1), (0, 3), (2, 1)):
        M = ml.Molecule(["C", "H", "H", "H", "O"], name=f"mol_{mc}_{mm}", charge=mc, mult=mm)
        M.coords = [[0.0, 0.0, 0.0], [1.0, 0.0, 0.0], [0.0, 1.0, 0.0], [0.0, 0.0, 1.0], [-1.0, -1.0, 0.3]]
        xyz = M.dumps_xyz().encode()
        for charge in (None, 0, 2, -1):
            for mult in (None, 1, 3):
                nprocs = rng.choice([1, 4, 16])
                exe = rng.choice(["/opt/x/prog", "prog-6.5"])
                want_c = mc if charge is None else charge
                want_uhf = (mm if mult is None else mult) - 1
                method = rng.choice(["gfn2", "gff", "gfn1"])
                acc = rng.choice([0.5, 0.05, 1.0])
                maxiter = rng.choice([500, 17])
                xtbinp = rng.choice(["", "$wall\n potential=logfermi\n$end\n"])
                misc = rng.choice([None, "--alpb water", "--verbose"])
                crit = rng.choice(["loose", "tight"])
                x = XTBDriver(executable=exe, nprocs=nprocs, check_exe=False, find=False)
                common = dict(charge=charge, mult=mult, method=method, xtbinp=xtbinp, maxiter=maxiter, misc=misc)
                jobs = [("XTBDriver.optimize_m", x.optimize_m.prepare(M, crit=crit, **common), ("xtbopt.xyz",), {"--opt": crit}, []),
                        ("XTBDriver.energy_m", x.energy_m.prepare(M, accuracy=acc, **common), (), {"--acc": f"{acc:0.2f}"}, []),
                        ("XTBDriver.atom_properties_m", x.atom_properties_m.prepare(M, accuracy=acc, **common), (), {"--acc": f"{acc:0.2f}"}, ["--vfukui"])]
                for name, inp, rf, extra, xflags in jobs:
                    n += 1
                    args = {"method": name, "mol_charge": mc, "mol_mult": mm, **common, "nprocs": nprocs}
                    toks = shlex.split(inp.commands[0][0])
                    pos, flags, opts = parse_cli(toks[1:], {"--charge", "--uhf", "--iterations", "--input", "-P", "--acc", "--opt", "--alpb"})
                    expect(f"{name}: program", toks[0], exe, args)
                    expect(f"{name}: structure file", pos, ["input.xyz"], args)
                    want_opts = {"--charge": str(want_c), "--uhf": str(want_uhf), "--iterations": str(maxiter), "-P": str(nprocs), **extra}
                    if xtbinp:
                        want_opts["--input"] = "param.inp"
                    if misc == "--alpb water":
                        want_opts["--alpb"] = "water"
                    expect(f"{name}: options", opts, want_opts, args)
                    expect(f"{name}: flags", flags, sorted([f"--{method}"] + xflags + (["--verbose"] if misc == "--verbose" else [])), args)
                    want_files = {"input.xyz": xyz, **({"param.inp": xtbinp.encode()} if xtbinp else {})}
                    expect(f"{name}: input files", {k: bytes(v) if not isinstance(v, str) else v.encode() for k, v in (inp.files or {}).items()}, want_files, args)
                    expect(f"{name}: requested files", tuple(inp.return_files or ()), rf, args)
                    expect(f"{name}: command name", inp.commands[0][1], "xtb", args)
                # scan_dihedral
                n += 1
                steps, fc, rng_deg = rng.choice([72, 12]), rng.choice([0.5, 0.05]), rng.choice([(0.0, 360.0), (-30.0, 60.0)])
                inp = x.scan_dihedral.prepare(M, (1, 0, 4, 2), method=method, accuracy=acc, range_deg=rng_deg, n_steps=steps,
                                               maxiter_per_step=maxiter, force_const=fc, charge=charge, mult=mult)
                args = {"method": "XTBDriver.scan_dihedral", "mol_charge": mc, "mol_mult": mm, "charge": charge, "mult": mult}
                toks = shlex.split(inp.commands[0][0])
                pos, flags, opts = parse_cli(toks[1:], {"--charge", "--uhf", "--input", "-P", "--acc"})
                expect("scan_dihedral: program / structure", [toks[0]] + pos, [exe, "mol.xyz"], args)
                expect("scan_dihedral: options", opts, {"--charge": str(want_c), "--uhf": str(want_uhf), "--acc": f"{acc:0.2f}", "--input": "scan.inp", "-P": str(nprocs)}, args)
                expect("scan_dihedral: flags", flags, sorted([f"--{method}", "--opt"]), args)
                scan = bytes(inp.files["scan.inp"]).decode()
                import math
                d0 = math.degrees(M.dihedral(1, 0, 4, 2)) + rng_deg[0]
                ok = (f"force constant={fc}" in scan and "dihedral: 2,1,5,3," in scan and f"maxcycle={maxiter}" in scan and
                      any(l.strip().startswith("1:") and abs(float(l.split(":")[1].split(",")[0]) - d0) < 1e-6 and
                          abs(float(l.split(",")[1]) - (d0 + rng_deg[1])) < 1e-6 and l.strip().endswith(f",{steps}") for l in scan.splitlines()))
                expect("scan_dihedral: scan.inp reflects atoms / range / steps / force constant", ok, True, args)
                expect("scan_dihedral: files", sorted(inp.files), ["mol.xyz", "scan.inp"], args)
                expect("scan_dihedral: structure file content", bytes(inp.files["mol.xyz"]), xyz, args)
                # crest
                c = CrestDriver(executable=exe, nprocs=nprocs, check_exe=False, find=False)
                ewin, temp, chk = rng.choice([None, 6.0]), rng.choice([None, 298.15]), rng.choice([None, True])
                ens = ml.ConformerEnsemble(M, n_conformers=2)
                ens.coords = [M.coords, M.coords + 0.1]
                for name, inp, first, rf in (("CrestDriver.conformer_search", c.conformer_search.prepare(M, charge=charge, mult=mult, method=method, ewin=ewin, temp=temp, chk_topo=chk, misc=misc), ["input.xyz"], ["crest_conformers.xyz"]),
                                             ("CrestDriver.conformer_screen", c.conformer_screen.prepare(ens, charge=charge, mult=mult, method=method, ewin=ewin, temp=temp, chk_topo=chk, misc=misc), ["input.xyz"], ["crest_ensemble.xyz"])):
                    n += 1
                    args = {"method": name, "mol_charge": mc, "mol_mult": mm, "charge": charge, "mult": mult, "ewin": ewin, "temp": temp, "chk_topo": chk, "misc": misc}
                    toks = shlex.split(inp.commands[0][0])
                    pos, flags, opts = parse_cli(toks[1:], {"-T", "-chrg", "-uhf", "-ewin", "-temp", "--alpb"})
                    expect(f"{name}: program / structure", [toks[0]] + pos, [exe] + first, args)
                    want_opts = {"-T": str(nprocs), "-chrg": str(want_c), "-uhf": str(want_uhf)}
                    if ewin is not None:
                        want_opts["-ewin"] = f"{ewin:0.4f}"
                    if temp is not None:
                        want_opts["-temp"] = f"{temp:0.4f}"
                    if misc == "--alpb water":
                        want_opts["--alpb"] = "water"
                    expect(f"{name}: options", opts, want_opts, args)
                    expect(f"{name}: flags", flags, sorted([f"-{method}"] + (["-screen"] if "screen" in name else []) + ([] if chk else ["--noreftopo"]) + (["--verbose"] if misc == "--verbose" else [])), args)
                    expect(f"{name}: requested files", list(inp.return_files or ()), rf, args)
                # orca
                n += 1
                mem = rng.choice([8000, 3000])
                o = ORCADriver(executable=exe, nprocs=nprocs, memory=mem, check_exe=False, find=False)
                kw, suffix = rng.choice(["rks b97-3c energy", "uks pbe0 def2-svp opt"]), rng.choice([None, "--oversubscribe"])
                inp = o.basic_calc_m.prepare(M, keywords=kw, charge=charge, mult=mult, orca_suffix=suffix)
                args = {"method": "ORCADriver.basic_calc_m", "mol_charge": mc, "mol_mult": mm, "charge": charge, "mult": mult}
                text = bytes(inp.files["m_orca.inp"]).decode()
                lines = [l.strip() for l in text.splitlines() if l.strip()]
                expect("basic_calc_m: command", shlex.split(inp.commands[0][0]), [exe, "m_orca.inp"] + ([suffix] if suffix else []), args)
                expect("basic_calc_m: %pal / %maxcore / keywords", [l for l in lines if l.startswith(("%pal", "%maxcore", "!"))],
                       [f"%pal nprocs {nprocs} end", f"%maxcore {mem // nprocs}", f"! {kw}"], args)
                expect("basic_calc_m: *xyz charge mult", [l for l in lines if l.startswith("*xyz")], [f"*xyz {want_c} {mm if mult is None else mult}"], args)
    ctx.count("driver-method-preparations", n)
    ctx.case(f"driver-grid:{n}", nontrivial=True)
    seen = set()
    for what, got, want, args in bad:
        cls = what + ("/explicit-zero-charge" if args.get("charge") == 0 and args.get("mol_charge") and "option" in what or (args.get("charge") == 0 and args.get("mol_charge") and "*xyz" in what) else "")
        if cls in seen:
            continue
        seen.add(cls)
        ctx.violation("C17:driver-jobinput-does-not-reflect-arguments", f"{what}: prepared {got!r}, the arguments ask for {want!r} ({args})",
                      {"section": "driver-method", "what": what, "args": args, "prepared": repr(got), "asked": repr(want)})
    ctx.extra_cov["driver_method_mismatches"] = len(bad)


def load_corpus():
    d = common.VERIF / "corpus" / "C17"
    out = []
    if d.is_dir():
        for p in sorted(d.glob("*.json")):
            obj = json.loads(p.read_text())
            out.extend(obj if isinstance(obj, list) else [obj])
    return out


def run(ctx):
    ctx.rule = ("Part 1: for 2 and 3 driver instances with distinct settings (class / declaration / instance levels randomly "
                "present) EVERY order of creations and uses (6 + 90 orders, creation before use), histories with repeated uses, and random "
                "histories of 6..18 events in which drivers are also re-configured (attributes assigned) and discarded (del + gc) and "
                "followed by new drivers with other settings; sequences of instances of two driver classes that share the job object "
                "(one or both declaring a default_executable), created with an explicit executable or relying on the class default, with "
                "the PATH lookup on (fake programs first on the PATH) or off, in every creation / use order; "
                "non-trivial = the instances differ. Part 2: command lists of length 1..4, first failure at every position or none, "
                "failures by exit status {1,2,3,127,255} or by signal {KILL,TERM,SEGV,INT}, named/unnamed commands, 0..3 text/binary input files (empty, NUL, 0xFF, CRLF, UTF-8), "
                "scripted writes/copies/removals/environment dumps (also into sub-directories, equal base names in different directories), "
                "return_files = subset of created, input, capture and missing paths in several spellings (`sub/r.bin`, `./x`, `a//b`) "
                "names / empty / None, environment overrides in job and runner, pre-populated scratch directory, every path argument "
                "(input file, -o, -s) absolute or relative, a third of the inputs executed two or three times into the same output directory while "
                "the scripted programs behave differently each time (after success, after a failing command, after a missing file), runner launched from the job's directory, a sub-directory or an unrelated one; non-trivial = more "
                "than one command or a requested file. Part 3: commands given as a bare program name, a relative or an absolute path, with the same "
                "bare name present in two absolute directories, a relative directory and the private directory itself; the job's envars set PATH "
                "(several orders, a relative first entry, empty entries, empty PATH, a single directory) or leave it alone while the runner's own PATH "
                "prefers the other directory. Part 4: every job-preparing method of XTBDriver (optimize_m, energy_m, atom_properties_m, scan_dihedral), "
                "CrestDriver (conformer_search, conformer_screen) and ORCADriver.basic_calc_m over molecule charge/multiplicity x explicit charge "
                "(None, 0, 2, -1) x explicit multiplicity (None, 1, 3) with random options. Distinct by canonical scenario.")
    ctx.assumptions += [
        "the shell, subprocess and TemporaryDirectory are environment: commands are `sh -c` scripts generated from the scripted outcomes",
        "stdout/stderr texts are valid UTF-8 without NUL or CR (run_local reads the capture files in text mode)",
        "scenarios satisfy `Clean`: capture files <name>.out/.err are distinct and no scripted effect writes to them",
        "the locale encoding of the runner is UTF-8 (text input files are compared as their UTF-8 bytes)",
    ]
    ctx.proof(props=["Molli.Props.C17"], gen=[])
    corpus = load_corpus()
    for s in [c for c in corpus if c.get("section") == "bind"]:
        install_programs(ctx)
        observed, evtoks = run_bind_scenario(s)
        ctx.case("corpus:" + json.dumps(s, sort_keys=True), nontrivial=True)
        oracle_bind(ctx, s, observed)
    check_binding(ctx)
    q = ctx.quick()
    check_running(ctx, 120 if q else 2500, 4 if q else 40, corpus)
    check_lookup(ctx, 24 if q else 300)
    check_drivers(ctx)


def replay(ctx, path):
    obj = json.loads(Path(path).read_text())
    print(json.dumps(obj, indent=1)[:3000])
    r = obj.get("replay") or {}
    if r.get("section") == "bind":
        observed, _ = run_bind_scenario(r)
        print("settings of the prepared inputs on the real code:")
        for o in observed:
            print("  ", o)
    elif r.get("section") == "run":
        obs = observe_run(ctx, r, 0)
        print("observed:", json.dumps(obs, indent=1)[:3000])
        fs, ran, failed = simulate(r)
        print("expected commands started:", ran, "failed code:", failed)
    return 0
