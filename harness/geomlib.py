"""
Shared helpers of the geometry checks (C11, C12): exact number tokens for the Lean driver,
rational test points, random 3-D tree/ring fragments built through molli's public API,
model-free numpy oracles (distance matrices, signed volumes).
"""
from __future__ import annotations

import math
import struct
from fractions import Fraction

import numpy as np

TOL = 1e-9          # assumption A-fp: float64 evaluation vs exact arithmetic on the generated inputs
TOL_DEG = 1e-6      # degenerate neighbourhoods (1 + c down to 1e-8 amplifies rounding by up to 1e8)


def leanchecker(ctx, modules):
    """thorough tier: replay the compiled property modules through the independent kernel re-checker"""
    import subprocess
    from harness import common
    try:
        r = subprocess.run(["lake", "env", "leanchecker"] + list(modules), cwd=common.LEAN, capture_output=True, text=True, timeout=1500)
    except subprocess.TimeoutExpired:
        ctx.proof_result.fail("leanchecker timed out")
        return
    if r.returncode != 0:
        ctx.proof_result.fail("leanchecker rejected the modules: " + (r.stdout + r.stderr).strip()[:300])
    else:
        ctx.notes.append("leanchecker replayed " + ", ".join(modules))


# ------------------------------------------------------------------------------------------
# numbers across the driver boundary
# ------------------------------------------------------------------------------------------
def fbits(x) -> str:
    """a float as the exact dyadic rational it denotes (IEEE-754 bit pattern token)"""
    return "x%016x" % struct.unpack(">Q", struct.pack(">d", float(x)))[0]


def frtok(q: Fraction) -> str:
    q = Fraction(q)
    return str(q.numerator) if q.denominator == 1 else f"{q.numerator}/{q.denominator}"


def ftoks(arr) -> str:
    return " ".join(fbits(x) for x in np.asarray(arr, dtype=float).ravel())


def qtoks(seq) -> str:
    return " ".join(frtok(x) for x in seq)


def parse_q(tok: str) -> Fraction:
    return Fraction(tok)


def parse_nums(tokens) -> list[Fraction]:
    return [Fraction(t) for t in tokens]


def to_float(q: Fraction) -> float:
    return q.numerator / q.denominator


def close(a, b, tol=TOL) -> bool:
    a = np.asarray(a, dtype=float)
    b = np.asarray(b, dtype=float)
    if a.shape != b.shape:
        return False
    if not (np.all(np.isfinite(a)) and np.all(np.isfinite(b))):
        return False
    return bool(np.all(np.abs(a - b) <= tol * np.maximum(1.0, np.abs(b))))


def model_array(resp: str, prefix: str, shape):
    """parse a driver answer `<prefix> n1 n2 …` into a float array of `shape`; None if malformed"""
    parts = resp.split()
    if not parts or parts[0] != prefix:
        return None
    try:
        vals = [to_float(Fraction(t)) for t in parts[1:]]
    except (ValueError, ZeroDivisionError):
        return None
    if len(vals) != int(np.prod(shape)):
        return None
    return np.array(vals, dtype=float).reshape(shape)


# ------------------------------------------------------------------------------------------
# rational test points
# ------------------------------------------------------------------------------------------
def pythagorean_quadruples(limit: int = 21):
    """all (a, b, c, d) with a² + b² + c² = d², 0 ≤ a ≤ b ≤ c, d ≤ limit, gcd = 1"""
    out = []
    for d in range(1, limit + 1):
        for a in range(0, d + 1):
            for b in range(a, d + 1):
                c2 = d * d - a * a - b * b
                if c2 < b * b:
                    break
                c = math.isqrt(c2)
                if c * c == c2 and math.gcd(math.gcd(a, b), math.gcd(c, d)) == 1:
                    out.append((a, b, c, d))
    return out


_QUADS = pythagorean_quadruples()


def rational_unit(rng) -> tuple[Fraction, Fraction, Fraction]:
    a, b, c, d = rng.choice(_QUADS)
    comps = [a, b, c]
    rng.shuffle(comps)
    return tuple(Fraction(x * rng.choice([1, -1]), d) for x in comps)


def half_angle(rng, special: bool = True) -> tuple[Fraction, Fraction]:
    """(sin, cos) from the tangent half-angle parametrisation; includes angle 0, ±90°, 180°"""
    if special and rng.chance(1, 6):
        return rng.choice([(Fraction(0), Fraction(1)), (Fraction(0), Fraction(-1)),
                           (Fraction(1), Fraction(0)), (Fraction(-1), Fraction(0))])
    t = Fraction(rng.range(-40, 40), rng.range(1, 12))
    return (2 * t / (1 + t * t), (1 - t * t) / (1 + t * t))


def rot_axis_q(u, s, c):
    """exact rotation_matrix_from_axis for a rational unit axis (column convention matrix)"""
    ux, uy, uz = u
    W = [[0, -uz, uy], [uz, 0, -ux], [-uy, ux, 0]]
    W2 = [[sum(W[i][k] * W[k][j] for k in range(3)) for j in range(3)] for i in range(3)]
    return [[(1 if i == j else 0) + s * W[i][j] + (1 - c) * W2[i][j] for j in range(3)] for i in range(3)]


def qmat_to_np(m) -> np.ndarray:
    return np.array([[to_float(Fraction(x)) for x in row] for row in m], dtype=float)


# ------------------------------------------------------------------------------------------
# numpy oracles (model-free)
# ------------------------------------------------------------------------------------------
def dist_matrix(c: np.ndarray) -> np.ndarray:
    d = c[:, None, :] - c[None, :, :]
    return np.sqrt((d * d).sum(axis=2))


def signed_volumes(c: np.ndarray, quads) -> np.ndarray:
    out = []
    for (i, j, k, m) in quads:
        out.append(float(np.dot(c[j] - c[i], np.cross(c[k] - c[i], c[m] - c[i]))))
    return np.array(out)


def some_quads(n: int, rng, count: int = 40):
    if n < 4:
        return []
    out = []
    for _ in range(count):
        idx = list(range(n))
        rng.shuffle(idx)
        out.append(tuple(idx[:4]))
    return out


def rigid_same(before: np.ndarray, after: np.ndarray, quads, tol=1e-8) -> tuple[bool, bool]:
    """(distances preserved, signed volumes preserved) between two conformations of the same atoms"""
    if before.shape != after.shape or not np.all(np.isfinite(after)):
        return (False, False)
    scale = max(1.0, float(np.abs(before).max()) if before.size else 1.0)
    d_ok = bool(np.all(np.abs(dist_matrix(before) - dist_matrix(after)) <= tol * scale))
    if quads:
        v_ok = bool(np.all(np.abs(signed_volumes(before, quads) - signed_volumes(after, quads)) <= tol * scale ** 3))
    else:
        v_ok = True
    return (d_ok, v_ok)


def kabsch(P: np.ndarray, Q: np.ndarray):
    """reference `func` for alignment: proper rotation R minimising |P @ R − Q|, and that RMSD.
    No centring (molli centres the ensemble before calling it)."""
    H = P.T @ Q
    U, S, Vt = np.linalg.svd(H)
    d = np.sign(np.linalg.det(U @ Vt))
    D = np.diag([1.0, 1.0, d if d != 0 else 1.0])
    R = U @ D @ Vt
    diff = P @ R - Q
    return R, float(np.sqrt((diff * diff).sum() / len(P)))


def rmsd(P: np.ndarray, Q: np.ndarray) -> float:
    diff = P - Q
    return float(np.sqrt((diff * diff).sum() / len(P)))


# ------------------------------------------------------------------------------------------
# random fragments through molli's public API
# ------------------------------------------------------------------------------------------
def random_topology(rng, n: int, ring: bool):
    """a connected graph on n vertices: random tree (+ one ring closure when `ring`)"""
    edges = []
    for i in range(1, n):
        edges.append((rng.below(i), i))
    if ring and n >= 4:
        for _ in range(10):
            a, b = rng.below(n), rng.below(n)
            if a != b and (a, b) not in edges and (b, a) not in edges:
                edges.append((a, b))
                break
    return edges


def random_coords(rng, n: int, grid: int = 8, span: int = 5) -> np.ndarray:
    """distinct points with coordinates that are multiples of 1/grid (exact floats), spread in 3-D"""
    seen = set()
    pts = []
    while len(pts) < n:
        p = tuple(rng.range(-span * grid, span * grid) for _ in range(3))
        if p in seen:
            continue
        # keep atoms at least 0.7 apart so that no vector used by the code is (near) zero
        ok = True
        for q in pts:
            if sum((a - b) ** 2 for a, b in zip(p, q)) < (0.7 * grid) ** 2:
                ok = False
                break
        if ok:
            seen.add(p)
            pts.append(p)
    return np.array(pts, dtype=float) / grid


def adjacency(n: int, edges):
    adj = {i: [] for i in range(n)}
    for a, b in edges:
        adj[a].append(b)
        adj[b].append(a)
    return adj


def component_without_edge(n: int, edges, a: int, b: int):
    """vertices reachable from b when the edge a–b is removed (own BFS: the model-free far side)"""
    adj = adjacency(n, [e for e in edges if set(e) != {a, b}])
    seen = {b}
    todo = [b]
    while todo:
        x = todo.pop()
        for y in adj[x]:
            if y not in seen:
                seen.add(y)
                todo.append(y)
    return seen


def build_molecule(ml, elements, edges, coords, name="m", charge=0, mult=1, ap_index=None, labels=None):
    """a Molecule made through the public API; atom `ap_index` (if any) is an attachment point"""
    from molli.chem import Atom, Bond, Element, AtomType

    atoms = []
    for i, el in enumerate(elements):
        lbl = labels[i] if labels else f"{name}{i}"
        if ap_index is not None and i == ap_index:
            atoms.append(Atom(Element.Unknown, label=lbl, atype=AtomType.AttachmentPoint))
        else:
            atoms.append(Atom(Element[el], label=lbl))
    m = ml.Molecule(atoms, name=name, copy_atoms=False, charge=charge, mult=mult)
    for a, b in edges:
        m.append_bond(Bond(atoms[a], atoms[b]))
    m.coords = np.array(coords, dtype=float)
    return m
