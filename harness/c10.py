"""
C10 — damaged or truncated input is rejected, never returned as a partial molecule; the readers terminate.

Proof:  Molli.Props.C10 (read_terminates, read_blocks_terminate, read_complete_or_error, no_cross_molecule_state,
        truncation_prefix, truncation_last_record, xyz_read_terminates, xyz_complete_or_error, xyz_truncation_lines,
        xyz_tail_counterexample, xyz_truncation_partial, cut_form) about the
        reader models of C07/C08, total on ARBITRARY line lists.
Tie:    differential on damaged texts: every line-boundary truncation and every byte offset of the last record
        (exhaustive per file) of generated and bundled mol2 / xyz texts, plus seeded line deletions, duplications
        and token corruptions; the real loads_all_mol2 / loads_all_xyz under a 5 s wall-clock limit per text
        against the model readers; outcome = 'err' or the list of canonical molecules.
Oracle: model-free: (1) each returned molecule has exactly the atom and bond counts its own header declares
        (independent scan of the damaged text); (2) for truncations the returned molecules are a content-equal
        prefix of the undamaged file's molecules; (3) each returned mol2 molecule equals what the real reader
        returns for that molecule's text segment alone (no state crosses '@<TRIPOS>MOLECULE'); (4) the call
        returns within the limit.
"""
from __future__ import annotations

import json
import re
from pathlib import Path

from harness import common
from harness import textlib as tl

RE_MOLTAG = re.compile(r"@<TRIPOS>MOLECULE")
TIME_LIMIT = 5.0


# --------------------------------------------------------------------------------------------
# damage
# --------------------------------------------------------------------------------------------
def line_cuts(text: str):
    """every prefix ending at a line boundary (0 lines .. all lines)"""
    pos = [0]
    i = 0
    while True:
        j = text.find("\n", i)
        if j < 0:
            break
        pos.append(j + 1)
        i = j + 1
    if pos[-1] != len(text):
        pos.append(len(text))
    return pos


def last_record_span(text: str):
    """byte span of the last non-blank line"""
    end = len(text.rstrip("\n\r \t"))
    start = text.rfind("\n", 0, end) + 1
    return start, end


NUMERIC_TOKENS = ["0", "00", "1", "6", "007", "118", "119", "999", "-1", "1.0", "1e0", "+6", "6_0"]


def corrupt_token(rng, tok: str) -> str:
    r = rng.below(10)
    if r == 9:
        return rng.choice(NUMERIC_TOKENS)
    if r == 0 and len(tok) > 1:
        i = rng.below(len(tok))
        return tok[:i] + tok[i + 1:]
    if r == 1:
        return tok + rng.choice(["x", "_", ".", "e", "0", "-"])
    if r == 2:
        return rng.choice(["", "nan", "-", "1e5", "0", "-1", "999999", "@<TRIPOS>ATOM", "#", "****", "1_0", "+3", "C.3", "Du", "ar", "1.5.2"])
    if r == 3 and any(c.isdigit() for c in tok):
        ds = [i for i, c in enumerate(tok) if c.isdigit()]
        i = rng.choice(ds)
        return tok[:i] + str(rng.below(10)) + tok[i + 1:]
    if r == 4:
        return tok.swapcase()
    if r == 5:
        return tok + " " + tok
    if r == 6 and len(tok) > 1:
        return tok[: rng.range(1, len(tok) - 1)]
    if r == 7:
        return rng.choice(["C.ar", "N.4", "S.O2", "c.3", "Xx", "Du.C", "O.co2", "H.x", "am", "du", "nc", "4", "un"])
    return tok[::-1]


def mutate(rng, text: str):
    """one seeded damage: (kind, damaged text)"""
    lines = text.split("\n")
    if len(lines) < 2:
        return ("noop", text)
    kind = rng.weighted([("del-line", 3), ("dup-line", 3), ("token", 5), ("swap-lines", 1), ("del-2", 1)])
    i = rng.below(len(lines) - 1)
    if kind == "del-line":
        del lines[i]
    elif kind == "dup-line":
        lines.insert(i, lines[i])
    elif kind == "del-2":
        del lines[i: i + 2]
    elif kind == "swap-lines" and i + 1 < len(lines):
        lines[i], lines[i + 1] = lines[i + 1], lines[i]
    else:
        kind = "token"
        toks = re.split(r"(\s+)", lines[i])
        idx = [k for k, t in enumerate(toks) if t and not t.isspace()]
        if idx:
            k = rng.choice(idx)
            toks[k] = corrupt_token(rng, toks[k])
            lines[i] = "".join(toks)
    return (kind, "\n".join(lines))


# --------------------------------------------------------------------------------------------
# independent scans of a (damaged) text: what each header declares
# --------------------------------------------------------------------------------------------
def mol2_declared_counts(text: str):
    """[(n_atoms, n_bonds)] per '@<TRIPOS>MOLECULE' line, None where the count line is unreadable"""
    lines = [l.strip() for l in text.split("\n")]
    out = []
    for i, l in enumerate(lines):
        if RE_MOLTAG.match(l):
            try:
                c = [int(x) for x in lines[i + 2].split()]
                out.append((c[0], c[1] if len(c) > 1 else None))
            except Exception:  # noqa: BLE001
                out.append(None)
    return out


def mol2_segments(text: str):
    """text split in front of every '@<TRIPOS>MOLECULE' line: [preamble+first molecule, second, ...]"""
    lines = text.split("\n")
    starts = [i for i, l in enumerate(lines) if RE_MOLTAG.match(l.strip())]
    if not starts:
        return []
    segs = []
    for k, s in enumerate(starts):
        a = 0 if k == 0 else s
        b = starts[k + 1] if k + 1 < len(starts) else len(lines)
        segs.append("\n".join(lines[a:b]))
    return segs


def xyz_declared_counts(text: str, nframes: int):
    """count lines of the first `nframes` frames, walking the text as the format prescribes"""
    lines = text.split("\n")
    if lines and lines[-1] == "":
        lines.pop()
    out, p = [], 0
    for _ in range(nframes):
        try:
            n = int(lines[p])
        except Exception:  # noqa: BLE001
            return None
        out.append(n)
        p += 2 + max(n, 0)
    return out


def mol2_line_roles(text: str):
    """role of every line of an UNdamaged mol2 text by an independent scan: 'atom' / 'bond' / 'atom-attribute' /
    'bond-attribute' for the lines between an ATOM / BOND / UNITY_ATOM_ATTR / UNITY_BOND_ATTR tag and the next tag (the
    record kinds the reader interprets), 'header' for the four lines after a MOLECULE tag, 'other' otherwise"""
    lines = text.split("\n")
    roles, cur, hdr = [], "other", 0
    for l in lines:
        t = l.strip()
        if hdr > 0:
            roles.append("header")
            hdr -= 1
            continue
        if t.startswith("@<TRIPOS>"):
            m = re.match(r"@<TRIPOS>([A-Z_]+)", t)
            tag = m.group(1) if m else ""
            cur = {"ATOM": "atom", "BOND": "bond", "UNITY_ATOM_ATTR": "atom-attribute",
                   "UNITY_BOND_ATTR": "bond-attribute"}.get(tag, "other")
            if tag == "MOLECULE":
                hdr = 4
            roles.append("tag")
        else:
            roles.append(cur)
    return lines, roles


def xyz_line_roles(text: str):
    lines = text.split("\n")
    roles, p = ["other"] * len(lines), 0
    while p < len(lines):
        try:
            n = int(lines[p])
        except ValueError:
            break
        for q in range(p + 2, min(p + 2 + max(n, 0), len(lines))):
            roles[q] = "atom"
        p += 2 + max(n, 0)
    return lines, roles


UNKNOWN_TAGS = ["COMMENT", "SUBSTRUCTURE", "SET", "CRYSIN", "ALT_TYPE", "FF_PBC", "X", "ATOMS", "MOLECULES_"]
BLOCK_CONTENT = ["converted with some third-party tool", "1 RES1 1 GROUP 0 **** **** 0", "3", "****", "1 1 2 1",
                 "      9 C9  0.000000 0.000000 0.000000 C.3 1 UNL1 0.000", "# looks like a comment", "", "a b", "1 1",
                 "charge 1"]
FILLER = ["", "# a comment line", "   ", "#", "\t"]


def gen_structured_mol2(rng, en, ml, max_atoms: int):
    """a mol2 text of 1..3 molecules with a VARIED block structure (what foreign writers produce and the reader
    accepts): unsupported @<TRIPOS> blocks with content lines at every position (before the first MOLECULE, between
    header and ATOM, between ATOM and BOND, after BOND, between molecules), blank / comment lines between sections,
    header variants (status line blank / missing / '****' + comment / free text; 2..5 counts), BOND before ATOM,
    UNITY_ATOM_ATTR. Atom and bond records are molli's own."""
    def filler():
        return [rng.choice(FILLER) for _ in range(rng.weighted([(0, 5), (1, 3), (2, 1)]))]

    def unknown_blocks(prob_num, prob_den):
        out = []
        while rng.chance(prob_num, prob_den):
            out.append("@<TRIPOS>" + rng.choice(UNKNOWN_TAGS))
            out += [rng.choice(BLOCK_CONTENT) for _ in range(rng.range(0, 3))]
            prob_den *= 3
        return out

    lines = filler() + unknown_blocks(1, 4)
    nmol = rng.weighted([(1, 2), (2, 3), (3, 1)])
    for mi in range(nmol):
        spec = tl.gen_mol_spec(rng, en, max_atoms, specials=False, name=rng.choice(["m%d" % mi, "second mol", "x y", "C 1"]))
        w = tl.build_molecule(en, spec, ml.Molecule).dumps_mol2().split("\n")
        ia, ib = w.index("@<TRIPOS>ATOM"), w.index("@<TRIPOS>BOND")
        atoms, bonds = w[ia + 1: ib], [x for x in w[ib + 1:] if x != ""]
        na, nb = len(atoms), len(bonds)
        lines.append(rng.choice(["@<TRIPOS>MOLECULE", "@<TRIPOS>MOLECULE", "  @<TRIPOS>MOLECULE  "]))
        lines.append(spec["name"])
        lines.append(rng.weighted([(f"{na} {nb}", 4), (f"{na} {nb} 0 0 0", 4), (f" {na}   {nb} 1", 3), (f"{na} {nb} 0 0", 2),
                                   (f"{na} {nb} 0 0 0 0 0", 2), (f"{na}", 1)]))
        lines.append(rng.choice(["SMALL", "BIOPOLYMER"]))
        lines.append(rng.choice(["USER_CHARGES", "GASTEIGER", "USER_CHARGES", "NO_CHARGES"]))
        st = rng.below(5)
        if st == 0:
            pass                                    # no status line: the next tag is read as status bits and put back
        elif st == 1:
            lines += ["****", rng.choice(["a comment after the status bits", "1 2 3", "# hash"])]
        elif st == 2:
            lines.append(rng.choice(["BITS", "system"]))
        else:
            lines.append("")
        sections = [["@<TRIPOS>ATOM"] + atoms, ["@<TRIPOS>BOND"] + bonds]
        if na >= 1 and rng.chance(1, 5):
            k = rng.range(1, na)
            sections[0] = sections[0] + rng.choice([["@<TRIPOS>UNITY_ATOM_ATTR", f"{k} 1", "charge 1"],
                                                     ["@<TRIPOS>UNITY_ATOM_ATTR", f"{k} 2", "charge -1", "foo bar"]])
        if nb >= 1 and rng.chance(1, 5):
            k = rng.range(1, nb)
            sections[1] = sections[1] + rng.choice([["@<TRIPOS>UNITY_BOND_ATTR", f"{k} 1", "order 1.5"],
                                                     ["@<TRIPOS>UNITY_BOND_ATTR", f"{k} 1", "a b", f"{nb} 2", "c d", "e f"]])
        if rng.chance(1, 6):
            sections.reverse()
        if rng.chance(1, 12):
            sections = sections[:1]                 # a molecule without its second section (rejected as a whole)
        if st != 0:
            lines += filler()
        lines += unknown_blocks(2, 5)               # between header and the first record section
        lines += sections[0]
        lines += filler() + unknown_blocks(2, 5)    # between the record sections
        if len(sections) > 1:
            lines += sections[1]
        lines += filler() + unknown_blocks(1, 3)    # after the last section / between molecules
    text = "\n".join(lines)
    return text + ("" if rng.chance(1, 6) else "\n")


# --------------------------------------------------------------------------------------------
def run(ctx):
    import warnings

    import molli as ml

    warnings.simplefilter("ignore")   # "TRIPOS block … is not implemented" for every damaged tag
    en = tl.Enums()
    ctx.rule = ("base texts: generated multi-molecule mol2 (1..3 molecules incl. 0-bond and 0-atom ones, written by "
                "molli), STRUCTURED mol2 texts with a varied block layout (unsupported @<TRIPOS> blocks with content at "
                "every position, blank/comment lines, header variants, BOND before ATOM, UNITY attributes), multi-frame "
                "xyz texts, plus the bundled .mol2/.xyz files; damage: EVERY line-boundary truncation, EVERY byte offset "
                "of the last record and of the whole last BOND record, EVERY single-line duplication and deletion; "
                "count lines with 1, 2, 3, 4, 5 numbers; plus seeded swaps / token "
                "corruptions. A case = one damaged text through the real reader (5 s limit), the model "
                "reader and the oracle. Non-trivial: the damaged text differs from the base text and still contains "
                "at least one complete header; distinct by text hash.")
    ctx.assumptions += [
        "ASCII whitespace only; texts are handed to loads_all_* as str (StringIO line iteration: '\\n' terminators)",
        "reading of 'same content' for non-truncation damage: counts equal the molecule's own header and nothing crosses a molecule boundary (DESIGN §6 C10)",
    ]
    ctx.proof(props=["Molli.Props.C10"], gen=["Mol2Types", "Units"])
    quick = ctx.quick()
    rng = ctx.rng
    reqs = []

    def ask(line, cb):
        reqs.append((line, cb))

    hangs = {"n": 0}
    valid_symbols = set(en.Element.__members__.keys())

    def load_mol2(text):
        if hangs["n"] >= 3:       # the verdict is already fixed; do not spend 5 s on every further text
            ctx.count("skipped_after_3_hangs")
            return "err"
        st, r = tl.limited(lambda: ml.Molecule.loads_all_mol2(text), TIME_LIMIT)
        if st == "hang":
            hangs["n"] += 1
        if st == "ok":
            return [tl.canon_mol(en, x) for x in r]
        return "hang" if st == "hang" else "err"

    def load_xyz(text):
        if hangs["n"] >= 3:
            ctx.count("skipped_after_3_hangs")
            return "err"
        st, r = tl.limited(lambda: ml.Molecule.loads_all_xyz(text), TIME_LIMIT)
        if st == "hang":
            hangs["n"] += 1
        if st == "ok":
            return [tl.canon_geom(en, x) for x in r]
        return "hang" if st == "hang" else "err"

    # ------------------------------------------------------------------ one damaged mol2 text
    def case_mol2(base_name, base_text, base_mols, kind, text, cut=None, record=None, in_last_token=False):
        ctx.check_deadline()
        nontrivial = text != base_text and bool(RE_MOLTAG.search(text))
        ctx.case("mol2:" + text, nontrivial)
        ctx.count(f"mol2:{kind}")
        replay = {"format": "mol2", "base": base_name, "damage": kind, "cut": cut, "text": text}
        impl = load_mol2(text)
        if impl == "hang":
            ctx.violation("C10:reader-does-not-terminate", f"loads_all_mol2 did not return within {TIME_LIMIT}s ({kind} of {base_name})", replay)
            return
        ctx.count("mol2:outcome=" + ("err" if impl == "err" else f"ok{min(len(impl), 3)}"))
        ask(f"read molecule ~ 1/1 {tl.hx(text)}",
            lambda resp, impl=impl, replay=replay: tl.mols_equal(impl, tl.parse_read_response(resp)) or ctx.disagree(
                "loads_all_mol2 on a damaged text differs from the model reader", replay, tl.short_mols(impl), tl.short_mols(tl.parse_read_response(resp))))
        if impl == "err":
            return
        # (1) complete: counts of the molecule's own header
        decl = mol2_declared_counts(text)
        if len(decl) == len(impl):
            for k, (m, d) in enumerate(zip(impl, decl)):
                if d is None:
                    continue
                if len(m["atoms"]) != d[0] or (d[1] is not None and len(m["bonds"]) != d[1]):
                    ctx.violation("C10:counts-differ-from-header",
                                  f"{kind} of {base_name}: molecule {k} returned with {len(m['atoms'])} atoms / {len(m['bonds'])} bonds, its header declares {d}", replay)
        # (3) nothing crosses a molecule boundary
        segs = mol2_segments(text)
        if len(segs) == len(impl):
            for k, seg in enumerate(segs):
                # a segment that is followed by another molecule is closed by a tag line in the full text (the
                # UNITY attribute loop reads up to the next tag); an unsupported tag stands in for it
                alone = load_mol2(seg if k == len(segs) - 1 else seg + "\n@<TRIPOS>END_OF_SEGMENT\n")
                if alone == "err" or alone == "hang" or len(alone) != 1 or not tl.mols_equal([impl[k]], alone):
                    ctx.violation("C10:cross-molecule-state",
                                  f"{kind} of {base_name}: molecule {k} was returned with content its own text does not contain "
                                  f"(its segment alone gives {'an error' if alone in ('err', 'hang') else 'a different molecule'})", replay)
                    break
        # (2) truncations: a content-equal prefix of the undamaged molecules
        if kind.startswith("cut") and base_mols != "err":
            if len(impl) > len(base_mols) or not tl.mols_equal(impl, base_mols[: len(impl)]):
                # a cut strictly inside a token of the final line is accepted only when that line is an ATOM record
                # (foreign layout: ATOM section last) whose shortened type / charge token is still valid — the mol2
                # twin of D22; a bond line's type token has no acceptable proper prefix (theorem)
                if cut is not None and not in_last_token and 0 < cut < len(base_text) and \
                        not base_text[cut - 1].isspace() and not base_text[cut].isspace():
                    # the same for ANY byte cut: decided on the truncated text itself — its final line is an ATOM record
                    # (by the independent role scan) and the cut fell inside one of that line's tokens
                    _, troles = mol2_line_roles(text)
                    in_last_token = bool(troles) and troles[-1] == "atom"
                k = "C10:mol2-cut-inside-last-atom-record" if in_last_token else "C10:truncated-mol2-partial"
                # a cut exactly in front of an OPTIONAL trailing attribute section (UNITY_ATOM_ATTR / UNITY_BOND_ATTR
                # after the last record section) leaves a text that is indistinguishable from a file that never had the
                # section: the molecule comes back complete in atoms and bonds, without those attributes (inherent)
                # (the cut may also fall just before the newline that ends the last record line, or inside the tag line
                #  of the optional section itself: a shortened tag is an unsupported, skipped section)
                nxt = ""
                if cut is not None:
                    c0 = cut + 1 if base_text[cut:cut + 1] == "\n" else cut
                    ls = base_text.rfind("\n", 0, c0) + 1
                    le = base_text.find("\n", ls)
                    nxt = base_text[ls: le if le >= 0 else len(base_text)].strip()
                if (nxt.startswith("@<TRIPOS>UNITY_ATOM_ATTR") or nxt.startswith("@<TRIPOS>UNITY_BOND_ATTR")) and \
                        len(impl) <= len(base_mols) and tl.mols_equal(impl, base_mols[: len(impl)], extras=False):
                    k = "C10:mol2-cut-before-attribute-section"
                ctx.violation(k, f"{kind} of {base_name} at {cut}: returned molecules are not a prefix of the undamaged file's molecules", replay)
        # (4) a duplicated / deleted record (ATOM, BOND, UNITY attribute) shifts the count-driven section: if the text
        #     is accepted at all, the molecules must still be those of the undamaged file — in EVERY field the reader
        #     fills (types, labels, coordinates, charges, formal charges, atom and bond attributes, bonds)
        if record is not None and base_mols != "err" and not tl.mols_equal(impl, base_mols):
            ctx.violation("C10:damaged-record-accepted",
                          f"{kind} of {base_name}: {record} record line {cut}: the text was accepted and a molecule differs from the undamaged file's", replay)

    # ------------------------------------------------------------------ one damaged xyz text
    def case_xyz(base_name, base_text, base_frames, kind, text, cut=None, in_last_number=False, record=None):
        ctx.check_deadline()
        ctx.case("xyz:" + text, text != base_text and len(text) > 0)
        ctx.count(f"xyz:{kind}")
        replay = {"format": "xyz", "base": base_name, "damage": kind, "cut": cut, "text": text}
        impl = load_xyz(text)
        if impl == "hang":
            ctx.violation("C10:reader-does-not-terminate", f"loads_all_xyz did not return within {TIME_LIMIT}s", replay)
            return
        ctx.count("xyz:outcome=" + ("err" if impl == "err" else f"ok{min(len(impl), 3)}"))
        ask(f"xread 1/1 {tl.hx(text)}",
            lambda resp, impl=impl, replay=replay: tl.frames_equal(impl, tl.parse_frames_response(resp)) or ctx.disagree(
                "loads_all_xyz on a damaged text differs from the model reader", replay, tl.short_frames(impl), tl.short_frames(tl.parse_frames_response(resp))))
        if impl == "err":
            return
        decl = xyz_declared_counts(text, len(impl))
        if decl is not None:
            for k, (f, n) in enumerate(zip(impl, decl)):
                if len(f["atoms"]) != n:
                    ctx.violation("C10:counts-differ-from-header", f"{kind} of {base_name}: frame {k} has {len(f['atoms'])} atoms, its count line says {n}", replay)
        if kind.startswith("cut") and base_frames != "err":
            if len(impl) > len(base_frames) or not tl.frames_equal(impl, base_frames[: len(impl)]):
                k = "C10:xyz-cut-inside-last-number" if in_last_number else "C10:truncated-xyz-partial"
                ctx.violation(k, f"{kind} of {base_name} at byte {cut}: a frame was returned whose content differs from the undamaged file", replay)
        # (5) every atom line of an accepted text carries an element symbol: a member name of Element (any letter case
        #     as `str.capitalize` maps it) or the dummy marker `*` — by an independent walk of the damaged text
        dl = text.split("\n")
        p0 = 0
        for f in impl:
            for q in range(p0 + 2, p0 + 2 + len(f["atoms"])):
                tok0 = (dl[q].split() or [""])[0] if q < len(dl) else ""
                if tok0 != "*" and tok0.capitalize() not in valid_symbols:
                    ctx.violation("C10:invalid-symbol-accepted",
                                  f"{kind} of {base_name}: the atom line {(dl[q] if q < len(dl) else '<past the end of the text>')!r} was accepted although {tok0!r} is not an element symbol", replay)
                    break
            p0 += 2 + len(f["atoms"])
        if record is not None and base_frames != "err" and not tl.frames_equal(impl, base_frames):
            ctx.violation("C10:damaged-record-accepted",
                          f"{kind} of {base_name}: atom line {cut}: the text was accepted and a frame differs from the undamaged file's", replay)

    # ------------------------------------------------------------------ base texts
    mol2_bases, xyz_bases = [], []
    for c in tl.load_corpus("C10"):
        if c.get("format") == "mol2":
            mol2_bases.append((c.get("name", "corpus"), c["text"]))
        elif c.get("format") == "xyz":
            xyz_bases.append((c.get("name", "corpus"), c["text"]))
    n_gen = 6 if quick else 60
    for i in range(n_gen):
        k = rng.weighted([(1, 1), (2, 3), (3, 2)])
        specs = [tl.gen_mol_spec(rng, en, 6 if quick else 14, specials=False, name=rng.choice(["m1", "second mol", "x", "@<TRIPOS>ATOM"])) for _ in range(k)]
        text = "".join(tl.build_molecule(en, s, ml.Molecule).dumps_mol2() for s in specs)
        mol2_bases.append((f"gen{i}", text))
    for i in range(10 if quick else 120):
        mol2_bases.append((f"struct{i}", gen_structured_mol2(rng, en, ml, 4 if quick else 10)))
        ctx.count("mol2:structured_base_texts")
    # every form of the record-count line the reader's grammar distinguishes: 1, 2, 3, 4, 5 numbers (one number = atom
    # count only: no bond count is declared, a BOND record is rejected), on one- and two-molecule texts with >= 2 bonds
    for i in range(2 if quick else 12):
        cspecs = []
        while len(cspecs) < 2:
            sp = tl.gen_mol_spec(rng, en, 5, specials=False, name="cnt")
            if len(sp["bonds"]) >= 2:
                cspecs.append(sp)
        wr = [tl.build_molecule(en, sp, ml.Molecule).dumps_mol2() for sp in cspecs]
        for nnum in (1, 2, 3, 4, 5):
            for which in ((0,), (0, 1), (1,)):         # which molecule(s) carry the short count line
                parts = []
                for mi, (sp, w) in enumerate(zip(cspecs, wr)):
                    na, nb = len(sp["atoms"]), len(sp["bonds"])
                    full = f"{na} {nb} 0 0 0"
                    short = " ".join([str(na), str(nb), "0", "0", "0"][:nnum])
                    parts.append(w.replace("\n" + full + "\n", "\n" + (short if mi in which else full) + "\n", 1))
                if which == (0,):
                    mol2_bases.append((f"counts{nnum}-single{i}", parts[0]))
                else:
                    mol2_bases.append((f"counts{nnum}-two{i}-{'both' if len(which) == 2 else 'second'}", parts[0] + parts[1]))
                ctx.count(f"mol2:count_line_numbers={nnum}")
    from harness import c08
    for i in range(n_gen):
        k = rng.weighted([(1, 1), (2, 3), (3, 2)])
        frames = [c08.gen_geom_spec(rng, en, 6 if quick else 14, specials=False) for _ in range(k)]
        text = "".join(c08.build_geom(en, f, ml.Molecule).dumps_xyz() for f in frames)
        xyz_bases.append((f"gen{i}", text))
    size_cap = 6_000 if quick else 400_000
    for p in tl.bundled_files(common.REPO, ".mol2"):
        t = p.read_text()
        if t.isascii() and len(t) <= size_cap:
            mol2_bases.append((p.name, t))
    for p in tl.bundled_files(common.REPO, ".xyz"):
        t = p.read_text()
        if t.isascii() and len(t) <= size_cap:
            xyz_bases.append((p.name, t))

    n_mut = 15 if quick else 200
    for name, text in mol2_bases:
        base = load_mol2(text)
        ctx.count("mol2:base_texts")
        cuts = line_cuts(text)
        if len(cuts) > 400:      # large files: sampled line cuts (all cuts of the last 60 lines kept)
            keep = set(cuts[-60:]) | set(rng.choice(cuts) for _ in range(150))
            cuts = sorted(keep)
        for c in cuts:
            case_mol2(name, text, base, "cut-line", text[:c], cut=c)
        a, b = last_record_span(text)
        blines, broles = mol2_line_roles(text[:b])
        last_is_atom = bool(broles) and broles[-1] == "atom"
        for c in range(a, b + 1):
            inside_tok = last_is_atom and a < c < b and not text[c - 1].isspace() and not text[c].isspace()
            case_mol2(name, text, base, "cut-byte", text[:c], cut=c, in_last_token=inside_tok)
        # every byte of the last BOND record (tag line and all bond lines), for the small generated texts
        if len(text) < 4000 and not name.endswith(".mol2"):
            pos = text.rfind("@<TRIPOS>BOND")
            if pos >= 0:
                for c in range(pos, a):
                    case_mol2(name, text, base, "cut-byte-bond-record", text[:c], cut=c)
        lines, roles = mol2_line_roles(text)
        atom_idx = [i for i, r in enumerate(roles) if r == "atom"]
        for i in sorted(set(atom_idx[:1] + atom_idx[-1:])):
            parts = re.split(r"(\s+)", lines[i])
            ks = [k for k, t in enumerate(parts) if t and not t.isspace()]
            for col in (1, 5, 7):                       # label, atom type, substructure name
                if col < len(ks):
                    for tok in NUMERIC_TOKENS:
                        q = list(parts)
                        q[ks[col]] = tok
                        case_mol2(name, text, base, "column-overwritten-by-number",
                                  "\n".join(lines[:i] + ["".join(q)] + lines[i + 1:]), cut=i)
        idx = list(range(len(lines) - 1 if lines and lines[-1] == "" else len(lines)))
        if len(idx) > 150:
            idx = sorted(set(rng.choice(idx) for _ in range(100)))
        for i in idx:
            rec = roles[i] if roles[i] in ("atom", "bond", "atom-attribute", "bond-attribute") else None
            case_mol2(name, text, base, "dup-each", "\n".join(lines[:i] + [lines[i]] + lines[i:]), cut=i, record=rec)
            case_mol2(name, text, base, "del-each", "\n".join(lines[:i] + lines[i + 1:]), cut=i, record=rec)
        for _ in range(n_mut):
            kind, dt = mutate(rng, text)
            case_mol2(name, text, base, kind, dt)
        if len(ctx.samples) < 2:
            ctx.sample({"base": name, "bytes": len(text), "line_cuts": len(cuts), "byte_cuts": b - a + 1, "mutations": n_mut})
    for name, text in xyz_bases:
        base = load_xyz(text)
        ctx.count("xyz:base_texts")
        cuts = line_cuts(text)
        if len(cuts) > 400:
            keep = set(cuts[-60:]) | set(rng.choice(cuts) for _ in range(150))
            cuts = sorted(keep)
        for c in cuts:
            case_xyz(name, text, base, "cut-line", text[:c], cut=c)
        a, b = last_record_span(text)
        rec = text[a:b]
        last_tok_start = a + (len(rec) - len(rec.split()[-1])) if rec.split() else b
        for c in range(a, b + 1):
            case_xyz(name, text, base, "cut-byte", text[:c], cut=c, in_last_number=(last_tok_start < c < b))
        lines, roles = xyz_line_roles(text)
        # the element symbol of an atom line overwritten by a number (atomic numbers are not symbols) and by other
        # non-symbols: every numeric token on the first, a middle and the last atom line
        atom_idx = [i for i, r in enumerate(roles) if r == "atom"]
        for i in sorted(set(atom_idx[:1] + atom_idx[len(atom_idx) // 2: len(atom_idx) // 2 + 1] + atom_idx[-1:])):
            parts = re.split(r"(\s+)", lines[i])
            k0 = next((k for k, t in enumerate(parts) if t and not t.isspace()), None)
            if k0 is None:
                continue
            for tok in NUMERIC_TOKENS + ["Xx", "c1", "C.3", ""]:
                q = list(parts)
                q[k0] = tok
                case_xyz(name, text, base, "symbol-overwritten", "\n".join(lines[:i] + ["".join(q)] + lines[i + 1:]), cut=i)
        idx = list(range(len(lines) - 1 if lines and lines[-1] == "" else len(lines)))
        if len(idx) > 150:
            idx = sorted(set(rng.choice(idx) for _ in range(100)))
        for i in idx:
            rec = "atom" if roles[i] == "atom" else None
            case_xyz(name, text, base, "dup-each", "\n".join(lines[:i] + [lines[i]] + lines[i:]), cut=i, record=rec)
            case_xyz(name, text, base, "del-each", "\n".join(lines[:i] + lines[i + 1:]), cut=i, record=rec)
        for _ in range(n_mut):
            kind, dt = mutate(rng, text)
            case_xyz(name, text, base, kind, dt)

    outs = ctx.driver([r[0] for r in reqs])
    for (line, cb), resp in zip(reqs, outs):
        cb(resp)
    ctx.extra_cov["driver_requests"] = len(reqs)


def replay(ctx, path):
    import molli as ml

    obj = json.loads(Path(path).read_text())
    r = obj.get("replay") or {}
    print(json.dumps({k: v for k, v in obj.items() if k != "replay"}, indent=1)[:2000])
    en = tl.Enums()
    if "text" in r:
        print("---- damaged text ----")
        print(r["text"])
        print("----")
        if r.get("format") == "mol2":
            st, back = tl.limited(lambda: ml.Molecule.loads_all_mol2(r["text"]), TIME_LIMIT)
            print("loads_all_mol2 ->", st, tl.short_mols([tl.canon_mol(en, x) for x in back]) if st == "ok" else repr(back))
            for k, seg in enumerate(mol2_segments(r["text"])):
                st, b = tl.limited(lambda: ml.Molecule.loads_all_mol2(seg), TIME_LIMIT)
                print(f"segment {k} alone ->", st, tl.short_mols([tl.canon_mol(en, x) for x in b]) if st == "ok" else repr(b))
        else:
            st, back = tl.limited(lambda: ml.Molecule.loads_all_xyz(r["text"]), TIME_LIMIT)
            print("loads_all_xyz ->", st, tl.short_frames([tl.canon_geom(en, x) for x in back]) if st == "ok" else repr(back))
    return 0
