#!/usr/bin/env python3
"""after cherry-picking fix commits from a work-package branch into /repo main: rewrite the short shas mentioned in
known_findings.d/*.json and design_notes/*.md to the shas the commits have on main (matched by commit subject)"""
import json, re, subprocess, sys
from pathlib import Path
V = Path(__file__).resolve().parent.parent
branch = sys.argv[1]
def log(rng):
    out = subprocess.run(["git", "-C", "/repo", "log", "--format=%h\t%s", rng], capture_output=True, text=True).stdout
    return [l.split("\t", 1) for l in out.splitlines() if l]
main = {s: h for h, s in log("main")}
m = {}
for h, s in log(f"main..{branch}"):
    if s in main:
        m[h] = main[s]
files = list((V / "known_findings.d").glob("*.json")) + list((V / "design_notes").glob("*.md")) + list((V / "manifest.d").glob("*.json"))
n = 0
for f in files:
    t = f.read_text()
    t2 = t
    for old, new in m.items():
        t2 = re.sub(r"\b" + old + r"\b", new, t2)
    if t2 != t:
        f.write_text(t2); n += 1
print(f"{len(m)} shas remapped in {n} files:", m)
