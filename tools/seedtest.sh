#!/bin/sh
# tools/seedtest.sh <prop> <dir with patch.diff demo.py> [repo dir]: confirm a seeded change (tests unchanged, demo flips)
# and run the check against it in the scratch worktree /work/mut/repo (never in /repo)
P=$1; D=$2; R=${3:-/work/mut/repo}
# the default scratch worktree is created on demand (and can be removed with `git -C /repo worktree remove --force /work/mut/repo`)
[ -d "$R" ] || { mkdir -p $(dirname $R); git -C /repo worktree add -q --detach $R && cp /repo/molli_xt*.so $R/; }
[ "$R" = /work/mut/repo ] && git -C $R checkout -q --detach $(git -C /repo rev-parse HEAD) 2>/dev/null   # a work-package worktree keeps its own branch (it may hold fix: commits)
git -C $R checkout -q -- .
export MOLLI_HOME=$(mktemp -d)
echo "demo unchanged: $(cd $D && PYTHONPATH=$R timeout 300 /venv/bin/python demo.py 2>&1 | tail -1 | cut -c1-150) rc=$?"
git -C $R apply $D/patch.diff || { echo "PATCH DOES NOT APPLY"; exit 3; }
echo "tests: $(cd $R && PYTHONPATH=$R timeout 900 /venv/bin/python -m pytest -q -p no:cacheprovider --timeout=900 2>&1 | tail -1)"
echo "demo changed: $(cd $D && PYTHONPATH=$R timeout 300 /venv/bin/python demo.py 2>&1 | tail -1 | cut -c1-150)"
cd ${VERIF_DIR:-/verif} && VERIF_REPO=$R timeout 1500 ./check $P 2>&1 | grep "VIOLATION\|PASS\|FAIL\|violation \[\|broken" | cut -c1-220 | head -6
git -C $R checkout -q -- .
rm -rf $MOLLI_HOME
