#!/bin/sh
# tools/confirm_seeds.sh [ids...]: for each seeded change: apply it to /repo itself, run the property's quick check,
# undo it straight afterwards; record the outcome in seeded/<id>/meta.json (confirmed_on_repo).
cd /verif
IDS="$@"; [ -z "$IDS" ] && IDS=$(ls seeded)
for id in $IDS; do
  d=seeded/$id; prop=$(python3 -c "import json;print(json.load(open('$d/meta.json'))['property'])")
  if ! git -C /repo diff --quiet; then echo "/repo is dirty, stopping"; exit 3; fi
  if ! git -C /repo apply $PWD/$d/patch.diff 2>/dev/null; then echo "$id: PATCH DOES NOT APPLY"; continue; fi
  out=$(timeout 1500 ./check $prop 2>&1 | grep "^VIOLATION\|^PASS\|^FAIL" | head -4); rc=$?
  git -C /repo checkout -- .
  verdict=$(echo "$out" | grep -c "^VIOLATION")
  python3 - "$d/meta.json" "$verdict" "$out" <<'PY'
import json,sys
p,v,out=sys.argv[1],int(sys.argv[2]),sys.argv[3]
m=json.load(open(p)); m["confirmed_on_repo"]={"applied_to":"/repo (git apply, undone with git checkout -- . right after the run)","violation_lines":v,"check_output":out.splitlines()}
json.dump(m,open(p,"w"),indent=1)
PY
  echo "$id: $verdict violation line(s)"
done
