#!/bin/sh
# tools/mutant.sh <prop> <file-relative-to-repo> <python-re-pattern> <replacement> : apply one edit in the scratch
# repo worktree /work/mut/repo (synchronised to /repo HEAD first), run the check against it, report, undo.
P=$1; F=$2; PAT=$3; REP=$4
R=/work/mut/repo
git -C $R checkout -q --detach $(git -C /repo rev-parse HEAD) 2>/dev/null; git -C $R checkout -q -- .
python3 - "$R/$F" "$PAT" "$REP" <<'PY'
import re,sys
p,pat,rep=sys.argv[1:4]
s=open(p).read()
n=len(re.findall(pat,s,flags=re.S))
if n!=1: print(f"MUTANT PATTERN MATCHES {n} TIMES"); sys.exit(3)
open(p,'w').write(re.sub(pat,rep,s,count=1,flags=re.S))
PY
[ $? -eq 0 ] || exit 3
if [ -z "$SKIPTESTS" ]; then (cd $R && PYTHONPATH=$R timeout 900 /venv/bin/python -m pytest -q -p no:cacheprovider --timeout=900 2>&1 | tail -1); fi
cd /verif && VERIF_REPO=$R timeout 1500 ./check $P 2>&1 | grep "VIOLATION\|PASS\|FAIL\|violation \[\|broken" | cut -c1-260 | head -8
git -C $R checkout -q -- .
