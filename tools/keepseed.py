#!/usr/bin/env python3
"""tools/keepseed.py <prop> <src dir> <name> <detected: yes|no> <caught_by text> : store a confirmed seeded change under seeded/<name>/"""
import json, shutil, subprocess, sys
from pathlib import Path
prop, src, name, detected, caught = sys.argv[1:6]
V = Path(__file__).resolve().parent.parent
d = V / "seeded" / name
d.mkdir(parents=True, exist_ok=True)
shutil.copy(Path(src) / "patch.diff", d / "patch.diff")
for f in Path(src).glob("demo*"):
    shutil.copy(f, d / f.name)
meta = json.loads((Path(src) / "meta.json").read_text()) if (Path(src) / "meta.json").exists() else {}
head = subprocess.run(["git", "-C", "/repo", "rev-parse", "--short", "HEAD"], capture_output=True, text=True).stdout.strip()
meta.update({"property": prop, "id": name, "detected_by_check": detected, "caught_by": caught,
             "what_was_run": f"tools/seedtest.sh {prop} <dir>: in a scratch worktree of /repo at {head}: demo on the unchanged tree (PASS), "
                             f"git apply patch.diff, repository test-suite (4 failed, 81 passed, 19 skipped = baseline), demo with the change (FAIL), "
                             f"VERIF_REPO=<worktree> ./check {prop} (quick tier), git checkout -- .",
             "origin": "written by a fresh sub-agent that was given only the property text and its own scratch worktree"})
(d / "meta.json").write_text(json.dumps(meta, indent=1) + "\n")
print("kept", d)
