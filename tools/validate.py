#!/usr/bin/env python3
"""python3-vt tools/validate.py : validate MANIFEST.json and evidence/*.json against the schemas"""
import json, sys
from pathlib import Path
import jsonschema
V = Path(__file__).resolve().parent.parent
ms = json.load(open("/root/.vp/MANIFEST.schema.json")); es = json.load(open("/root/.vp/EVIDENCE.schema.json"))
bad = 0
try:
    jsonschema.validate(json.load(open(V / "MANIFEST.json")), ms); print("MANIFEST ok")
except Exception as e:
    print("MANIFEST INVALID", e); bad = 1
for f in sorted((V / "evidence").glob("*.json")):
    try:
        jsonschema.validate(json.load(open(f)), es); print(f.name, "ok")
    except Exception as e:
        print(f.name, "INVALID", str(e)[:300]); bad = 1
sys.exit(bad)
