#!/usr/bin/env python3
"""Regenerate the generated part of DESIGN.md (between the AUTO markers): final defect dispositions, seeded changes and
what caught them, and the per-property build notes (design_notes/CXX.md)."""
import json, re
from pathlib import Path
V = Path(__file__).resolve().parent.parent
B, E = "<!-- BEGIN AUTO (tools/mkdesign.py) -->", "<!-- END AUTO -->"
out = [B, ""]
kf = json.loads((V / "known_findings.json").read_text())["findings"]
out += ["### 12.2 Defects of the unchanged tree: final dispositions", "",
        "Every entry was first reported by its check as a `VIOLATION` with a replay on the then-current tree. `fixed` = one unguarded",
        "`fix:` commit in /repo (suite unchanged: 81 passed / 4 failed at baseline); `known` = kept as known finding, matched by its witness class.", "",
        "| id | property | status | commit | what failed |", "|---|---|---|---|---|"]
def key(e):
    m = re.match(r"D(\d+)", e.get("id", "D999")); return (int(m.group(1)) if m else 999, e.get("property", ""))
for e in sorted(kf, key=key):
    what = re.sub(r"^fixed: property=\S+ \S+ ", "", e.get("what", "")).replace("|", "\\|").replace("\n", " ")
    out.append(f"| {e.get('id','')} | {e.get('property','')} | {e.get('status','')} | {e.get('commit','') or ''} | {what[:400]} |")
out += ["", "### 12.3 Seeded changes (written by fresh sub-agents from the property text alone) and what catches them", "",
        "Each change keeps the repository suite at its baseline result and breaks the property; each was confirmed in a scratch worktree",
        "(demo passes without / fails with the change) before the check was run against it. `seeded/<id>/` holds patch, demo and meta.", "",
        "| id | property | change | needs | caught by |", "|---|---|---|---|---|"]
for d in sorted((V / "seeded").glob("*/meta.json")):
    m = json.loads(d.read_text())
    f = lambda k: str(m.get(k, "")).replace("|", "\\|").replace("\n", " ")[:300]
    out.append(f"| {m.get('id', d.parent.name)} | {f('property')} | {f('summary')} | {f('needs')} | {f('caught_by')} |")
out += ["", "### 12.4 Per-property build notes", ""]
for f in sorted((V / "design_notes").glob("C*.md")):
    txt = f.read_text().strip()
    txt = re.sub(r"^(#+) ", lambda m: "#" * min(6, len(m.group(1)) + 3) + " ", txt, flags=re.M)
    out += [txt, ""]
out.append(E)
p = V / "DESIGN.md"
s = p.read_text()
block = "\n".join(out)
if B in s:
    s = s[:s.index(B)] + block + s[s.index(E) + len(E):]
else:
    s = s.rstrip() + "\n\n" + block + "\n"
p.write_text(s)
print("DESIGN.md regenerated:", len(kf), "findings,", len(list((V / 'seeded').glob('*/meta.json'))), "seeded,", len(list((V / 'design_notes').glob('C*.md'))), "notes")
