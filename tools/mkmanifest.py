#!/usr/bin/env python3
"""Assemble MANIFEST.json from manifest.d/*.json (one fragment per property) and known_findings.json from
known_findings.d/*.json.  Run after editing a fragment:  python3 tools/mkmanifest.py"""
import json
from pathlib import Path

V = Path(__file__).resolve().parent.parent
props = [json.loads(l)["id"] for l in (V / "properties.jsonl").read_text().splitlines() if l.strip()]
checks, na = [], []
for pid in props:
    f = V / "manifest.d" / f"{pid}.json"
    if f.exists():
        frag = json.loads(f.read_text())
        if frag.get("not_applicable"):
            na.append({"property_id": pid, "reason": frag["not_applicable"]})
            continue
        checks.append({
            "property_id": pid,
            "quick_cmd": f"./check {pid} --tier quick",
            "thorough_cmd": f"./check {pid} --tier thorough",
            "evidence_file": f"/verif/evidence/{pid}.json",
            "replay_cmd_template": f"./check {pid} --replay {{path}}",
            "engine": "lean4-model+correspondence",
            "level_claimed": {"category": "proof", "text": frag["level_text"], "design_ref": frag.get("design_ref", f"DESIGN.md §6 {pid}")},
            "level_note": frag["level_note"],
            "technique": frag["technique"],
        })
    else:
        na.append({"property_id": pid, "reason": "check not built yet in this round (no claim); see DESIGN.md §6 for the planned Lean model and theorems"})
manifest = {
    "version": 1,
    "setup_cmd": "./setup.sh",
    "hooks": {
        "guard": "MOLLI_VERIF",
        "enable": "none needed: the harness instruments the real code from outside (stream recorder, fault injection, spies); checks export MOLLI_VERIF=1 for uniformity",
        "baseline_off_cmd": "cd /repo && /venv/bin/python -m pytest -ra -q -p no:cacheprovider --timeout=900 --continue-on-collection-errors",
        "source_commits": [],
        "add_only": True,
    },
    "engines": [{
        "name": "lean4-model+correspondence",
        "path": "/verif/lean (Lean 4 models, lemmas, property theorems, generated tables, compiled model driver) + /verif/harness (table generators, correspondence harness, oracles)",
        "serves_properties": [c["property_id"] for c in checks],
        "kind_free_text": "machine-checked proof in Lean 4 about an executable model; model tied to /repo on every run by regenerated tables and a differential correspondence run; model-free oracle searches for a failing input when either breaks",
    }],
    "checks": checks,
    "not_applicable": na,
    "notes": "All checks: ./check <id> [--tier quick|thorough]; VERIF_SEED seeds the single PRNG; VERIF_REPO overrides the repository path (default /repo). Exit 2 = timeout/machinery error, never a verdict.",
}
(V / "MANIFEST.json").write_text(json.dumps(manifest, indent=1) + "\n")
findings = []
for f in sorted((V / "known_findings.d").glob("*.json")):
    findings += json.loads(f.read_text())
(V / "known_findings.json").write_text(json.dumps({"findings": findings}, indent=1) + "\n")
print(f"MANIFEST.json: {len(checks)} checks, {len(na)} not claimed; known_findings.json: {len(findings)} entries")
