from sympy import symbols, reduced, expand, Matrix, eye
ax,ay,az,s,c,v1,v2,v3,w1,w2,w3=symbols('ax ay az s c v1 v2 v3 w1 w2 w3')
W=Matrix([[0,-az,ay],[az,0,-ax],[-ay,ax,0]])
R=eye(3)+s*W+(1-c)*(W*W)
v=Matrix([[v1,v2,v3]]); w=Matrix([[w1,w2,w3]])
lhs=((v*R)*(w*R).T)[0,0]; rhs=(v*w.T)[0,0]
hu=ax*ax+ay*ay+az*az-1; ht=s*s+c*c-1
q,r=reduced(expand(lhs-rhs),[hu,ht],ax,ay,az,s,c,v1,v2,v3,w1,w2,w3, order='grevlex')
assert r==0
def L(e): return str(e).replace('**','^')
print(f"  linear_combination ({L(q[0])}) * hu + ({L(q[1])}) * ht")
