inductive AT | regular | dummy | sp | sp2 | sp3 | aromatic | guan | amide | ammon | sulfox | sulfone | carbox | other (n : Fin 9)
deriving DecidableEq, Repr
inductive GE | unk | r1 | r3p | r3py | r4t | r6o | other (n : Fin 11)
deriving DecidableEq, Repr
inductive Suf | none | s1 | s2 | s3 | s4 | ar | am | cat | pl3 | co2 | O | O2 | oh | th | du
deriving DecidableEq, Repr
abbrev El := Fin 119
structure St where (e : El) (t : AT) (g : GE) deriving DecidableEq, Repr
def emit (s : St) : Suf :=
  match s.t with
  | .regular => .none | .dummy => .du | .sp => .s1 | .sp2 => .s2 | .sp3 => .s3
  | t =>
    if s.e = 6 then (if t = .aromatic then .ar else if t = .guan ∧ s.g = .r3p then .cat else .none)
    else if s.e = 7 then (if t = .ammon ∧ s.g = .r4t then .s4 else if t = .amide ∧ s.g = .r3p then .am else if t = .aromatic then .ar else if s.g = .r3p then .pl3 else .none)
    else if s.e = 8 then (if t = .carbox ∧ s.g = .r1 then .co2 else .none)
    else if s.e = 16 then (if t = .sulfox ∧ s.g = .r3py then .O else if t = .sulfone ∧ s.g = .r4t then .O2 else .none)
    else match s.g with | .r3p => .pl3 | .r6o => .oh | .r4t => .th | _ => .none
def read (e : El) (x : Suf) : Option St :=
  let d : St := ⟨e, .regular, .unk⟩
  match x with
  | .none => some d | .du => some {d with t := .dummy}
  | .s1 => some {d with t := .sp} | .s2 => some {d with t := .sp2} | .s3 => some {d with t := .sp3}
  | .s4 => if e = 7 then some ⟨e,.ammon,.r4t⟩ else none
  | .ar => some {d with t := .aromatic}
  | .am => if e = 7 then some ⟨e,.amide,.r3p⟩ else some d
  | .cat => if e = 6 then some ⟨e,.guan,.r3p⟩ else (some d)
  | .pl3 => some {d with g := .r3p}
  | .co2 => if e = 8 then some ⟨e,.carbox,.r1⟩ else some d
  | .O => if e = 16 then some ⟨e,.sulfox,.r3py⟩ else some d
  | .O2 => if e = 16 then some ⟨e,.sulfone,.r4t⟩ else some d
  | .oh => some {d with g := .r6o} | .th => some {d with g := .r4t}
def allAT : List AT := [.regular,.dummy,.sp,.sp2,.sp3,.aromatic,.guan,.amide,.ammon,.sulfox,.sulfone,.carbox] ++ (List.finRange 9).map .other
def allGE : List GE := [.unk,.r1,.r3p,.r3py,.r4t,.r6o] ++ (List.finRange 11).map .other
def chk (s : St) : Bool :=
  match read s.e (emit s) with
  | none => false
  | some s1 => match read s1.e (emit s1) with
    | none => false
    | some s2 => emit s2 == emit s1
theorem all_ok : ((List.finRange 119).all fun e => allAT.all fun t => allGE.all fun g => chk ⟨e,t,g⟩) = true := by
  decide +kernel
#print axioms all_ok
