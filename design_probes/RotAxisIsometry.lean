import Mathlib.Tactic.Ring
import Mathlib.Tactic.LinearCombination

structure V3 (α : Type) where
  x : α
  y : α
  z : α
deriving Repr

structure M3 (α : Type) where
  r1 : V3 α
  r2 : V3 α
  r3 : V3 α
deriving Repr

section
variable {α : Type} [Add α] [Mul α] [Sub α] [Neg α] [OfNat α 0] [OfNat α 1]
def V3.dot (a b : V3 α) : α := a.x*b.x + a.y*b.y + a.z*b.z
/-- row vector times matrix, numpy `v @ M` -/
def V3.mulM (v : V3 α) (m : M3 α) : V3 α :=
  ⟨v.x*m.r1.x + v.y*m.r2.x + v.z*m.r3.x, v.x*m.r1.y + v.y*m.r2.y + v.z*m.r3.y, v.x*m.r1.z + v.y*m.r2.z + v.z*m.r3.z⟩
/-- code: I + k1*W + k2*(W@W), W = [[0,-az,ay],[az,0,-ax],[-ay,ax,0]] -/
def rotAxis (ax ay az s c : α) : M3 α :=
  let k2 := 1 - c
  ⟨⟨1 + k2*(-(az*az) - ay*ay), -(s*az) + k2*(ay*ax), s*ay + k2*(az*ax)⟩,
   ⟨s*az + k2*(ax*ay), 1 + k2*(-(az*az) - ax*ax), -(s*ax) + k2*(az*ay)⟩,
   ⟨-(s*ay) + k2*(ax*az), s*ax + k2*(ay*az), 1 + k2*(-(ay*ay) - ax*ax)⟩⟩
end

theorem rotAxis_preserves_dot {α : Type} [CommRing α] (ax ay az s c : α)
    (hu : ax*ax + ay*ay + az*az = 1) (ht : s*s + c*c = 1) (v w : V3 α) :
    (v.mulM (rotAxis ax ay az s c)).dot (w.mulM (rotAxis ax ay az s c)) = v.dot w := by
  obtain ⟨v1,v2,v3⟩ := v
  obtain ⟨w1,w2,w3⟩ := w
  simp only [V3.dot, V3.mulM, rotAxis]
  linear_combination (ax^2*c^2*v2*w2 + ax^2*c^2*v3*w3 - 2*ax^2*c*v2*w2 - 2*ax^2*c*v3*w3 + ax^2*v2*w2 + ax^2*v3*w3 - ax*ay*c^2*v1*w2 - ax*ay*c^2*v2*w1 + 2*ax*ay*c*v1*w2 + 2*ax*ay*c*v2*w1 - ax*ay*v1*w2 - ax*ay*v2*w1 - ax*az*c^2*v1*w3 - ax*az*c^2*v3*w1 + 2*ax*az*c*v1*w3 + 2*ax*az*c*v3*w1 - ax*az*v1*w3 - ax*az*v3*w1 + ay^2*c^2*v1*w1 + ay^2*c^2*v3*w3 - 2*ay^2*c*v1*w1 - 2*ay^2*c*v3*w3 + ay^2*v1*w1 + ay^2*v3*w3 - ay*az*c^2*v2*w3 - ay*az*c^2*v3*w2 + 2*ay*az*c*v2*w3 + 2*ay*az*c*v3*w2 - ay*az*v2*w3 - ay*az*v3*w2 + az^2*c^2*v1*w1 + az^2*c^2*v2*w2 - 2*az^2*c*v1*w1 - 2*az^2*c*v2*w2 + az^2*v1*w1 + az^2*v2*w2 + c^2*v2*w2 + c^2*v3*w3 + s^2*v2*w2 + s^2*v3*w3 - v2*w2 - v3*w3) * hu + (-ax*ay*v1*w2 - ax*ay*v2*w1 - ax*az*v1*w3 - ax*az*v3*w1 + ay^2*v1*w1 - ay^2*v2*w2 - ay*az*v2*w3 - ay*az*v3*w2 + az^2*v1*w1 - az^2*v3*w3 + v2*w2 + v3*w3) * ht
#eval (⟨1,0,0⟩ : V3 Rat).mulM (rotAxis (0:Rat) 0 1 1 0)
