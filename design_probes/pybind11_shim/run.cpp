#include "distance.cpp"
#include <cstdio>
int main(){
  carray<float> a({2,3}), b({3,3});
  for (int i=0;i<6;i++) a.buf[i]=i; for(int i=0;i<9;i++) b.buf[i]=i*0.5f;
  auto r = molli::cdist22<float, molli::euclidean2<float,3>>(a,b);
  for (auto v: r.buf) printf("%g ", v); printf("\n");
  carray<double> c({1,2,3}); for(int i=0;i<6;i++) c.buf[i]=i;
  carray<double> d({1,3}); d.buf={1,1,1};
  auto r2 = molli::cdist32<double, molli::euclidean<double,3>>(c,d);
  for (auto v: r2.buf) printf("%g ", v); printf("\n");
}
