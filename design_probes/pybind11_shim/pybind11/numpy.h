#pragma once
#include "pybind11.h"
namespace pybind11 {
  struct array { enum { c_style = 1, forcecast = 16 }; };
  template <typename T, int ND> struct uproxy {
    const T* p; const std::vector<ssize_t>* shp;
    const T* data(ssize_t i, ssize_t j) const { return p + i*(*shp)[1] + j; }
    const T* data(ssize_t i, ssize_t j, ssize_t k) const { return p + (i*(*shp)[1] + j)*(*shp)[2] + k; }
  };
  template <typename T, int ND> struct mproxy {
    T* p; const std::vector<ssize_t>* shp;
    T& operator()(ssize_t i, ssize_t j) { return p[i*(*shp)[1] + j]; }
    T& operator()(ssize_t i, ssize_t j, ssize_t k) { return p[(i*(*shp)[1] + j)*(*shp)[2] + k]; }
  };
  template <typename T, int F = 0> struct array_t {
    std::vector<ssize_t> shp; std::vector<T> buf;
    array_t() {}
    array_t(std::initializer_list<ssize_t> s) : shp(s) { size_t n = 1; for (auto d : shp) n *= d; buf.resize(n); }
    ssize_t shape(int i) const { return shp[i]; }
    template <int ND> uproxy<T, ND> unchecked() const { return {buf.data(), &shp}; }
    template <int ND> mproxy<T, ND> mutable_unchecked() { return {buf.data(), &shp}; }
  };
}
