#pragma once
#include <vector>
#include <cstddef>
#include <initializer_list>
#include <sys/types.h>
namespace pybind11 {
  using ssize_t = ::ssize_t;
  struct gil_scoped_release { gil_scoped_release() {} };
  struct module_ { template <typename F> module_& def(const char*, F, const char* = nullptr) { return *this; } };
}
