abbrev Bytes := List UInt8

def be32 (n : Nat) : Bytes :=
  [UInt8.ofNat (n / 16777216 % 256), UInt8.ofNat (n / 65536 % 256), UInt8.ofNat (n / 256 % 256), UInt8.ofNat (n % 256)]

def rd32 (a b c d : UInt8) : Nat := a.toNat * 16777216 + b.toNat * 65536 + c.toNat * 256 + d.toNat

structure Rec where
  key : Bytes
  val : Bytes
deriving DecidableEq, Repr

def Rec.ok (r : Rec) : Prop := r.key.length < 256 ∧ r.val.length < 4294967296

def encBlock (r : Rec) : Bytes :=
  UInt8.ofNat r.key.length :: (be32 r.val.length ++ (r.key ++ r.val))

/-- size-bounded scan of the remaining bytes (repaired `map_blocks`) -/
def scan : Nat → Bytes → List Rec
  | 0, _ => []
  | f+1, k :: a :: b :: c :: d :: rest =>
      let kl := k.toNat
      let vl := rd32 a b c d
      if kl + vl ≤ rest.length then
        ⟨rest.take kl, (rest.drop kl).take vl⟩ :: scan f (rest.drop (kl + vl))
      else []
  | _+1, _ => []

theorem scan_block (f : Nat) (r : Rec) (h : r.ok) (tail : Bytes) :
    scan (f+1) (encBlock r ++ tail) = r :: scan f tail := by
  obtain ⟨hk, hv⟩ := h
  have e : rd32 (UInt8.ofNat (r.val.length / 16777216 % 256)) (UInt8.ofNat (r.val.length / 65536 % 256))
      (UInt8.ofNat (r.val.length / 256 % 256)) (UInt8.ofNat (r.val.length % 256)) = r.val.length := by
    simp only [rd32, UInt8.toNat_ofNat', Nat.reducePow]; omega
  have ek : (UInt8.ofNat r.key.length).toNat = r.key.length := by
    simp only [UInt8.toNat_ofNat', Nat.reducePow]; omega
  simp only [encBlock, be32, List.cons_append, List.nil_append, scan, e, ek]
  have hl : r.key.length + r.val.length ≤ (r.key ++ r.val ++ tail).length := by
    simp [List.length_append]
  simp only [List.append_assoc] at hl ⊢
  rw [if_pos hl]
  congr 1
  · cases r; simp [List.take_append, List.drop_append]
  · congr 1
    rw [← List.append_assoc, List.drop_append]
    simp

theorem scan_enc (recs : List Rec) (h : ∀ r ∈ recs, r.ok) (f : Nat) (tail : Bytes) :
    scan (recs.length + f) (recs.flatMap encBlock ++ tail) = recs ++ scan f tail := by
  induction recs with
  | nil => simp
  | cons r rs ih =>
    have hr := h r (by simp)
    have hrs : ∀ x ∈ rs, x.ok := fun x hx => h x (by simp [hx])
    simp only [List.flatMap_cons, List.length_cons, List.append_assoc, List.cons_append]
    rw [show rs.length + 1 + f = (rs.length + f) + 1 by omega, scan_block _ r hr, ih hrs]


theorem encBlock_length (r : Rec) : (encBlock r).length = 5 + r.key.length + r.val.length := by
  simp [encBlock, be32]; omega

/-- a strict prefix of one block is never accepted as a record -/
theorem scan_torn (f : Nat) (r : Rec) (h : r.ok) (n : Nat) (hn : n < (encBlock r).length) :
    scan f ((encBlock r).take n) = [] := by
  obtain ⟨hk, hv⟩ := h
  cases f with
  | zero => rfl
  | succ f =>
    have e : rd32 (UInt8.ofNat (r.val.length / 16777216 % 256)) (UInt8.ofNat (r.val.length / 65536 % 256))
        (UInt8.ofNat (r.val.length / 256 % 256)) (UInt8.ofNat (r.val.length % 256)) = r.val.length := by
      simp only [rd32, UInt8.toNat_ofNat', Nat.reducePow]; omega
    have ek : (UInt8.ofNat r.key.length).toNat = r.key.length := by
      simp only [UInt8.toNat_ofNat', Nat.reducePow]; omega
    rw [encBlock_length] at hn
    -- peel the five header bytes off `take n`
    match n, hn with
    | 0, _ => simp [scan]
    | 1, _ => simp [encBlock, be32, scan]
    | 2, _ => simp [encBlock, be32, scan]
    | 3, _ => simp [encBlock, be32, scan]
    | 4, _ => simp [encBlock, be32, scan]
    | m+5, hm =>
      simp only [encBlock, be32, List.cons_append, List.nil_append, List.take_succ_cons, scan, e, ek]
      rw [if_neg]
      simp only [List.length_take, List.length_append]
      omega

/-- Crash atomicity for a one-put tail: committed records followed by any strict prefix of one more block. -/
theorem crash_atomic_one (recs : List Rec) (h : ∀ r ∈ recs, r.ok) (r : Rec) (hr : r.ok)
    (n : Nat) (hn : n < (encBlock r).length) (f : Nat) :
    scan (recs.length + f) (recs.flatMap encBlock ++ (encBlock r).take n) = recs := by
  rw [scan_enc recs h, scan_torn f r hr n hn]; simp

/-- every prefix of a session's byte stream is: some complete blocks, then a strict prefix of the next -/
theorem take_flatMap_enc (ps : List Rec) : ∀ n, n ≤ (ps.flatMap encBlock).length →
    (∃ k, k ≤ ps.length ∧ (ps.flatMap encBlock).take n = (ps.take k).flatMap encBlock ∧ (k = ps.length ∨ True)) ∨
    (∃ k r m, ps[k]? = some r ∧ m < (encBlock r).length ∧ 0 < m ∧
        (ps.flatMap encBlock).take n = (ps.take k).flatMap encBlock ++ (encBlock r).take m) := by
  induction ps with
  | nil => intro n hn; left; exact ⟨0, by simp, by simp, Or.inl rfl⟩
  | cons p ps ih =>
    intro n hn
    simp only [List.flatMap_cons, List.length_append] at hn ⊢
    by_cases h0 : n = 0
    · subst h0; left; exact ⟨0, by simp, by simp, Or.inr trivial⟩
    by_cases hlt : n < (encBlock p).length
    · right
      refine ⟨0, p, n, by simp, hlt, by omega, ?_⟩
      simp [List.take_append_of_le_length (Nat.le_of_lt hlt)]
    · have hge : (encBlock p).length ≤ n := by omega
      have hn' : n - (encBlock p).length ≤ (ps.flatMap encBlock).length := by omega
      rw [List.take_append]
      rw [List.take_of_length_le hge]
      rcases ih _ hn' with ⟨k, hk, hkeq, _⟩ | ⟨k, r, m, hkr, hm, hm0, hkeq⟩
      · left
        exact ⟨k+1, by simp; omega, by simp [hkeq], Or.inr trivial⟩
      · right
        exact ⟨k+1, r, m, by simpa using hkr, hm, hm0, by simp [hkeq]⟩

#print axioms crash_atomic_one
#print axioms take_flatMap_enc
