/-! mol2 reader probe: block grammar of `read_mol2` (repaired variant: per-molecule reset),
    lines are already stripped; tokens are whitespace-split. -/

def isWs (c : Char) : Bool := c = ' ' || c = '\t' || c = '\n' || c = '\r' || c = '\x0b' || c = '\x0c'

/-- Python `str.split()` on ASCII whitespace, over character lists -/
def splitWs : List Char → List Char → List (List Char)
  | [], [] => []
  | [], cur => [cur.reverse]
  | c :: cs, cur =>
    if isWs c then (if cur = [] then splitWs cs [] else cur.reverse :: splitWs cs [])
    else splitWs cs (c :: cur)

def pySplit (s : String) : List String := (splitWs s.toList []).map String.ofList

structure Header where
  name : String
  nAtoms : Nat
  nBonds : Option Nat
deriving Repr, DecidableEq

structure Block where
  header : Header
  atoms : Option (List (List String))
  bonds : Option (List (List String))
deriving Repr, DecidableEq

inductive Err | eof | syntax | counts | fuel
deriving Repr, DecidableEq

def triposTag (line : String) : Option String :=
  if line.startsWith "@<TRIPOS>" then
    let rest := (line.drop 9).toString.toList.takeWhile (fun c => c.isUpper || c = '_')
    if rest = [] then none else some (String.ofList rest)
  else none

/-- take exactly `n` lines -/
def takeLines : Nat → List String → Except Err (List String × List String)
  | 0, ls => .ok ([], ls)
  | _+1, [] => .error .eof
  | n+1, l :: ls => do
    let (a, r) ← takeLines n ls
    pure (l :: a, r)

theorem takeLines_len : ∀ n ls a r, takeLines n ls = .ok (a, r) → a.length = n ∧ r.length + n = ls.length := by
  intro n
  induction n with
  | zero => intro ls a r h; simp [takeLines] at h; obtain ⟨rfl, rfl⟩ := h; simp
  | succ n ih =>
    intro ls a r h
    cases ls with
    | nil => simp [takeLines] at h
    | cons l ls =>
      simp only [takeLines, bind, Except.bind] at h
      split at h
      · simp at h
      · rename_i v hv
        obtain ⟨a', r'⟩ := v
        simp only [pure, Except.pure, Except.ok.injEq, Prod.mk.injEq] at h
        obtain ⟨rfl, rfl⟩ := h
        have := ih ls a' r' hv
        simp; omega

def parseCounts (s : String) : Except Err (Nat × Option Nat) :=
  match (pySplit s).map String.toNat? with
  | [some na] => .ok (na, none)
  | some na :: some nb :: rest => if rest.all Option.isSome then .ok (na, some nb) else .error .counts
  | _ => .error .counts

/-- state of the reader between lines -/
structure St where
  hdr : Option Header
  atoms : Option (List (List String))
  bonds : Option (List (List String))
  skip : Bool

def flush (st : St) : List Block :=
  match st.hdr with
  | some h => [⟨h, st.atoms, st.bonds⟩]
  | none => []

/-- the main loop; `fuel` is only there to keep the probe short (the real model uses
    `termination_by ls.length` with the `takeLines_len` facts) -/
def readLoop : Nat → St → List String → Except Err (List Block)
  | 0, _, _ => .error .fuel
  | _, st, [] => .ok (flush st)
  | f+1, st, line :: ls =>
    if line = "" || line.startsWith "#" then readLoop f st ls
    else match triposTag line with
    | some "MOLECULE" => do
        let (h5, rest) ← takeLines 5 ls
        match h5 with
        | [nm, cnt, _ty, _ch, status] =>
          let (na, nb) ← parseCounts cnt
          let rest' := if (triposTag status).isSome then status :: rest
                       else if status = "****" then rest.drop 1 else rest
          let more ← readLoop f ⟨some ⟨nm, na, nb⟩, none, none, false⟩ rest'
          pure (flush st ++ more)
        | _ => .error .syntax
    | some "ATOM" =>
        match st.hdr with
        | none => .error .syntax
        | some h => do
          let (al, rest) ← takeLines h.nAtoms ls
          readLoop f { st with atoms := some (al.map pySplit), skip := false } rest
    | some "BOND" =>
        match st.hdr with
        | none => .error .syntax
        | some h =>
          match h.nBonds with
          | none => .error .counts
          | some nb => do
            let (bl, rest) ← takeLines nb ls
            readLoop f { st with bonds := some (bl.map pySplit), skip := false } rest
    | some _ => readLoop f { st with skip := true } ls
    | none => if st.skip then readLoop f st ls else .error .syntax

def Complete (b : Block) : Prop :=
  (∀ a, b.atoms = some a → a.length = b.header.nAtoms) ∧
  (∀ bs nb, b.bonds = some bs → b.header.nBonds = some nb → bs.length = nb)

def StOk (st : St) : Prop :=
  ∀ h, st.hdr = some h →
    (∀ a, st.atoms = some a → a.length = h.nAtoms) ∧
    (∀ bs nb, st.bonds = some bs → h.nBonds = some nb → bs.length = nb)

theorem flush_complete (st : St) (h : StOk st) : ∀ b ∈ flush st, Complete b := by
  intro b hb
  unfold flush at hb
  cases hh : st.hdr with
  | none => simp [hh] at hb
  | some hd =>
    simp [hh] at hb; subst hb
    exact h hd hh

theorem map_len {α β} (f : α → β) (l : List α) : (l.map f).length = l.length := List.length_map f

/-- every block the reader returns carries exactly the counts its own header declares -/
theorem readLoop_complete : ∀ (f : Nat) (st : St) (ls : List String) (bs : List Block),
    StOk st → readLoop f st ls = .ok bs → ∀ b ∈ bs, Complete b := by
  intro f
  induction f with
  | zero => intro st ls bs _ h; simp [readLoop] at h
  | succ f ih =>
    intro st ls bs hst h
    cases ls with
    | nil =>
      simp only [readLoop, Except.ok.injEq] at h
      subst h; exact flush_complete st hst
    | cons line ls =>
      simp only [readLoop] at h
      split at h
      · exact ih st ls bs hst h
      · split at h
        · -- MOLECULE
          simp only [bind, Except.bind] at h
          split at h
          · simp at h
          · rename_i v hv
            obtain ⟨h5, rest⟩ := v
            simp only at h
            split at h
            · rename_i nm cnt _ty _ch status
              split at h
              · simp at h
              · rename_i c hc
                obtain ⟨na, nb⟩ := c
                simp only at h
                split at h
                · simp at h
                · rename_i more hmore
                  simp only [pure, Except.pure, Except.ok.injEq] at h
                  subst h
                  intro b hb
                  rcases List.mem_append.1 hb with hb | hb
                  · exact flush_complete st hst b hb
                  · refine ih _ _ more ?_ hmore b hb
                    intro hd hhd
                    simp only [Option.some.injEq] at hhd
                    subst hhd
                    exact ⟨by intro a ha; simp at ha, by intro bs' nb' hb'; simp at hb'⟩
            · simp at h
        · -- ATOM
          split at h
          · simp at h
          · rename_i hd hhd
            simp only [bind, Except.bind] at h
            split at h
            · simp at h
            · rename_i v hv
              obtain ⟨al, rest⟩ := v
              have hl := (takeLines_len _ _ _ _ hv).1
              refine ih _ rest bs ?_ h
              intro hd' hhd'
              simp only at hhd'
              rw [hhd] at hhd'
              simp only [Option.some.injEq] at hhd'
              subst hhd'
              refine ⟨?_, ?_⟩
              · intro a ha
                simp only [Option.some.injEq] at ha
                subst ha; simp [hl]
              · exact (hst hd hhd).2
        · -- BOND
          split at h
          · simp at h
          · rename_i hd hhd
            split at h
            · simp at h
            · rename_i nb hnb
              simp only [bind, Except.bind] at h
              split at h
              · simp at h
              · rename_i v hv
                obtain ⟨bl, rest⟩ := v
                have hl := (takeLines_len _ _ _ _ hv).1
                refine ih _ rest bs ?_ h
                intro hd' hhd'
                simp only at hhd'
                rw [hhd] at hhd'
                simp only [Option.some.injEq] at hhd'
                subst hhd'
                refine ⟨(hst hd hhd).1, ?_⟩
                intro bs' nb' hb' hnb'
                simp only [Option.some.injEq] at hb'
                rw [hnb] at hnb'
                simp only [Option.some.injEq] at hnb'
                subst hb'; subst hnb'; simp [hl]
        · -- other TRIPOS block
          refine ih _ ls bs ?_ h
          intro hd hhd; exact hst hd hhd
        · split at h
          · exact ih st ls bs hst h
          · simp at h

#print axioms readLoop_complete

theorem takeLines_ne_fuel (n : Nat) (ls : List String) : takeLines n ls ≠ .error .fuel := by
  induction n generalizing ls with
  | zero => simp [takeLines]
  | succ n ih =>
    cases ls with
    | nil => simp [takeLines]
    | cons l ls =>
      simp only [takeLines, bind, Except.bind]
      have := ih ls
      split
      · rename_i e he; intro h; simp only [Except.error.injEq] at h; subst h; exact this he
      · simp [pure, Except.pure]

theorem parseCounts_ne_fuel (s : String) : parseCounts s ≠ .error .fuel := by
  unfold parseCounts
  split
  · simp
  · split <;> simp
  · simp

/-- the put-back never stalls the reader: fuel `ls.length + 1` always suffices (termination of `read_mol2`) -/
theorem readLoop_terminates : ∀ (f : Nat) (st : St) (ls : List String),
    ls.length < f → readLoop f st ls ≠ .error .fuel := by
  intro f
  induction f with
  | zero => intro st ls h; omega
  | succ f ih =>
    intro st ls hlen
    cases ls with
    | nil => simp [readLoop]
    | cons line ls =>
      simp only [List.length_cons] at hlen
      simp only [readLoop]
      split
      · exact ih st ls (by omega)
      · split
        · -- MOLECULE
          simp only [bind, Except.bind]
          split
          · rename_i e he; intro h; simp only [Except.error.injEq] at h; subst h
            exact takeLines_ne_fuel _ _ he
          · rename_i v hv
            obtain ⟨h5, rest⟩ := v
            have hl := (takeLines_len _ _ _ _ hv).2
            simp only
            split
            · rename_i nm cnt _ty _ch status
              split
              · rename_i e he; intro h; simp only [Except.error.injEq] at h; subst h
                exact parseCounts_ne_fuel _ he
              · rename_i c hc
                obtain ⟨na, nb⟩ := c
                simp only
                split
                · rename_i e he; intro h; simp only [Except.error.injEq] at h; subst h
                  refine ih _ _ ?_ he
                  split
                  · simp only [List.length_cons]; omega
                  · split
                    · simp only [List.length_drop]; omega
                    · omega
                · simp [pure, Except.pure]
            · simp
        · -- ATOM
          split
          · simp
          · simp only [bind, Except.bind]
            split
            · rename_i e he; intro h; simp only [Except.error.injEq] at h; subst h
              exact takeLines_ne_fuel _ _ he
            · rename_i v hv
              obtain ⟨al, rest⟩ := v
              have hl := (takeLines_len _ _ _ _ hv).2
              exact ih _ rest (by omega)
        · -- BOND
          split
          · simp
          · split
            · simp
            · simp only [bind, Except.bind]
              split
              · rename_i e he; intro h; simp only [Except.error.injEq] at h; subst h
                exact takeLines_ne_fuel _ _ he
              · rename_i v hv
                obtain ⟨bl, rest⟩ := v
                have hl := (takeLines_len _ _ _ _ hv).2
                exact ih _ rest (by omega)
        · exact ih _ ls (by omega)
        · split
          · exact ih st ls (by omega)
          · simp

#print axioms readLoop_terminates

#eval readLoop 100 ⟨none,none,none,false⟩
  ["# c", "@<TRIPOS>MOLECULE", "m1", "2 1 0", "SMALL", "USER_CHARGES", "", "@<TRIPOS>ATOM", "1 C 0 0 0 C", "2 C 0 0 1 C",
   "@<TRIPOS>BOND", "1 1 2 1", "@<TRIPOS>MOLECULE", "m2", "2 1", "SMALL", "NO_CHARGES", "", "@<TRIPOS>ATOM", "1 C 0 0 0 C", "2 C 0 0 1 C"]
