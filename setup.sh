#!/bin/sh
# MANIFEST.setup_cmd: build the Lean models, theorems and the model driver from files on disk only (offline).
set -e
HERE="$(cd "$(dirname "$0")" && pwd)"
cd "$HERE/lean"
lake build 2>&1 | tail -n 40
test -x .lake/build/bin/molli_driver
echo "setup ok"
