#!/bin/sh
# MANIFEST.setup_cmd: build the Lean models, theorems and the model driver from files on disk only (offline).
HERE="$(cd "$(dirname "$0")" && pwd)"
cd "$HERE/lean" || exit 1
lake build > "$HERE/lean/.setup.log" 2>&1
rc=$?
tail -n 30 "$HERE/lean/.setup.log"
if [ $rc -ne 0 ]; then echo "setup: lake build failed (rc=$rc)"; exit $rc; fi
test -x .lake/build/bin/molli_driver || { echo "setup: driver missing"; exit 1; }
echo "setup ok"
