/-
Line-protocol driver for the executable models.
Request:  "<PROP> <payload>"   Response: one line.
Stateless: a payload carries a whole scenario (operation sequence, text, graph ...),
so a disagreement replays from the single request line.
-/
import Molli.Driver.C01
import Molli.Driver.C02
import Molli.Driver.C03
import Molli.Driver.C04
import Molli.Driver.C05
import Molli.Driver.C06
import Molli.Driver.C07
import Molli.Driver.C08
import Molli.Driver.C09
import Molli.Driver.C10
import Molli.Driver.C11
import Molli.Driver.C12
import Molli.Driver.C13
import Molli.Driver.C14
import Molli.Driver.C15
import Molli.Driver.C16
import Molli.Driver.C17
import Molli.Driver.C18
import Molli.Driver.C19

def dispatch (line : String) : String :=
  let line := (line.dropEndWhile (fun c => c == '\n' || c == '\r')).toString
  let (prop, rest) :=
    match line.splitOn " " with
    | [] => ("", "")
    | p :: r => (p, " ".intercalate r)
  match prop with
  | "C01" => Molli.Driver.C01.handle rest
  | "C02" => Molli.Driver.C02.handle rest
  | "C03" => Molli.Driver.C03.handle rest
  | "C04" => Molli.Driver.C04.handle rest
  | "C05" => Molli.Driver.C05.handle rest
  | "C06" => Molli.Driver.C06.handle rest
  | "C07" => Molli.Driver.C07.handle rest
  | "C08" => Molli.Driver.C08.handle rest
  | "C09" => Molli.Driver.C09.handle rest
  | "C10" => Molli.Driver.C10.handle rest
  | "C11" => Molli.Driver.C11.handle rest
  | "C12" => Molli.Driver.C12.handle rest
  | "C13" => Molli.Driver.C13.handle rest
  | "C14" => Molli.Driver.C14.handle rest
  | "C15" => Molli.Driver.C15.handle rest
  | "C16" => Molli.Driver.C16.handle rest
  | "C17" => Molli.Driver.C17.handle rest
  | "C18" => Molli.Driver.C18.handle rest
  | "C19" => Molli.Driver.C19.handle rest
  | _ => "err:unknown-model"

partial def loop (hin hout : IO.FS.Stream) : IO Unit := do
  let line ← hin.getLine
  if line.isEmpty then return ()
  hout.putStrLn (dispatch line)
  loop hin hout

def main : IO Unit := do
  let hin ← IO.getStdin
  let hout ← IO.getStdout
  loop hin hout
  hout.flush
