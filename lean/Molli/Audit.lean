/-
Axiom audit used by every check: `#audit_module M` lists every theorem declared in
module `M` together with the axioms it depends on, one line per theorem:
  AUDIT <module> <theorem> [ax1,ax2,...]
The Python side (`harness/common.py`) counts the lines (= proof obligations) and accepts
a theorem as discharged only when its axioms ⊆ {propext, Classical.choice, Quot.sound}.
-/
import Lean
open Lean Elab Command

elab "#audit_module " id:ident : command => do
  let env ← getEnv
  let modName := id.getId
  match env.getModuleIdx? modName with
  | none => logError m!"AUDIT-ERROR module {modName} not imported"
  | some idx =>
    let mut names : Array Name := #[]
    for (n, ci) in env.constants.map₁.toList do
      if env.getModuleIdxFor? n == some idx then
        match ci with
        | .thmInfo _ => if !n.isInternal then names := names.push n
        | _ => pure ()
    let sorted := names.qsort (fun a b => a.toString < b.toString)
    for n in sorted do
      let ax ← liftCoreM <| collectAxioms n
      let axs := ax.toList.map (·.toString) |>.mergeSort
      IO.println s!"AUDIT {modName} {n} [{",".intercalate axs}]"
