/-
Model of the job machinery of `molli/pipeline` — property C17.   Core Lean only.

Part 1 (`bind`): `Job.__get__` — how the settings of a driver class / driver instance / job declaration
reach the job object that prepares inputs.  `Variant.asShipped` is the code of the pinned commit (the one
`Job` stored on the class is mutated and returned: the first instance's settings stick, `envars`
accumulate); `Variant.repaired` binds a fresh copy per access (instance before class, declaration first).

Part 2 (`runJob`): `runner.run_local` — materialise the input files in a private scratch directory, run the
commands in order until the first failure, capture stdout/stderr of named commands, collect the requested
files, write the `JobOutput`, exit status, remove the scratch directory.  The shell, `subprocess` and the
programs are environment: each command comes with a scripted `Outcome` (what it prints, which files it
writes/copies/removes, its exit code).
-/
import Molli.Util.Basic
namespace Molli.Model.Job
open Molli.Util

/-! ## dictionaries as association lists (unique keys, most recently set key first; compared as sorted maps) -/

def dget {β : Type} (d : List (String × β)) (k : String) : Option β :=
  (d.find? (fun e => e.1 == k)).map (·.2)

def dset {β : Type} (d : List (String × β)) (k : String) (v : β) : List (String × β) :=
  (k, v) :: d.filter (fun e => !(e.1 == k))

def ddel {β : Type} (d : List (String × β)) (k : String) : List (String × β) :=
  d.filter (fun e => !(e.1 == k))

/-- Python's `a | b` on dicts -/
def dmerge {β : Type} (a b : List (String × β)) : List (String × β) :=
  b.foldl (fun acc e => dset acc e.1 e.2) a

def dhas {β : Type} (d : List (String × β)) (k : String) : Bool := d.any (fun e => e.1 == k)

abbrev Env := List (String × String)

/-! ## Part 1: binding driver settings -/

/-- the attributes one level (job declaration, driver class, driver instance) provides; `none` = absent or falsy -/
structure Attrs where
  executable : Option String := none
  nprocs : Option Nat := none
  memory : Option Nat := none
  envars : Env := []
deriving Repr, DecidableEq

/-- the settings of the job object that prepares an input -/
structure Bound where
  executable : Option String
  nprocs : Nat
  memory : Nat
  envars : Env
deriving Repr, DecidableEq

inductive Variant | asShipped | repaired
deriving Repr, DecidableEq

/-- the settings a driver instance with attributes `inst` (class attributes `cls`) must get for a job declared
with `job` — declaration first, then the instance, then the class; defaults 1 process, 1000 MB;
environment: class, overridden by instance, overridden by declaration. -/
def resolve (job cls inst : Attrs) : Bound :=
  { executable := job.executable <|> inst.executable <|> cls.executable
    nprocs := (job.nprocs <|> inst.nprocs <|> cls.nprocs).getD 1
    memory := (job.memory <|> inst.memory <|> cls.memory).getD 1000
    envars := dmerge (dmerge cls.envars inst.envars) job.envars }

/-- `Job.__get__(self, obj, objtype)`: new state of the shared job object and the settings of the returned object -/
def bind (v : Variant) (job cls inst : Attrs) : Attrs × Bound :=
  match v with
  | .repaired => (job, resolve job cls inst)
  | .asShipped =>
    let b : Bound :=
      { executable := job.executable <|> cls.executable <|> inst.executable
        nprocs := (job.nprocs <|> cls.nprocs <|> inst.nprocs).getD 1
        memory := (job.memory <|> cls.memory <|> inst.memory).getD 1000
        envars := dmerge (dmerge cls.envars inst.envars) job.envars }
    ({ executable := b.executable, nprocs := some b.nprocs, memory := some b.memory, envars := b.envars }, b)

/-! ### `DriverBase.__init__`
`self.executable = executable or default_executable` (the class's declared default, if it has one); with `find` the
name is replaced by what `shutil.which` finds for it.  The class is only read. -/

/-- the executable a new driver instance ends up with: `which` is the PATH lookup, `declDefault` the
`default_executable` its class declares, `explicit` the `executable=` argument -/
def initExecutable (which : String → Option String) (declDefault explicit : Option String) (find : Bool) : Option String :=
  let exe := explicit <|> declDefault
  if find then exe.bind which else exe

/-- the attributes of a new instance created with the keyword arguments `req` -/
def initAttrs (which : String → Option String) (declDefault : Option String) (req : Attrs) (find : Bool) : Attrs :=
  { req with executable := initExecutable which declDefault req.executable find }

/-- attributes of the instance's own class seen through the instance (`getattr(obj, …) or getattr(type(obj), …)`):
several driver classes can share one job object, each instance falls back to its own class -/
def foldClass (cls inst : Attrs) : Attrs :=
  { executable := inst.executable <|> cls.executable
    nprocs := inst.nprocs <|> cls.nprocs
    memory := inst.memory <|> cls.memory
    envars := dmerge cls.envars inst.envars }

/-- a history of driver creations, attribute changes, uses (`use i` = `driver_i.job.prepare(...)`) and disposals -/
inductive Ev
  | create (i : Nat) (a : Attrs)
  | use (i : Nat)
  | mutate (i : Nat) (a : Attrs)     -- the attributes of a live driver are assigned new values
  | discard (i : Nat)                -- the driver object is dropped (garbage collected)
deriving Repr, DecidableEq

structure World where
  job : Attrs
  insts : List (Nat × Attrs)
deriving Repr

def lookupInst (insts : List (Nat × Attrs)) (i : Nat) : Option Attrs :=
  (insts.find? (fun e => e.1 == i)).map (·.2)

/-- latest creation wins -/
def setInst (insts : List (Nat × Attrs)) (i : Nat) (a : Attrs) : List (Nat × Attrs) :=
  (i, a) :: insts.filter (fun e => !(e.1 == i))

def dropInst (insts : List (Nat × Attrs)) (i : Nat) : List (Nat × Attrs) :=
  insts.filter (fun e => !(e.1 == i))

def stepEv (v : Variant) (cls : Attrs) (w : World) : Ev → World × Option Bound
  | .create i a => ({ w with insts := setInst w.insts i a }, none)
  | .mutate i a =>
    match lookupInst w.insts i with
    | none => (w, none)
    | some _ => ({ w with insts := setInst w.insts i a }, none)
  | .discard i => ({ w with insts := dropInst w.insts i }, none)
  | .use i =>
    match lookupInst w.insts i with
    | none => (w, none)
    | some a => let (j, b) := bind v w.job cls a; ({ w with job := j }, some b)

/-- run a history; the list of results of the events (`none` for creations and uses of unknown drivers) -/
def runEvs (v : Variant) (cls : Attrs) : World → List Ev → World × List (Option Bound)
  | w, [] => (w, [])
  | w, e :: es =>
    let (w1, o) := stepEv v cls w e
    let (w2, os) := runEvs v cls w1 es
    (w2, o :: os)

/-! ## Part 2: running a job -/

inductive Effect
  | write (name : String) (data : Bytes)        -- create / overwrite a file
  | copy (src dst : String)                       -- `if [ -f src ]; then cat src > dst; fi`
  | remove (name : String)                        -- `rm -f name`
  | dumpEnv (var dst : String)                    -- `printf %s "$var" > dst`
deriving Repr, DecidableEq

/-- the scripted behaviour of one command; `code` is `subprocess`'s return code: the exit status, or `-n` when the
process was killed by signal `n` -/
structure Outcome where
  effects : List Effect
  out : Bytes
  err : Bytes
  code : Int
deriving Repr, DecidableEq

structure JobInput where
  jid : String
  commands : List (String × Option String)        -- (command line, name)
  files : List (String × Bytes)                    -- text files as their UTF-8 bytes
  returnFiles : Option (List String)               -- `None` is the default of the dataclass
  envars : Env
deriving Repr, DecidableEq

structure JobOutput where
  stdouts : List (String × Bytes)
  stderrs : List (String × Bytes)
  exitcode : Int
  files : List (String × Bytes)
  inputHash : String
deriving Repr, DecidableEq

abbrev FS := List (String × Bytes)

def applyEffect (env : Env) (fs : FS) : Effect → FS
  | .write n d => dset fs n d
  | .copy s d => match dget fs s with
    | some b => dset fs d b
    | none => fs
  | .remove n => ddel fs n
  | .dumpEnv v d => dset fs d ((dget env v).getD "").toUTF8.toList

/-- the file system after one command: named commands get `<name>.out` / `<name>.err` opened (truncated)
before the process starts and holding its output afterwards -/
def runOne (env : Env) (fs : FS) (name : Option String) (o : Outcome) : FS :=
  match name with
  | none => o.effects.foldl (applyEffect env) fs
  | some n =>
    let fs1 := dset (dset fs (n ++ ".out") []) (n ++ ".err") []
    let fs2 := o.effects.foldl (applyEffect env) fs1
    dset (dset fs2 (n ++ ".out") o.out) (n ++ ".err") o.err

/-- the command loop: returns the final file system and the commands that were started (the last one is the
failing one, if any) -/
def exec (env : Env) : FS → List (Option String × Outcome) → FS × List (Option String × Outcome)
  | fs, [] => (fs, [])
  | fs, (n, o) :: rest =>
    let fs1 := runOne env fs n o
    if o.code ≠ 0 then (fs1, [(n, o)])
    else let (fs2, ran) := exec env fs1 rest; (fs2, (n, o) :: ran)

structure RunResult where
  ran : List (Option String × Outcome)       -- commands actually started, in order
  output : Option JobOutput                   -- the JobOutput file (none: the runner died before writing it)
  exit : Nat                                  -- exit status of the runner process
  scratchAfter : List String                  -- entries of the scratch directory after the run
deriving Repr

def namesOf (ran : List (Option String × Outcome)) : List String := ran.filterMap (·.1)

def failedCode (ran : List (Option String × Outcome)) : Option Int :=
  match ran.getLast? with
  | some (_, o) => if o.code ≠ 0 then some o.code else none
  | none => none

/-- the environment of the commands: the runner's environment overridden by the job's `envars` -/
def jobEnv (baseEnv : Env) (inp : JobInput) : Env := dmerge baseEnv inp.envars

/-- the private directory after the input files were written -/
def initFS (inp : JobInput) : FS := inp.files.foldl (fun fs f => dset fs f.1 f.2) []

/-- the commands (names) of the job paired with their scripted outcomes -/
def jobCmds (inp : JobInput) (script : List Outcome) : List (Option String × Outcome) :=
  (inp.commands.map (·.2)).zip script

/-- the private directory when the command loop has ended -/
def finalFS (baseEnv : Env) (inp : JobInput) (script : List Outcome) : FS :=
  (exec (jobEnv baseEnv inp) (initFS inp) (jobCmds inp script)).1

/-- the commands that were started -/
def ranCmds (baseEnv : Env) (inp : JobInput) (script : List Outcome) : List (Option String × Outcome) :=
  (exec (jobEnv baseEnv inp) (initFS inp) (jobCmds inp script)).2

def captures (fs : FS) (names : List String) : List (String × Option Bytes × Option Bytes) :=
  names.map fun n => (n, dget fs (n ++ ".out"), dget fs (n ++ ".err"))

def collectStep (fs : FS) (d : List (String × Bytes)) (f : String) : List (String × Bytes) :=
  match dget fs f with
  | some b => dset d f b
  | none => d

/-- `{str(f): f.read_bytes() for f in return_files if f.is_file()}` -/
def collect (fs : FS) (req : List String) : List (String × Bytes) :=
  req.foldl (collectStep fs) []

def splitSlash : List Char → List Char → List (List Char)
  | [], cur => [cur.reverse]
  | c :: cs, cur => if c = '/' then cur.reverse :: splitSlash cs [] else splitSlash cs (c :: cur)

/-- `str(Path(p))`: empty and `.` segments dropped (`./x`, `a//b`, `a/./b`, `a/`); `..` is kept -/
def normPath (p : String) : String :=
  let segs := (splitSlash p.toList []).filter fun s => !(s == []) && !(s == ['.'])
  let body := String.ofList (List.intercalate ['/'] segs)
  if p.toList.head? == some '/' then "/" ++ body else if body == "" then "." else body

/-- the requested files as the runner names them: relative paths (sub-directories allowed) in normal form -/
def requested (inp : JobInput) : List String := (inp.returnFiles.getD []).map normPath

def exitcodeOf (v : Variant) (failed : Option Int) (complete : Bool) : Int :=
  match v with
  | .repaired => match failed with
    | some c => c
    | none => if complete then 0 else 1
  | .asShipped => match failed with
    | some c => c
    | none => 0

/-- `run_local` on the job `inp` whose commands behave as `script` says.
`hash` is `JobInput.hash`; `baseEnv` the environment of the runner; `scratch` the entries of the scratch
directory before the run; `td` the name of the private directory (`<jid>__<random>`). -/
def runJob (v : Variant) (hash : JobInput → String) (baseEnv : Env) (scratch : List String) (td : String)
    (inp : JobInput) (script : List Outcome) : RunResult :=
  let fs := finalFS baseEnv inp script
  let ran := ranCmds baseEnv inp script
  let after := (td :: scratch).erase td            -- the private directory is removed when the block is left
  -- reading the captured streams back (a missing capture file kills the runner; so does an empty command list: `proc` is unbound)
  let caps := captures fs (namesOf ran)
  if ran.isEmpty || caps.any (fun c => c.2.1.isNone || c.2.2.isNone) then
    { ran := ran, output := none, exit := 1, scratchAfter := after }
  else
    match inp.returnFiles, v with
    | none, .asShipped => { ran := ran, output := none, exit := 1, scratchAfter := after }   -- `map(Path, None)` raises
    | rf, _ =>
      let req := (rf.getD []).map normPath
      let complete := req.all (fun f => dhas fs f)
      let failed := failedCode ran
      { ran := ran
        output := some
          { stdouts := caps.foldl (fun d c => dset d c.1 (c.2.1.getD [])) []
            stderrs := caps.foldl (fun d c => dset d c.1 (c.2.2.getD [])) []
            exitcode := exitcodeOf v failed complete
            files := collect fs req
            inputHash := hash inp }
        exit := if failed.isNone && complete then 0 else 1
        scratchAfter := after }

/-! ## which program a command starts
`subprocess.run(argv, env=environ)`: a program given with a `/` is taken as it is (relative to the private directory);
a bare name is searched along the `PATH` of the environment the COMMAND gets — the runner's environment overridden by
the job's `envars` — an empty entry meaning the current directory. -/

def pathDirs (env : Env) : List String :=
  match dget env "PATH" with
  | some p => p.splitOn ":"
  | none => []

/-- the file that is started for `prog`, given which candidate files exist and are executable -/
def resolveProgram (env : Env) (has : String → Bool) (prog : String) : Option String :=
  if prog.toList.contains '/' then (if has prog then some prog else none)
  else ((pathDirs env).map fun d => if d == "" then prog else d ++ "/" ++ prog).find? has

/-! ## where the JobOutput goes
`_molli_run <input> -o <outdir> -s <scratch>`: each path argument may be absolute or relative to the directory the
runner was started in.  The runner changes into its private directory for the commands; the output file must
nevertheless land in `<outdir>` as the caller meant it. -/

inductive PathArg
  | abs (segs : List String)
  | rel (segs : List String)
deriving Repr, DecidableEq

/-- the directory a path argument denotes for a process whose working directory is `cwd` -/
def PathArg.resolve (cwd : List String) : PathArg → List String
  | .abs p => p
  | .rel p => cwd ++ p

/-- the file `run_local` writes the JobOutput to: started in `cwd0`, private directory `td`, input file `<stem>.inp`.
`dumpInsideScratch = true` describes a runner that dumps before it has left its private directory. -/
def outputLocation (dumpInsideScratch : Bool) (cwd0 td : List String) (out : PathArg) (stem : String) : List String :=
  out.resolve (if dumpInsideScratch then td else cwd0) ++ [stem ++ ".out"]

end Molli.Model.Job
