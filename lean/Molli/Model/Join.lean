/-
Executable model of `Structure.join` (molli/chem/structure.py:465-596), `_optimize_rotation`
(molli/math/distance.py) and the iterated join of `molli combine` (molli/scripts/combine.py:155-170).

A fragment is its atom list (any payload `A`), its bond list (endpoints as indices into the atom
list, any payload `B`), one coordinate row per atom, charge and multiplicity.  `join` is a pure
function of two fragments and the call's arguments:

  atoms   = [a for a in chain(s1.atoms, s2.atoms) if a not in {a1, a2}]
  bonds   = bonds of s1 then s2 that do not contain an attachment point, endpoints re-mapped,
            then ONE new bond (former neighbour of a1, former neighbour of a2)
  charge  = `charge or q1 + q2` (shipped) / `q1 + q2 if charge is None else charge` (repaired)
  mult    = likewise with `m1 + m2 - 1`; the constructor then stores `mult or 1`
  coords  = vstack(c1, c2),  c1 = s1.coords[≠a1] − r1,
            c2 = (s2.coords[≠a2] − r2) @ R + v̂1·d,   R = rotation_matrix_from_vectors(v2, −v1, tol=1e-6)
            optionally  c2 @ rotation_matrix_from_axis(v1, best_angle)

`v1n`, `v2n` (the normalised attachment vectors) and the helper norm `n` are inputs constrained by
their defining equations (see Molli.Model.Geom); the angle picked by the 12-step scan is an input
`opt` (the theorems hold for every angle).  `Variant` selects shipped / repaired behaviour for
D24 (`charge or …`), D25 (random helper in the antiparallel branch) and D26 (`ap_i − i`).
Core Lean only.
-/
import Molli.Model.Geom
namespace Molli.Model.Join
open Molli.Model.Geom

structure Bond (B : Type) where
  a1 : Nat
  a2 : Nat
  data : B
deriving Repr, DecidableEq

structure Frag (A B α : Type) where
  atoms : List A
  bonds : List (Bond B)
  coords : List (V3 α)
  charge : Int
  mult : Int
deriving Repr

variable {A B : Type}

/-- `a in bond` -/
def Bond.touches (b : Bond B) (i : Nat) : Bool := b.a1 == i || b.a2 == i
/-- `bond % a` : the other end -/
def Bond.other (b : Bond B) (i : Nat) : Nat := if b.a1 == i then b.a2 else b.a1

/-- `n_bonds_with_atom` -/
def nBondsWith (bonds : List (Bond B)) (i : Nat) : Nat := (bonds.filter (·.touches i)).length
/-- `next(connected_atoms(a))` -/
def neighbour? (bonds : List (Bond B)) (i : Nat) : Option Nat :=
  (bonds.find? (·.touches i)).map (·.other i)

/-- index of the atom formerly at `j` (`j ≠ k`) once the atom at `k` has been dropped -/
def reidx (k j : Nat) : Nat := if j < k then j else j - 1

/-- bonds that do not contain atom `k`, endpoints re-mapped into a list that starts at `off` -/
def keptBonds (bonds : List (Bond B)) (k off : Nat) : List (Bond B) :=
  (bonds.filter (fun b => !b.touches k)).map
    (fun b => ⟨off + reidx k b.a1, off + reidx k b.a2, b.data⟩)

/-- `charge or default` (shipped: an override of 0 is ignored) vs `default if charge is None` -/
def pick (v : Variant) (override : Option Int) (dflt : Int) : Int :=
  match v, override with
  | _, none => dflt
  | .repaired, some x => x
  | .asShipped, some x => if x = 0 then dflt else x

/-- the `Promolecule` constructor stores `mult or 1` -/
def ctorMult (m : Int) : Int := if m = 0 then 1 else m

structure Topo (A B : Type) where
  atoms : List A
  bonds : List (Bond B)
  charge : Int
  mult : Int
  /-- index (in `atoms`) of the former neighbour of a1 / of a2: the ends of the new bond -/
  r1 : Nat
  r2 : Nat
deriving Repr

/-- combinatorial part of `join`; `none` = one of the two `assert n_bonds_with_atom == 1` fails
(or an index is out of range) -/
def joinTopo (v : Variant) (atomsA : List A) (bondsA : List (Bond B)) (qA mA : Int)
    (atomsB : List A) (bondsB : List (Bond B)) (qB mB : Int) (i1 i2 : Nat) (nb : B)
    (charge? mult? : Option Int) : Option (Topo A B) :=
  if i1 < atomsA.length ∧ i2 < atomsB.length ∧ nBondsWith bondsA i1 = 1 ∧ nBondsWith bondsB i2 = 1 then
    match neighbour? bondsA i1, neighbour? bondsB i2 with
    | some n1, some n2 =>
      let off := atomsA.length - 1
      let r1 := reidx i1 n1
      let r2 := off + reidx i2 n2
      some {
        atoms := atomsA.eraseIdx i1 ++ atomsB.eraseIdx i2
        bonds := keptBonds bondsA i1 0 ++ keptBonds bondsB i2 off ++ [⟨r1, r2, nb⟩]
        charge := pick v charge? (qA + qB)
        mult := ctorMult (pick v mult? (mA + mB - 1))
        r1 := r1, r2 := r2 }
    | _, _ => none
  else none

section Coords
variable {α : Type} [Add α] [Mul α] [Sub α] [Neg α] [OfNat α 0] [OfNat α 1] [Div α] [LE α] [DecidableLE α]

/-- the rigid motion applied to every remaining atom of the second fragment -/
def moveB (v : Variant) (r2 v1n v2n : V3 α) (d tol n : α) (rv : V3 α) (opt : Option (α × α))
    (p : V3 α) : V3 α :=
  let rot := rotVecFull v v2n v1n.neg tol n rv
  let q := ((p.sub r2).mulM rot).add (v1n.smul d)
  match opt with
  | none => q
  | some sc => q.mulM (rotAxis v1n sc.1 sc.2)

/-- geometric part of `join`: `np.vstack((c1, c2))`.
`r1`, `r2` = coordinates of the former neighbours, `v1n`, `v2n` = normalised attachment vectors,
`d` = the bond length used, `tol` = 1e-6, `n`/`rv` = helper norm / random draw of the antiparallel
branch, `opt` = (sin, cos) of the angle chosen by `_optimize_rotation` (none: no scan). -/
def joinCoords (v : Variant) (ca cb : List (V3 α)) (i1 i2 : Nat) (r1 r2 v1n v2n : V3 α)
    (d tol n : α) (rv : V3 α) (opt : Option (α × α)) : List (V3 α) :=
  (ca.eraseIdx i1).map (fun p => p.sub r1) ++
  (cb.eraseIdx i2).map (moveB v r2 v1n v2n d tol n rv opt)

end Coords

/-! ### iterated joins as in `molli combine` -/

/-- Python list indexing with an `int` (negative indices count from the end) -/
def pyIndex (len : Nat) (k : Int) : Option Nat :=
  if 0 ≤ k then (if k < len then some k.toNat else none)
  else if -(len : Int) ≤ k then some ((len : Int) + k).toNat else none

/-- number of attachment points consumed before step `i` that preceded `a` in the atom list -/
def consumedBefore (aps : List Nat) (i : Nat) (a : Nat) : Nat :=
  ((aps.take i).filter (· < a)).length

/-- the index handed to `join` at step `i` of the loop over `core_aps`:
shipped `ap_i - i`; repaired `ap_i - (number of already consumed attachment points before it)` -/
def address (v : Variant) (aps : List Nat) (i : Nat) : Option Int :=
  match aps[i]? with
  | none => none
  | some a =>
    match v with
    | .asShipped => some ((a : Int) - (i : Int))
    | .repaired => some ((a : Int) - (consumedBefore aps i a : Int))

/-- The atom-list side of the loop `deriv = join(deriv, sub, address_i, sub_ap)`: each step drops
the addressed atom of the running product and appends the substituent's remaining atoms `ext`
(that is `joinTopo`'s atom list).  Returns the atoms that were consumed as attachment points
(`none` = the address was out of range) and the final atom list. -/
def combineAtoms (v : Variant) (aps : List Nat) : Nat → List A → List (List A) → List (Option A) × List A
  | _, cur, [] => ([], cur)
  | i, cur, ext :: exts =>
    match (address v aps i).bind (pyIndex cur.length) with
    | none => ([none], cur)
    | some k =>
      let rest := combineAtoms v aps (i + 1) (cur.eraseIdx k ++ ext) exts
      (cur[k]? :: rest.1, rest.2)

/-- a substituent with its (single) attachment point index -/
structure Sub (A B : Type) where
  atoms : List A
  bonds : List (Bond B)
  charge : Int
  mult : Int
  ap : Nat

/-- `_ml_assemble` for one substituent combination, combinatorial part (atoms, bonds, charge, mult) -/
def assemble (v : Variant) (jv : Variant) (aps : List Nat) (nb : B) :
    Nat → Topo A B → List (Sub A B) → Option (Topo A B)
  | _, cur, [] => some cur
  | i, cur, s :: subs =>
    match (address v aps i).bind (pyIndex cur.atoms.length) with
    | none => none
    | some k =>
      match joinTopo jv cur.atoms cur.bonds cur.charge cur.mult s.atoms s.bonds s.charge s.mult k s.ap nb none none with
      | none => none
      | some t => assemble v jv aps nb (i + 1) t subs

end Molli.Model.Join
