/-
Byte-level model of the msgpack encoding the library classes use
(`msgpack.dumps(v)` with the defaults of msgpack >= 1.0: `use_bin_type=True`, smallest
representation for every integer / length, floats as float64) and of the decoder
(`msgpack.loads(b, use_list=False, strict_map_key=False)`).

  pack    : MVal → Bytes
  unpack  : fuel → Bytes → Option (MVal × Bytes)      (fuel bounds the nesting depth only)

`Molli.Lemmas.Msgpack.unpack_pack`: decoding the encoding of any packable value gives `N v`
— the normalisation that `Molli.Model.Codec` postulates is DERIVED here from the byte format.
Extension types, timestamps and the 8-byte lengths msgpack does not have are outside.
Core Lean only.
-/
import Molli.Model.Codec
namespace Molli.Model.Msgpack
open Molli.Util Molli.Model.Codec

/-- `k` bytes, big endian, of `n` (mod 256^k) -/
def beN : Nat → Nat → Bytes
  | 0, _ => []
  | k + 1, n => UInt8.ofNat (n / 256 ^ k % 256) :: beN k n

/-- big-endian value of a byte string -/
def rdN : Bytes → Nat
  | [] => 0
  | b :: bs => b.toNat * 256 ^ bs.length + rdN bs

/-! ### encoder -/

/-- integers: the smallest of positive fixint, uint8/16/32/64, negative fixint, int8/16/32/64 -/
def packInt (i : Int) : Bytes :=
  if 0 ≤ i then
    let n := i.toNat
    if n < 128 then [UInt8.ofNat n]
    else if n < 256 then 0xcc :: beN 1 n
    else if n < 65536 then 0xcd :: beN 2 n
    else if n < 4294967296 then 0xce :: beN 4 n
    else 0xcf :: beN 8 n
  else
    if -32 ≤ i then [UInt8.ofNat (i + 256).toNat]
    else if -128 ≤ i then 0xd0 :: beN 1 (i + 256).toNat
    else if -32768 ≤ i then 0xd1 :: beN 2 (i + 65536).toNat
    else if -2147483648 ≤ i then 0xd2 :: beN 4 (i + 4294967296).toNat
    else 0xd3 :: beN 8 (i + 18446744073709551616).toNat

def strHdr (n : Nat) : Bytes :=
  if n < 32 then [UInt8.ofNat (160 + n)]
  else if n < 256 then 0xd9 :: beN 1 n
  else if n < 65536 then 0xda :: beN 2 n
  else 0xdb :: beN 4 n

def binHdr (n : Nat) : Bytes :=
  if n < 256 then 0xc4 :: beN 1 n
  else if n < 65536 then 0xc5 :: beN 2 n
  else 0xc6 :: beN 4 n

def arrHdr (n : Nat) : Bytes :=
  if n < 16 then [UInt8.ofNat (144 + n)]
  else if n < 65536 then 0xdc :: beN 2 n
  else 0xdd :: beN 4 n

def mapHdr (n : Nat) : Bytes :=
  if n < 16 then [UInt8.ofNat (128 + n)]
  else if n < 65536 then 0xde :: beN 2 n
  else 0xdf :: beN 4 n

mutual
def pack : MVal → Bytes
  | .nil => [0xc0]
  | .bool false => [0xc2]
  | .bool true => [0xc3]
  | .int i => packInt i
  | .f32 b => 0xca :: beN 4 b.toNat
  | .f64 b => 0xcb :: beN 8 b.toNat
  | .str s => strHdr s.length ++ s
  | .bin b => binHdr b.length ++ b
  | .arr _ l => arrHdr l.length ++ packL l
  | .map l => mapHdr l.length ++ packM l
def packL : List MVal → Bytes
  | [] => []
  | v :: vs => pack v ++ packL vs
def packM : List (MVal × MVal) → Bytes
  | [] => []
  | (k, v) :: r => pack k ++ (pack v ++ packM r)
end

/-! ### what can be encoded -/

mutual
def packable : MVal → Bool
  | .int i => decide (-9223372036854775808 ≤ i) && decide (i < 18446744073709551616)
  | .str s => decide (s.length < 4294967296)
  | .bin b => decide (b.length < 4294967296)
  | .arr _ l => decide (l.length < 4294967296) && packableL l
  | .map l => decide (l.length < 4294967296) && packableM l
  | _ => true
def packableL : List MVal → Bool
  | [] => true
  | v :: vs => packable v && packableL vs
def packableM : List (MVal × MVal) → Bool
  | [] => true
  | (k, v) :: r => packable k && packable v && packableM r
end

mutual
def depth : MVal → Nat
  | .arr _ l => depthL l + 1
  | .map l => depthM l + 1
  | _ => 0
def depthL : List MVal → Nat
  | [] => 0
  | v :: vs => max (depth v) (depthL vs)
def depthM : List (MVal × MVal) → Nat
  | [] => 0
  | (k, v) :: r => max (max (depth k) (depth v)) (depthM r)
end

/-! ### decoder -/

/-- read a `k`-byte big-endian number -/
def readN (k : Nat) (bs : Bytes) : Option (Nat × Bytes) :=
  if bs.length < k then none else some (rdN (bs.take k), bs.drop k)

def takeN (n : Nat) (bs : Bytes) : Option (Bytes × Bytes) :=
  if bs.length < n then none else some (bs.take n, bs.drop n)

/-- two's complement of width `k` bytes -/
def signed (k : Nat) (n : Nat) : Int := if n < 256 ^ k / 2 then (n : Int) else (n : Int) - (256 ^ k : Nat)

mutual
def unpack : Nat → Bytes → Option (MVal × Bytes)
  | _, [] => none
  | fuel, t :: bs =>
    let c := t.toNat
    if c < 128 then some (.int c, bs)
    else if c < 144 then
      match fuel with
      | 0 => none
      | f + 1 => (unpackM f (c - 128) bs).map (fun r => (.map r.1, r.2))
    else if c < 160 then
      match fuel with
      | 0 => none
      | f + 1 => (unpackL f (c - 144) bs).map (fun r => (.arr false r.1, r.2))
    else if c < 192 then (takeN (c - 160) bs).map (fun r => (.str r.1, r.2))
    else if c = 192 then some (.nil, bs)
    else if c = 194 then some (.bool false, bs)
    else if c = 195 then some (.bool true, bs)
    else if c = 196 then (readN 1 bs).bind (fun r => (takeN r.1 r.2).map (fun x => (.bin x.1, x.2)))
    else if c = 197 then (readN 2 bs).bind (fun r => (takeN r.1 r.2).map (fun x => (.bin x.1, x.2)))
    else if c = 198 then (readN 4 bs).bind (fun r => (takeN r.1 r.2).map (fun x => (.bin x.1, x.2)))
    else if c = 202 then (readN 4 bs).map (fun r => (.f64 (widen (UInt32.ofNat r.1)), r.2))
    else if c = 203 then (readN 8 bs).map (fun r => (.f64 (UInt64.ofNat r.1), r.2))
    else if c = 204 then (readN 1 bs).map (fun r => (.int r.1, r.2))
    else if c = 205 then (readN 2 bs).map (fun r => (.int r.1, r.2))
    else if c = 206 then (readN 4 bs).map (fun r => (.int r.1, r.2))
    else if c = 207 then (readN 8 bs).map (fun r => (.int r.1, r.2))
    else if c = 208 then (readN 1 bs).map (fun r => (.int (signed 1 r.1), r.2))
    else if c = 209 then (readN 2 bs).map (fun r => (.int (signed 2 r.1), r.2))
    else if c = 210 then (readN 4 bs).map (fun r => (.int (signed 4 r.1), r.2))
    else if c = 211 then (readN 8 bs).map (fun r => (.int (signed 8 r.1), r.2))
    else if c = 217 then (readN 1 bs).bind (fun r => (takeN r.1 r.2).map (fun x => (.str x.1, x.2)))
    else if c = 218 then (readN 2 bs).bind (fun r => (takeN r.1 r.2).map (fun x => (.str x.1, x.2)))
    else if c = 219 then (readN 4 bs).bind (fun r => (takeN r.1 r.2).map (fun x => (.str x.1, x.2)))
    else if c = 220 then
      match fuel with
      | 0 => none
      | f + 1 => (readN 2 bs).bind (fun r => (unpackL f r.1 r.2).map (fun x => (.arr false x.1, x.2)))
    else if c = 221 then
      match fuel with
      | 0 => none
      | f + 1 => (readN 4 bs).bind (fun r => (unpackL f r.1 r.2).map (fun x => (.arr false x.1, x.2)))
    else if c = 222 then
      match fuel with
      | 0 => none
      | f + 1 => (readN 2 bs).bind (fun r => (unpackM f r.1 r.2).map (fun x => (.map x.1, x.2)))
    else if c = 223 then
      match fuel with
      | 0 => none
      | f + 1 => (readN 4 bs).bind (fun r => (unpackM f r.1 r.2).map (fun x => (.map x.1, x.2)))
    else if 224 ≤ c then some (.int ((c : Int) - 256), bs)
    else none   -- 0xc1 (never used), ext / fixext types
def unpackL : Nat → Nat → Bytes → Option (List MVal × Bytes)
  | _, 0, bs => some ([], bs)
  | fuel, n + 1, bs =>
    match unpack fuel bs with
    | none => none
    | some (v, bs1) =>
      match unpackL fuel n bs1 with
      | none => none
      | some (vs, bs2) => some (v :: vs, bs2)
def unpackM : Nat → Nat → Bytes → Option (List (MVal × MVal) × Bytes)
  | _, 0, bs => some ([], bs)
  | fuel, n + 1, bs =>
    match unpack fuel bs with
    | none => none
    | some (k, bs1) =>
      match unpack fuel bs1 with
      | none => none
      | some (v, bs2) =>
        match unpackM fuel n bs2 with
        | none => none
        | some (r, bs3) => some ((k, v) :: r, bs3)
end

/-- `msgpack.loads(b, use_list=False, strict_map_key=False)`: one value, nothing left over -/
def loads (bs : Bytes) : Option MVal :=
  match unpack bs.length bs with
  | some (v, []) => some v
  | _ => none

end Molli.Model.Msgpack
