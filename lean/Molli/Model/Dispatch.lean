/-
C09 — the dispatch of the public entry points `ml.load / loads / load_all / loads_all / dump / dumps`
(molli/reader.py, molli/writer.py) over the full configuration matrix of the property.

A `Cell` is one configuration (the five dimensions of the property, `Config`, plus the form of a path argument); an `Action` is what an entry point *does* in that cell, in terms that can be
observed from outside by spying on the class-level codec methods:

  * which class method was reached first (class it was invoked on, operation, codec),
  * whether the caller's `name=` was forwarded to it and whether it received the caller's source / target,
  * the result: kind of the returned value, or the class of the exception raised by the entry point itself,
    or `propagated` (the exception raised *by the class method* came through unchanged),
  * whether the returned object(s) carry the requested name,
  * where text was written (the caller's stream, the file of the given path, the returned string),
  * `streamOk`: a caller-owned stream is still open, every file the entry point opened is closed.

`spec` is the action the PROPERTY demands, written from the property statement alone; it never looks at
reader.py / writer.py.  The *observed* table is generated from the live code (`Molli.Gen.Dispatch`).
`spec` is parametric in `cr`, the observed class-level behaviour "this class method raises by itself on the
probe input" (owned by other properties, e.g. `Structure.dumps_mol2`): the property asks the entry point to do
exactly what the class method does, so in such a cell the entry point has to let that exception through.
Core Lean only.
-/
namespace Molli.Model.Dispatch

inductive Entry | load | loads | loadAll | loadsAll | dump | dumps
  deriving DecidableEq, Repr
inductive Fmt | xyz | mol2 | cdxml | unsupported
  deriving DecidableEq, Repr
/-- kind of the source (loaders) or target (dumpers) -/
inductive Kind | path | stream | str
  deriving DecidableEq, Repr
inductive OType | molecule | ensemble | structure
  deriving DecidableEq, Repr
inductive NameArg | given | notGiven
  deriving DecidableEq, Repr

/-- the five dimensions the property names -/
structure Config where
  entry : Entry
  fmt : Fmt
  kind : Kind
  otype : OType
  name : NameArg
  deriving DecidableEq, Repr

inductive Cls | molecule | ensemble | structure | cdxmlFile | other
  deriving DecidableEq, Repr
inductive MOp | load | loads | loadAll | loadsAll | dump | dumps | parseFragment | getitem
  deriving DecidableEq, Repr
inductive Reach
  | none
  | many
  | meth (on : Cls) (op : MOp) (codec : Fmt)
  deriving DecidableEq, Repr
inductive Exc
  | valueError | notImplemented | typeError | unboundLocal | keyError | attributeError | osError | stopIteration | other
  deriving DecidableEq, Repr
inductive RetKind
  | obj (c : Cls)
  | list (c : Cls)
  | none
  | text
  | other
  deriving DecidableEq, Repr
inductive Result
  | notCalled
  | returned (k : RetKind)
  | raised (e : Exc)
  | propagated
  deriving DecidableEq, Repr
inductive Target | nothing | callerStream | pathFile | returned
  deriving DecidableEq, Repr

structure Action where
  applicable : Bool
  reached : Reach
  nameFwd : Bool
  argOk : Bool
  result : Result
  /-- recorded only when the entry point returned -/
  named : Bool
  /-- recorded only when the entry point returned -/
  wrote : Target
  streamOk : Bool
  deriving DecidableEq, Repr

/-- the action recorded for a cell outside the domain of its entry point (never called) -/
def Action.na : Action :=
  { applicable := false, reached := .none, nameFwd := false, argOk := false, result := .notCalled,
    named := false, wrote := .nothing, streamOk := true }

/-- placeholder for a missing table row: differs from every action `spec` can produce -/
def Action.missing : Action :=
  { applicable := false, reached := .many, nameFwd := false, argOk := false, result := .notCalled,
    named := false, wrote := .nothing, streamOk := false }

/-! ### enumeration of the matrix -/

def Entry.all : List Entry := [.load, .loads, .loadAll, .loadsAll, .dump, .dumps]
def Fmt.all : List Fmt := [.xyz, .mol2, .cdxml, .unsupported]
def Kind.all : List Kind := [.path, .stream, .str]
def OType.all : List OType := [.molecule, .ensemble, .structure]
def NameArg.all : List NameArg := [.given, .notGiven]

def allConfigs : List Config :=
  Entry.all.flatMap fun e => Fmt.all.flatMap fun f => Kind.all.flatMap fun k =>
    OType.all.flatMap fun o => NameArg.all.map fun n => ⟨e, f, k, o, n⟩

def Entry.idx : Entry → Nat
  | .load => 0 | .loads => 1 | .loadAll => 2 | .loadsAll => 3 | .dump => 4 | .dumps => 5
def Fmt.idx : Fmt → Nat
  | .xyz => 0 | .mol2 => 1 | .cdxml => 2 | .unsupported => 3
def Kind.idx : Kind → Nat
  | .path => 0 | .stream => 1 | .str => 2
def OType.idx : OType → Nat
  | .molecule => 0 | .ensemble => 1 | .structure => 2
def NameArg.idx : NameArg → Nat
  | .given => 0 | .notGiven => 1

/-- row of a cell in the generated table (row-major over entry, fmt, kind, otype, name) -/
def Config.idx (c : Config) : Nat :=
  (((c.entry.idx * 4 + c.fmt.idx) * 3 + c.kind.idx) * 3 + c.otype.idx) * 2 + c.name.idx

/-! ### the specification -/

/-- Domain of each entry point (signature level): `load`/`load_all` read a path, `loads`/`loads_all` a string,
`dump` writes to a path or an open stream, `dumps` returns a string; `dump`/`dumps` take no `name`. -/
def applicableCfg (c : Config) : Bool :=
  match c.entry, c.kind, c.name with
  | .load, .path, _ => true
  | .loadAll, .path, _ => true
  | .loads, .str, _ => true
  | .loadsAll, .str, _ => true
  | .dump, .path, .notGiven => true
  | .dump, .stream, .notGiven => true
  | .dumps, .str, .notGiven => true
  | _, _, _ => false

def OType.cls : OType → Cls
  | .molecule => .molecule | .ensemble => .ensemble | .structure => .structure

def Entry.mop : Entry → MOp
  | .load => .load | .loads => .loads | .loadAll => .loadAll | .loadsAll => .loadsAll | .dump => .dump | .dumps => .dumps

def Entry.isLoader : Entry → Bool
  | .dump | .dumps => false
  | _ => true

def Entry.listPromised : Entry → Bool
  | .loadAll | .loadsAll => true
  | _ => false

/-- the entry point refuses the request itself, before any codec is reached and before anything is written -/
def refuse (e : Exc) : Action :=
  { applicable := true, reached := .none, nameFwd := false, argOk := false, result := .raised e,
    named := false, wrote := .nothing, streamOk := true }

/-- kind of value the class-level codec of the cell returns -/
def retKind (c : Config) : RetKind :=
  match c.entry with
  | .load | .loads => .obj c.otype.cls
  | .loadAll | .loadsAll => .list c.otype.cls
  | .dump => .none
  | .dumps => .text

/-- where the text goes -/
def target (c : Config) : Target :=
  match c.entry, c.kind with
  | .dump, .stream => .callerStream
  | .dump, _ => .pathFile
  | .dumps, _ => .returned
  | _, _ => .nothing

/-- The entry point hands the request to the class-level codec `m` and returns / writes exactly what that does
(`raises`: the class method fails by itself on this input — then its exception comes through). -/
def viaCodec (c : Config) (m : Reach) (raises : Bool) : Action :=
  { applicable := true, reached := m, nameFwd := c.name == .given, argOk := true,
    result := if raises then .propagated else .returned (retKind c),
    named := !raises && c.entry.isLoader && c.name == .given,
    wrote := if raises then .nothing else target c,
    streamOk := true }

/-- class-level behaviour the specification is relative to: does the codec of (otype, entry, format) raise by
itself on the probe input -/
abbrev ClassRaises := OType → Entry → Fmt → Bool

/-- What the property demands for the five dimensions it names (a path argument carrying the matching suffix). -/
def specCfg (cr : ClassRaises) (c : Config) : Action :=
  if !applicableCfg c then Action.na
  -- "lists where lists are promised": a list loader cannot deliver a ConformerEnsemble (which is itself the
  -- collection of all frames): there is no class-level `load_all_*` on ConformerEnsemble; the request is refused.
  else if c.entry.listPromised && c.otype == .ensemble then refuse .valueError
  else match c.fmt with
  -- "ValueError for unsupported formats"
  | .unsupported => refuse .valueError
  | .cdxml =>
    match c.entry with
    -- a CDXML *file* is read by `CDXMLFile(path)._parse_fragment`
    | .load | .loadAll => viaCodec c (.meth .cdxmlFile .parseFragment .cdxml) (cr c.otype c.entry .cdxml)
    -- there is no class-level codec for CDXML text: not implemented
    | .loads | .loadsAll => refuse .notImplemented
    -- CDXML cannot be written: unsupported format
    | .dump | .dumps => refuse .valueError
  | f => viaCodec c (.meth c.otype.cls c.entry.mop f) (cr c.otype c.entry f)

/-! ### the form of a path argument

The property speaks of "the source or target kind (path, …)" and of "each supported format": a *path* can name its
format a second time, by its suffix.  An explicit format always wins; the suffix only matters when no format is given.
This dimension applies to path sources / targets only. -/

inductive PathForm
  /-- explicit format, the path carries the suffix of that format -/
  | explicitMatching
  /-- explicit format, the path has no suffix -/
  | explicitNoSuffix
  /-- explicit format, the path carries the suffix of ANOTHER supported format -/
  | explicitOtherSuffix
  /-- explicit format, the path carries a suffix that names no supported format -/
  | explicitUnsupportedSuffix
  /-- no format given: it is deduced from the (matching) suffix -/
  | deduced
  /-- no format given and the path AS GIVEN carries the matching suffix, but it is a symbolic link to a file whose own
  name carries another suffix (the deduction is a function of the path as given, not of what it points to) -/
  | deducedLink
  deriving DecidableEq, Repr

def PathForm.all : List PathForm :=
  [.explicitMatching, .explicitNoSuffix, .explicitOtherSuffix, .explicitUnsupportedSuffix, .deduced, .deducedLink]

def PathForm.idx : PathForm → Nat
  | .explicitMatching => 0 | .explicitNoSuffix => 1 | .explicitOtherSuffix => 2
  | .explicitUnsupportedSuffix => 3 | .deduced => 4 | .deducedLink => 5

/-- one cell of the configuration matrix: 6 × 4 × 3 × 3 × 2 × 6 = 2592 -/
structure Cell extends Config where
  form : PathForm
  deriving DecidableEq, Repr

def allCells : List Cell := allConfigs.flatMap fun b => PathForm.all.map fun p => ⟨b, p⟩

/-- row of a cell in the generated table -/
def Cell.idx (c : Cell) : Nat := c.toConfig.idx * 6 + c.form.idx

/-- the path form is a dimension of path sources / targets only; elsewhere only the first value is a cell -/
def formApplicable (c : Cell) : Bool := c.form == .explicitMatching || c.kind == .path

def applicable (c : Cell) : Bool := applicableCfg c.toConfig && formApplicable c

/-- What the property demands in every cell of the matrix: the form of the path changes NOTHING — an explicit
format wins over any suffix, a missing format is the one the suffix names. -/
def spec (cr : ClassRaises) (c : Cell) : Action :=
  if formApplicable c then specCfg cr c.toConfig else Action.na

/-! ### canonical text form (driver) -/

def Entry.txt : Entry → String
  | .load => "load" | .loads => "loads" | .loadAll => "loadAll" | .loadsAll => "loadsAll" | .dump => "dump" | .dumps => "dumps"
def Fmt.txt : Fmt → String
  | .xyz => "xyz" | .mol2 => "mol2" | .cdxml => "cdxml" | .unsupported => "unsupported"
def Kind.txt : Kind → String
  | .path => "path" | .stream => "stream" | .str => "str"
def OType.txt : OType → String
  | .molecule => "molecule" | .ensemble => "ensemble" | .structure => "structure"
def NameArg.txt : NameArg → String
  | .given => "given" | .notGiven => "notGiven"
def PathForm.txt : PathForm → String
  | .explicitMatching => "explicitMatching" | .explicitNoSuffix => "explicitNoSuffix"
  | .explicitOtherSuffix => "explicitOtherSuffix" | .explicitUnsupportedSuffix => "explicitUnsupportedSuffix"
  | .deduced => "deduced" | .deducedLink => "deducedLink"
def Cls.txt : Cls → String
  | .molecule => "molecule" | .ensemble => "ensemble" | .structure => "structure" | .cdxmlFile => "cdxmlFile" | .other => "other"
def MOp.txt : MOp → String
  | .load => "load" | .loads => "loads" | .loadAll => "loadAll" | .loadsAll => "loadsAll" | .dump => "dump"
  | .dumps => "dumps" | .parseFragment => "parseFragment" | .getitem => "getitem"
def Reach.txt : Reach → String
  | .none => "none" | .many => "many"
  | .meth on op codec => s!"meth:{on.txt}:{op.txt}:{codec.txt}"
def Exc.txt : Exc → String
  | .valueError => "valueError" | .notImplemented => "notImplemented" | .typeError => "typeError"
  | .unboundLocal => "unboundLocal" | .keyError => "keyError" | .attributeError => "attributeError"
  | .osError => "osError" | .stopIteration => "stopIteration" | .other => "other"
def RetKind.txt : RetKind → String
  | .obj c => s!"obj:{c.txt}" | .list c => s!"list:{c.txt}" | .none => "none" | .text => "text" | .other => "other"
def Result.txt : Result → String
  | .notCalled => "notCalled" | .returned k => s!"returned:{k.txt}" | .raised e => s!"raised:{e.txt}" | .propagated => "propagated"
def Target.txt : Target → String
  | .nothing => "nothing" | .callerStream => "callerStream" | .pathFile => "pathFile" | .returned => "returned"

def Action.txt (a : Action) : String :=
  s!"applicable={a.applicable} reached={a.reached.txt} nameFwd={a.nameFwd} argOk={a.argOk} result={a.result.txt} named={a.named} wrote={a.wrote.txt} streamOk={a.streamOk}"

def Entry.parse? (s : String) : Option Entry := Entry.all.find? (·.txt == s)
def Fmt.parse? (s : String) : Option Fmt := Fmt.all.find? (·.txt == s)
def Kind.parse? (s : String) : Option Kind := Kind.all.find? (·.txt == s)
def OType.parse? (s : String) : Option OType := OType.all.find? (·.txt == s)
def NameArg.parse? (s : String) : Option NameArg := NameArg.all.find? (·.txt == s)
def PathForm.parse? (s : String) : Option PathForm := PathForm.all.find? (·.txt == s)

end Molli.Model.Dispatch
