/-
Model of concurrent `reading()` / `writing()` sessions of `molli/storage/backends.py` over one library
(C04): a labelled transition system over sessions that run *programs* of atomic actions, scheduled in
any interleaving, under an ideal reader–writer lock.

The control structure of a session — which steps still run after an exception at which step — is not
hand-entered: it is a `Skeleton`, generated on every run from the real context managers by fault
injection (`Molli.Gen.Sessions`).  A skeleton trace is expanded into a program of actions
(`program`); the theorems of `Props.C04` hold for every skeleton whose traces are `goodTrace`
(decidable; re-established for the generated skeleton by `decide` on every run).

Modelled: the session bookkeeping and exception paths, record-granular writes (a write is two actions
`writeBegin`/`writeEnd` with a torn tail in between), what a reader observes.
Assumed (A-lock): `fasteners.InterProcessReaderWriterLock` is an ideal reader–writer lock between
processes.  Threads inside one process and nested sessions on one path are outside the property.
Core Lean only.
-/
import Molli.Model.Ukv
namespace Molli.Model.Sessions
open Molli.Model.Ukv

/-! ### the control skeleton of the two context managers -/

inductive Kind | reading | writing
deriving DecidableEq, Repr

/-- The steps of `reading()` / `writing()`. -/
inductive Step | acquire | begin | update | body | flush | end_ | release
deriving DecidableEq, Repr

/-- Where an exception is raised. -/
inductive Fault | none | atBegin | atUpdate | atBody | atFlush | atEnd | atBodyBase   -- atBodyBase: the body is left by a BaseException that is not an Exception (KeyboardInterrupt, SystemExit, GeneratorExit)
deriving DecidableEq, Repr

/-- `trace k f` = the steps that were entered, in order, when a session of kind `k` meets fault `f`
(the step that raises is listed: it was entered). -/
structure Skeleton where
  trace : Kind → Fault → List Step

def allKinds : List Kind := [.reading, .writing]
def allFaults : List Fault := [.none, .atBegin, .atUpdate, .atBody, .atFlush, .atEnd, .atBodyBase]

/-- First step is `acquire`, last step is `release`, no lock operation in between. -/
def goodTrace (tr : List Step) : Bool :=
  match tr with
  | [] => false
  | s :: rest =>
    s == .acquire && rest.getLast? == some .release &&
    rest.dropLast.all (fun x => x != .acquire && x != .release)

/-- the session closes what it opened: `end_` is entered whenever `begin` was -/
def closesFile (tr : List Step) : Bool := !tr.contains .begin || tr.contains .end_

/-- position of the first occurrence -/
def idxOf (tr : List Step) (s : Step) : Nat := tr.findIdx (· == s)

/-- in a fault-free session: begin, then update_keys, then the body, then (writing) flush, then end -/
def orderedNoFault (k : Kind) (tr : List Step) : Bool :=
  tr.contains .begin && tr.contains .update && tr.contains .body && tr.contains .end_ &&
  idxOf tr .begin < idxOf tr .update && idxOf tr .update < idxOf tr .body &&
  idxOf tr .body < idxOf tr .end_ &&
  (k == .reading || (tr.contains .flush && idxOf tr .body < idxOf tr .flush && idxOf tr .flush < idxOf tr .end_))

/-- whatever happens in a writing session after the body was entered, the queue is flushed before the end -/
def flushesAfterBody (tr : List Step) : Bool :=
  !tr.contains .body || (tr.contains .flush && idxOf tr .body < idxOf tr .flush)

def Skeleton.wellBracketed (sk : Skeleton) : Bool :=
  allKinds.all fun k => allFaults.all fun f => goodTrace (sk.trace k f)

def Skeleton.alwaysCloses (sk : Skeleton) : Bool :=
  allKinds.all fun k => allFaults.all fun f => closesFile (sk.trace k f)

def Skeleton.ordered (sk : Skeleton) : Bool :=
  allKinds.all fun k => orderedNoFault k (sk.trace k .none)

def Skeleton.writerFlushes (sk : Skeleton) : Bool :=
  [Fault.none, .atBody, .atBodyBase].all fun f => flushesAfterBody (sk.trace .writing f)

/-- does the trace of a session with fault `f` reach a flush only with the file open?  (`begin` opens unless the
fault is `atBegin`; `end_` closes unless the fault is `atEnd`; a reading session writes nothing) -/
def opensFirstT (k : Kind) (f : Fault) : Bool → List Step → Bool
  | _, [] => true
  | o, .begin :: t => opensFirstT k f (if f == .atBegin then o else true) t
  | o, .end_ :: t => opensFirstT k f (if f == .atEnd then o else false) t
  | o, .flush :: t => (o || k == .reading) && opensFirstT k f o t
  | o, _ :: t => opensFirstT k f o t

/-- every flush of a writing session happens on a file that the session itself opened before -/
def Skeleton.opensBeforeWrite (sk : Skeleton) : Bool :=
  allKinds.all fun k => allFaults.all fun f => opensFirstT k f false (sk.trace k f)

/-! ### programs of atomic actions -/

inductive Act
  | acquire (w : Bool)
  | release
  | openFile
  | closeFile
  | updateKeys
  | enqueue (kv : KV)       -- body of a writing session: one put
  | readAll                 -- body of a reading session: observe the library
  | writeBegin              -- flush: start writing the head of the queue (file has a torn tail)
  | writeEnd                -- flush: the record is complete
deriving DecidableEq, Repr

def Act.isLock : Act → Bool
  | .acquire _ => true
  | .release => true
  | _ => false

/-- How many of the `puts` the body manages to enqueue, and how many queued records the flush writes,
under a given fault (an exception in the body after `cut` puts; an exception in the flush before the
`cut`-th write). -/
structure Plan where
  kind : Kind
  fault : Fault
  puts : List KV
  cut : Nat

def expandStep (p : Plan) : Step → List Act
  | .acquire => [.acquire (p.kind == .writing)]
  | .release => [.release]
  | .begin => if p.fault == .atBegin then [] else [.openFile]
  | .end_ => if p.fault == .atEnd then [] else [.closeFile]
  | .update => if p.fault == .atUpdate then [] else [.updateKeys]
  | .body =>
    match p.kind with
    | .reading => if p.fault == .atBody || p.fault == .atBodyBase then [] else [.readAll]
    | .writing =>
      let ps := if p.fault == .atBody || p.fault == .atBodyBase then p.puts.take p.cut else p.puts
      ps.map .enqueue
  | .flush =>
    if p.kind == .reading then [] else
    let n := if p.fault == .atBody || p.fault == .atBodyBase then min p.cut p.puts.length else p.puts.length
    let m := if p.fault == .atFlush then min p.cut n else n
    (List.replicate m [Act.writeBegin, Act.writeEnd]).flatten

def program (sk : Skeleton) (p : Plan) : List Act := (sk.trace p.kind p.fault).flatMap (expandStep p)

/-! ### the transition system -/

structure Sess where
  prog : List Act            -- what is left to run
  writer : Bool
  inCS : Bool                -- holds the lock
  queue : List KV
  enq : List KV              -- ghost: everything it ever enqueued
  written : List KV          -- ghost: everything it wrote completely
  seen : List (List KV)      -- what its reads observed
  sawTorn : Bool             -- ghost: a read happened while the file had a torn tail
  fileOpen : Bool
deriving Repr

structure Sys where
  file : List KV             -- complete records in the library, in file order
  torn : Bool                -- a record is being written (torn tail)
  n : Nat                    -- number of sessions
  sess : Nat → Sess

def newSess (prog : List Act) : Sess :=
  { prog := prog, writer := false, inCS := false, queue := [], enq := [], written := [], seen := [],
    sawTorn := false, fileOpen := false }

def anyInCS (s : Sys) (except : Nat) : Bool :=
  (List.range s.n).any fun j => j != except && (s.sess j).inCS

def writerInCS (s : Sys) (except : Nat) : Bool :=
  (List.range s.n).any fun j => j != except && (s.sess j).inCS && (s.sess j).writer

/-- Is the next action of session `i` enabled?  Only `acquire` can block (ideal RW lock). -/
def enabled (s : Sys) (i : Nat) : Bool :=
  match (s.sess i).prog with
  | [] => false
  | .acquire true :: _ => !anyInCS s i
  | .acquire false :: _ => !writerInCS s i
  | _ => true

def setSess (s : Sys) (i : Nat) (x : Sess) : Sys :=
  { s with sess := fun j => if j = i then x else s.sess j }

/-- One scheduling decision: session `i` runs its next action if it is enabled (else nothing happens). -/
def tick (s : Sys) (i : Nat) : Sys :=
  if i < s.n ∧ enabled s i then
    let x := s.sess i
    match x.prog with
    | [] => s
    | a :: rest =>
      let x := { x with prog := rest }
      match a with
      | .acquire w => setSess s i { x with inCS := true, writer := w }
      | .release => setSess s i { x with inCS := false }
      | .openFile => setSess s i { x with fileOpen := true }
      | .closeFile => setSess s i { x with fileOpen := false }
      | .updateKeys => setSess s i x
      | .enqueue kv => setSess s i { x with queue := x.queue ++ [kv], enq := x.enq ++ [kv] }
      | .readAll => setSess s i { x with seen := x.seen ++ [s.file], sawTorn := x.sawTorn || s.torn }
      | .writeBegin => setSess { s with torn := true } i x
      | .writeEnd =>
        match x.queue with
        | [] => setSess { s with torn := false } i x
        | kv :: q => setSess { s with file := s.file ++ [kv], torn := false } i
                        { x with queue := q, written := x.written ++ [kv] }
  else s

def runSched (s : Sys) (sched : List Nat) : Sys := sched.foldl tick s

def initSys (file : List KV) (progs : List (List Act)) : Sys :=
  { file := file, torn := false, n := progs.length,
    sess := fun j => newSess (progs.getD j []) }

/-! ### processes that are killed inside a session

A process may die at any point (SIGKILL, power loss of one node, OOM): its session simply stops.  The kernel drops
its lock; whatever it had queued is gone; if it was in the middle of writing a record the library is left with a torn
tail behind its last complete record.  By C03 (`crash_atomic`, `crash_stale_reopen`) readers do not see that tail and
the next session that opens the file for appending cuts it off before it writes. -/

/-- `opensFirst o prog`: running `prog` from a state in which the session's file is open iff `o`, every
`writeBegin`/`writeEnd` happens while the file is open. -/
def opensFirst : Bool → List Act → Bool
  | _, [] => true
  | _, .openFile :: t => opensFirst true t
  | _, .closeFile :: t => opensFirst false t
  | o, .writeBegin :: t => o && opensFirst o t
  | o, .writeEnd :: t => o && opensFirst o t
  | o, _ :: t => opensFirst o t

structure KSys where
  s : Sys
  deadTail : Bool            -- a killed writer left a torn record behind the last complete record

inductive Ev
  | run (i : Nat)            -- session i takes its next step if it is enabled
  | kill (i : Nat)           -- the process running session i dies
  | tear (i : Nat)           -- a write of session i failed in the middle of a record (I/O error, full device): the
                             -- record is abandoned, a torn tail stays behind; the session goes on with its cleanup
deriving Repr

def midWrite (x : Sess) : Bool :=
  match x.prog with
  | .writeEnd :: _ => true
  | _ => false

/-- a dead session: nothing left to run, no lock (the kernel released it), file descriptor gone; the ghost fields keep
what it had put and written so far -/
def killSess (x : Sess) : Sess := { x with prog := [], inCS := false, fileOpen := false }

/-- the next step of session `i` is a writer opening the library (mode 'a': a torn tail is cut off) -/
def opensForAppend (s : Sys) (i : Nat) : Bool :=
  decide (i < s.n) && enabled s i && (s.sess i).writer &&
    (match (s.sess i).prog with | .openFile :: _ => true | _ => false)

/-- may a failed write of session `i` leave a torn tail now?  It is a writer inside its critical section that will
not write again before it (or somebody else) has opened the library anew — e.g. the flush at session exit raised and
what is left of the program is `closeFile`, `release`. -/
def canTear (s : Sys) (i : Nat) : Bool :=
  decide (i < s.n) && (s.sess i).inCS && (s.sess i).writer && opensFirst false (s.sess i).prog

def ktick (k : KSys) : Ev → KSys
  | .run i => { s := tick k.s i, deadTail := if opensForAppend k.s i then false else k.deadTail }
  | .kill i =>
    if i < k.s.n ∧ (k.s.sess i).prog ≠ [] then
      let x := k.s.sess i
      { s := setSess { k.s with file := k.s.file, torn := if midWrite x then false else k.s.torn } i (killSess x),
        deadTail := k.deadTail || midWrite x }
    else k
  | .tear i => if canTear k.s i then { k with deadTail := true } else k

def runEvents (k : KSys) (evs : List Ev) : KSys := evs.foldl ktick k

def initKSys (file : List KV) (progs : List (List Act)) : KSys := { s := initSys file progs, deadTail := false }

end Molli.Model.Sessions
