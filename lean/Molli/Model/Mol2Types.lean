/-
Atom-type and bond-type vocabulary of the mol2 codec (C07).

The *emit* side (`Atom.get_mol2_type`, `Bond.get_mol2_type`) has a finite domain
(element × atom type × geometry, resp. bond type), so it is not modelled by hand at all: the table
generated from the live classes (`Molli.Gen.Mol2Types`) IS the function.  A `TypeTable` holds that
table in a compact form the kernel can evaluate quickly:

* a token is `(element, shape)`; a shape is `pre ++ <symbol of the element> ++ post`
  (e.g. `"" / ".pl3"`, `"Du." / ""`) or a literal;
* `rows` are the distinct rows (one byte per (atom type, geometry) cell = shape index) of the emit
  table and `rowOf` says which row an element uses;
* `acceptBlob` records what `Atom().set_mol2_type(token)` did on a default atom for every emitted
  token: 4 bytes `status, element, atom type, geometry` (status 0 = never emitted, 1 = accepted,
  2 = raised).

The *accept* side takes arbitrary strings, so `setMol2Type` below is a hand-written model of
`Atom.set_mol2_type`; the generated obligation `set_model_agrees` ties it to the recorded behaviour
on every token molli can emit, the differential run of C07/C10 ties it on foreign and damaged tokens.

The Boolean functions at the end are the obligations evaluated by `decide +kernel` in the generated
module; `Molli.Lemmas.Mol2Types` lifts them to `∀`-statements.
Core Lean only.
-/
import Molli.Model.Text
namespace Molli.Model.Mol2Types
open Molli.Model.Text

/-- strings inside the tables are lists of code points (fast to compare in the kernel) -/
abbrev Codes := List Nat

def codesOf (s : Str) : Codes := s.map Char.toNat
def strOf (c : Codes) : Str := c.map Char.ofNat

/-- byte `i` of a little-endian blob -/
def byteAt (b i : Nat) : Nat := Nat.mod (Nat.div b (Nat.pow 256 i)) 256

/-- unpack a little-endian blob of at most `fuel` non-zero bytes into a code list -/
def unpack : Nat → Nat → Codes
  | 0, _ => []
  | fuel + 1, b => if Nat.beq b 0 then [] else Nat.mod b 256 :: unpack fuel (Nat.div b 256)

/-- typing state of an atom: indices into `list(Element)`, `list(AtomType)`, `list(AtomGeom)` -/
structure St where
  e : Nat
  t : Nat
  g : Nat
deriving DecidableEq, Repr

structure Shape where
  useSym : Bool
  pre : Nat      -- packed
  post : Nat     -- packed
deriving Repr

/-- positions of the enum members the code of `set_mol2_type` names -/
structure Special where
  eC : Nat
  eN : Nat
  eO : Nat
  eS : Nat
  eUnknown : Nat
  tDummy : Nat
  tSp : Nat
  tSp2 : Nat
  tSp3 : Nat
  tAromatic : Nat
  tNAmmonium : Nat
  tNAmide : Nat
  tCGuanidinium : Nat
  tOCarboxylate : Nat
  tOSulfoxide : Nat
  tOSulfone : Nat
  gR1 : Nat
  gR3Planar : Nat
  gR3Pyramidal : Nat
  gR4Tetrahedral : Nat
  gR6Octahedral : Nat
deriving Repr

structure TypeTable where
  nE : Nat
  nT : Nat
  nG : Nat
  nShape : Nat
  /-- member names of `Element` (aliases included), packed, with the index of the member -/
  names : List (Nat × Nat)
  /-- `Element.symbol` per element index, packed -/
  syms : List Nat
  shapes : List Shape
  rowOf : Nat
  rows : List Nat
  acceptBlob : Nat
  /-- state of `Atom()` -/
  dflt : St
  sp : Special

namespace TypeTable
variable (tt : TypeTable)

def sym (e : Nat) : Codes := unpack 16 (tt.syms.getD e 0)

def row (e : Nat) : Nat := tt.rows.getD (byteAt tt.rowOf e) 0

/-- shape index of `Atom(e, t, g).get_mol2_type()` -/
def emitShape (s : St) : Nat := byteAt (tt.row s.e) (Nat.add (Nat.mul s.t tt.nG) s.g)

def shape (sh : Nat) : Shape := tt.shapes.getD sh ⟨false, 0, 0⟩

/-- the text of token `(e, sh)` -/
def tokenCodes (e sh : Nat) : Codes :=
  let s := tt.shape sh
  if s.useSym then unpack 16 s.pre ++ tt.sym e ++ unpack 16 s.post else unpack 16 s.pre

def emitCodes (s : St) : Codes := tt.tokenCodes s.e (tt.emitShape s)

/-- `get_mol2_type()` as text -/
def emitStr (s : St) : Str := strOf (tt.emitCodes s)

def acceptOff (e sh : Nat) : Nat := Nat.mul 4 (Nat.add (Nat.mul e tt.nShape) sh)

def acceptStatus (e sh : Nat) : Nat := byteAt tt.acceptBlob (tt.acceptOff e sh)

/-- recorded result of `Atom().set_mol2_type(token (e, sh))` -/
def accept (e sh : Nat) : Option St :=
  let o := tt.acceptOff e sh
  if Nat.beq (byteAt tt.acceptBlob o) 1 then
    some ⟨byteAt tt.acceptBlob (o + 1), byteAt tt.acceptBlob (o + 2), byteAt tt.acceptBlob (o + 3)⟩
  else none

/-! #### hand-written model of `Atom.set_mol2_type` -/

/-- little-endian packing (inverse of `unpack` on code lists with entries in 1..255) -/
def pack : Codes → Nat
  | [] => 0
  | c :: cs => Nat.add c (Nat.mul 256 (pack cs))

def packable (c : Codes) : Bool := c.all fun x => Nat.blt 0 x && Nat.blt x 256

def lookupPacked (k : Nat) : List (Nat × Nat) → Option Nat
  | [] => none
  | (n, i) :: rest => if Nat.beq n k then some i else lookupPacked k rest

/-- look a string up in a table of packed names -/
def lookupName (c : Codes) (tab : List (Nat × Nat)) : Option Nat :=
  if packable c then lookupPacked (pack c) tab else none

def capitalizeCodes : Codes → Codes
  | [] => []
  | c :: cs =>
    (if Nat.ble 97 c && Nat.ble c 122 then c - 32 else c) ::
      cs.map (fun d => if Nat.ble 65 d && Nat.ble d 90 then d + 32 else d)

/-- `Element.get(str)`: `Element[s.capitalize()]` -/
def elementGet (c : Codes) : Option Nat := lookupName (capitalizeCodes c) tt.names

/-- `name in Element._member_names_` (no capitalisation) -/
def isMemberName (c : Codes) : Bool := (lookupName c tt.names).isSome

/-- split at the first '.' -/
def splitDot : Codes → Codes × Option Codes
  | [] => ([], none)
  | c :: cs => if Nat.beq c 46 then ([], some cs) else
      let (a, b) := splitDot cs
      (c :: a, b)

/-- packed form used to compare a string with a literal: `0` for the empty and for unpackable strings -/
def key (c : Codes) : Nat := if packable c then pack c else 0

/-- `Atom.set_mol2_type(m2t)` on an atom in state `s0`; `none` = an exception was raised.
Literals are packed little-endian: "Du" = 0x7544, "ar" = 0x7261, "am" = 0x6d61, "cat" = 0x746163,
"pl3" = 0x336c70, "co2" = 0x326f63, "O" = 0x4f, "O2" = 0x324f, "oh" = 0x686f, "th" = 0x6874. -/
def setMol2Type (s0 : St) (m2t : Codes) : Option St :=
  let (elt, typ) := splitDot m2t
  let isDu := Nat.beq (key elt) 0x7544
  -- if mol2_elt != "Du": self.element = mol2_elt
  let s1 : Option St := if isDu then some s0 else (tt.elementGet elt).map (fun e => { s0 with e := e })
  match s1 with
  | none => none
  | some s =>
    let sp := tt.sp
    let fallthrough : Option St :=
      if isDu then
        let e := match typ with
          | some t => (match lookupName t tt.names with | some i => i | none => sp.eUnknown)
          | none => sp.eUnknown
        some { s with e := e, t := sp.tDummy }
      else if tt.isMemberName elt then some s
      else none
    match typ with
    | none => fallthrough
    | some t =>
      let k := key t
      if Nat.beq k 0x34 then
        (if Nat.beq s.e sp.eN then some { s with t := sp.tNAmmonium, g := sp.gR4Tetrahedral } else none)
      else if Nat.beq k 0x33 then some { s with t := sp.tSp3 }
      else if Nat.beq k 0x32 then some { s with t := sp.tSp2 }
      else if Nat.beq k 0x31 then some { s with t := sp.tSp }
      else if Nat.beq k 0x7261 then some { s with t := sp.tAromatic }
      else if Nat.beq k 0x6d61 then
        (if Nat.beq s.e sp.eN then some { s with t := sp.tNAmide, g := sp.gR3Planar } else some s)
      else if Nat.beq k 0x746163 && Nat.beq s.e sp.eC then
        some { s with t := sp.tCGuanidinium, g := sp.gR3Planar }
      else if Nat.beq k 0x336c70 then some { s with g := sp.gR3Planar }
      else if Nat.beq k 0x326f63 && Nat.beq s.e sp.eO then some { s with t := sp.tOCarboxylate, g := sp.gR1 }
      else if Nat.beq k 0x4f && Nat.beq s.e sp.eS then some { s with t := sp.tOSulfoxide, g := sp.gR3Pyramidal }
      else if Nat.beq k 0x324f && Nat.beq s.e sp.eS then some { s with t := sp.tOSulfone, g := sp.gR4Tetrahedral }
      else if Nat.beq k 0x686f then some { s with g := sp.gR6Octahedral }
      else if Nat.beq k 0x6874 then some { s with g := sp.gR4Tetrahedral }
      else fallthrough

/-- `set_mol2_type` on a fresh atom, on text -/
def acceptStr (s : Str) : Option St := tt.setMol2Type tt.dflt (codesOf s)

/-! #### obligations (Boolean, evaluated in the kernel) -/

def allBelow : Nat → (Nat → Bool) → Bool
  | 0, _ => true
  | n + 1, p => p n && allBelow n p

/-- set of byte values among the first `n` bytes of a blob, as a bit mask -/
def byteSet : Nat → Nat → Nat
  | 0, _ => 0
  | n + 1, b => Nat.lor (Nat.shiftLeft 1 (Nat.mod b 256)) (byteSet n (Nat.div b 256))

/-- shapes that occur in distinct row `r` -/
def rowSet (r : Nat) : Nat := byteSet (Nat.mul tt.nT tt.nG) (tt.rows.getD r 0)

/-- shapes that occur in the row of element `e` -/
def shapeSet (e : Nat) : Nat := tt.rowSet (byteAt tt.rowOf e)

def emitted (e sh : Nat) : Bool := Nat.testBit (tt.shapeSet e) sh

/-- `p e sh` for every token `(e, sh)` some atom state of element `e` emits
(organised by distinct row so that the kernel computes each row's shape set once) -/
def allEmitted (p : Nat → Nat → Bool) : Bool :=
  allBelow tt.nE (fun e => Nat.blt (byteAt tt.rowOf e) tt.rows.length) &&
  allBelow tt.rows.length fun r =>
    Nat.blt (tt.rowSet r) (Nat.pow 2 tt.nShape) &&
    allBelow tt.nE fun e =>
      !Nat.beq (byteAt tt.rowOf e) r ||
      allBelow tt.nShape fun sh => !Nat.testBit (tt.rowSet r) sh || p e sh

def stInRange (s : St) : Bool := Nat.blt s.e tt.nE && Nat.blt s.t tt.nT && Nat.blt s.g tt.nG

/-- every emitted token is accepted by `set_mol2_type`, and the result is a valid state -/
def everyAccepted : Bool :=
  tt.allEmitted fun e sh => match tt.accept e sh with
    | some s => tt.stInRange s
    | none => false

/-- reading an emitted token back gives the element that emitted it -/
def elementPreserved : Bool :=
  tt.allEmitted fun e sh => match tt.accept e sh with
    | some s => Nat.beq s.e e
    | none => false

/-- token after one more write/read cycle -/
def cycle (e sh : Nat) : Option (Nat × Nat) :=
  match tt.accept e sh with
  | some s => some (s.e, tt.emitShape s)
  | none => none

/-- `emit (acc (emit (acc tok))) = emit (acc tok)` for every emitted token `tok` -/
def secondCycleFixed : Bool :=
  tt.allEmitted fun e sh => match tt.cycle e sh with
    | some (e1, sh1) => (match tt.cycle e1 sh1 with
        | some (e2, sh2) => Nat.beq e2 e1 && Nat.beq sh2 sh1
        | none => false)
    | none => false

/-- the hand-written `setMol2Type` reproduces the recorded behaviour on every emitted token -/
def setModelAgrees : Bool :=
  tt.allEmitted fun e sh =>
    match tt.setMol2Type tt.dflt (tt.tokenCodes e sh), tt.accept e sh with
    | some a, some b => Nat.beq a.e b.e && Nat.beq a.t b.t && Nat.beq a.g b.g
    | none, none => Nat.beq (tt.acceptStatus e sh) 2
    | _, _ => false

/-- printable ASCII without the space: such a string is a token of the text layer -/
def codesTok (c : Codes) : Bool := !c.isEmpty && c.all fun x => Nat.blt 32 x && Nat.blt x 127

/-- every element symbol is a token and none is the dummy marker `*` of the xyz reader -/
def symsOk : Bool :=
  allBelow tt.nE fun e => codesTok (tt.sym e) && !(Nat.beq (pack (tt.sym e)) 42)

/-- every emitted atom-type token is a (non-empty, whitespace-free) token -/
def tokensOk : Bool := tt.allEmitted fun e sh => codesTok (tt.tokenCodes e sh)

/-- `Element.get(e.symbol)` is `e`, for every element -/
def symbolRoundtrip : Bool :=
  allBelow tt.nE fun e => match tt.elementGet (tt.sym e) with
    | some e' => Nat.beq e' e
    | none => false

/-- the first cycle is *not* a fixed point for state `s` (recorded, not a finding) -/
def firstCycleChanges (s : St) : Bool :=
  let sh := tt.emitShape s
  match tt.cycle s.e sh with
  | some (e1, sh1) => !(Nat.beq e1 s.e && Nat.beq sh1 sh)
  | none => false

end TypeTable

/-! ### bonds -/

structure BondSpecial where
  bUnknown : Nat
  bSingle : Nat
  bDouble : Nat
  bTriple : Nat
  bAromatic : Nat
  bAmide : Nat
  bDummy : Nat
  bNotConnected : Nat
deriving Repr

structure BondTable where
  nB : Nat
  /-- keys of `MOL2_BOND_TYPE_MAP` (packed) with the index of the `BondType` they map to -/
  map : List (Nat × Nat)
  /-- `Bond(btype=b).get_mol2_type()` (packed) per bond-type index -/
  emit : List Nat
  sp : BondSpecial

namespace BondTable
variable (bt : BondTable)

def emitCodes (b : Nat) : Codes := unpack 16 (bt.emit.getD b 0)

/-- `Bond.set_mol2_type`: `MOL2_BOND_TYPE_MAP[tok]`; `none` = `KeyError` -/
def acceptCodes (c : Codes) : Option Nat := TypeTable.lookupName c bt.map

def emitStr (b : Nat) : Str := strOf (bt.emitCodes b)
def acceptStr (s : Str) : Option Nat := bt.acceptCodes (codesOf s)

/-- every bond type is written as a token the reader accepts -/
def tokenAccepted : Bool :=
  TypeTable.allBelow bt.nB fun b => match bt.acceptCodes (bt.emitCodes b) with
    | some b' => Nat.blt b' bt.nB
    | none => false

/-- every bond type is written as a (non-empty, whitespace-free) token -/
def tokensOk : Bool := TypeTable.allBelow bt.nB fun b => TypeTable.codesTok (bt.emitCodes b)

/-- no proper non-empty prefix of a written bond token is itself a token the reader accepts
(so a text cut inside the type token of its last bond line is rejected) -/
def prefixFree : Bool :=
  TypeTable.allBelow bt.nB fun b =>
    TypeTable.allBelow (bt.emitCodes b).length fun n =>
      Nat.beq n 0 || (bt.acceptCodes ((bt.emitCodes b).take n)).isNone

/-- the bond types the Tripos mol2 format can express, with their standard tokens -/
def expressible : List (Codes × Nat) :=
  [([49], bt.sp.bSingle), ([50], bt.sp.bDouble), ([51], bt.sp.bTriple), ([97, 109], bt.sp.bAmide),
   ([97, 114], bt.sp.bAromatic), ([100, 117], bt.sp.bDummy), ([117, 110], bt.sp.bUnknown),
   ([110, 99], bt.sp.bNotConnected)]

/-- each expressible bond type is written with its standard token and that token reads back as it -/
def expressiblePreserved : Bool :=
  bt.expressible.all fun (tok, b) =>
    bt.emitCodes b == tok && bt.acceptCodes tok == some b

/-- a second cycle changes nothing: `emit (acc (emit b))` is `emit b` -/
def bondCycleFixed : Bool :=
  TypeTable.allBelow bt.nB fun b => match bt.acceptCodes (bt.emitCodes b) with
    | some b' => bt.emitCodes b' == bt.emitCodes b
    | none => false

end BondTable

end Molli.Model.Mol2Types
