/-
Text layer shared by the mol2 / xyz reader and writer models (C07, C08, C10).

Strings are modelled as `List Char` (`Str`) so that every theorem is plain list reasoning; the
driver converts at the boundary.  What is modelled of Python:

* `str.split()` / `str.split(maxsplit=k)` / `str.strip()` on ASCII whitespace
  (space, \t \n \v \f \r and the separators \x1c..\x1f, which `str.isspace` accepts);
* iteration over a `StringIO` (lines end at '\n'; the terminator is dropped here because every
  consumer strips or splits the line);
* `int(tok)` (decimal, optional sign, single underscores between digits, surrounding whitespace);
* `float(tok)` (decimal mantissa with optional point and exponent, `inf`/`infinity`/`nan`);
* format specs `{s:<w}` / `{s:>w}` (padding with spaces).

Core Lean only.
-/
namespace Molli.Model.Text

abbrev Str := List Char

def isWs (c : Char) : Bool :=
  c = ' ' || c = '\t' || c = '\n' || c = '\r' || c = '\x0b' || c = '\x0c' ||
  c = '\x1c' || c = '\x1d' || c = '\x1e' || c = '\x1f'

/-- a token: non-empty and free of whitespace -/
def Tok (s : Str) : Prop := s ≠ [] ∧ ∀ c ∈ s, isWs c = false

instance (s : Str) : Decidable (Tok s) := by unfold Tok; exact inferInstance

/-- Python `str.split()`: `cur` is the token being read (reversed) -/
def splitWs : Str → Str → List Str
  | [], [] => []
  | [], cur => [cur.reverse]
  | c :: cs, cur =>
    if isWs c then (if cur = [] then splitWs cs [] else cur.reverse :: splitWs cs [])
    else splitWs cs (c :: cur)

def pySplit (s : Str) : List Str := splitWs s []

/-- Python `str.split(maxsplit=k)`: at most `k` tokens are split off, the rest of the line (leading
whitespace removed, trailing kept) is the last part. -/
def splitMaxAux : Nat → Str → Str → List Str
  | _, [], [] => []
  | _, [], cur => [cur.reverse]
  | k, c :: cs, cur =>
    if isWs c then (if cur = [] then splitMaxAux k cs [] else cur.reverse :: splitMaxAux k cs [])
    else if cur = [] then
      (match k with
       | 0 => [c :: cs]
       | k + 1 => splitMaxAux k cs [c])
    else splitMaxAux k cs (c :: cur)

def pySplitMax (k : Nat) (s : Str) : List Str := splitMaxAux k s []

def dropWsEnd (s : Str) : Str := (s.reverse.dropWhile isWs).reverse

/-- Python `str.strip()` -/
def pyStrip (s : Str) : Str := dropWsEnd (s.dropWhile isWs)

/-- lines of a text as a `StringIO` iterates them, without the terminator -/
def linesAux : Str → Str → List Str
  | [], [] => []
  | [], cur => [cur.reverse]
  | c :: cs, cur => if c = '\n' then cur.reverse :: linesAux cs [] else linesAux cs (c :: cur)

def splitLines (s : Str) : List Str := linesAux s []

/-- the text whose lines are `ls`, every line terminated by a newline -/
def joinLines : List Str → Str
  | [] => []
  | l :: ls => l ++ '\n' :: joinLines ls

def padLeft (w : Nat) (s : Str) : Str := List.replicate (w - s.length) ' ' ++ s
def padRight (w : Nat) (s : Str) : Str := s ++ List.replicate (w - s.length) ' '

/-! ### decimal digits -/

def digitChar (d : Nat) : Char := Char.ofNat (48 + d)

def isDigit (c : Char) : Bool := '0' ≤ c ∧ c ≤ '9'

def digitVal (c : Char) : Nat := c.toNat - 48

/-- little-endian digit list of a number (`0 ↦ []`) -/
def digitsRev : Nat → Nat → List Nat
  | 0, _ => []
  | fuel + 1, n => if n = 0 then [] else (n % 10) :: digitsRev fuel (n / 10)

/-- decimal representation, `0 ↦ "0"` -/
def natStr (n : Nat) : Str :=
  if n = 0 then ['0'] else ((digitsRev n n).reverse.map digitChar)

/-- value of a most-significant-first digit string (no validation) -/
def digitsVal (s : Str) : Nat := s.foldl (fun acc c => 10 * acc + digitVal c) 0

/-- Python's digit-part grammar `digit (["_"] digit)*`: returns the digits without underscores -/
def digitPart : Str → Bool → Option Str
  -- the flag says whether the previous character was a digit (an underscore is allowed only then,
  -- and must be followed by a digit)
  | [], prevDigit => if prevDigit then some [] else none
  | c :: cs, prevDigit =>
    if isDigit c then (digitPart cs true).map (c :: ·)
    else if c = '_' ∧ prevDigit then
      (match cs with
       | d :: _ => if isDigit d then digitPart cs false else none
       | [] => none)
    else none

/-- Python `int(s)` for a `str` argument, base 10 -/
def parseInt (s : Str) : Option Int :=
  let t := pyStrip s
  let (neg, body) := match t with
    | '-' :: r => (true, r)
    | '+' :: r => (false, r)
    | r => (false, r)
  match digitPart body false with
  | some ds => if ds = [] then none else
      let v : Int := digitsVal ds
      some (if neg then -v else v)
  | none => none

/-! ### numbers -/

/-- the value of a numeric token: a signed decimal `(-1)^neg · m · 10^e`, or a special value -/
inductive Num
  | fin (neg : Bool) (m : Nat) (e : Int)
  | inf (neg : Bool)
  | nan
deriving DecidableEq, Repr

def lowerAscii (c : Char) : Char := if 'A' ≤ c ∧ c ≤ 'Z' then Char.ofNat (c.toNat + 32) else c

def upperAscii (c : Char) : Char := if 'a' ≤ c ∧ c ≤ 'z' then Char.ofNat (c.toNat - 32) else c

/-- split a list at the first element satisfying `p` (which is dropped) -/
def splitAt1 (p : Char → Bool) : Str → Str × Option Str
  | [] => ([], none)
  | c :: cs => if p c then ([], some cs) else
      let (a, b) := splitAt1 p cs
      (c :: a, b)

/-- Python `float(s)` for a `str` argument (ASCII) -/
def parseFloat (s : Str) : Option Num :=
  let t := pyStrip s
  let (neg, body) := match t with
    | '-' :: r => (true, r)
    | '+' :: r => (false, r)
    | r => (false, r)
  let low := body.map lowerAscii
  if low = "inf".toList ∨ low = "infinity".toList then some (.inf neg)
  else if low = "nan".toList then some .nan
  else
    let (mant, expo) := splitAt1 (fun c => c = 'e' || c = 'E') body
    let (ip, fp) := splitAt1 (fun c => c = '.') mant
    let ipD : Option Str := if ip = [] then some [] else digitPart ip false
    let fpD : Option Str := match fp with
      | none => some []
      | some f => if f = [] then some [] else digitPart f false
    let ex : Option Int := match expo with
      | none => some 0
      | some x =>
        let (eneg, eb) := match x with
          | '-' :: r => (true, r)
          | '+' :: r => (false, r)
          | r => (false, r)
        match digitPart eb false with
        | some ds => if ds = [] then none else
            let v : Int := digitsVal ds
            some (if eneg then -v else v)
        | none => none
    match ipD, fpD, ex with
    | some i, some f, some e =>
      if i = [] ∧ f = [] then none
      else some (.fin neg (digitsVal (i ++ f)) (e - f.length))
    | _, _, _ => none

/-! ### formatting numbers -/

def pow10 (n : Nat) : Nat := 10 ^ n

/-- `format(x, '.df')` of the exact value `(-1)^neg · m · 10^e`: the integer `n` with
`n / 10^d` the value rounded half-even to `d` decimals -/
def scaledRound (d : Nat) (m : Nat) (e : Int) : Nat :=
  let s : Int := e + d
  if 0 ≤ s then m * pow10 s.toNat
  else
    let k := (-s).toNat
    let p := pow10 k
    let q := m / p
    let r := m % p
    if 2 * r > p then q + 1
    else if 2 * r = p then (if q % 2 = 0 then q else q + 1)
    else q

/-- the digits of `n` left-padded with zeros to width `w` -/
def zeroPad (w : Nat) (s : Str) : Str := List.replicate (w - s.length) '0' ++ s

/-- text of a scaled integer `n` (value `n / 10^d`) -/
def fixedStr (d : Nat) (neg : Bool) (n : Nat) : Str :=
  (if neg then ['-'] else []) ++ natStr (n / pow10 d) ++
    (if d = 0 then [] else '.' :: zeroPad d (natStr (n % pow10 d)))

def fmtFixed (d : Nat) : Num → Str
  | .fin neg m e => fixedStr d neg (scaledRound d m e)
  | .inf neg => if neg then "-inf".toList else "inf".toList
  | .nan => "nan".toList

/-- the value `fmtFixed d x` denotes -/
def roundNum (d : Nat) : Num → Num
  | .fin neg m e => .fin neg (scaledRound d m e) (-(d : Int))
  | x => x

def Num.isZero : Num → Bool
  | .fin _ m _ => m == 0
  | _ => false

/-- `c = self.atomic_charges[i] or 0.0` -/
def chargeOr0 (x : Num) : Num := if x.isZero then .fin false 0 0 else x

/-- exact value of a finite number -/
def Num.toRat : Num → Rat
  | .fin neg m e =>
    let v : Rat := if 0 ≤ e then ((m * pow10 e.toNat : Nat) : Rat) else mkRat m (pow10 (-e).toNat)
    if neg then -v else v
  | _ => 0

end Molli.Model.Text
