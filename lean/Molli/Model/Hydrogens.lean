/-
Model of `Structure.add_implicit_hydrogens` (molli/chem/structure.py), property C16 — the code after the
repairs of D31 (an atom without neighbours gets a default direction; four hydrogens use all four
tetrahedron vertices) and D32 (fallback axis when the direction is parallel to ẑ).

  selection      `atoms = [a for a in self.atoms if a.element.group in range(13, 17)]`
  count          hint popped from `attrib["__implicit_hydrogens"]`, else
                 `electrons = valence_electrons - formal_charge - abs(formal_spin)`,
                 `bonded = ceil(bonded_valence(a))`, `max(4 - abs(4 - electrons) - bonded, 0)`
  per hydrogen   `add_atom(Atom("H"), position)` then `append_bond(Bond(a, newh))`  (order 1)
  positions      `a - v·L`;  `a - (0.5736·v ± 0.8192·z)·L`;  rows 1..3 (or 0..3) of `TETRAHEDRON @ R · L + a`
                 with `L = cov_radius_1(a) + cov_radius_1(H)`.

The unit direction `v`, the unit normal `z` and the rotation `R` come out of floating-point
normalisation / SVD; they are INPUTS of the model (`Frame`), so the combinatorial theorems hold for every
frame and the geometric theorems state exactly which properties of the frame they need.
Atoms are indices; a bond carries its `Bond.order` as an exact rational.  Core Lean only.
-/
import Molli.Model.Graph
namespace Molli.Model.Hydrogens
open Molli.Model.Graph

/-! ### vectors (generic in the scalar type; instantiated at `Rat` in the driver) -/

structure V3 (α : Type) where
  x : α
  y : α
  z : α
deriving Repr, DecidableEq

/-- rows of a 3×3 matrix -/
structure M3 (α : Type) where
  r1 : V3 α
  r2 : V3 α
  r3 : V3 α
deriving Repr, DecidableEq

section vec
variable {α : Type} [Add α] [Sub α] [Mul α]

def V3.add (a b : V3 α) : V3 α := ⟨a.x + b.x, a.y + b.y, a.z + b.z⟩
def V3.sub (a b : V3 α) : V3 α := ⟨a.x - b.x, a.y - b.y, a.z - b.z⟩
def V3.smul (a : V3 α) (k : α) : V3 α := ⟨a.x * k, a.y * k, a.z * k⟩
def V3.dot (a b : V3 α) : α := a.x * b.x + a.y * b.y + a.z * b.z
def V3.norm2 (a : V3 α) : α := a.dot a
/-- row vector times matrix, numpy's `t @ R` -/
def V3.mulM (t : V3 α) (R : M3 α) : V3 α :=
  ⟨t.x * R.r1.x + t.y * R.r2.x + t.z * R.r3.x,
   t.x * R.r1.y + t.y * R.r2.y + t.z * R.r3.y,
   t.x * R.r1.z + t.y * R.r2.z + t.z * R.r3.z⟩

/-- what the floating-point part of the routine hands to the placement: unit direction towards the
neighbours, unit normal, rotation taking `TETRAHEDRON[0]` to the direction -/
structure Frame (α : Type) where
  v : V3 α
  z : V3 α
  R : M3 α

/-- the placement branches; `c`, `s` are the literals 0.5736 and 0.8192, `tet` is `TETRAHEDRON` -/
def placeH (c s : α) (tet : List (V3 α)) (a : V3 α) (L : α) (F : Frame α) : Nat → List (V3 α)
  | 0 => []
  | 1 => [a.sub (F.v.smul L)]
  | 2 => [a.sub (((F.v.smul c).add (F.z.smul s)).smul L), a.sub (((F.v.smul c).sub (F.z.smul s)).smul L)]
  | 3 => (tet.drop 1).map (fun t => ((t.mulM F.R).smul L).add a)
  | _ => tet.map (fun t => ((t.mulM F.R).smul L).add a)

end vec

/-! ### tables (regenerated from the repository: `Molli.Gen.Valence`) -/

structure Tables where
  /-- `Element.group` by atomic number (0 = None) -/
  group : Nat → Nat
  /-- `VALENCE_ELECTRONS[group]` (`none` = KeyError) -/
  ve : Nat → Option Int
  /-- `cov_radius_1` by atomic number -/
  radius : Nat → Rat
  /-- atomic number of `Atom("H")` -/
  hydrogen : Nat
  /-- the literals 0.5736, 0.8192 -/
  c2 : Rat
  s2 : Rat
  tet : List (V3 Rat)

/-! ### atoms and the count formula -/

structure HAtom where
  element : Nat
  charge : Int
  spin : Int
  /-- `atype == AtomType.CoordinationCenter` -/
  coordCentre : Bool
  /-- `attrib["__implicit_hydrogens"]` -/
  hint : Option Nat
deriving Repr, DecidableEq

def HAtom.clearHint (a : HAtom) : HAtom := { a with hint := none }

/-- `a.element.group in range(13, 17)` -/
def selected (T : Tables) (a : HAtom) : Bool :=
  decide (13 ≤ T.group a.element) && decide (T.group a.element < 17)

/-- `max(4 - abs(4 - electrons) - ceil(bonded_valence), 0)` -/
def hcountFree (electrons : Int) (bv : Rat) : Nat :=
  (4 - ((4 - electrons).natAbs : Int) - bv.ceil).toNat

/-- `a.valence_electrons - a.formal_charge - abs(a.formal_spin)` -/
def electrons (T : Tables) (a : HAtom) : Option Int :=
  (T.ve (T.group a.element)).map (fun ve => ve - a.charge - (a.spin.natAbs : Int))

/-- `hs_to_add` -/
def hcount (T : Tables) (a : HAtom) (bv : Rat) : Nat :=
  match a.hint with
  | some h => h
  | none =>
    match electrons T a with
    | some e => hcountFree e bv
    | none => 0

/-- number of hydrogens actually placed: the branches 1, 2, 3 and "all four vertices" -/
def nPlaced (h : Nat) : Nat := min h 4

/-! ### the molecule and the routine -/

structure Mol (α : Type) where
  atoms : List HAtom
  bonds : List (Bond Rat)
  coords : List (V3 α)
  /-- `atomic_charges` (`none` = the `None` that `Molecule.add_atom` stores, D07; not compared) -/
  charges : List (Option Rat)

def hyd (T : Tables) : HAtom := ⟨T.hydrogen, 0, 0, false, none⟩

/-- hydrogens placed on atom `i` of `m` -/
def kOf {α} (T : Tables) (m : Mol α) (i : Nat) : Nat :=
  match m.atoms[i]? with
  | some a => nPlaced (hcount T a (valence id m.bonds i))
  | none => 0

/-- the neighbours that orient the placement: `a.atype != AtomType.CoordinationCenter` -/
def orienting {α} (m : Mol α) (i : Nat) : List Nat :=
  (neighbors m.bonds i).filter (fun j => match m.atoms[j]? with | some b => !b.coordCentre | none => false)

def stepBonds (i n k : Nat) : List (Bond Rat) := (List.range k).map (fun t => ⟨i, n + t, 1⟩)

section routine
variable {α : Type} [Add α] [Sub α] [Mul α] [Inhabited α]

/-- one iteration of `for a in atoms:` -/
def step (T : Tables) (cast : Rat → α) (G : Nat → Frame α) (m : Mol α) (i : Nat) : Mol α :=
  let k := kOf T m i
  let el := match m.atoms[i]? with | some a => a.element | none => 0
  let L := cast (T.radius el + T.radius T.hydrogen)
  let a := m.coords.getD i ⟨default, default, default⟩
  { atoms := m.atoms.modify i HAtom.clearHint ++ List.replicate k (hyd T)
    bonds := m.bonds ++ stepBonds i m.atoms.length k
    coords := m.coords ++ placeH (cast T.c2) (cast T.s2) (T.tet.map (fun t => ⟨cast t.x, cast t.y, cast t.z⟩)) a L (G i) k
    charges := m.charges ++ List.replicate k none }

/-- the loop over an explicit atom list -/
def addHSeq (T : Tables) (cast : Rat → α) (G : Nat → Frame α) (cs : List Nat) (m : Mol α) : Mol α :=
  cs.foldl (step T cast G) m

/-- the default atom list -/
def centres (T : Tables) (m : Mol α) : List Nat :=
  (List.range m.atoms.length).filter (fun i => match m.atoms[i]? with | some a => selected T a | none => false)

/-- `add_implicit_hydrogens()` -/
def addH (T : Tables) (cast : Rat → α) (G : Nat → Frame α) (m : Mol α) : Mol α :=
  addHSeq T cast G (centres T m) m

end routine

/-- every bond ends inside the atom list -/
def Mol.WF {α} (m : Mol α) : Prop := ∀ b ∈ m.bonds, b.a1 < m.atoms.length ∧ b.a2 < m.atoms.length

end Molli.Model.Hydrogens
