/-
Executable model of `molli/storage/backends.py` (CollectionBackendBase + UkvCollectionBackend) and the
thin `Collection` wrapper, on top of the UKV world model.

A backend object owns one `UKVFile` handle object (`_ukvfile`, created at the first session and reopened
afterwards — its cached table of contents may be stale), a write queue, the `_keys` set, `_usedmem`,
`_bufsize`, `_readonly` and `_state`.

Modelled: construction (file created with mode x when missing, truncated with mode w when
`overwrite`), (`UkvCollectionBackend.__init__` does not forward `overwrite` to the base class, so the base class's
"overwrite and readonly are mutually exclusive" test never fires; the harness does not combine them),
`reading()` / `writing()` on their normal paths (begin, update_keys, body, flush, end),
`put` (buffering rule `used_memory > bufsize`), `get` (pending values are readable), `keys`, `flush`.
Exceptional exits of sessions and the lock are the subject of C04 (`Model/Sessions.lean`).
Keys are the UTF-8 bytes of the `str` keys; `put` also receives the key's length in characters, which is
what `_usedmem` counts.

Core Lean only.
-/
import Molli.Model.Ukv
namespace Molli.Model.Backend
open Molli.Util Molli.Model.Ukv

inductive SState | idle | reading | writing
deriving DecidableEq, Repr

structure Backend where
  slot : Nat                -- slot of its `_ukvfile` handle object in the world
  hasFile : Bool            -- `hasattr(self, "_ukvfile")`
  readonly : Bool
  bufsize : Int
  queue : List KV           -- `_write_queue` (FIFO)
  keys : List Bytes         -- `_keys` (a set; kept duplicate-free, compared sorted)
  usedmem : Nat
  state : SState
deriving Repr

structure BWorld where
  w  : World
  bs : Nat → Option Backend

inductive BErr
  | ukv (e : Err)          -- raised by the UKV file underneath
  | readonly | notFound | badArgs | keyExists | tooLong | noBackend | noSession
deriving DecidableEq, Repr

inductive BOut
  | ok
  | val (b : Bytes)
  | keys (ks : List Bytes)
  | err (e : BErr)
deriving DecidableEq, Repr

inductive BOp
  | cnew (c : Nat) (bufsize : Int) (readonly overwrite : Bool) (comment : Bytes)
  | begin (c : Nat) (write : Bool)
  | end_ (c : Nat)
  | put (c : Nat) (k v : Bytes) (klen : Nat)   -- klen = len(key) in characters (what `_usedmem` counts)
  | get (c : Nat) (k : Bytes)
  | keys (c : Nat)
  | flush (c : Nat)
  | endFault (c : Nat)      -- end of a writing session whose first write of the exit flush raises
  | endFaultTorn (c n : Nat) -- … raises after `n` bytes of that record reached the file (I/O error, quota): torn tail
deriving Repr

def getB (bw : BWorld) (c : Nat) : Option Backend := bw.bs c
def setB (bw : BWorld) (c : Nat) (b : Option Backend) : BWorld :=
  { bw with bs := fun j => if j = c then b else bw.bs j }

/-- The handle slot of backend `c`; `tmpSlot` is used by the constructor's throw-away `UKVFile`. -/
def slotOf (c : Nat) : Nat := 2 * c
def tmpSlot (c : Nat) : Nat := 2 * c + 1

/-- `flush()`: write the queued pairs in order; stops at the first failing write (the failing pair has
already been popped). `_usedmem` is reset only when the loop completes. -/
def flushQ (w : World) (slot : Nat) : List KV → World × List KV × Option Err
  | [] => (w, [], none)
  | kv :: rest =>
    match step w (.put slot kv.key kv.val) with
    | (w', .err e) => (w', rest, some e)
    | (w', _) => flushQ w' slot rest

def flush (bw : BWorld) (c : Nat) (b : Backend) : BWorld × BOut :=
  match flushQ bw.w b.slot b.queue with
  | (w', q', some e) => (setB { bw with w := w' } c (some { b with queue := q' }), .err (.ukv e))
  | (w', q', none) => (setB { bw with w := w' } c (some { b with queue := q', usedmem := 0 }), .ok)

def tocKeys (w : World) (slot : Nat) : List Bytes :=
  match getH w slot with
  | some h => h.toc.map (·.1)
  | none => []

def lookupQ (q : List KV) (k : Bytes) : Option Bytes :=
  match q with
  | [] => none
  | kv :: rest => if kv.key = k then some kv.val else lookupQ rest k

def bstep (bw : BWorld) : BOp → BWorld × BOut
  | .cnew c bufsize readonly overwrite comment =>
    if bw.w.file.isNone && readonly then (bw, .err .notFound)
    else
      let b : Backend := { slot := slotOf c, hasFile := false, readonly := readonly, bufsize := bufsize,
                           queue := [], keys := [], usedmem := 0, state := .idle }
      -- `with UKVFile(path, h2=comment, mode="x"|"w"): pass` when missing / overwrite
      let w1 :=
        if bw.w.file.isNone then
          (step (step bw.w (.new (tmpSlot c) .x [] comment [])).1 (.close (tmpSlot c))).1
        else if overwrite then
          (step (step bw.w (.new (tmpSlot c) .w [] comment [])).1 (.close (tmpSlot c))).1
        else bw.w
      let w2 := setH w1 (tmpSlot c) none
      -- a new Python object: its handle slot starts empty
      (setB { bw with w := setH w2 (slotOf c) none } c (some b), .ok)
  | .begin c write =>
    match getB bw c with
    | none => (bw, .err .noBackend)
    | some b =>
      if write && b.readonly then (bw, .err .readonly)
      else
        let m : Mode := if write then .a else .r
        let (w', out) :=
          if b.hasFile then step bw.w (.reopen b.slot (some m))
          else step bw.w (.new b.slot m [] [] [])
        match out with
        | .err e => (setB { bw with w := w' } c (some b), .err (.ukv e))
        | _ =>
          let b' := { b with hasFile := true, state := if write then .writing else .reading,
                             keys := tocKeys w' b.slot }
          (setB { bw with w := w' } c (some b'), .ok)
  | .end_ c =>
    match getB bw c with
    | none => (bw, .err .noBackend)
    | some b =>
      match b.state with
      | .idle => (bw, .err .noSession)
      | .reading =>
        (setB { bw with w := (step bw.w (.close b.slot)).1 } c (some { b with state := .idle }), .ok)
      | .writing =>
        let (bw1, out) := flush bw c b
        match getB bw1 c with
        | none => (bw1, out)
        | some b1 =>
          (setB { bw1 with w := (step bw1.w (.close b.slot)).1 } c (some { b1 with state := .idle }), out)
  | .put c k v klen =>
    match getB bw c with
    | none => (bw, .err .noBackend)
    | some b =>
      if b.readonly then (bw, .err .readonly)
      else if b.keys.contains k then (bw, .err .keyExists)
      else if ¬ (k.length < 256) then (bw, .err .tooLong)
      else
        let b' := { b with queue := b.queue ++ [⟨k, v⟩], keys := b.keys ++ [k],
                           usedmem := b.usedmem + klen + v.length }
        if (b'.usedmem : Int) > b'.bufsize then flush (setB bw c (some b')) c b'
        else (setB bw c (some b'), .ok)
  | .get c k =>
    match getB bw c with
    | none => (bw, .err .noBackend)
    | some b =>
      match lookupQ b.queue k with
      | some v => (bw, .val v)
      | none =>
        match (step bw.w (.get b.slot k)).2 with
        | .val v => (bw, .val v)
        | .err e => (bw, .err (.ukv e))
        | _ => (bw, .err .noSession)
  | .keys c =>
    match getB bw c with
    | none => (bw, .err .noBackend)
    | some b => (bw, .keys b.keys)
  | .flush c =>
    match getB bw c with
    | none => (bw, .err .noBackend)
    | some b => flush bw c b
  | .endFault c =>
    match getB bw c with
    | none => (bw, .err .noBackend)
    | some b =>
      -- `flush()` pops the first pair, `_write` raises: the pair is lost, the rest stays queued; then the
      -- (repaired) context manager still runs `end_write` (close) and resets the state
      let q' := b.queue.drop 1
      (setB { bw with w := (step bw.w (.close b.slot)).1 } c (some { b with queue := q', state := .idle }),
       if b.queue.isEmpty then .ok else .err .noSession)

  | .endFaultTorn c n =>
    match getB bw c with
    | none => (bw, .err .noBackend)
    | some b =>
      match b.queue with
      | [] => (setB { bw with w := (step bw.w (.close b.slot)).1 } c (some { b with state := .idle }), .ok)
      | kv :: q' =>
        -- the write of the first queued pair fails part-way: the first `n` bytes of its block are in the file, the
        -- handle's table of contents and end-of-file mark are not advanced; the pair is lost, the rest stays queued;
        -- the context manager still closes the file and resets the state
        let w1 : World := { bw.w with file := bw.w.file.map (fun f => f ++ (encBlock kv).take n) }
        (setB { bw with w := (step w1 (.close b.slot)).1 } c (some { b with queue := q', state := .idle }),
         .err .noSession)

def initB : BWorld := { w := initWorld, bs := fun _ => none }

end Molli.Model.Backend
