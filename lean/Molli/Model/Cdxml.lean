/-
C13 — model of the logic of `molli/ftypes/cdxml.py` (CDXMLFile):

 (a) constitution: what `_parse_fragment` builds from the node / bond records of a `<fragment>` — atoms (element,
     isotope, label, atom type, formal charge, formal spin, implicit-hydrogen note), bonds (end points, bond type,
     fractional order), expansion of multi-attachment (hapto) bonds, the joins of nested fragments, total charge and
     multiplicity, attachment points.  The records arrive as RAW attribute strings (an independent ElementTree walk
     in the harness); every interpretation (`int(...)`, defaults, NodeType cases, Order / Display) is made here.
 (b) label resolution: `__getitem__` — the fragment of the label's own group, else among the 5 fragments nearest
     to the label in L1 distance the first that lies above it — over exact rationals.
 (c) the exact orientation predicate (signed volume) used by the handedness oracle.

The out-of-plane embedding (`_cdxml_3dify_`) is NOT modelled (property C13 is partial for that reason).
Core Lean only.
-/
namespace Molli.Model.Cdxml

/-! ## constants of the molli enums (tied to the code by `Molli.Gen.CdxmlConsts`) -/

def zUnknown : Nat := 0
def zCarbon : Nat := 6
def zMax : Nat := 118
def atRegular : Nat := 1
def atCoordinationCenter : Nat := 10
def atAttachmentPoint : Nat := 101
def btSingle : Nat := 1
def btAromatic : Nat := 20
def btLigand : Nat := 98
/-- the members of `BondType` (an `IntEnum`): `BondType(int(order))` raises for anything else -/
def bondTypeValues : List Nat := [0, 1, 2, 3, 4, 5, 6, 10, 11, 20, 21, 98, 99, 100, 101]

/-! ## (a) constitution -/

/-- a `<n>` element: raw attribute values (`none` = attribute absent) -/
structure RawNode where
  id : Option String
  element : Option String
  atomNumber : Option String
  isotope : Option String
  charge : Option String
  radical : Option String
  nodeType : Option String
  extNum : Option String
  genericNickname : Option String
  /-- text of `./t/s` (`none` = no such element) -/
  unspecText : Option String
  numH : Option String
  attachments : Option String
  /-- position (in the list of already evaluated fragments) of the `<fragment>` child, if any -/
  nested : Option Nat
  deriving Repr, DecidableEq

/-- a `<b>` element -/
structure RawBond where
  b : Option String
  e : Option String
  order : Option String
  display : Option String
  deriving Repr, DecidableEq

structure RawFrag where
  nodes : List RawNode
  bonds : List RawBond
  deriving Repr, DecidableEq

structure MAtom where
  z : Nat
  isotope : Option Int
  label : Option String
  atype : Nat
  charge : Int
  spin : Nat
  /-- `attrib["__implicit_hydrogens"]` when `NumHydrogens` is given -/
  implicitH : Option Int
  deriving Repr, DecidableEq

structure MBond where
  a1 : Nat
  a2 : Nat
  btype : Nat
  forder : Rat
  deriving Repr, DecidableEq

structure Mol where
  atoms : List MAtom
  bonds : List MBond
  deriving Repr, DecidableEq

def Mol.charge (m : Mol) : Int := (m.atoms.map (·.charge)).sum
def Mol.mult (m : Mol) : Nat := (m.atoms.map (·.spin)).sum + 1
def Mol.attachmentPoints (m : Mol) : List Nat :=
  (List.range m.atoms.length).filter fun i => (m.atoms[i]?.map (·.atype)) == some atAttachmentPoint

/-- Python's `int(s)` on the strings that occur: optional surrounding blanks, optional sign, decimal digits. -/
def pyInt? (s : String) : Option Int :=
  let t := s.trimAscii.toString
  if t.startsWith "+" then (t.drop 1).toString.toNat?.map Int.ofNat else t.toInt?

def pyNat? (s : String) : Option Nat :=
  match pyInt? s with
  | some (.ofNat n) => some n
  | _ => none

/-- Python truthiness of `node.get(attr)` -/
def truthy : Option String → Bool
  | some s => !s.isEmpty
  | none => false

def isMulti (n : RawNode) : Bool := n.nodeType == some "MultiAttachment"

/-- element, atom type and label by `NodeType` (`none` = the parser raises) -/
def nodeKind (n : RawNode) (z0 : Int) : Option (Nat × Nat × Option String) :=
  let lbl := n.atomNumber
  match n.nodeType with
  | some "ExternalConnectionPoint" =>
    some (zUnknown, atAttachmentPoint,
      if truthy lbl then lbl else if truthy n.extNum then some ("AP" ++ n.extNum.getD "") else some "AP0")
  | some "Fragment" => some (zUnknown, atAttachmentPoint, n.id)
  | some "Nickname" => some (zUnknown, atAttachmentPoint, n.id)
  | some "GenericNickname" => some (zUnknown, atAttachmentPoint, n.genericNickname)
  | some "Unspecified" =>
    match n.unspecText with
    | none => none            -- `node.find("./t/s")` is None: AttributeError
    | some t => some (zUnknown, atAttachmentPoint, if t.isEmpty then none else some t)
  | _ =>
    -- only here the number has to name an element (`Atom(element=int)`)
    match z0 with
    | .ofNat z => if z > zMax then none else some (z, atRegular, lbl)
    | .negSucc _ => none

/-- `_parse_atom_node` -/
def mkAtom (n : RawNode) : Option MAtom :=
  -- `int(elt) if elt else "C"`: the attribute must be an integer literal, whatever the node type
  let z0? : Option Int := if truthy n.element then pyInt? (n.element.getD "") else some (Int.ofNat zCarbon)
  let iso? : Option (Option Int) := match n.isotope with
    | none => some none
    | some s => (pyInt? s).map some
  let charge? : Option Int := match n.charge with
    | none => some 0
    | some s => pyInt? s
  let spin : Nat := match n.radical with
    | some "Doublet" => 1
    | some "Singlet" => 2
    | _ => 0
  let implicitH? : Option (Option Int) := if truthy n.numH then (pyInt? (n.numH.getD "")).map some else some none
  match z0?, iso?, charge?, implicitH? with
  | some z0, some iso, some charge, some implicitH =>
    match nodeKind n z0 with
    | some (z, atype, label) => some { z, isotope := iso, label, atype, charge, spin, implicitH }
    | none => none
  | _, _, _, _ => none

/-- nodes that become atoms, in document order, with their ids -/
def atomNodes (f : RawFrag) : List RawNode := f.nodes.filter (fun n => !isMulti n)

/-- `atom_idx`: index of the atom made from the node with this id (the LAST such node wins, as in a dict) -/
def atomIndex (f : RawFrag) (id : Option String) : Option Nat :=
  let l := atomNodes f
  (List.range l.length).reverse.find? fun i => (l[i]?.map (·.id)) == some id

/-- Python's `str.split()` : maximal runs of non-blank characters -/
def splitWsAux : List Char → List Char → List String
  | [], cur => if cur.isEmpty then [] else [String.ofList cur.reverse]
  | c :: cs, cur =>
    if c.isWhitespace then
      (if cur.isEmpty then [] else [String.ofList cur.reverse]) ++ splitWsAux cs []
    else splitWsAux cs (c :: cur)

def splitWs (s : String) : List String := splitWsAux s.toList []

/-- `multiattachments[id]` (last wins) : the attachment ids -/
def multiOf (f : RawFrag) (id : Option String) : Option (List String) :=
  match (f.nodes.filter isMulti).reverse.find? (fun n => n.id == id) with
  | some n =>
    some (splitWs (n.attachments.getD ""))
  | none => none

/-- `_parse_bond` : the bond type of an ordinary bond -/
def bondType (b : RawBond) : Option Nat :=
  if b.display == some "Dash" then
    -- the order is still evaluated first (and may raise)
    match b.order with
    | none => some btLigand
    | some "1.5" => some btLigand
    | some s => match pyNat? s with
      | some n => if bondTypeValues.contains n then some btLigand else none
      | none => none
  else
    match b.order with
    | none => some btSingle
    | some "1.5" => some btAromatic
    | some s => match pyNat? s with
      | some n => if bondTypeValues.contains n then some n else none
      | none => none

/-- the bonds a `<b>` element contributes, and the hapto centre it names (if any) -/
def bondsOf (f : RawFrag) (b : RawBond) : Option (List MBond × Option Nat) :=
  let viaMulti (center : Option String) (att : List String) : Option (List MBond × Option Nat) := do
    let c ← atomIndex f center
    let ends ← att.mapM (fun t => atomIndex f (some t))
    -- `1 / len(attached)` raises for an empty attachment list
    if att.isEmpty then none
    some (ends.map (fun t => { a1 := c, a2 := t, btype := btLigand, forder := mkRat 1 att.length }), some c)
  match multiOf f b.b with
  | some att => viaMulti b.e att
  | none =>
    match multiOf f b.e with
    | some att => viaMulti b.b att
    | none => do
      let i ← atomIndex f b.b
      let j ← atomIndex f b.e
      let t ← bondType b
      some ([{ a1 := i, a2 := j, btype := t, forder := 1 }], none)

/-- the fragment without its nested fragments: atoms, bonds, hapto centres marked -/
def flat (f : RawFrag) : Option Mol := do
  let atoms ← (atomNodes f).mapM mkAtom
  let bs ← f.bonds.mapM (bondsOf f)
  let centers := bs.filterMap (·.2)
  let atoms' := (List.range atoms.length).zip atoms |>.map fun (i, a) =>
    if centers.contains i then { a with atype := atCoordinationCenter } else a
  some { atoms := atoms', bonds := (bs.map (·.1)).flatten }

/-! ### joining a nested fragment (`Structure.join`, combinatorial part) -/

def MBond.has (b : MBond) (i : Nat) : Bool := b.a1 == i || b.a2 == i
def MBond.other (b : MBond) (i : Nat) : Nat := if b.a1 == i then b.a2 else b.a1
def MBond.remap (f : Nat → Nat) (b : MBond) : MBond := { b with a1 := f b.a1, a2 := f b.a2 }

/-- index of an atom after atom `p` has been deleted -/
def afterDel (p i : Nat) : Nat := if i > p then i - 1 else i

def Mol.delAtom (m : Mol) (p : Nat) : Mol :=
  { atoms := m.atoms.eraseIdx p, bonds := (m.bonds.filter (fun b => !b.has p)).map (MBond.remap (afterDel p)) }

/-- `Structure.join(m₁, m₂, p, q)`: both attachment atoms disappear, their single neighbours get bonded -/
def join (m₁ m₂ : Mol) (p q : Nat) : Option Mol :=
  match m₁.bonds.filter (·.has p), m₂.bonds.filter (·.has q) with
  | [b₁], [b₂] =>
    -- (a bond from the attachment atom to itself: `atoms.index(a1r)` fails in the code)
    if p < m₁.atoms.length ∧ q < m₂.atoms.length ∧ b₁.other p ≠ p ∧ b₂.other q ≠ q then
      let d₁ := m₁.delAtom p
      let d₂ := m₂.delAtom q
      let n := d₁.atoms.length
      some { atoms := d₁.atoms ++ d₂.atoms,
             bonds := d₁.bonds ++ d₂.bonds.map (MBond.remap (· + n)) ++
               [{ a1 := afterDel p (b₁.other p), a2 := afterDel q (b₂.other q) + n, btype := btSingle, forder := 1 }] }
    else none
  | _, _ => none

/-- `result.get_atom(label)`: first atom carrying the label -/
def findLabel (m : Mol) (lbl : Option String) : Option Nat :=
  (List.range m.atoms.length).find? fun i => (m.atoms[i]?.map (·.label)) == some lbl

/-- the nested fragments are joined one after the other, in document order of their nodes -/
def joinNested (done : List (Option Mol)) : Mol → List RawNode → Option Mol
  | m, [] => some m
  | m, n :: rest =>
    match n.nested with
    | none => joinNested done m rest
    | some k => do
      let sub ← (done[k]?).join
      -- `get_atom(id)` needs a str: a node without id gives `get_atom(None)` → ValueError
      if n.id.isNone then none
      let ap ← findLabel m n.id
      let sap ← sub.attachmentPoints.head?
      let m' ← join m sub ap sap
      joinNested done m' rest

/-- `_parse_fragment` (constitution) of one fragment, given the results of the fragments evaluated before it -/
def evalFrag (done : List (Option Mol)) (f : RawFrag) : Option Mol := do
  let m ← flat f
  joinNested done m f.nodes

/-- fragments in post-order (every nested fragment before the node that holds it); result of each -/
def evalAll : List RawFrag → List (Option Mol) → List (Option Mol)
  | [], done => done
  | f :: fs, done => evalAll fs (done ++ [evalFrag done f])

def parseFragment (fs : List RawFrag) : Option Mol := ((evalAll fs []).getLast?).join

/-! ## (b) label resolution -/

structure P where
  x : Rat
  y : Rat
  deriving Repr, DecidableEq

def P.add (a t : P) : P := ⟨a.x + t.x, a.y + t.y⟩

/-- L1 distance (`KDTree.query(..., p=1)`) -/
def l1 (a b : P) : Rat := (a.x - b.x).abs + (a.y - b.y).abs

structure FragPos where
  id : Nat
  pos : P
  deriving Repr, DecidableEq

def closer (l : P) (a b : FragPos) : Bool := decide (l1 a.pos l ≤ l1 b.pos l)

/-- the candidates in the order the KD-tree query returns them: by increasing L1 distance, the `k` nearest -/
def nearest (k : Nat) (frags : List FragPos) (l : P) : List FragPos := (frags.mergeSort (closer l)).take k

/-- page coordinates grow downwards: "the label is below the fragment" -/
def above (l : P) (f : FragPos) : Bool := decide (f.pos.y < l.y)

/-- `CDXMLFile.__getitem__`: fragment id for a label at `l` whose own group holds fragment `sib` (if any) -/
def resolve (frags : List FragPos) (sib : Option Nat) (l : P) : Option Nat :=
  match sib with
  | some i => some i
  | none => ((nearest 5 frags l).find? (above l)).map (·.id)

/-! ## (c) orientation -/

structure V3 where
  x : Rat
  y : Rat
  z : Rat
  deriving Repr, DecidableEq

def V3.sub (a b : V3) : V3 := ⟨a.x - b.x, a.y - b.y, a.z - b.z⟩
def V3.add (a b : V3) : V3 := ⟨a.x + b.x, a.y + b.y, a.z + b.z⟩
def V3.smul (s : Rat) (a : V3) : V3 := ⟨s * a.x, s * a.y, s * a.z⟩
/-- reflection in the drawing plane -/
def V3.mirror (a : V3) : V3 := ⟨a.x, a.y, -a.z⟩

def det3 (u v w : V3) : Rat :=
  u.x * (v.y * w.z - v.z * w.y) - u.y * (v.x * w.z - v.z * w.x) + u.z * (v.x * w.y - v.y * w.x)

/-- six times the signed volume of the tetrahedron (c; a, b, d): the handedness of centre `c` -/
def signedVol (c a b d : V3) : Rat := det3 (a.sub c) (b.sub c) (d.sub c)

/-- row-vector application `v · M`, as numpy's `coords @ M` -/
structure M3 where
  r1 : V3
  r2 : V3
  r3 : V3
  deriving Repr, DecidableEq

def V3.mulM (v : V3) (m : M3) : V3 :=
  ⟨v.x * m.r1.x + v.y * m.r2.x + v.z * m.r3.x,
   v.x * m.r1.y + v.y * m.r2.y + v.z * m.r3.y,
   v.x * m.r1.z + v.y * m.r2.z + v.z * m.r3.z⟩

def M3.det (m : M3) : Rat := det3 m.r1 m.r2 m.r3

inductive Sign | pos | neg | zero
  deriving Repr, DecidableEq

def Sign.flip : Sign → Sign
  | .pos => .neg | .neg => .pos | .zero => .zero

def signOf (r : Rat) : Sign := if 0 < r then .pos else if r < 0 then .neg else .zero

/-- handedness with a planarity threshold `eps ≥ 0`: `zero` = planar within `eps` -/
def orient (eps : Rat) (c a b d : V3) : Sign :=
  let v := signedVol c a b d
  if eps < v then .pos else if v < -eps then .neg else .zero

end Molli.Model.Cdxml
