/-
Executable model of the library codecs of molli (`molli/chem/io.py`, `molli/chem/library.py`):
what `MoleculeLibrary.__setitem__` / `ConformerLibrary.__setitem__` put on the wire for an
object and what `__getitem__` rebuilds from it.

  MVal        msgpack's data model, as Python sees it (None, bool, int, float, str, bytes,
              list / tuple, dict); `f32` only occurs on the wire of legacy files
  N           what `loads(dumps(v), use_list=False, strict_map_key=False)` returns:
              every array comes back as a tuple, a wire float32 comes back as a double
  AtomRec / BondRec / MolRec / EnsRec
              the fields the property C01 names (atoms and bonds are keyed by the field
              enumerations `AField` / `BField`, exactly as `as_tuple(schema)` /
              `Atom(**dict(zip(schema, t)))` address them by name)
  Schema      the positional wire orders (atom tuple, bond tuple, top-level tuple) and the
              constructor defaults for fields that a schema does not carry (legacy v1)
  serMol/serEns, deserMol/deserEns
              the generic positional codec, parametric in the `Schema`
  normMol/normEns
              what a round trip is allowed to change: coordinates, partial charges, weights
              pass through float32 (`r32`, then widened back), every array in an attribute
              comes back as a tuple (`N`), `charge or 0`, `mult or 1`, `attrib or {}`

`r32` / `widen` are the hardware conversions double -> float32 -> double; no proof unfolds them.
Core Lean only: this file is linked into the driver executable.
-/
import Molli.Util.Basic
namespace Molli.Model.Codec
open Molli.Util

/-! ### msgpack data model -/

inductive MVal
  | nil
  | bool (b : Bool)
  | int (i : Int)
  | f32 (bits : UInt32)
  | f64 (bits : UInt64)
  /-- a Python `str`, identified with its UTF-8 encoding (the bytes msgpack stores) -/
  | str (utf8 : Bytes)
  | bin (b : Bytes)
  /-- `isList = true`: a Python `list`; `false`: a `tuple`. The wire has one array type. -/
  | arr (isList : Bool) (l : List MVal)
  /-- a `dict` in insertion order -/
  | map (l : List (MVal × MVal))
  deriving Repr, Inhabited

abbrev F64 := UInt64
abbrev F32 := UInt32

/-- `numpy.astype(">f4")` on one double (bit patterns): the C conversion double → float. -/
def r32 (b : F64) : F32 := (Float.ofBits b).toFloat32.toBits
/-- a float32 read into a Python float / float64 array: exact widening. -/
def widen (b : F32) : F64 := (Float32.ofBits b).toFloat.toBits

mutual
/-- The normalisation a msgpack round trip applies (`use_list=False`). -/
def N : MVal → MVal
  | .arr _ l => .arr false (Nl l)
  | .map l => .map (Nm l)
  | .f32 b => .f64 (widen b)
  | .nil => .nil
  | .bool b => .bool b
  | .int i => .int i
  | .f64 b => .f64 b
  | .str s => .str s
  | .bin b => .bin b
def Nl : List MVal → List MVal
  | [] => []
  | v :: vs => N v :: Nl vs
def Nm : List (MVal × MVal) → List (MVal × MVal)
  | [] => []
  | (k, v) :: r => (N k, N v) :: Nm r
end

mutual
/-- no Python list and no wire float32 anywhere inside: such a value is a fixed point of `N`. -/
def MVal.canon : MVal → Bool
  | .arr isList l => !isList && canonL l
  | .map l => canonM l
  | .f32 _ => false
  | _ => true
def canonL : List MVal → Bool
  | [] => true
  | v :: vs => v.canon && canonL vs
def canonM : List (MVal × MVal) → Bool
  | [] => true
  | (k, v) :: r => k.canon && v.canon && canonM r
end

/-- Python truthiness of a data-model value (`x or default`). -/
def MVal.falsy : MVal → Bool
  | .nil => true
  | .bool b => !b
  | .int i => i == 0
  | .f64 b => b == 0 || b == 0x8000000000000000
  | .f32 b => b == 0 || b == 0x80000000
  | .str s => s.isEmpty
  | .bin b => b.isEmpty
  | .arr _ l => l.isEmpty
  | .map l => l.isEmpty

/-- `v or d` -/
def pyOr (v d : MVal) : MVal := if v.falsy then d else v

/-- the `name` setter of `Promolecule`: `None` becomes `"unknown"`. -/
def pyName : MVal → MVal
  | .nil => .str [117, 110, 107, 110, 111, 119, 110]   -- "unknown"
  | v => v

/-! ### float32 arrays as big-endian byte strings (`astype(">f4").tobytes()` / `frombuffer(dtype=">f4")`) -/

def be32 (x : F32) : Bytes :=
  let n := x.toNat
  [UInt8.ofNat (n / 16777216 % 256), UInt8.ofNat (n / 65536 % 256),
   UInt8.ofNat (n / 256 % 256), UInt8.ofNat (n % 256)]

def rd32 (a b c d : UInt8) : F32 :=
  UInt32.ofNat (a.toNat * 16777216 + b.toNat * 65536 + c.toNat * 256 + d.toNat)

def encF32s : List F32 → Bytes
  | [] => []
  | x :: xs => be32 x ++ encF32s xs

/-- `numpy.frombuffer(b, dtype=">f4")`: fails unless the length is a multiple of four. -/
def decF32s : Bytes → Option (List F32)
  | [] => some []
  | a :: b :: c :: d :: rest =>
    match decF32s rest with
    | some xs => some (rd32 a b c d :: xs)
    | none => none
  | _ => none

/-- `n` rows of `k` items each, in C order. -/
def rows {α : Type} : Nat → Nat → List α → List (List α)
  | 0, _, _ => []
  | n + 1, k, xs => xs.take k :: rows n k (xs.drop k)

/-- `a.reshape((n, k))` -/
def reshape2 {α : Type} (n k : Nat) (xs : List α) : Option (List (List α)) :=
  if xs.length = n * k then some (rows n k xs) else none

/-- `a.reshape((n, m, k))` -/
def reshape3 {α : Type} (n m k : Nat) (xs : List α) : Option (List (List (List α))) :=
  if xs.length = n * (m * k) then some ((rows n (m * k) xs).map (rows m k)) else none

/-! ### records -/

inductive AField
  | element | isotope | label | atype | stereo | geom | formal_charge | formal_spin | attrib
  /-- a slot the schema probe could not attribute to any field -/
  | other
  deriving DecidableEq, Repr, Inhabited

inductive BField
  | a1 | a2 | label | btype | stereo | f_order | attrib
  | other
  deriving DecidableEq, Repr, Inhabited

/-- fields of the top-level tuple of a molecule / an ensemble record -/
inductive TField
  | name | n_conformers | n_atoms | n_bonds | charge | mult | atoms | bonds | coords | weights
  | atomic_charges | attrib
  /-- a slot the decoder does not read -/
  | skip
  | other
  deriving DecidableEq, Repr, Inhabited

def AField.all : List AField :=
  [.element, .isotope, .label, .atype, .stereo, .geom, .formal_charge, .formal_spin, .attrib]
def BField.all : List BField := [.a1, .a2, .label, .btype, .stereo, .f_order, .attrib]

/-- every field of the atom (the nine the property names), addressed by name -/
structure AtomRec where
  get : AField → MVal

/-- endpoints (`a1`, `a2`: indices into the atom list, as `.int`) and the five other fields -/
structure BondRec where
  get : BField → MVal

/-- an atom from its nine field values in the order of `AField.all` (missing ones are `None`) -/
def AtomRec.ofList (vs : List MVal) : AtomRec := ⟨fun f => vs.getD (AField.all.idxOf f) .nil⟩
/-- a bond from `a1 a2 label btype stereo f_order attrib` -/
def BondRec.ofList (vs : List MVal) : BondRec := ⟨fun f => vs.getD (BField.all.idxOf f) .nil⟩

def AtomRec.set (a : AtomRec) (f : AField) (v : MVal) : AtomRec :=
  ⟨fun g => if g = f then v else a.get g⟩
def BondRec.set (b : BondRec) (f : BField) (v : MVal) : BondRec :=
  ⟨fun g => if g = f then v else b.get g⟩

structure MolRec where
  name : MVal
  charge : MVal
  mult : MVal
  attrib : MVal
  atoms : List AtomRec
  bonds : List BondRec
  /-- `n_atoms` rows of three doubles -/
  coords : List (List F64)
  /-- partial charges, one per atom -/
  charges : List F64

structure EnsRec where
  name : MVal
  charge : MVal
  mult : MVal
  attrib : MVal
  atoms : List AtomRec
  bonds : List BondRec
  /-- `n_conformers × n_atoms × 3` -/
  coords : List (List (List F64))
  /-- one weight per conformer -/
  weights : List F64
  /-- `n_conformers × n_atoms` -/
  charges : List (List F64)

/-- The wire orders of one encoding and the defaults of the constructors
(`Atom()`, `Bond(a1, a2)`) for fields the encoding does not carry. -/
structure Schema where
  atom : List AField
  bond : List BField
  top : List TField
  atomDflt : AtomRec
  bondDflt : BondRec

/-! ### serialisers (`_serialize_mol_v*`, `_serialize_ens_v*`) -/

/-- `a.as_tuple(ATOM_SCHEMA)` -/
def serAtom (S : Schema) (a : AtomRec) : MVal := .arr false (S.atom.map a.get)
/-- `(i1, i2) + b.as_tuple(BOND_SCHEMA[2:])` -/
def serBond (S : Schema) (b : BondRec) : MVal := .arr false (S.bond.map b.get)

def molTop (S : Schema) (m : MolRec) : TField → MVal
  | .name => m.name
  | .n_atoms => .int m.atoms.length
  | .n_bonds => .int m.bonds.length
  | .charge => m.charge
  | .mult => m.mult
  | .atoms => .arr true (m.atoms.map (serAtom S))
  | .bonds => .arr true (m.bonds.map (serBond S))
  | .coords => .bin (encF32s (m.coords.flatten.map r32))
  | .atomic_charges => .bin (encF32s (m.charges.map r32))
  | .attrib => m.attrib
  | _ => .nil

def serMol (S : Schema) (m : MolRec) : MVal := .arr false (S.top.map (molTop S m))

def ensTop (S : Schema) (e : EnsRec) : TField → MVal
  | .name => e.name
  | .n_conformers => .int e.coords.length
  | .n_atoms => .int e.atoms.length
  | .n_bonds => .int e.bonds.length
  | .charge => e.charge
  | .mult => e.mult
  | .atoms => .arr true (e.atoms.map (serAtom S))
  | .bonds => .arr true (e.bonds.map (serBond S))
  | .coords => .bin (encF32s (e.coords.flatten.flatten.map r32))
  | .weights => .bin (encF32s (e.weights.map r32))
  | .atomic_charges => .bin (encF32s (e.charges.flatten.map r32))
  | .attrib => e.attrib
  | _ => .nil

def serEns (S : Schema) (e : EnsRec) : MVal := .arr false (S.top.map (ensTop S e))

/-! ### decoders (`_deserialize_mol_v*`, `_deserialize_ens_v*`) -/

inductive Err
  | notTuple | arity | missing | type | shape | index
  deriving DecidableEq, Repr, Inhabited

/-- the value unpacked into the variable named `f` (positional unpacking of the tuple) -/
def lookup {F : Type} [DecidableEq F] (f : F) : List F → List MVal → Option MVal
  | g :: gs, v :: vs => if g = f then some v else lookup f gs vs
  | _, _ => none

def need {F : Type} [DecidableEq F] (f : F) (o : List F) (vs : List MVal) : Except Err MVal :=
  match lookup f o vs with
  | some v => .ok v
  | none => .error .missing

def asNat : MVal → Except Err Nat
  | .int (.ofNat n) => .ok n
  | _ => .error .type

def asArr : MVal → Except Err (List MVal)
  | .arr _ l => .ok l
  | _ => .error .type

def asBin : MVal → Except Err Bytes
  | .bin b => .ok b
  | _ => .error .type

def optE {α : Type} (e : Err) : Option α → Except Err α
  | some a => .ok a
  | none => .error e

def mapE {α β : Type} (f : α → Except Err β) : List α → Except Err (List β)
  | [] => .ok []
  | x :: xs =>
    match f x with
    | .error e => .error e
    | .ok y =>
      match mapE f xs with
      | .error e => .error e
      | .ok ys => .ok (y :: ys)

/-- `Bond.f_order` has `converter=float`. -/
def floatConv : MVal → MVal
  | .int i => .f64 (Float.ofInt i).toBits
  | .f32 b => .f64 (widen b)
  | .bool b => .f64 (if b then (1.0 : Float).toBits else 0)
  | v => v

/-- converters of the `Atom` attrs class: `element` goes through `Element.get`, which on the
integer values of the enumeration is the identity (generated obligation `element_get_id`). -/
def convA (_f : AField) (v : MVal) : MVal := v

def convB : BField → MVal → MVal
  | .f_order, v => floatConv v
  | _, v => v

/-- `Atom(**dict(zip(schema, t)))`: later pairs override earlier ones, missing fields keep the default. -/
def buildAtom (d : AtomRec) : List AField → List MVal → AtomRec
  | f :: fs, v :: vs => buildAtom (d.set f (convA f v)) fs vs
  | _, _ => d

def buildBond (d : BondRec) : List BField → List MVal → BondRec
  | f :: fs, v :: vs => buildBond (d.set f (convB f v)) fs vs
  | _, _ => d

def deserAtom (S : Schema) : MVal → Except Err AtomRec
  | .arr _ vs => .ok (buildAtom S.atomDflt S.atom vs)
  | _ => .error .type

/-- `res.connect(*b[:2], **dict(zip(BOND_SCHEMA[2:], b[2:])))` on a structure of `nA` atoms -/
def deserBond (S : Schema) (nA : Nat) : MVal → Except Err BondRec
  | .arr _ vs =>
    let b := buildBond S.bondDflt S.bond vs
    match b.get .a1, b.get .a2 with
    | .int (.ofNat i), .int (.ofNat j) => if i < nA ∧ j < nA then .ok b else .error .index
    | _, _ => .error .type
  | _ => .error .type

def deserMol (S : Schema) (w : MVal) : Except Err MolRec :=
  match w with
  | .arr _ vs =>
    if vs.length ≠ S.top.length then .error .arity else do
      let name ← need .name S.top vs
      let nA ← (need .n_atoms S.top vs) >>= asNat
      let charge ← need .charge S.top vs
      let mult ← need .mult S.top vs
      let atomsV ← (need .atoms S.top vs) >>= asArr
      let bondsV ← (need .bonds S.top vs) >>= asArr
      let cB ← (need .coords S.top vs) >>= asBin
      let qB ← (need .atomic_charges S.top vs) >>= asBin
      let attrib := (lookup .attrib S.top vs).getD .nil
      let atoms ← mapE (deserAtom S) atomsV
      if atoms.length ≠ nA then .error .shape else do
      let cs ← optE .shape (decF32s cB)
      let crows ← optE .shape (reshape2 nA 3 cs)
      let qs ← optE .shape (decF32s qB)
      if qs.length ≠ nA then .error .shape else do
      let bonds ← mapE (deserBond S nA) bondsV
      pure { name := pyName name, charge := pyOr charge (.int 0), mult := pyOr mult (.int 1),
             attrib := pyOr attrib (.map []), atoms := atoms, bonds := bonds,
             coords := crows.map (·.map widen), charges := qs.map widen }
  | _ => .error .notTuple

def deserEns (S : Schema) (w : MVal) : Except Err EnsRec :=
  match w with
  | .arr _ vs =>
    if vs.length ≠ S.top.length then .error .arity else do
      let name ← need .name S.top vs
      let nC ← (need .n_conformers S.top vs) >>= asNat
      let nA ← (need .n_atoms S.top vs) >>= asNat
      let charge ← need .charge S.top vs
      let mult ← need .mult S.top vs
      let atomsV ← (need .atoms S.top vs) >>= asArr
      let bondsV ← (need .bonds S.top vs) >>= asArr
      let cB ← (need .coords S.top vs) >>= asBin
      let wB ← (need .weights S.top vs) >>= asBin
      let qB ← (need .atomic_charges S.top vs) >>= asBin
      let attrib := (lookup .attrib S.top vs).getD .nil
      let atoms ← mapE (deserAtom S) atomsV
      if atoms.length ≠ nA then .error .shape else do
      let cs ← optE .shape (decF32s cB)
      let c3 ← optE .shape (reshape3 nC nA 3 cs)
      let ws ← optE .shape (decF32s wB)
      if ws.length ≠ nC then .error .shape else do
      let qs ← optE .shape (decF32s qB)
      let q2 ← optE .shape (reshape2 nC nA qs)
      let bonds ← mapE (deserBond S nA) bondsV
      pure { name := pyName name, charge := pyOr charge (.int 0), mult := pyOr mult (.int 1),
             attrib := pyOr attrib (.map []), atoms := atoms, bonds := bonds,
             coords := c3.map (·.map (·.map widen)), weights := ws.map widen,
             charges := q2.map (·.map widen) }
  | _ => .error .notTuple

/-! ### what a round trip may change -/

def normAtom (a : AtomRec) : AtomRec := ⟨fun f => N (a.get f)⟩
def normBond (b : BondRec) : BondRec := ⟨fun f => N (b.get f)⟩

/-- through float32 and back -/
def rt32 (x : F64) : F64 := widen (r32 x)

def normMol (m : MolRec) : MolRec :=
  { name := pyName (N m.name), charge := pyOr (N m.charge) (.int 0), mult := pyOr (N m.mult) (.int 1),
    attrib := pyOr (N m.attrib) (.map []),
    atoms := m.atoms.map normAtom, bonds := m.bonds.map normBond,
    coords := m.coords.map (·.map rt32), charges := m.charges.map rt32 }

def normEns (e : EnsRec) : EnsRec :=
  { name := pyName (N e.name), charge := pyOr (N e.charge) (.int 0), mult := pyOr (N e.mult) (.int 1),
    attrib := pyOr (N e.attrib) (.map []),
    atoms := e.atoms.map normAtom, bonds := e.bonds.map normBond,
    coords := e.coords.map (·.map (·.map rt32)), weights := e.weights.map rt32,
    charges := e.charges.map (·.map rt32) }

/-! ### the objects the property quantifies over -/

/-- a bond of a structure with `nA` atoms, as the public API builds it: both endpoints are atoms of
the structure, the fractional order is a float (`converter=float`). -/
def BondRec.WF (nA : Nat) (b : BondRec) : Prop :=
  (∃ i j : Nat, b.get .a1 = .int i ∧ b.get .a2 = .int j ∧ i < nA ∧ j < nA) ∧
  (∃ x, b.get .f_order = .f64 x)

/-- a molecule is rectangular: one coordinate row of three numbers and one charge per atom -/
structure MolRec.WF (m : MolRec) : Prop where
  coords_len : m.coords.length = m.atoms.length
  row3 : ∀ r ∈ m.coords, r.length = 3
  charges_len : m.charges.length = m.atoms.length
  bonds : ∀ b ∈ m.bonds, b.WF m.atoms.length

/-- an ensemble is rectangular (cf. C14): `nC × nA × 3` coordinates, `nC × nA` charges, `nC` weights -/
structure EnsRec.WF (e : EnsRec) : Prop where
  conf_len : ∀ c ∈ e.coords, c.length = e.atoms.length
  row3 : ∀ c ∈ e.coords, ∀ r ∈ c, r.length = 3
  weights_len : e.weights.length = e.coords.length
  charges_len : e.charges.length = e.coords.length
  charges_row : ∀ q ∈ e.charges, q.length = e.atoms.length
  bonds : ∀ b ∈ e.bonds, b.WF e.atoms.length

/-- fields a molecule record must carry for nothing of the property to be lost -/
def molRequired : List TField :=
  [.name, .n_atoms, .charge, .mult, .atoms, .bonds, .coords, .atomic_charges, .attrib]
def ensRequired : List TField :=
  [.name, .n_conformers, .n_atoms, .charge, .mult, .atoms, .bonds, .coords, .weights, .atomic_charges, .attrib]
/-- the legacy encodings have no top-level attributes -/
def molRequiredV1 : List TField :=
  [.name, .n_atoms, .charge, .mult, .atoms, .bonds, .coords, .atomic_charges]
def ensRequiredV1 : List TField :=
  [.name, .n_conformers, .n_atoms, .charge, .mult, .atoms, .bonds, .coords, .weights, .atomic_charges]

/-- the decoder never reads `n_bonds`; such slots show up as `skip` in the probed decoder order -/
def eraseUnread : TField → TField
  | .n_bonds => .skip
  | f => f

/-! ### the library layer: version dispatch and the key → record map -/

def magicV1 : Bytes := [77, 76, 49, 48, 76, 105, 98, 114, 97, 114, 121]  -- b"ML10Library"

/-- `MoleculeLibrary.__init__`: codec version chosen from the first 16 bytes of an existing file
(`none`: no file yet). -/
def codecVersion (header : Option Bytes) : Nat :=
  match header with
  | some h => if (h.take 16).take magicV1.length = magicV1 then 1 else 2
  | none => 2

/-- a library at the data-model level: insertion-ordered keys, the stored wire value per key
(the key/value file itself is the subject of C02/C03) -/
abbrev Lib := List (String × MVal)

def Lib.get (l : Lib) (k : String) : Option MVal :=
  match l with
  | [] => none
  | (k', v) :: r => if k' = k then some v else Lib.get r k

/-- `lib[k] = obj` inside `writing()`: the encoder's output is stored under a new key -/
def Lib.put (l : Lib) (k : String) (wire : MVal) : Option Lib :=
  match l.get k with
  | some _ => none
  | none => some (l ++ [(k, N wire)])

/-! ### a client of the library: objects it has read are ITS objects -/

/-- what a program does with one library object: store, read (the object read is handed to the caller and
remembered here as the caller's object number `held.length`), and edit an object it holds in place -/
inductive LOp (α : Type)
  | put (k : String) (wire : MVal)
  | get (k : String)
  | edit (j : Nat) (f : α → α)

/-- the library and the objects the caller holds (`α` = what the decoder returns) -/
structure LWorld (α : Type) where
  lib : Lib
  held : List α

/-- `lib[k]` decodes the stored value afresh on every read: it is a function of what is stored, nothing else -/
def lstep {α : Type} (dec : MVal → α) (w : LWorld α) : LOp α → LWorld α × Option α
  | .put k wire =>
    match w.lib.put k wire with
    | some l' => ({ w with lib := l' }, none)
    | none => (w, none)
  | .get k =>
    match w.lib.get k with
    | some v => ({ w with held := w.held ++ [dec v] }, some (dec v))
    | none => (w, none)
  | .edit j f => ({ w with held := w.held.modify j f }, none)

def lrun {α : Type} (dec : MVal → α) (w : LWorld α) : List (LOp α) → LWorld α × List (Option α)
  | [] => (w, [])
  | o :: os =>
    let r := lstep dec w o
    let rest := lrun dec r.1 os
    (rest.1, r.2 :: rest.2)

def LOp.isPut {α : Type} : LOp α → Bool
  | .put _ _ => true
  | _ => false

/-! ### several libraries: one map per path -/

/-- a store that the library refuses (the key is there already) changes nothing -/
def Lib.putOr (l : Lib) (k : String) (wire : MVal) : Lib := (l.put k wire).getD l

/-- all libraries of a process / a file system, by path -/
abbrev Libs := String → Lib

/-- `lib_at_path[key] = obj` -/
structure PutOp where
  path : String
  key : String
  wire : MVal

def Libs.step (L : Libs) (o : PutOp) : Libs := fun q => if q = o.path then (L q).putOr o.key o.wire else L q

def Libs.run (L : Libs) (ops : List PutOp) : Libs := ops.foldl Libs.step L

end Molli.Model.Codec
