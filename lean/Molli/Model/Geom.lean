/-
Executable model of molli's 3-D geometry layer (C11, C12, reused by C16):

  molli/math/rotation.py     rotation_matrix_from_vectors (general + antiparallel branch),
                             rotation_matrix_from_axis
  molli/chem/geometry.py     translate, transform, centroid, dihedral
  molli/chem/structure.py    Substructure.coords getter/setter, rotate_dihedral
  molli/chem/ensemble.py     translate (1-d / 2-d vector), rotate, center_at_core, align_to_ref_coords
  molli/chem/molecule.py     align_to_ref_coords

Everything is generic over the core arithmetic classes, so the same definitions
  * run over `Rat` in the driver (exact arithmetic on rational test points and on the dyadic
    rationals that IEEE floats are), and
  * are reasoned about over any `CommRing` / `Field` in `Molli.Lemmas.Geom*` and `Molli.Props.C11/C12`.

Conventions follow the code: coordinates are ROW vectors, a geometry is transformed by
`coords @ R` (`V3.mulM`).  Square roots never appear in the model: a normalised vector is an
input (`a` with `a·a = 1`), a norm is an input `l` with `l*l = v·v`; the harness supplies them
(rational test points) or certifies the float it passes by the exact check `|l² − v·v| ≤ tol`.

Core Lean only (no Mathlib): this file is linked into the driver executable.
-/
namespace Molli.Model.Geom

structure V3 (α : Type) where
  x : α
  y : α
  z : α
deriving Repr, DecidableEq

structure M3 (α : Type) where
  r1 : V3 α
  r2 : V3 α
  r3 : V3 α
deriving Repr, DecidableEq

/-- The code as shipped at the pinned commit vs. the code the property demands (DESIGN §4). -/
inductive Variant
  | asShipped
  | repaired
deriving Repr, DecidableEq

section Algebra
variable {α : Type} [Add α] [Mul α] [Sub α] [Neg α] [OfNat α 0] [OfNat α 1]

def V3.zero : V3 α := ⟨0, 0, 0⟩
def V3.add (a b : V3 α) : V3 α := ⟨a.x + b.x, a.y + b.y, a.z + b.z⟩
def V3.sub (a b : V3 α) : V3 α := ⟨a.x - b.x, a.y - b.y, a.z - b.z⟩
def V3.neg (a : V3 α) : V3 α := ⟨-a.x, -a.y, -a.z⟩
def V3.smul (k : α) (a : V3 α) : V3 α := ⟨k * a.x, k * a.y, k * a.z⟩
def V3.dot (a b : V3 α) : α := a.x * b.x + a.y * b.y + a.z * b.z
/-- `np.cross(a, b)` -/
def V3.cross (a b : V3 α) : V3 α :=
  ⟨a.y * b.z - a.z * b.y, a.z * b.x - a.x * b.z, a.x * b.y - a.y * b.x⟩

/-- row vector times matrix, numpy `v @ M` (how every geometry is transformed) -/
def V3.mulM (v : V3 α) (m : M3 α) : V3 α :=
  ⟨v.x * m.r1.x + v.y * m.r2.x + v.z * m.r3.x,
   v.x * m.r1.y + v.y * m.r2.y + v.z * m.r3.y,
   v.x * m.r1.z + v.y * m.r2.z + v.z * m.r3.z⟩

/-- matrix times column vector, numpy `M @ v` -/
def M3.mulV (m : M3 α) (v : V3 α) : V3 α := ⟨m.r1.dot v, m.r2.dot v, m.r3.dot v⟩

def M3.one : M3 α := ⟨⟨1, 0, 0⟩, ⟨0, 1, 0⟩, ⟨0, 0, 1⟩⟩
def M3.add (a b : M3 α) : M3 α := ⟨a.r1.add b.r1, a.r2.add b.r2, a.r3.add b.r3⟩
def M3.sub (a b : M3 α) : M3 α := ⟨a.r1.sub b.r1, a.r2.sub b.r2, a.r3.sub b.r3⟩
def M3.scale (k : α) (a : M3 α) : M3 α := ⟨a.r1.smul k, a.r2.smul k, a.r3.smul k⟩
/-- numpy `A @ B` -/
def M3.mul (a b : M3 α) : M3 α := ⟨a.r1.mulM b, a.r2.mulM b, a.r3.mulM b⟩
def M3.transpose (m : M3 α) : M3 α :=
  ⟨⟨m.r1.x, m.r2.x, m.r3.x⟩, ⟨m.r1.y, m.r2.y, m.r3.y⟩, ⟨m.r1.z, m.r2.z, m.r3.z⟩⟩
def M3.det (m : M3 α) : α := m.r1.dot (m.r2.cross m.r3)
/-- `np.outer(a, b)` -/
def outer (a b : V3 α) : M3 α := ⟨b.smul a.x, b.smul a.y, b.smul a.z⟩

/-- `R Rᵀ = I` -/
def M3.IsOrth (m : M3 α) : Prop := m.mul m.transpose = M3.one
/-- proper rotation: orthogonal with determinant +1 -/
def M3.IsRot (m : M3 α) : Prop := m.IsOrth ∧ m.det = 1

/-- squared distance -/
def dist2 (p q : V3 α) : α := (p.sub q).dot (p.sub q)
/-- signed volume spanned at `p` by `q, r, o` — its sign is the handedness of a stereocentre `p`
with substituents `q, r, o` -/
def triple (p q r o : V3 α) : α := (q.sub p).dot ((r.sub p).cross (o.sub p))

/-! ### rotation_matrix_from_axis -/

/-- `rotation_matrix_from_axis(axis, angle)` for the normalised axis `u` and `s = sin angle`,
`c = cos angle`:  `np.eye(3) + k1*W + k2*(W@W)` with `W = [[0,-az,ay],[az,0,-ax],[-ay,ax,0]]`. -/
def rotAxis (u : V3 α) (s c : α) : M3 α :=
  let w : M3 α := ⟨⟨0, -u.z, u.y⟩, ⟨u.z, 0, -u.x⟩, ⟨-u.y, u.x, 0⟩⟩
  let k2 : α := 1 - c
  (M3.one.add (w.scale s)).add ((w.mul w).scale k2)

/-! ### rotation_matrix_from_vectors -/

/-- General branch for unit vectors `a = v1n`, `b = v2n`, with `k` standing for `1/(1 + a·b)`:
`I + Ux + Ux @ Ux / (1 + c)`, `Ux = outer(v1n, v2n) - outer(v2n, v1n)`. -/
def rotVecK (a b : V3 α) (k : α) : M3 α :=
  let ux := (outer a b).sub (outer b a)
  (M3.one.add ux).add ((ux.mul ux).scale k)

/-- the general branch as the code computes it -/
def rotVec [Div α] (a b : V3 α) : M3 α := rotVecK a b (1 / (1 + a.dot b))

def absv [LE α] [DecidableLE α] (x : α) : α := if (0 : α) ≤ x then x else -x

/-- `np.argmin(np.abs(v))` : first index of a smallest |component| -/
def argminAbs [LE α] [DecidableLE α] (v : V3 α) : Fin 3 :=
  let ax := absv v.x; let ay := absv v.y; let az := absv v.z
  if ax ≤ ay then (if ax ≤ az then 0 else 2) else (if ay ≤ az then 1 else 2)

def basis (k : Fin 3) : V3 α :=
  match k with
  | 0 => ⟨1, 0, 0⟩
  | 1 => ⟨0, 1, 0⟩
  | 2 => ⟨0, 0, 1⟩

def V3.get (v : V3 α) (k : Fin 3) : α :=
  match k with
  | 0 => v.x
  | 1 => v.y
  | 2 => v.z

/-- Gram–Schmidt step of the antiparallel branch, `RV - v2n * dot(RV, v2n)` (not yet normalised) -/
def gramSchmidt (rv b : V3 α) : V3 α := rv.sub (b.smul (rv.dot b))

/-- repaired antiparallel branch: the helper vector is the coordinate axis least aligned with
`v2n`, orthogonalised against `v2n`; `n` is its norm (`n*n = 1 - b_k²`), by which the recursive
calls normalise it. -/
def orthoTo [LE α] [DecidableLE α] [Div α] (b : V3 α) (n : α) : V3 α :=
  (gramSchmidt (basis (argminAbs b)) b).smul (1 / n)

/-- The antiparallel branch: two general-branch rotations through a helper direction `o`
(`rotation_matrix_from_vectors(v1, ort) @ rotation_matrix_from_vectors(ort, v2)`). -/
def rotVecVia [Div α] (a o b : V3 α) : M3 α := (rotVec a o).mul (rotVec o b)

/-- `rotation_matrix_from_vectors(v1, v2, tol)` on normalised inputs `a = v1n`, `b = v2n`.
* `.repaired`: deterministic helper (`orthoTo b n`, `n` = norm of the un-normalised helper);
* `.asShipped`: the helper comes from the process-global `np.random` stream: `rv` is the
  (normalised) random vector that was drawn, `n` the norm of its Gram–Schmidt residue. -/
def rotVecFull [LE α] [DecidableLE α] [Div α] (v : Variant) (a b : V3 α) (tol : α)
    (n : α) (rv : V3 α) : M3 α :=
  if a.dot b ≤ -1 + tol then
    match v with
    | .repaired => rotVecVia a (orthoTo b n) b
    | .asShipped => rotVecVia a ((gramSchmidt rv b).smul (1 / n)) b
  else rotVec a b

/-! ### dihedral -/

/-- The two `arctan2` arguments of `CartesianGeometry.dihedral(a1,a2,a3,a4)`;
`l` stands for `np.linalg.norm(u2)`. -/
def dihedralPair (p1 p2 p3 p4 : V3 α) (l : α) : α × α :=
  let u1 := p2.sub p1
  let u2 := p3.sub p2
  let u3 := p4.sub p3
  let u2xu3 := u2.cross u3
  let u1xu2 := u1.cross u2
  (l * u1.dot u2xu3, u1xu2.dot u2xu3)

/-- (sin, cos) of the `rotation_angle` that `rotate_dihedral` feeds to `rotation_matrix_from_axis`,
from (sin, cos) of the current dihedral `φ` and of the target `τ`.
shipped: `target_angle - dihedral`;  repaired: `dihedral - target_angle` (coordinates are row
vectors, `coords @ R` turns them by minus the angle). -/
def dihedralRotation (v : Variant) (sφ cφ sτ cτ : α) : α × α :=
  match v with
  | .asShipped => (sτ * cφ - cτ * sφ, cτ * cφ + sτ * sφ)
  | .repaired => (sφ * cτ - cφ * sτ, cφ * cτ + sφ * sτ)

/-- `translate(-origin); transform(R); translate(origin)` on one point -/
def rotateAbout (origin : V3 α) (r : M3 α) (p : V3 α) : V3 α := ((p.sub origin).mulM r).add origin

/-! ### geometries as coordinate lists; substructure edits -/

/-- `Substructure.coords` setter after a row-wise edit `f` of the getter's value:
`parent.coords[idx] = f(parent.coords[idx])` — exactly the rows listed in `sel` change. -/
def updateSel (coords : List (V3 α)) (sel : List Nat) (f : V3 α → V3 α) : List (V3 α) :=
  coords.mapIdx (fun i p => if i ∈ sel then f p else p)

/-- the getter: `parent.coords[idx]` (fancy indexing, in the order of `sel`) -/
def gather (coords : List (V3 α)) (sel : List Nat) : List (V3 α) :=
  sel.filterMap (fun i => coords[i]?)

/-! ### substructure handles: rows are resolved at access time -/

/-- `Substructure.parent_atom_indices`: the rows which the handle's atoms (identities) occupy in the
parent's atom list NOW — looked up again at every `coords` access, so a handle created before the
parent was edited still addresses its own atoms. -/
def viewRows (atoms handle : List Nat) : List Nat := handle.filterMap (fun a => atoms.idxOf? a)

/-- a row-wise edit through a substructure handle, against the parent's current atom list -/
def viewEdit (atoms : List Nat) (coords : List (V3 α)) (handle : List Nat) (f : V3 α → V3 α) :
    List (V3 α) := updateSel coords (viewRows atoms handle) f

/-- NOT the code: a handle that froze its rows when it was created (against `atomsThen`) and
applies them to the parent's table as it is now — the subject of the counterexample. -/
def viewEditCached (atomsThen : List Nat) (coordsNow : List (V3 α)) (handle : List Nat)
    (f : V3 α → V3 α) : List (V3 α) := updateSel coordsNow (viewRows atomsThen handle) f

def translate (coords : List (V3 α)) (v : V3 α) : List (V3 α) := coords.map (·.add v)
def transform (coords : List (V3 α)) (r : M3 α) : List (V3 α) := coords.map (·.mulM r)

def vsum (l : List (V3 α)) : V3 α := l.foldr V3.add V3.zero

/-- `Structure.rotate_dihedral(atoms, target)`: `sel` = indices yielded by
`yield_bfs(atoms[1], atoms[2])`, `p2` = coordinates of `atoms[1]`, `u` = normalised
`vector(atoms[1], atoms[2])`, (sφ, cφ) / (sτ, cτ) = sin, cos of the current / target dihedral. -/
def rotateDihedral (v : Variant) (coords : List (V3 α)) (sel : List Nat) (p2 u : V3 α)
    (sφ cφ sτ cτ : α) : List (V3 α) :=
  let sc := dihedralRotation v sφ cφ sτ cτ
  updateSel coords sel (rotateAbout p2 (rotAxis u sc.1 sc.2))

end Algebra

section Field
variable {α : Type} [Add α] [Mul α] [Sub α] [Neg α] [OfNat α 0] [OfNat α 1] [Div α] [NatCast α]

/-- `np.average(coords, axis=0)` -/
def centroid (l : List (V3 α)) : V3 α := (vsum l).smul (1 / (l.length : α))

/-- `Substructure(...).centroid()` then `translate(-centroid)` on the whole geometry
(`center_at_core` for one conformer; first step of both `align_to_ref_coords`). -/
def centerAt (coords : List (V3 α)) (core : List Nat) : List (V3 α) :=
  translate coords (centroid (gather coords core)).neg

/-! ### ensembles (a list of conformers over one atom list) -/

/-- `ConformerEnsemble.translate(v)` with a 1-d vector -/
def ensTranslate1 (ens : List (List (V3 α))) (v : V3 α) : List (List (V3 α)) :=
  ens.map (translate · v)
/-- `ConformerEnsemble.translate(vs)` with one vector per conformer (2-d) -/
def ensTranslate2 (ens : List (List (V3 α))) (vs : List (V3 α)) : List (List (V3 α)) :=
  List.zipWith translate ens vs
/-- `ConformerEnsemble.rotate(R)` with one 3×3 matrix -/
def ensRotate1 (ens : List (List (V3 α))) (r : M3 α) : List (List (V3 α)) :=
  ens.map (transform · r)
/-- `ConformerEnsemble.rotate(Rs)` with a stack of matrices, one per conformer -/
def ensRotateN (ens : List (List (V3 α))) (rs : List (M3 α)) : List (List (V3 α)) :=
  List.zipWith transform ens rs
/-- `ConformerEnsemble.center_at_core(idx)` -/
def ensCenterAtCore (ens : List (List (V3 α))) (core : List Nat) : List (List (V3 α)) :=
  ens.map (centerAt · core)

/-! ### alignment -/

/-- The scan over the candidate index lists: keeps the first strictly smallest reported value,
starting from `smallest_rmsd = 100.0`, `optimal_rot_matrix = None`. -/
def bestFit [LT α] [DecidableLT α] (func : List (V3 α) → List (V3 α) → M3 α × α)
    (coords ref : List (V3 α)) :
    List (List Nat) → (α × Option (M3 α × List Nat)) → (α × Option (M3 α × List Nat))
  | [], acc => acc
  | idx :: rest, acc =>
    let fr := func (gather coords idx) ref
    if fr.2 < acc.1 then bestFit func coords ref rest (fr.2, some (fr.1, idx))
    else bestFit func coords ref rest acc

/-- `if vec is not None: self.translate(vec)` -/
def applyVec (coords : List (V3 α)) : Option (V3 α) → List (V3 α)
  | none => coords
  | some v => translate coords v

/-- `Molecule.align_to_ref_coords(func, substructure_indices, reference, vec)` (and the per-conformer
body of `ConformerEnsemble.align_to_ref_coords`).  Returns the new coordinates, the reported value
and the index list that won; `none` when no candidate reports less than `hundred` (the code then
fails on `coords @ None`). -/
def alignMol [LT α] [DecidableLT α] (func : List (V3 α) → List (V3 α) → M3 α × α)
    (hundred : α) (idxs : List (List Nat)) (ref : List (V3 α)) (vec : Option (V3 α))
    (coords : List (V3 α)) : Option (List (V3 α) × α × List Nat) :=
  let centred := centerAt coords (idxs.headD [])
  match bestFit func centred ref idxs (hundred, none) with
  | (_, none) => none
  | (r, some (rot, idx)) =>
    some (applyVec (transform centred rot) vec, r, idx)

end Field

end Molli.Model.Geom
