/-
mol2 writer and reader models (C07, C10; unit scaling for C08).

Code modelled (read line by line):
* `molli/parsing/_reader.py`   LineReader with `post = str.strip`, `put_back`
* `molli/parsing/mol2.py`      `read_mol2`: block grammar MOLECULE / ATOM / BOND / UNITY_*_ATTR / other,
                               count-driven record loops, status-line put-back, final unconditional yield
* `molli/chem/structure.py`    `yield_from_mol2` (blocks -> atoms, bonds, charges, unit scaling),
                               `Structure.dump_mol2`
* `molli/chem/molecule.py`     `Molecule.dump_mol2`

The reader model is the REPAIRED reader: the atom and bond lists are reset at every
`@<TRIPOS>MOLECULE` (defect D21: in the unrepaired code they leak into the next molecule).

Two stages, as in the code:  `readBlocks : lines -> blocks` (pure grammar, tokens stay text) and
`buildMol : block -> molecule` (numbers, typing tables, bond endpoints, charges, units).
`loadsAll` is `Molecule.loads_all_mol2` / `Structure.loads_all_mol2`: any exception anywhere makes the
whole call fail (`list(generator)`), so the result is `error` or the complete list.

Numbers: coordinate and charge tokens are `Num` (signed decimal `m·10^e`, or inf/nan) — `parseFloat` is
Python's `float(str)` grammar, `fmtFixed` is `format(x, '.Nf')` on the exact value (assumption A-dec).
Core Lean only.
-/
import Molli.Model.Text
import Molli.Model.Mol2Types
namespace Molli.Model.Mol2
open Molli.Model.Text Molli.Model.Mol2Types

/-! ### molecules as the writer sees them / as the reader builds them -/

structure AtomV where
  st : St                   -- element / atom type / geometry indices
  label : Str               -- "" for `None` or empty
  x : Num
  y : Num
  z : Num
  charge : Num
deriving DecidableEq, Repr

structure BondV where
  a1 : Nat                  -- 0-based indices into the atom list
  a2 : Nat
  btype : Nat               -- index into `list(BondType)`
deriving DecidableEq, Repr

structure MolV where
  name : Str
  atoms : List AtomV
  bonds : List BondV
deriving DecidableEq, Repr

inductive Kind | molecule | structure
deriving DecidableEq, Repr

/-! ### writer -/

section writer
variable (tt : TypeTable) (bt : BondTable)

def sp : Str := [' ']

/-- `label = a.label or a.element.symbol` -/
def labelTok (a : AtomV) : Str := if a.label = [] then strOf (tt.sym a.st.e) else a.label

/-- `atype = a.get_mol2_type() or a.element.symbol` -/
def typeTok (a : AtomV) : Str :=
  let t := tt.emitStr a.st
  if t = [] then strOf (tt.sym a.st.e) else t

def chargeTok (k : Kind) (a : AtomV) : Str :=
  match k with
  | .molecule => fmtFixed 3 (chargeOr0 a.charge)
  | .structure => "0.0".toList

/-- `f"{i+1:>6} {label:<3} {x:>12.6f} {y:>12.6f} {z:>12.6f} {atype:<10} 1 UNL1 {c:0.3f}"` -/
def atomLine (k : Kind) (i : Nat) (a : AtomV) : Str :=
  padLeft 6 (natStr (i + 1)) ++ sp ++ padRight 3 (labelTok tt a) ++ sp ++
  padLeft 12 (fmtFixed 6 a.x) ++ sp ++ padLeft 12 (fmtFixed 6 a.y) ++ sp ++ padLeft 12 (fmtFixed 6 a.z) ++ sp ++
  padRight 10 (typeTok tt a) ++ " 1 UNL1 ".toList ++ chargeTok k a

/-- `f"{i+1:>6} {a1+1:>6} {a2+1:>6} {btype:>3}"` (`>10` in `Structure.dump_mol2`) -/
def bondLine (k : Kind) (i : Nat) (b : BondV) : Str :=
  padLeft 6 (natStr (i + 1)) ++ sp ++ padLeft 6 (natStr (b.a1 + 1)) ++ sp ++ padLeft 6 (natStr (b.a2 + 1)) ++ sp ++
  padLeft (match k with | .molecule => 3 | .structure => 10) (bt.emitStr b.btype)

def mapIdxFrom {α β : Type} (f : Nat → α → β) : Nat → List α → List β
  | _, [] => []
  | i, a :: as => f i a :: mapIdxFrom f (i + 1) as

/-- the lines `dump_mol2` writes for one molecule -/
def writeLines (k : Kind) (m : MolV) : List Str :=
  [ "# Produced with molli package".toList,
    "@<TRIPOS>MOLECULE".toList,
    m.name,
    natStr m.atoms.length ++ sp ++ natStr m.bonds.length ++ " 0 0 0".toList,
    "SMALL".toList,
    "USER_CHARGES".toList,
    [],
    "@<TRIPOS>ATOM".toList ] ++
  mapIdxFrom (atomLine tt k) 0 m.atoms ++
  [ "@<TRIPOS>BOND".toList ] ++
  mapIdxFrom (bondLine bt k) 0 m.bonds

/-- `dumps_mol2()` -/
def writeText (k : Kind) (m : MolV) : Str := joinLines (writeLines tt bt k m)

/-- `ConformerEnsemble.dumps_mol2()`: the conformers one after the other -/
def writeTextMany (k : Kind) (ms : List MolV) : Str := joinLines (ms.flatMap (writeLines tt bt k))

end writer

/-! ### reader, stage 1: blocks -/

inductive Err
  | eof        -- `next(reader)` inside the generator at end of input
  | syntax     -- MOL2SyntaxError, wrong number of fields
  | value      -- int()/float() failed, unknown type token, index out of range, missing section
  | fuel       -- never returned (`readLoop_terminates`)
deriving DecidableEq, Repr

structure Header where
  name : Str
  molType : Str
  chrgType : Str
  nAtoms : Int
  nBonds : Option Int
deriving DecidableEq, Repr

/-- one ATOM / BOND record: its whitespace-separated fields and the UNITY attributes attached later -/
structure Rec where
  fields : List Str
  attrib : List (Str × Str)
deriving DecidableEq, Repr

structure Block where
  header : Header
  atoms : Option (List Rec)
  bonds : Option (List Rec)
deriving DecidableEq, Repr

def triposPrefix : Str := "@<TRIPOS>".toList

def isTagChar (c : Char) : Bool := ('A' ≤ c ∧ c ≤ 'Z') || c = '_'

/-- `RE_TRIPOS.match(line)`: the tag `[A-Z_]+` after `@<TRIPOS>` -/
def triposTag (line : Str) : Option Str :=
  if triposPrefix.isPrefixOf line then
    let tag := (line.drop 9).takeWhile isTagChar
    if tag = [] then none else some tag
  else none

/-- exactly `n` calls of `next(reader)` -/
def takeLines : Nat → List Str → Except Err (List Str × List Str)
  | 0, ls => .ok ([], ls)
  | _ + 1, [] => .error .eof
  | n + 1, l :: ls =>
    match takeLines n ls with
    | .ok (a, r) => .ok (l :: a, r)
    | .error e => .error e

def allSome {α : Type} : List (Option α) → Option (List α)
  | [] => some []
  | none :: _ => none
  | some a :: r => (allSome r).map (a :: ·)

/-- the record-count line: `list(map(int, line.split()))` matched against `[na] | [na, nb] | [na, nb, ns, *rest]`;
a negative count is a syntax error (REPAIRED behaviour, defect D56: the unrepaired reader accepts a header
that declares a negative number of bonds and returns a molecule with 0 bonds) -/
def parseCounts (s : Str) : Except Err (Int × Option Int) :=
  match allSome ((pySplit s).map parseInt) with
  | none => .error .value
  | some [] => .error .syntax
  | some [na] => if na < 0 then .error .syntax else .ok (na, none)
  | some (na :: nb :: _) => if na < 0 ∨ nb < 0 then .error .syntax else .ok (na, some nb)

/-- `MOL2Atom(*line.split(maxsplit=10))`: 5 to 11 positional fields -/
def atomRec (line : Str) : Except Err Rec :=
  let f := pySplitMax 10 line
  if 5 ≤ f.length then .ok ⟨f, []⟩ else .error .syntax

/-- `MOL2Bond(*line.split(maxsplit=5))`: 4 to 6 positional fields -/
def bondRec (line : Str) : Except Err Rec :=
  let f := pySplitMax 5 line
  if 4 ≤ f.length then .ok ⟨f, []⟩ else .error .syntax

def mapE {α β : Type} (f : α → Except Err β) : List α → Except Err (List β)
  | [] => .ok []
  | a :: as =>
    match f a with
    | .error e => .error e
    | .ok b => match mapE f as with
      | .error e => .error e
      | .ok bs => .ok (b :: bs)

/-- Python list indexing `l[i]` with negative wrap-around -/
def pyIndex (n : Nat) (i : Int) : Option Nat :=
  if 0 ≤ i then (if i.toNat < n then some i.toNat else none)
  else (if (-i).toNat ≤ n then some (n - (-i).toNat) else none)

/-- `d[k] = v` on an association list kept in insertion order -/
def dictSet (d : List (Str × Str)) (k v : Str) : List (Str × Str) :=
  if d.any (fun p => p.1 = k) then d.map (fun p => if p.1 = k then (k, v) else p) else d ++ [(k, v)]

def setAttr (recs : List Rec) (i : Nat) (k v : Str) : List Rec :=
  recs.mapIdx fun j r => if j = i then { r with attrib := dictSet r.attrib k v } else r

/-- `attr, value = next(reader).split()` for each of the `n` attribute lines of one record -/
def applyAttrs (recs : List Rec) (i : Nat) : List Str → Except Err (List Rec)
  | [] => .ok recs
  | l :: ls =>
    match pySplit l with
    | [k, v] => applyAttrs (setAttr recs i k v) i ls
    | _ => .error .syntax

/-- the `UNITY_ATOM_ATTR` / `UNITY_BOND_ATTR` loop: records `<index> <n_attr>` followed by `n_attr`
lines `<key> <value>`, until a line that matches `@<TRIPOS>…` (which is put back); running into the
end of the input raises. -/
def unityLoop : Nat → Option (List Rec) → List Str → Except Err (Option (List Rec) × List Str)
  | 0, _, _ => .error .fuel
  | _, _, [] => .error .eof
  | f + 1, recs, line :: ls =>
    if (triposTag line).isSome then .ok (recs, line :: ls)
    else
      match (pySplit line).map parseInt with
      | [some idx, some nattr] =>
        match takeLines nattr.toNat ls with
        | .error e => .error e
        | .ok (al, rest) =>
          if nattr.toNat = 0 then unityLoop f recs rest
          else
            match recs with
            | none => .error .value
            | some rs =>
              match pyIndex rs.length (idx - 1) with
              | none => .error .value
              | some i =>
                match applyAttrs rs i al with
                | .error e => .error e
                | .ok rs' => unityLoop f (some rs') rest
      | _ => .error .value

/-- reader state between lines -/
structure RSt where
  hdr : Option Header
  atoms : Option (List Rec)
  bonds : Option (List Rec)
  skip : Bool
deriving Repr

def RSt.init : RSt := ⟨none, none, none, false⟩

/-- the final `yield` / the `yield` at the next `@<TRIPOS>MOLECULE` -/
def flush (st : RSt) : List Block :=
  match st.hdr with
  | some h => [⟨h, st.atoms, st.bonds⟩]
  | none => []

/-- At end of input `read_mol2` yields unconditionally, also when no header was ever read
(`MOL2Block(None, None, None)`, on which `yield_from_mol2` raises `AttributeError`). -/
def flushFinal (st : RSt) : Except Err (List Block) :=
  match st.hdr with
  | some h => .ok [⟨h, st.atoms, st.bonds⟩]
  | none => .error .value

def star4 : Str := "****".toList

/-- the main loop of `read_mol2` on stripped lines -/
def readLoop : Nat → RSt → List Str → Except Err (List Block)
  | 0, _, _ => .error .fuel
  | _, st, [] => flushFinal st
  | f + 1, st, line :: ls =>
    if line = [] then readLoop f st ls
    else if line.head? = some '#' then readLoop f st ls
    else
      match triposTag line with
      | some tag =>
        if tag = "MOLECULE".toList then
          match takeLines 5 ls with
          | .error e => .error e
          | .ok (h5, rest) =>
            match h5 with
            | [nm, cnt, ty, ch, status] =>
              match parseCounts cnt with
              | .error e => .error e
              | .ok (na, nb) =>
                let rest'? : Except Err (List Str) :=
                  if (triposTag status).isSome then .ok (status :: rest)
                  else if status = star4 then
                    (match rest with | [] => .error .eof | _ :: r => .ok r)
                  else .ok rest
                match rest'? with
                | .error e => .error e
                | .ok rest' =>
                  match readLoop f ⟨some ⟨nm, ty, ch, na, nb⟩, none, none, false⟩ rest' with
                  | .error e => .error e
                  | .ok more => .ok (flush st ++ more)
            | _ => .error .syntax
        else if tag = "ATOM".toList then
          match st.hdr with
          | none => .error .value
          | some h =>
            match takeLines h.nAtoms.toNat ls with
            | .error e => .error e
            | .ok (al, rest) =>
              match mapE atomRec al with
              | .error e => .error e
              | .ok recs => readLoop f { st with atoms := some recs, skip := false } rest
        else if tag = "BOND".toList then
          match st.hdr with
          | none => .error .value
          | some h =>
            match h.nBonds with
            | none => .error .value
            | some nb =>
              match takeLines nb.toNat ls with
              | .error e => .error e
              | .ok (bl, rest) =>
                match mapE bondRec bl with
                | .error e => .error e
                | .ok recs => readLoop f { st with bonds := some recs, skip := false } rest
        else if tag = "UNITY_ATOM_ATTR".toList then
          match unityLoop (ls.length + 1) st.atoms ls with
          | .error e => .error e
          | .ok (atoms', rest) => readLoop f { st with atoms := atoms', skip := false } rest
        else if tag = "UNITY_BOND_ATTR".toList then
          match unityLoop (ls.length + 1) st.bonds ls with
          | .error e => .error e
          | .ok (bonds', rest) => readLoop f { st with bonds := bonds', skip := false } rest
        else readLoop f { st with skip := true } ls
      | none => if st.skip then readLoop f st ls else .error .syntax

/-- `read_mol2(StringIO(text))`, fully consumed -/
def readBlocks (text : Str) : Except Err (List Block) :=
  let ls := (splitLines text).map pyStrip
  readLoop (ls.length + 1) RSt.init ls

/-! ### reader, stage 2: molecules -/

section build
variable (tt : TypeTable) (bt : BondTable)

def fieldAt (r : Rec) (i : Nat) : Except Err Str :=
  match r.fields[i]? with
  | some s => .ok s
  | none => .error .value

def floatField (r : Rec) (i : Nat) : Except Err Num :=
  match fieldAt r i with
  | .error e => .error e
  | .ok s => match parseFloat s with
    | some x => .ok x
    | none => .error .value

def dictGet (d : List (Str × Str)) (k : Str) : Option Str :=
  match d.find? (fun p => p.1 = k) with
  | some p => some p.2
  | none => none

/-- atom `i` of `yield_from_mol2`: coordinates, type, label, and the `charge` attribute check -/
def buildAtom (withCharges : Bool) (r : Rec) : Except Err AtomV :=
  match floatField r 2, floatField r 3, floatField r 4 with
  | .ok x, .ok y, .ok z =>
    match fieldAt r 5 with
    | .error e => .error e
    | .ok ty =>
      match tt.acceptStr ty with
      | none => .error .value
      | some st =>
        let lab := r.fields.getD 1 []
        -- `if chrg := a.attrib.pop("charge", None): formal_charge = int(chrg)`
        let fcOk : Bool := match dictGet r.attrib "charge".toList with
          | some c => c = [] || (parseInt c).isSome
          | none => true
        if !fcOk then .error .value
        else if withCharges then
          match floatField r 8 with
          | .ok c => .ok ⟨st, lab, x, y, z, c⟩
          | .error e => .error e
        else .ok ⟨st, lab, x, y, z, .fin false 0 0⟩
  | _, _, _ => .error .value

def intField (r : Rec) (i : Nat) : Except Err Int :=
  match fieldAt r i with
  | .error e => .error e
  | .ok s => match parseInt s with
    | some x => .ok x
    | none => .error .value

def buildBond (n : Nat) (r : Rec) : Except Err BondV :=
  match intField r 1, intField r 2, fieldAt r 3 with
  | .ok a1, .ok a2, .ok ty =>
    match pyIndex n (a1 - 1), pyIndex n (a2 - 1), bt.acceptStr ty with
    | some i, some j, some b => .ok ⟨i, j, b⟩
    | _, _, _ => .error .value
  | _, _, _ => .error .value

def noCharges : Str := "NO_CHARGES".toList

/-- one block of `yield_from_mol2(cls, text, name)`; `k` is the class (`Structure` has no charges) -/
def buildMol (k : Kind) (name : Option Str) (b : Block) : Except Err MolV :=
  if b.header.nAtoms < 0 then .error .value
  else
    match b.atoms, b.bonds with
    | some as, some bs =>
      let withCharges := k = .molecule ∧ b.header.chrgType ≠ noCharges
      match mapE (buildAtom tt withCharges) as with
      | .error e => .error e
      | .ok atoms =>
        match mapE (buildBond bt atoms.length) bs with
        | .error e => .error e
        | .ok bonds =>
          -- `name or block.header.name`
          let nm := match name with
            | some n => if n = [] then b.header.name else n
            | none => b.header.name
          .ok ⟨nm, atoms, bonds⟩
    | _, _ => .error .value

/-- `cls.loads_all_mol2(text, name=…)` -/
def loadsAll (k : Kind) (name : Option Str) (text : Str) : Except Err (List MolV) :=
  match readBlocks text with
  | .error e => .error e
  | .ok bs => mapE (buildMol tt bt k name) bs

/-- what `yield_from_mol2` stores on an atom besides the fields of `AtomV`: the formal charge taken from the
UNITY attribute `charge` (`if chrg := a.attrib.pop("charge", None): formal_charge = int(chrg)`) and the remaining
attributes (`atom.attrib = a.attrib`) -/
def atomExtra (r : Rec) : Int × List (Str × Str) :=
  let fc : Int := match dictGet r.attrib "charge".toList with
    | some c => if c = [] then 0 else (parseInt c).getD 0
    | none => 0
  (fc, r.attrib.filter (fun p => p.1 ≠ "charge".toList))

/-- formal charges / attributes of the atoms and attributes of the bonds of one block -/
def blockExtras (b : Block) : List (Int × List (Str × Str)) × List (List (Str × Str)) :=
  ((b.atoms.getD []).map atomExtra, (b.bonds.getD []).map (·.attrib))

/-- `loadsAll` together with every further field the reader fills -/
def loadsAllEx (k : Kind) (name : Option Str) (text : Str) :
    Except Err (List (MolV × List (Int × List (Str × Str)) × List (List (Str × Str)))) :=
  match readBlocks text with
  | .error e => .error e
  | .ok bs => mapE (fun b => match buildMol tt bt k name b with
      | .ok m => .ok (m, blockExtras b)
      | .error e => .error e) bs

end build

end Molli.Model.Mol2
