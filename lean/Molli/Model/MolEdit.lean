/-
Model of the structure-editing operations of molli (`molli/chem/atom.py` Promolecule,
`bond.py` Connectivity, `geometry.py` CartesianGeometry, `structure.py` Structure,
`molecule.py` Molecule) for property C05.  Core Lean only.

A molecule is four parallel containers (`_atoms`, `_coords`, `_atomic_charges`, `_bonds`).
Coordinate rows and charges carry a *ghost tag*: the identity of the atom they were given to.
The code never sees the tags; they exist so that "each atom keeps the coordinate / charge it was
given" is the statement `tags = atom identities, position by position`.

Identities.  Atom objects handed in from outside are `ext n`; objects the library creates itself
(`new_atom`, the attachment point of `remove_substituent`, hydrogens, every `Bond` object) get the
serial number `next` of the molecule state (`own n`), which is advanced by a fixed amount per
operation, so that the harness can number the real objects without seeing the model's answers.

Python semantics kept: `list.index`/`list.remove` = first position whose element is the object;
`get_atom` (negative indices allowed, `Element` before `int`) versus `get_atom_index`
(`0 <= i < n`); the cooperative `del_atom` chain resolves the index for the charges first
(Molecule), the atom object next (Structure), the coordinate row from the object
(CartesianGeometry), then bonds and atom list (Connectivity, Promolecule).
The model describes the code after the repairs D07 (charge `None` stored as 0), D08 (adopted atoms
get a NaN row and a zero charge), D09 (`get_atom_index(Element)`), and after the three repairs
found while building this check (see design_notes/C05.md): `del_bond`/`index_bond` by identity,
`add_atom` validating the coordinate before appending, `append_atom` refusing an atom that is
already a member.
-/
namespace Molli.Model.MolEdit

inductive AtomId
  | ext (n : Nat)
  | own (n : Nat)
  deriving DecidableEq, Repr, Inhabited

inductive Kind
  | structure
  | molecule
  deriving DecidableEq, Repr, Inhabited

/-- What an `Atom` object carries that the editing routines look at. `label = none` is Python `None`. -/
structure AtomSpec where
  id : AtomId
  elem : Nat
  label : Option Nat
  deriving DecidableEq, Repr, Inhabited

structure Atom where
  id : AtomId
  elem : Nat
  label : Option Nat
  /-- `a.parent is mol` -/
  parentOk : Bool
  deriving DecidableEq, Repr, Inhabited

structure Bond where
  id : Nat
  a1 : AtomId
  a2 : AtomId
  /-- `b.parent is mol` -/
  parentOk : Bool
  deriving DecidableEq, Repr, Inhabited

/-- payload code of the NaN coordinate row given to an atom that arrives with a bond -/
def nanRow : Nat := 0
/-- payload code of the partial charge 0.0 -/
def zeroCharge : Nat := 0

structure Mol where
  kind : Kind
  atoms : List Atom
  bonds : List Bond
  /-- `_coords`: (ghost tag, payload code of the row) -/
  rows : List (AtomId × Nat)
  /-- `_atomic_charges`: (ghost tag, payload code; `none` = Python `None`, dtype object).
      For a `Structure` (no charges) the list is a ghost that is never observed. -/
  charges : List (AtomId × Option Nat)
  /-- serial number of the next object the library creates -/
  next : Nat
  deriving DecidableEq, Repr, Inhabited

def Mol.ids (m : Mol) : List AtomId := m.atoms.map (·.id)

/-- how an atom is addressed (`AtomLike`): object, index, label, element -/
inductive Ref
  | obj (a : AtomId)
  | idx (i : Int)
  | label (l : Nat)
  | elem (e : Nat)
  deriving DecidableEq, Repr, Inhabited

inductive Op
  /-- `mol.add_atom(a, coord, charge)` with an atom object made by the caller -/
  | addAtom (a : AtomSpec) (coord : Nat) (charge : Option Nat)
  /-- `mol.add_atom(a, coord)` with a coordinate that is not of shape (3,) -/
  | addAtomBad (a : AtomSpec)
  /-- `mol.new_atom(element, label=…, coord=…)` -/
  | newAtom (elem : Nat) (label : Option Nat) (coord : Nat)
  | delAtom (r : Ref)
  | connect (r1 r2 : Ref)
  /-- `mol.append_bond(Bond(x, y))` with a freshly made bond between arbitrary atom objects -/
  | appendBond (x y : AtomSpec)
  /-- `mol.append_bonds(Bond(x1, y1), …)` -/
  | appendBonds (l : List (AtomSpec × AtomSpec))
  | delBond (b : Nat)
  | removeSubstituent (r1 r2 : Ref) (apLabel : Option Nat)
  /-- `mol.add_implicit_hydrogens(…)`: the hydrogens that the routine decided to add (property C16),
      as (heavy atom, coordinate payload) in the order they were added -/
  | addHydrogens (hs : List (AtomId × Nat))
  /-- `mol.append_bond(b)` with a bond OBJECT that exists already (number `b`, ends `x`, `y`) — typically a stale handle:
      a bond deleted earlier in the history, whose ends may themselves have been deleted.  Refused if `b` is in the molecule. -/
  | appendBondObj (b : Nat) (x y : AtomSpec)
  /-- `mol.append_bonds(b1, …)` / `mol.extend_bonds([b1, …])` with existing bond objects: refused as a whole if one of
      them is in the molecule or occurs twice in the call -/
  | appendBondObjs (l : List (Nat × AtomSpec × AtomSpec))
  /-- `mol.substructure(refs)` / `Substructure(mol, refs)`: a view that holds the atom objects the references
      address now (the molecule is not changed) -/
  | mkView (refs : List Ref)
  /-- `view.coords` of a view holding `atoms`: defined iff all of them are still in the molecule (no change) -/
  | viewRead (atoms : List AtomId)
  /-- `mol.atomic_charges = array`: every atom is given a new partial charge, by position (refused if the length is wrong) -/
  | chargeWrite (payloads : List Nat)
  /-- an edit made THROUGH a `Substructure` that concerns only the view's own lists (`view.del_bond(b)`, `view.append_bond(b)`,
      `view.connect(i, j)`, and the calls that are not defined on a view and raise): the molecule is not changed -/
  | viewLocal
  /-- `view.coords = X` / `view.translate(v)` / `view.transform(R)` …: the rows of the view's atoms, located when the
      access is made, are overwritten with `payloads` (the new coordinates, atom by atom) -/
  | viewWrite (atoms : List AtomId) (payloads : List Nat)
  deriving Repr, Inhabited

inductive Out
  | ok
  | err
  deriving DecidableEq, Repr, Inhabited

/-! ### lookups -/

/-- `list.index(a)` on the atom list: first position holding the object -/
def idxOfId (ids : List AtomId) (a : AtomId) : Nat := ids.idxOf a

/-- Python list indexing `l[i]` with negative indices -/
def pyIndex (n : Nat) (i : Int) : Option Nat :=
  if 0 ≤ i then (if i.toNat < n then some i.toNat else none)
  else (if (-i).toNat ≤ n then some (n - (-i).toNat) else none)

/-- `Promolecule.get_atom` : the atom object addressed by `r` -/
def resolveAtom (atoms : List Atom) : Ref → Option AtomId
  | .obj a => if a ∈ atoms.map (·.id) then some a else none
  | .idx i => (pyIndex atoms.length i).bind (fun k => (atoms[k]?).map (·.id))
  | .label l => (atoms.find? (fun x => x.label == some l)).map (·.id)
  | .elem e => (atoms.find? (fun x => x.elem == e)).map (·.id)

/-- `Promolecule.get_atom_index` (after repair D09: an `Element` is looked up as an element) -/
def resolveIndex (atoms : List Atom) : Ref → Option Nat
  | .obj a => if a ∈ atoms.map (·.id) then some (idxOfId (atoms.map (·.id)) a) else none
  | .idx i => if 0 ≤ i ∧ i.toNat < atoms.length then some i.toNat else none
  | .label l => (atoms.find? (fun x => x.label == some l)).map (fun x => idxOfId (atoms.map (·.id)) x.id)
  | .elem e => (atoms.find? (fun x => x.elem == e)).map (fun x => idxOfId (atoms.map (·.id)) x.id)

def rowOf (m : Mol) (a : AtomId) : Option Nat := (m.rows.find? (fun r => r.1 == a)).map (·.2)
def chargeOf (m : Mol) (a : AtomId) : Option (Option Nat) := (m.charges.find? (fun r => r.1 == a)).map (·.2)

/-! ### primitive edits -/

def mkAtom (s : AtomSpec) : Atom := { id := s.id, elem := s.elem, label := s.label, parentOk := true }

/-- `own n` objects handed in from outside must not collide with later serial numbers -/
def bump (next : Nat) : AtomId → Nat
  | .own n => max next (n + 1)
  | .ext _ => next

/-- `Molecule.add_atom` body after the membership test: atom, row and charge are appended together -/
def pushAtom (m : Mol) (s : AtomSpec) (coord : Nat) (charge : Option Nat) : Mol :=
  { m with atoms := m.atoms ++ [mkAtom s],
           rows := m.rows ++ [(s.id, coord)],
           charges := m.charges ++ [(s.id, some (charge.getD zeroCharge))],
           next := bump m.next s.id }

/-- `Molecule.append_atom` (repair D08): an atom that arrives with a bond gets a NaN row and a zero charge -/
def adopt (m : Mol) (s : AtomSpec) : Mol :=
  if s.id ∈ m.ids then m else pushAtom m s nanRow none

/-- `Connectivity.append_bond(Bond(x, y))`, the bond object being number `bid` -/
def pushBond (m : Mol) (bid : Nat) (x y : AtomSpec) : Mol :=
  let m1 := { m with bonds := m.bonds ++ [{ id := bid, a1 := x.id, a2 := y.id, parentOk := true }] }
  adopt (adopt m1 x) y

def incident (a : AtomId) (b : Bond) : Bool := b.a1 == a || b.a2 == a

/-- the `del_atom` chain once the charge index `i` and the atom object `a` are resolved -/
def delAt (m : Mol) (i : Nat) (a : AtomId) : Mol :=
  let ai := idxOfId m.ids a
  { m with rows := m.rows.eraseIdx ai,
           bonds := m.bonds.filter (fun b => !incident a b),
           atoms := m.atoms.eraseIdx ai,
           charges := m.charges.eraseIdx i }

def delAtom (m : Mol) (r : Ref) : Mol × Out :=
  match m.kind with
  | .molecule =>
    match resolveIndex m.atoms r with
    | none => (m, .err)
    | some i =>
      match resolveAtom m.atoms r with
      | none => (m, .err)
      | some a => (delAt m i a, .ok)
  | .structure =>
    match resolveAtom m.atoms r with
    | none => (m, .err)
    | some a => (delAt m (idxOfId m.ids a) a, .ok)

/-- `del_atom(a)` for an atom object yielded by a traversal -/
def delObj (m : Mol) (a : AtomId) : Mol := (delAtom m (.obj a)).1

/-! ### neighbours and the substituent of `remove_substituent` -/

def nbrs (bonds : List Bond) (a : AtomId) : List AtomId :=
  bonds.filterMap (fun b => if b.a1 == a then some b.a2 else if b.a2 == a then some b.a1 else none)

/-- one round of the traversal: add the unvisited neighbours of everything found so far, never `blocked` -/
def grow (bonds : List Bond) (blocked : AtomId) (found : List AtomId) : List AtomId :=
  (found.flatMap (nbrs bonds)).foldl (fun acc x => if x == blocked || x ∈ acc then acc else acc ++ [x]) found

def growN (bonds : List Bond) (blocked : AtomId) : Nat → List AtomId → List AtomId
  | 0, found => found
  | k + 1, found => growN bonds blocked k (grow bonds blocked found)

/-- the atoms `yield_bfs(a1, a2)` yields (as a set; deletion does not depend on the order) -/
def substituent (m : Mol) (a1 a2 : AtomId) : List AtomId :=
  growN m.bonds a1 m.atoms.length [a2]

/-! ### views: a `Substructure` holds atom objects; rows are located at access time -/

/-- the atom objects a new view holds -/
def resolveView (m : Mol) : List Ref → Option (List AtomId)
  | [] => some []
  | r :: rs =>
    match resolveAtom m.atoms r, resolveView m rs with
    | some a, some as => some (a :: as)
    | _, _ => none

/-- `parent_atom_indices`: `parent.get_atom_index(a)` for every atom of the view, at the time of the access -/
def viewIndices (m : Mol) : List AtomId → Option (List Nat)
  | [] => some []
  | a :: as =>
    match resolveIndex m.atoms (.obj a), viewIndices m as with
    | some i, some is => some (i :: is)
    | _, _ => none

def rowsAt (rows : List (AtomId × Nat)) : List Nat → Option (List Nat)
  | [] => some []
  | i :: is =>
    match rows[i]?, rowsAt rows is with
    | some r, some ps => some (r.2 :: ps)
    | _, _ => none

/-- `view.coords`: the payloads of the rows `parent.coords[parent_atom_indices]` -/
def viewRows (m : Mol) (atoms : List AtomId) : Option (List Nat) :=
  (viewIndices m atoms).bind (rowsAt m.rows)

/-- `parent.coords[indices] = X`: row `i_k` receives `X[k]` (given to the atom `a_k` the view holds at position `k`);
with a repeated index the last assignment wins -/
def writeRows (rows : List (AtomId × Nat)) : List Nat → List AtomId → List Nat → List (AtomId × Nat)
  | i :: is, a :: as, p :: ps => writeRows (rows.set i (a, p)) is as ps
  | _, _, _ => rows

/-! ### the step function -/

def step (m : Mol) : Op → Mol × Out
  | .addAtom s coord charge =>
    if s.id ∈ m.ids then (m, .err) else (pushAtom m s coord charge, .ok)
  | .addAtomBad _ => (m, .err)
  | .newAtom e l coord =>
    (pushAtom { m with next := m.next + 1 } { id := .own m.next, elem := e, label := l } coord none, .ok)
  | .delAtom r => delAtom m r
  | .connect r1 r2 =>
    let m0 := { m with next := m.next + 1 }
    match resolveAtom m.atoms r1, resolveAtom m.atoms r2 with
    | some x, some y =>
      ({ m0 with bonds := m.bonds ++ [{ id := m.next, a1 := x, a2 := y, parentOk := true }] }, .ok)
    | _, _ => (m0, .err)
  | .appendBond x y => (pushBond { m with next := m.next + 1 } m.next x y, .ok)
  | .appendBonds l =>
    (l.foldl (fun acc p => pushBond { acc with next := acc.next + 1 } acc.next p.1 p.2) m, .ok)
  | .delBond b =>
    if b ∈ m.bonds.map (·.id) then ({ m with bonds := m.bonds.filter (fun x => x.id != b) }, .ok) else (m, .err)
  | .removeSubstituent r1 r2 apLabel =>
    let m0 := { m with next := m.next + 2 }
    -- c2 = self.get_atom_coord(a2)
    match resolveIndex m.atoms r2 with
    | none => (m0, .err)
    | some i2 =>
      match m.rows[i2]? with
      | none => (m0, .err)
      | some row2 =>
        -- yield_bfs(a1, a2): both must resolve, a2 must be bonded to a1
        match resolveAtom m.atoms r1, resolveAtom m.atoms r2 with
        | some a1, some a2 =>
          if a2 ∈ nbrs m.bonds a1 then
            let m1 := (substituent m a1 a2).foldl delObj m0
            let ap : AtomSpec := { id := .own m.next, elem := 0, label := apLabel }
            let m2 := pushAtom m1 ap row2.2 none
            -- self.connect(a1, a): `a1` is resolved again, in the edited molecule
            match resolveAtom m2.atoms r1 with
            | some x =>
              ({ m2 with bonds := m2.bonds ++ [{ id := m.next + 1, a1 := x, a2 := ap.id, parentOk := true }] }, .ok)
            | none => (m2, .err)
          else (m0, .err)
        | _, _ => (m0, .err)
  | .addHydrogens hs =>
    (hs.foldl (fun acc h =>
        let acc0 := { acc with next := acc.next + 2 }
        if h.1 ∈ acc.ids then
          -- self.add_atom(newh, coord); self.append_bond(Bond(a, newh))
          let acc1 := pushAtom acc0 { id := .own acc.next, elem := 1, label := none } h.2 none
          { acc1 with bonds := acc1.bonds ++ [{ id := acc.next + 1, a1 := h.1, a2 := .own acc.next, parentOk := true }] }
        else acc0) m, .ok)
  | .appendBondObj b x y =>
    if b ∈ m.bonds.map (·.id) then (m, .err)
    else (pushBond { m with next := max m.next (b + 1) } b x y, .ok)
  | .appendBondObjs l =>
    if (∀ p ∈ l, p.1 ∉ m.bonds.map (·.id)) ∧ (l.map (·.1)).Nodup then
      (l.foldl (fun acc p => pushBond { acc with next := max acc.next (p.1 + 1) } p.1 p.2.1 p.2.2) m, .ok)
    else (m, .err)
  | .chargeWrite ps =>
    if ps.length = m.atoms.length then
      ({ m with charges := List.zipWith (fun a p => (a.id, some p)) m.atoms ps }, .ok)
    else (m, .err)
  | .viewLocal => (m, .ok)
  | .mkView refs => (m, if (resolveView m refs).isSome then .ok else .err)
  | .viewRead atoms => (m, if (viewRows m atoms).isSome then .ok else .err)
  | .viewWrite atoms payloads =>
    match viewIndices m atoms with
    | none => (m, .err)
    | some is =>
      if payloads.length = atoms.length then ({ m with rows := writeRows m.rows is atoms payloads }, .ok) else (m, .err)

def run (m : Mol) (ops : List Op) : Mol := ops.foldl (fun acc o => (step acc o).1) m

/-! ### initial states -/

def emptyMol (k : Kind) : Mol := { kind := k, atoms := [], bonds := [], rows := [], charges := [], next := 0 }

/-- One atom of a file or of a source molecule: element, label, coordinate payload, charge payload. -/
structure LoadAtom where
  elem : Nat
  label : Option Nat
  coord : Nat
  charge : Nat
  deriving DecidableEq, Repr, Inhabited

/-- A molecule as the readers and the copy constructor build it: the constructor makes the atoms
(`own 0 …`), coordinates and charges are assigned by position, then one bond object per entry is
appended between atoms addressed by position (an entry addressing a missing atom raises in the
reader; here it is skipped). -/
def loaded (k : Kind) (specs : List LoadAtom) (bonds : List (Nat × Nat)) : Mol :=
  let m := specs.foldl (fun acc s =>
      pushAtom { acc with next := acc.next + 1 } { id := .own acc.next, elem := s.elem, label := s.label }
        s.coord (some s.charge)) (emptyMol k)
  bonds.foldl (fun acc p => (step acc (.connect (.idx (Int.ofNat p.1)) (.idx (Int.ofNat p.2)))).1) m

/-- The copy constructor seen from the editing side: a new molecule built from the observable
content of `m` (elements, labels, coordinate and charge payloads by position, bonds by the positions
of their ends) — new atom and bond objects throughout. -/
def cloneOf (m : Mol) : Mol :=
  loaded m.kind
    ((m.atoms.zip (m.rows.zip m.charges)).map (fun x =>
      { elem := x.1.elem, label := x.1.label, coord := x.2.1.2, charge := x.2.2.2.getD zeroCharge }))
    (m.bonds.map (fun b => (idxOfId m.ids b.a1, idxOfId m.ids b.a2)))

/-! ### the invariant, as an executable check (the propositional form is in `Lemmas/MolEdit.lean`) -/

def ownBelow (next : Nat) : AtomId → Bool
  | .own n => n < next
  | .ext _ => true

def invB (m : Mol) : Bool :=
  m.rows.map (·.1) == m.ids && m.charges.map (·.1) == m.ids
  && m.charges.all (fun c => c.2.isSome)
  && decide m.ids.Nodup
  && m.bonds.all (fun b => decide (b.a1 ∈ m.ids) && decide (b.a2 ∈ m.ids))
  && decide (m.bonds.map (·.id)).Nodup
  && m.atoms.all (·.parentOk) && m.bonds.all (·.parentOk)
  && m.ids.all (ownBelow m.next) && m.bonds.all (fun b => decide (b.id < m.next))

end Molli.Model.MolEdit
