/-
A small heap model for property C06 (copies are faithful and independent).  Core Lean only.

Every *mutable* Python object that a molecule owns has an identity (`Nat`): the molecule object, its
attribute dictionary and every container nested in it, the atom list, every atom and its attribute
dictionary (and nested containers), the bond list, every bond (…), every numpy array.  The heap is
kept in *named-tree* form: an object is written down where it is owned, together with its identity;
two places that hold the same Python object carry the same `Nat`.  A mutation addresses an object by
its identity and changes every place that holds it (that is what sharing means).

  reach o      the identities of all mutable objects reachable from `o`
  observe o    the deep structural snapshot of the property: everything but the identities
               (parents are observed as "is the molecule itself", bond ends as positions)
  applyMut μ   the effect of one mutation on an object graph
  deepCopy / concat / join     the copy routes as functions that allocate new identities from a counter

`Flags` switch on the behaviours of the unrepaired routines (D10 D11/D13 D12 D14); the routes of the
repaired code are the ones with all flags off.
-/
namespace Molli.Model.Heap

/-- object identities are natural numbers (allocated from a counter) -/
abbrev Oid := Nat

/-- The entries of one container (dict, list, set …): scalars and nested containers.
`cont key tag id inner rest`: under `key` there is a container object `id` of Python type `tag`
with entries `inner`.  (First-child / next-sibling form: a plain inductive type, any depth and width.) -/
inductive Ents
  | nil
  | scalar (key : Int) (v : Int) (rest : Ents)
  | cont (key : Int) (tag : Nat) (id : Nat) (inner : Ents) (rest : Ents)
  deriving DecidableEq, Repr, Inhabited

namespace Ents

def ids : Ents → List Nat
  | .nil => []
  | .scalar _ _ r => r.ids
  | .cont _ _ i inner r => i :: (inner.ids ++ r.ids)

/-- number of container objects -/
def size : Ents → Nat
  | .nil => 0
  | .scalar _ _ r => r.size
  | .cont _ _ _ inner r => 1 + inner.size + r.size

/-- the observation: identities erased -/
def strip : Ents → Ents
  | .nil => .nil
  | .scalar k v r => .scalar k v r.strip
  | .cont k t _ inner r => .cont k t 0 inner.strip r.strip

/-- deep copy: every container becomes a new object, numbered from `n` in preorder -/
def renum (n : Nat) : Ents → Ents
  | .nil => .nil
  | .scalar k v r => .scalar k v (renum n r)
  | .cont k t _ inner r => .cont k t n (renum (n + 1) inner) (renum (n + 1 + inner.size) r)

/-- `container[k] = v` on every place that holds the container object `target` -/
def poke (target : Nat) (k v : Int) : Ents → Ents
  | .nil => .nil
  | .scalar k' v' r => .scalar k' v' (poke target k v r)
  | .cont k' t i inner r =>
    let inner' := poke target k v inner
    .cont k' t i (if i = target then .scalar k v inner' else inner') (poke target k v r)

/-- `d1 | d2` for dictionaries without common keys: the entries of `e2` follow those of `e1` -/
def append : Ents → Ents → Ents
  | .nil, e => e
  | .scalar k v r, e => .scalar k v (append r e)
  | .cont k t i inner r, e => .cont k t i inner (append r e)

end Ents

/-- an attribute dictionary object with its content -/
structure Box where
  id : Nat
  ents : Ents
  deriving DecidableEq, Repr, Inhabited

namespace Box
def ids (b : Box) : List Nat := b.id :: b.ents.ids
def size (b : Box) : Nat := 1 + b.ents.size
def renum (n : Nat) (b : Box) : Box := { id := n, ents := b.ents.renum (n + 1) }
def poke (target : Nat) (k v : Int) (b : Box) : Box :=
  let e := b.ents.poke target k v
  { b with ents := if b.id = target then .scalar k v e else e }
end Box

structure AtomO where
  id : Nat
  /-- element, isotope, label, atype, stereo, geom, formal charge, formal spin (as codes) -/
  fields : List Int
  attrib : Box
  /-- `_parent`: `none` = slot not set / `None` -/
  parent : Option Nat
  deriving DecidableEq, Repr, Inhabited

structure BondO where
  id : Nat
  a1 : Nat
  a2 : Nat
  fields : List Int
  attrib : Box
  parent : Option Nat
  deriving DecidableEq, Repr, Inhabited

structure Arr where
  id : Nat
  data : List Int
  deriving DecidableEq, Repr, Inhabited

/-- A molecule-like object of any of the classes. `arrays`: coordinates, partial charges, weights —
as many as the class has (Promolecule, Connectivity: none; CartesianGeometry, Structure: coords;
Molecule: coords, charges; ConformerEnsemble: coords, charges, weights). -/
structure MolO where
  id : Nat
  cls : Nat
  /-- name, charge, mult -/
  scalars : List Int
  attrib : Box
  atomsId : Nat
  atoms : List AtomO
  bondsId : Nat
  bonds : List BondO
  arrays : List Arr
  deriving DecidableEq, Repr, Inhabited

def AtomO.reach (a : AtomO) : List Nat := a.id :: a.attrib.ids
def BondO.reach (b : BondO) : List Nat := b.id :: b.attrib.ids
def AtomO.size (a : AtomO) : Nat := 1 + a.attrib.size
def BondO.size (b : BondO) : Nat := 1 + b.attrib.size

def atomsSize (l : List AtomO) : Nat := (l.map AtomO.size).sum
def bondsSize (l : List BondO) : Nat := (l.map BondO.size).sum

def MolO.reach (o : MolO) : List Nat :=
  o.id :: (o.attrib.ids ++ (o.atomsId :: o.atoms.flatMap AtomO.reach)
    ++ (o.bondsId :: o.bonds.flatMap BondO.reach) ++ o.arrays.map (·.id))

/-! ### observation -/

structure AtomObs where
  fields : List Int
  attrib : Ents
  parentOk : Bool
  deriving DecidableEq, Repr, Inhabited

structure BondObs where
  /-- positions of the ends in the atom list (`atoms.length` = not an atom of this molecule) -/
  e1 : Nat
  e2 : Nat
  fields : List Int
  attrib : Ents
  parentOk : Bool
  deriving DecidableEq, Repr, Inhabited

structure MolObs where
  cls : Nat
  scalars : List Int
  attrib : Ents
  atoms : List AtomObs
  bonds : List BondObs
  arrays : List (List Int)
  deriving DecidableEq, Repr, Inhabited

def obsAtom (root : Nat) (a : AtomO) : AtomObs :=
  { fields := a.fields, attrib := a.attrib.ents.strip, parentOk := a.parent == some root }

def obsBond (root : Nat) (atomIds : List Nat) (b : BondO) : BondObs :=
  { e1 := atomIds.idxOf b.a1, e2 := atomIds.idxOf b.a2, fields := b.fields,
    attrib := b.attrib.ents.strip, parentOk := b.parent == some root }

def observe (o : MolO) : MolObs :=
  { cls := o.cls, scalars := o.scalars, attrib := o.attrib.ents.strip,
    atoms := o.atoms.map (obsAtom o.id),
    bonds := o.bonds.map (obsBond o.id (o.atoms.map (·.id))),
    arrays := o.arrays.map (·.data) }

/-! ### mutations -/

inductive MutKind
  /-- `container[k] = v` (dict, list, …) -/
  | setKey (k v : Int)
  /-- assign a field of an atom, a bond or the molecule object (element, label, name, charge …) -/
  | setField (i : Nat) (v : Int)
  /-- assign an element of an array -/
  | setElem (i : Nat) (v : Int)
  /-- delete an element of an atom list or bond list -/
  | removeAt (i : Nat)
  deriving DecidableEq, Repr, Inhabited

structure Mutation where
  target : Nat
  kind : MutKind
  deriving DecidableEq, Repr, Inhabited

def mutBox (μ : Mutation) (b : Box) : Box :=
  match μ.kind with
  | .setKey k v => b.poke μ.target k v
  | _ => b

def mutAtom (μ : Mutation) (a : AtomO) : AtomO :=
  let a := { a with attrib := mutBox μ a.attrib }
  match μ.kind with
  | .setField i v => if a.id = μ.target then { a with fields := a.fields.set i v } else a
  | _ => a

def mutBond (μ : Mutation) (b : BondO) : BondO :=
  let b := { b with attrib := mutBox μ b.attrib }
  match μ.kind with
  | .setField i v => if b.id = μ.target then { b with fields := b.fields.set i v } else b
  | _ => b

def mutArr (μ : Mutation) (r : Arr) : Arr :=
  match μ.kind with
  | .setElem i v => if r.id = μ.target then { r with data := r.data.set i v } else r
  | _ => r

/-- one mutation, applied to everything an object graph holds -/
def applyMut (μ : Mutation) (o : MolO) : MolO :=
  let atoms := o.atoms.map (mutAtom μ)
  let bonds := o.bonds.map (mutBond μ)
  { o with
    scalars := (match μ.kind with
      | .setField i v => if o.id = μ.target then o.scalars.set i v else o.scalars
      | _ => o.scalars),
    attrib := mutBox μ o.attrib,
    atoms := (match μ.kind with
      | .removeAt i => if o.atomsId = μ.target then atoms.eraseIdx i else atoms
      | _ => atoms),
    bonds := (match μ.kind with
      | .removeAt i => if o.bondsId = μ.target then bonds.eraseIdx i else bonds
      | _ => bonds),
    arrays := o.arrays.map (mutArr μ) }

def applyAll (μs : List Mutation) (o : MolO) : MolO := μs.foldl (fun acc μ => applyMut μ acc) o

/-! ### the copy routes -/

structure Flags where
  /-- D10: `evolve` is shallow — the new atom / bond holds the attribute dictionary of the old one -/
  shareAttrib : Bool
  /-- D14: `pm.attrib.copy()` — a new top-level dictionary holding the same nested containers -/
  shallowMolAttrib : Bool
  /-- D11 / D13: the partial charges of the result are all zero -/
  zeroCharges : Bool
  /-- D12: `_parent` is not restored by `__setstate__` -/
  dropParent : Bool
  deriving DecidableEq, Repr, Inhabited

def repaired : Flags := ⟨false, false, false, false⟩

def copyAtom (fl : Flags) (n : Nat) (root : Nat) (a : AtomO) : AtomO :=
  { id := n, fields := a.fields,
    attrib := if fl.shareAttrib then a.attrib else a.attrib.renum (n + 1),
    parent := if fl.dropParent then none else some root }

def copyAtoms (fl : Flags) (root : Nat) : Nat → List AtomO → List AtomO
  | _, [] => []
  | n, a :: as => copyAtom fl n root a :: copyAtoms fl root (n + a.size) as

/-- `atom_map`: the new atom that stands for the old atom object `x` (position by position) -/
def mapAtom (old new : List Nat) (x : Nat) : Nat := (new[old.idxOf x]?).getD x

def copyBond (fl : Flags) (n : Nat) (root : Nat) (old new : List Nat) (b : BondO) : BondO :=
  { id := n, a1 := mapAtom old new b.a1, a2 := mapAtom old new b.a2, fields := b.fields,
    attrib := if fl.shareAttrib then b.attrib else b.attrib.renum (n + 1),
    parent := if fl.dropParent then none else some root }

def copyBonds (fl : Flags) (root : Nat) (old new : List Nat) : Nat → List BondO → List BondO
  | _, [] => []
  | n, b :: bs => copyBond fl n root old new b :: copyBonds fl root old new (n + b.size) bs

def copyArrays : Nat → List Arr → List Arr
  | _, [] => []
  | n, r :: rs => { id := n, data := r.data } :: copyArrays (n + 1) rs

/-- position of the partial charges among the arrays -/
def chargeSlot : Nat := 1

def zeroSlot (arrays : List Arr) : List Arr :=
  arrays.zipIdx.map (fun (r, i) => if i = chargeSlot then { r with data := r.data.map (fun _ => 0) } else r)

def copyMolAttrib (fl : Flags) (n : Nat) (b : Box) : Box :=
  if fl.shallowMolAttrib then { id := n, ents := b.ents } else b.renum n

/-- Copy constructor `cls(src)`, `pickle.loads(pickle.dumps(src))`, `copy.deepcopy(src)`:
a new object graph; identities are taken from the counter `n` upwards. -/
def deepCopy (fl : Flags) (n : Nat) (src : MolO) : MolO :=
  let nAttr := n + 1
  let nAtomsId := nAttr + src.attrib.size
  let nAtoms := nAtomsId + 1
  let atoms := copyAtoms fl n nAtoms src.atoms
  let nBondsId := nAtoms + atomsSize src.atoms
  let nBonds := nBondsId + 1
  let nArr := nBonds + bondsSize src.bonds
  let arrays := copyArrays nArr src.arrays
  { id := n, cls := src.cls, scalars := src.scalars,
    attrib := copyMolAttrib fl nAttr src.attrib,
    atomsId := nAtomsId, atoms := atoms,
    bondsId := nBondsId,
    bonds := copyBonds fl n (src.atoms.map (·.id)) (atoms.map (·.id)) nBonds src.bonds,
    arrays := if fl.zeroCharges then zeroSlot arrays else arrays }

def zipArrays (n : Nat) : List Arr → List Arr → List Arr
  | r1 :: rs1, r2 :: rs2 => { id := n, data := r1.data ++ r2.data } :: zipArrays (n + 1) rs1 rs2
  | _, _ => []

def scalarAt (o : MolO) (i : Nat) : Int := o.scalars.getD i 0

/-- `Structure.concatenate(s1, s2)` (the two may be the same object): all atoms and bonds evolved into a
new object — bonds re-targeted source by source —, coordinates (and, repaired, charges) stacked; name
"unknown" (code 0), empty attributes. -/
def concat (fl : Flags) (n : Nat) (cls : Nat) (s1 s2 : MolO) : MolO :=
  let nAtomsId := n + 2
  let nAtoms := nAtomsId + 1
  let atoms1 := copyAtoms fl n nAtoms s1.atoms
  let atoms2 := copyAtoms fl n (nAtoms + atomsSize s1.atoms) s2.atoms
  let nBondsId := nAtoms + atomsSize s1.atoms + atomsSize s2.atoms
  let nBonds := nBondsId + 1
  let nArr := nBonds + bondsSize s1.bonds + bondsSize s2.bonds
  let arrays := zipArrays nArr s1.arrays s2.arrays
  { id := n, cls := cls,
    scalars := [0, scalarAt s1 1 + scalarAt s2 1, scalarAt s1 2 + scalarAt s2 2 - 1],
    attrib := { id := n + 1, ents := .nil },
    atomsId := nAtomsId, atoms := atoms1 ++ atoms2, bondsId := nBondsId,
    bonds := copyBonds fl n (s1.atoms.map (·.id)) (atoms1.map (·.id)) nBonds s1.bonds ++
             copyBonds fl n (s2.atoms.map (·.id)) (atoms2.map (·.id)) (nBonds + bondsSize s1.bonds) s2.bonds,
    arrays := if fl.zeroCharges then zeroSlot arrays else arrays }


/-! ### copy constructors with keyword overrides, across classes -/

/-- number of arrays of a class: Promolecule 1, Connectivity 2: none; CartesianGeometry 3, Structure 4: coords;
Molecule 5 (and Conformer): coords, charges; ConformerEnsemble 6: coords, charges, weights -/
def slotsOf (cls : Nat) : Nat :=
  if cls = 3 ∨ cls = 4 then 1 else if cls = 5 then 2 else if cls = 6 then 3 else 0

/-- arrays are carried over only within a family: single geometries (1), ensembles (2) -/
def familyOf (cls : Nat) : Nat :=
  if cls = 3 ∨ cls = 4 ∨ cls = 5 then 1 else if cls = 6 then 2 else 0

def hasBondsCls (cls : Nat) : Bool := cls == 2 || cls == 4 || cls == 5 || cls == 6

/-- the keyword arguments of a copy constructor call -/
structure Override where
  /-- `name=`, `charge=`, `mult=` as passed (`none` = keyword not given) -/
  scalars : List (Option Int)
  /-- entries of the dictionary passed as `attrib=` (keys not in the source; `.nil` = not given); its nested
      containers are the caller's objects -/
  attrib : Ents
  /-- per array of the target class: the array passed (`coords=`, `atomic_charges=`, `weights=`) -/
  arrays : List (Option (List Int))
  /-- per array of the target class: the documented default content (NaN / 0 / 1 in the target's shape) -/
  fills : List (List Int)
  deriving Repr, Inhabited

def noOverride : Override := { scalars := [], attrib := .nil, arrays := [], fills := [] }

/-- `name or pm.name`, `charge or pm.charge`, `mult or pm.mult` -/
def ovScalar (i : Nat) (given : Option Int) (old : Int) : Int :=
  match given with
  | none => old
  | some v => if i = 0 then v else if v = 0 then old else v

def ovScalars (given : List (Option Int)) (old : List Int) : List Int :=
  old.zipIdx.map (fun (v, i) => ovScalar i ((given[i]?).join) v)

/-- content of array `j` of the result: the override, else the source's array if it is carried over, else the default -/
def ovArrayData (srcCls cls' : Nat) (ov : Override) (srcArrays : List (List Int)) (j : Nat) : List Int :=
  match (ov.arrays[j]?).join with
  | some d => d
  | none =>
    match (if familyOf srcCls = familyOf cls' ∧ j < slotsOf srcCls then srcArrays[j]? else none) with
    | some d => d
    | none => (ov.fills[j]?).getD []

def molSize (o : MolO) : Nat :=
  1 + o.attrib.size + 1 + atomsSize o.atoms + 1 + bondsSize o.bonds + o.arrays.length

/-- `Cls2(src, name=…, charge=…, mult=…, attrib=…, coords=…, atomic_charges=…, weights=…)` for any class `Cls2`
(the same class or another one): a deep copy of what the classes have in common, the overrides applied to the copy. -/
def copyAs (fl : Flags) (n : Nat) (cls' : Nat) (ov : Override) (src : MolO) : MolO :=
  let c := deepCopy fl n src
  { c with
    cls := cls',
    scalars := ovScalars ov.scalars c.scalars,
    attrib := { c.attrib with ents := c.attrib.ents.append ov.attrib },
    bonds := if hasBondsCls cls' then c.bonds else [],
    arrays := (List.range (slotsOf cls')).map (fun j =>
      { id := n + molSize src + j, data := ovArrayData src.cls cls' ov (c.arrays.map (·.data)) j }) }

/-! ### concatenate of any number of structures -/

def concatAtoms (fl : Flags) (root : Nat) : Nat → List MolO → List AtomO
  | _, [] => []
  | k, s :: ss => copyAtoms fl root k s.atoms ++ concatAtoms fl root (k + atomsSize s.atoms) ss

/-- bonds are re-targeted source by source: the new atoms of a source are those copied at its own offset -/
def concatBonds (fl : Flags) (root : Nat) : Nat → Nat → List MolO → List BondO
  | _, _, [] => []
  | ka, kb, s :: ss =>
    copyBonds fl root (s.atoms.map (·.id)) ((copyAtoms fl root ka s.atoms).map (·.id)) kb s.bonds ++
      concatBonds fl root (ka + atomsSize s.atoms) (kb + bondsSize s.bonds) ss

def totalAtomsSize (ss : List MolO) : Nat := (ss.map (fun s => atomsSize s.atoms)).sum
def totalBondsSize (ss : List MolO) : Nat := (ss.map (fun s => bondsSize s.bonds)).sum

/-- array `j` of the product: the arrays `j` of the sources, stacked -/
def stackData (ss : List MolO) (j : Nat) : List Int :=
  ss.flatMap (fun s => ((s.arrays[j]?).map (·.data)).getD [])

/-- the smallest of a list of numbers (0 for the empty list) -/
def minLen : List Nat → Nat
  | [] => 0
  | a :: l => l.foldl min a

/-- number of arrays every source has -/
def commonSlots (ss : List MolO) : Nat := minLen (ss.map (fun s => s.arrays.length))

/-- `cls.concatenate(s1, …, sk)` for any number of structures (repetitions allowed) -/
def concatN (fl : Flags) (n : Nat) (cls : Nat) (ss : List MolO) : MolO :=
  let nAtomsId := n + 2
  let nAtoms := nAtomsId + 1
  let nBondsId := nAtoms + totalAtomsSize ss
  let nBonds := nBondsId + 1
  let nArr := nBonds + totalBondsSize ss
  let arrays := (List.range (min (slotsOf cls) (commonSlots ss))).map (fun j =>
    ({ id := nArr + j, data := stackData ss j } : Arr))
  { id := n, cls := cls,
    scalars := [0, (ss.map (fun s => scalarAt s 1)).sum, (ss.map (fun s => scalarAt s 2)).sum - 1],
    attrib := { id := n + 1, ents := .nil },
    atomsId := nAtomsId, atoms := concatAtoms fl n nAtoms ss,
    bondsId := nBondsId, bonds := concatBonds fl n nAtoms nBonds ss,
    arrays := if fl.zeroCharges then zeroSlot arrays else arrays }

def touches (x : Nat) (b : BondO) : Bool := b.a1 == x || b.a2 == x

/-- the atom bonded to `x` (`next(connected_atoms(x))`) -/
def partner (bonds : List BondO) (x : Nat) : Option Nat :=
  (bonds.find? (touches x)).map (fun b => if b.a1 == x then b.a2 else b.a1)

def dropAt (i : Nat) (r : Arr) (width : Nat) : List Int :=
  (r.data.take (i * width)) ++ r.data.drop ((i + 1) * width)

/-- `Structure.join(s1, s2, ap1, ap2)`: the attachment atoms (positions `i1`, `i2`) and their bonds are
left out, everything else is evolved into a new object and one bond is made between the atoms the
attachment points were bonded to.  Coordinates of the product are geometry (property C12): they enter
as `coords`.  Charges (repaired): those of the remaining atoms.  `scalars`, `bondFields`: name/charge/mult
and the fields of the new bond as computed by the caller-visible rules of property C12. -/
def join (fl : Flags) (n : Nat) (cls : Nat) (s1 s2 : MolO) (i1 i2 : Nat) (scalars : List Int)
    (bondFields : List Int) (coords : List Int) : MolO :=
  let x1 := ((s1.atoms[i1]?).map (·.id)).getD 0
  let x2 := ((s2.atoms[i2]?).map (·.id)).getD 0
  let srcAtoms := s1.atoms.eraseIdx i1 ++ s2.atoms.eraseIdx i2
  let srcBonds := s1.bonds.filter (fun b => !touches x1 b) ++ s2.bonds.filter (fun b => !touches x2 b)
  let nAtomsId := n + 2
  let nAtoms := nAtomsId + 1
  let atoms := copyAtoms fl n nAtoms srcAtoms
  let old := srcAtoms.map (·.id)
  let new := atoms.map (·.id)
  let nBondsId := nAtoms + atomsSize srcAtoms
  let nBonds := nBondsId + 1
  let nNewBond := nBonds + bondsSize srcBonds
  let newBond : BondO :=
    { id := nNewBond, a1 := mapAtom old new ((partner s1.bonds x1).getD 0),
      a2 := mapAtom old new ((partner s2.bonds x2).getD 0), fields := bondFields,
      attrib := { id := nNewBond + 1, ents := .nil }, parent := some n }
  let nArr := nNewBond + 2
  let charges : List Arr :=
    match s1.arrays[chargeSlot]?, s2.arrays[chargeSlot]? with
    | some q1, some q2 =>
      [{ id := nArr + 1, data := if fl.zeroCharges then (dropAt i1 q1 1 ++ dropAt i2 q2 1).map (fun _ => 0)
                                  else dropAt i1 q1 1 ++ dropAt i2 q2 1 }]
    | _, _ => []
  { id := n, cls := cls, scalars := scalars,
    attrib := { id := n + 1, ents := .nil },
    atomsId := nAtomsId, atoms := atoms, bondsId := nBondsId,
    bonds := copyBonds fl n old new nBonds srcBonds ++ [newBond],
    arrays := { id := nArr, data := coords } :: charges }

/-- all identities of `o` (including the atoms its bonds point to) are below the counter -/
def belowB (n : Nat) (o : MolO) : Bool :=
  o.reach.all (· < n) && o.bonds.all (fun b => b.a1 < n && b.a2 < n)

/-- places of `c` that hold an object which `s` also holds -/
def sharedIds (c s : MolO) : List Nat := c.reach.filter (· ∈ s.reach)

end Molli.Model.Heap
