/-
Executable model of `molli.chem.ensemble.ConformerEnsemble` / `Conformer` as far as property C14
speaks about it: the three parallel per-conformer arrays, the operations that allocate, grow,
transform and write through them, conformers as index handles (live views), slicing, and iteration.

  Ens      nA (length of the atom list), coords : nC × nA × 3, charges : nC × nA, weights : nC
  Num      a float as an exact rational or NaN (`none`); the harness only feeds dyadic values on which
           float64 arithmetic is exact, so the model's exact arithmetic is the implementation's
  World    the ensemble bound to the variable under test, the iterator objects created so far, and
           (as-shipped variant only) the cursor stored on the ensemble
  Variant  `.repaired`  : `append`/`extend` grow all three arrays, every `iter()` has its own cursor,
                          a conformer can be assigned charges
           `.shipped`   : the code before the repairs D27 / D28 / D29 (kept for the counterexamples)

A conformer `ens[i]` is modelled as the index `i`: it holds no data, every read consults the current
arrays of the parent (numpy views re-fetched through the `_coords` / `_atomic_charges` properties).
Core Lean only.
-/
import Molli.Util.Basic
namespace Molli.Model.Ensemble

/-! ### numbers -/

/-- a float64: an exact rational, or NaN -/
abbrev Num := Option Rat

def nan : Num := none
def Num.ofInt (i : Int) : Num := some (i : Rat)
def nadd (a b : Num) : Num := do let x ← a; let y ← b; pure (x + y)
def nmul (a b : Num) : Num := do let x ← a; let y ← b; pure (x * y)
def nneg (a : Num) : Num := a.map (fun x => -x)

abbrev Row := List Num            -- one atom: x y z
abbrev Conf := List Row           -- nA rows
abbrev Mat := List (List Num)     -- 3 × 3, rows of the matrix

def dot3 (r : Row) (c : Row) : Num :=
  match r, c with
  | [a, b, c'], [x, y, z] => nadd (nadd (nmul a x) (nmul b y)) (nmul c' z)
  | _, _ => nan

def col (m : Mat) (j : Nat) : Row := m.map (fun r => r.getD j nan)

/-- row vector times matrix: `r @ R` -/
def rowMul (r : Row) (m : Mat) : Row := [dot3 r (col m 0), dot3 r (col m 1), dot3 r (col m 2)]

def rowAdd (r v : Row) : Row :=
  match r, v with
  | [a, b, c], [x, y, z] => [nadd a x, nadd b y, nadd c z]
  | _, _ => r

/-! ### the ensemble -/

structure Ens where
  nA : Nat
  coords : List Conf
  charges : List (List Num)
  weights : List Num
  deriving Repr, DecidableEq

def Ens.nC (e : Ens) : Nat := e.coords.length

def confOk (nA : Nat) (c : Conf) : Bool := c.length == nA && c.all (fun r => r.length == 3)

/-- "coordinates, partial charges and weights all describe the same number of conformers and atoms" -/
def Ens.rect (e : Ens) : Bool :=
  e.charges.length == e.coords.length && e.weights.length == e.coords.length &&
  e.coords.all (confOk e.nA) && e.charges.all (fun q => q.length == e.nA)

inductive Variant | shipped | repaired
  deriving DecidableEq, Repr

/-- an iterator object returned by `iter(ens)` -/
structure Iter where
  pos : Nat
  stop : Nat
  deriving Repr, DecidableEq

structure World where
  ens : Ens
  iters : List Iter
  /-- `_current_mol_index` (as-shipped variant; the repaired code has no such field) -/
  cursor : Nat
  /-- the other live ensembles of the history: sources of copies made by `ConformerEnsemble(ens)`, most recent
  first; `swap k` makes one of them the ensemble under the variable again -/
  others : List Ens := []
  /-- conformer objects handed out by iterations and KEPT by the caller; a conformer is the index of its row and
  nothing ever moves it -/
  kept : List Nat := []
  deriving Repr, DecidableEq

/-! ### allocation (the constructor branches) -/

def nanConf (nA : Nat) : Conf := List.replicate nA [nan, nan, nan]
def zeros (n : Nat) : List Num := List.replicate n (some 0)
def ones (n : Nat) : List Num := List.replicate n (some 1)

/-- `ConformerEnsemble(atoms | None, n_conformers=nC, n_atoms=nA)`: NaN coordinates, zero charges, unit weights -/
def alloc (nA nC : Nat) : Ens :=
  { nA := nA, coords := List.replicate nC (nanConf nA), charges := List.replicate nC (zeros nA), weights := ones nC }

/-- `ConformerEnsemble(molecule, n_conformers=k)`: `k or 1` conformers, geometry NOT taken (D30, a note) -/
def allocFromMol (nA k : Nat) : Ens := alloc nA (if k = 0 then 1 else k)

/-- one conformer given by a geometry: coordinates and (possibly) partial charges -/
structure Geom where
  coords : Conf
  charges : Option (List Num)
  deriving Repr, DecidableEq

def Geom.chargesOr (g : Geom) (nA : Nat) : List Num := g.charges.getD (zeros nA)

/-- `ConformerEnsemble([m0, m1, ...])`: atoms of `m0`; coordinates and charges of every molecule; unit weights.
Fails (numpy broadcast error) unless every molecule has `m0`'s atom count. -/
def allocFromMols (ms : List Geom) : Option Ens :=
  match ms with
  | [] => none
  | m0 :: _ =>
    let nA := m0.coords.length
    if ms.all (fun m => confOk nA m.coords && (m.chargesOr nA).length == nA) then
      some { nA := nA, coords := ms.map (·.coords), charges := ms.map (·.chargesOr nA), weights := ones ms.length }
    else none

/-! ### growing -/

/-- `ens.append(other)` -/
def append (v : Variant) (e : Ens) (g : Geom) : Option Ens :=
  if confOk e.nA g.coords && (g.chargesOr e.nA).length == e.nA then
    match v with
    | .repaired => some { e with coords := e.coords ++ [g.coords], charges := e.charges ++ [g.chargesOr e.nA],
                                 weights := e.weights ++ [some 1] }
    | .shipped => some { e with coords := e.coords ++ [g.coords] }
  else none

/-- `ens.extend(other_ensemble)` -/
def extendEns (v : Variant) (e o : Ens) : Option Ens :=
  if o.nA == e.nA && o.coords.all (confOk e.nA) && o.charges.all (fun q => q.length == e.nA) &&
     o.charges.length == o.coords.length && o.weights.length == o.coords.length then
    match v with
    | .repaired => some { e with coords := e.coords ++ o.coords, charges := e.charges ++ o.charges,
                                 weights := e.weights ++ o.weights }
    | .shipped => some { e with coords := e.coords ++ o.coords }
  else none

/-- `ens.extend([g0, g1, ...])`; numpy refuses the empty list.  Charges of a geometry that has them are
taken, otherwise zeros; unit weights. -/
def extendGeoms (v : Variant) (e : Ens) (gs : List Geom) : Option Ens :=
  if gs.isEmpty then none
  else if gs.all (fun g => confOk e.nA g.coords && (g.chargesOr e.nA).length == e.nA) then
    match v with
    | .repaired => some { e with coords := e.coords ++ gs.map (·.coords),
                                 charges := e.charges ++ gs.map (·.chargesOr e.nA),
                                 weights := e.weights ++ ones gs.length }
    | .shipped => some { e with coords := e.coords ++ gs.map (·.coords) }
  else none

/-! ### collective transformations -/

def mapRows (f : Row → Row) (e : Ens) : Ens := { e with coords := e.coords.map (·.map f) }

/-- `ens.scale(f, allow_inversion)` -/
def scale (e : Ens) (f : Rat) (allowInv : Bool) : Option Ens :=
  if f = 0 then none else if f < 0 ∧ !allowInv then none
  else some (mapRows (·.map (nmul (some f))) e)

/-- `ens.translate(v)` with a vector of shape (3,) -/
def translate (e : Ens) (v : Row) : Option Ens :=
  if v.length = 3 then some (mapRows (fun r => if r.length = 3 then rowAdd r v else r) e) else none

def zipConfs (f : Conf → α → Conf) : List Conf → List α → List Conf
  | c :: cs, a :: as => f c a :: zipConfs f cs as
  | cs, _ => cs

/-- `ens.translate(vs)` with one vector per conformer, shape (nC, 3) -/
def translateEach (e : Ens) (vs : List Row) : Option Ens :=
  if vs.length = e.nC ∧ vs.all (fun v => v.length == 3) then
    some { e with coords := zipConfs (fun c v => c.map (fun r => if r.length = 3 then rowAdd r v else r)) e.coords vs }
  else none

def matOk (m : Mat) : Bool := m.length == 3 && m.all (fun r => r.length == 3)

/-- `ens.rotate(R)` with one 3 × 3 matrix: `coords @ R` -/
def rotate (e : Ens) (m : Mat) : Option Ens :=
  if matOk m then some (mapRows (fun r => if r.length = 3 then rowMul r m else r) e) else none

/-- `ens.rotate(Rs)` with one matrix per conformer, shape (nC, 3, 3) -/
def rotateEach (e : Ens) (ms : List Mat) : Option Ens :=
  if ms.length = e.nC ∧ ms.all matOk then
    some { e with coords := zipConfs (fun c m => c.map (fun r => if r.length = 3 then rowMul r m else r)) e.coords ms }
  else none

/-! ### whole-array setters (`ens.coords = ...`, `ens.weights = ...`, `ens.atomic_charges = ...`; exact shapes) -/

def setCoords (e : Ens) (cs : List Conf) : Option Ens :=
  if cs.length = e.nC ∧ cs.all (confOk e.nA) then some { e with coords := cs } else none

def setWeights (e : Ens) (ws : List Num) : Option Ens :=
  if ws.length = e.weights.length then some { e with weights := ws } else none

def setCharges (e : Ens) (qs : List (List Num)) : Option Ens :=
  if qs.length = e.charges.length ∧ qs.all (fun q => q.length == e.nA) then some { e with charges := qs } else none

/-! ### what numpy accepts: broadcasting of the arguments

`coords += v`, `coords += v[:, None, :]`, `coords @ R`, `arr[:] = x` accept more than the exact shape: a length-1 leading
axis is repeated over the conformers, a length-1 last axis over x, y, z.  Everything else - a count that is neither 1 nor
`n_conformers`, 2 or 4 components, ragged lists - raises and leaves the ensemble as it was.  (The atom axis of an argument
is always exact here: the histories never pass a single row for several atoms.) -/

/-- a leading axis of length `n`, or of length 1 repeated `n` times -/
def bcast {α : Type} (n : Nat) (xs : List α) : Option (List α) :=
  if xs.length = n then some xs
  else match xs with
    | [x] => some (List.replicate n x)
    | _ => none

/-- three components, or one repeated three times -/
def norm3 : List Num → Option Row
  | [x] => some [x, x, x]
  | [a, b, c] => some [a, b, c]
  | _ => none

/-- `np.array(list_of_lists)` refuses ragged input -/
def uniform {β : Type} : List (List β) → Bool
  | [] => true
  | l :: r => r.all (fun x => x.length == l.length)

def normVecs (vs : List (List Num)) : Option (List Row) := if uniform vs then vs.mapM norm3 else none

/-- a 3 × 3 matrix, or a 3 × 1 matrix whose single column is repeated -/
def normMat (m : Mat) : Option Mat := if m.length = 3 ∧ uniform m then m.mapM norm3 else none

def sameShapes (ms : List Mat) : Bool :=
  uniform ms && uniform (ms.map (fun m => m.flatten)) && ms.all uniform

/-- `ens.translate(v)`, `v` one-dimensional -/
def translateB (e : Ens) (v : List Num) : Option Ens := (norm3 v).bind (translate e)

/-- `ens.translate(vs)`, `vs` two-dimensional -/
def translateEachB (e : Ens) (vs : List (List Num)) : Option Ens :=
  (normVecs vs).bind (fun vs' => (bcast e.nC vs').bind (translateEach e))

/-- `ens.rotate(R)`, `R` two-dimensional -/
def rotateB (e : Ens) (m : Mat) : Option Ens := (normMat m).bind (rotate e)

/-- `ens.rotate(Rs)`, `Rs` three-dimensional -/
def rotateEachB (e : Ens) (ms : List Mat) : Option Ens :=
  if sameShapes ms then (ms.mapM normMat).bind (fun ms' => (bcast e.nC ms').bind (rotateEach e)) else none

/-- the item that is repeated has to fit even when it is repeated zero times -/
def setCoordsB (e : Ens) (cs : List Conf) : Option Ens :=
  if cs.all (confOk e.nA) then (bcast e.nC cs).bind (setCoords e) else none
def setWeightsB (e : Ens) (ws : List Num) : Option Ens := (bcast e.weights.length ws).bind (setWeights e)
def setChargesB (e : Ens) (qs : List (List Num)) : Option Ens :=
  if qs.all (fun q => q.length == e.nA) then (bcast e.charges.length qs).bind (setCharges e) else none

/-- the ensemble after a trip through the library codec (`lib[k] = ens; ens = lib[k]`): a NEW object holding the same
arrays (the histories only use values float32 represents exactly), which must behave like a constructed one under
every later operation; needs a rectangular ensemble -/
def reloaded (e : Ens) : Option Ens := if e.rect then some e else none

/-- `ConformerEnsemble(atoms, n_conformers=nC, coords=…, atomic_charges=…, weights=…)`: the arrays are allocated and then FILLED
from the arguments (`arr[:] = arg`, with numpy's broadcasting: one geometry for all conformers, one charge row, one weight);
an argument that does not fit makes the constructor raise -/
def optSet {α : Type} (f : Ens → α → Option Ens) (e : Ens) : Option α → Option Ens
  | none => some e
  | some a => f e a

def ctorKw (nA nC : Nat) (cs : Option (List Conf)) (qs : Option (List (List Num))) (ws : Option (List Num)) : Option Ens :=
  (optSet setCoordsB (alloc nA nC) cs).bind (fun e1 => (optSet setChargesB e1 qs).bind (fun e2 => optSet setWeightsB e2 ws))

/-- Python's integer indexing: `-n … n-1` are the rows, everything else is an IndexError -/
def normIdx (n : Nat) (i : Int) : Option Nat :=
  if 0 ≤ i ∧ i < n then some i.toNat
  else if i < 0 ∧ -(n : Int) ≤ i then some (i + n).toNat
  else none

/-! ### conformers: `ens[i]` is the index `i` -/

/-- what a conformer shows: its coordinate rows and its partial charges (everything else is the parent's) -/
structure View where
  coords : Conf
  charges : List Num
  deriving Repr, DecidableEq

/-- reading `ens[i].coords` and `ens[i].atomic_charges`; `none` = IndexError -/
def readConf (e : Ens) (i : Nat) : Option View := do
  let c ← e.coords[i]?
  let q ← e.charges[i]?
  pure ⟨c, q⟩

/-- `ens[i].coords = rows` -/
def writeCoords (e : Ens) (i : Nat) (c : Conf) : Option Ens :=
  if i < e.coords.length ∧ confOk e.nA c then some { e with coords := e.coords.set i c } else none

/-- `ens[i].atomic_charges = q`; the as-shipped view has no setter (AttributeError, D29) -/
def writeCharges (v : Variant) (e : Ens) (i : Nat) (q : List Num) : Option Ens :=
  match v with
  | .shipped => none
  | .repaired =>
    if i < e.coords.length ∧ i < e.charges.length ∧ q.length = e.nA then some { e with charges := e.charges.set i q } else none

/-- `ens[i].coords[a] = xyz` (in-place write into the view) -/
def writeAtom (e : Ens) (i a : Nat) (xyz : Row) : Option Ens :=
  match e.coords[i]? with
  | some c => if a < c.length ∧ xyz.length = 3 then some { e with coords := e.coords.set i (c.set a xyz) } else none
  | none => none

/-- `ens[i].atomic_charges[a] = x` -/
def writeCharge (e : Ens) (i a : Nat) (x : Num) : Option Ens :=
  match e.coords[i]?, e.charges[i]? with
  | some _, some q => if a < q.length then some { e with charges := e.charges.set i (q.set a x) } else none
  | _, _ => none

/-- writing / serialising conformer `i` (`dump_mol2`, `dump_xyz`, storing it in a MoleculeLibrary) needs
`nA` coordinate rows and `nA` charges -/
def dump (e : Ens) (i : Nat) : Option View :=
  match readConf e i with
  | some w => if confOk e.nA w.coords && w.charges.length == e.nA then some w else none
  | none => none

/-- serialising the ensemble (`_serialize_ens_v2` followed by the decoder's reshapes) needs all three arrays -/
def serialise (e : Ens) : Option (List View × List Num) :=
  if e.rect then some ((List.zipWith (fun c q => ⟨c, q⟩) e.coords e.charges), e.weights) else none

/-! ### slicing: `ens[a:b:c]` = `[ens[i] for i in range(*slice(a, b, c).indices(n))]` -/

/-- `slice(start, stop, step).indices(n)` of CPython (`none` = omitted); `none` result = step 0 -/
def sliceIndices (start stop step : Option Int) (n : Nat) : Option (Int × Int × Int) :=
  let st := step.getD 1
  if st = 0 then none else
  let len : Int := n
  let lo : Int := if st < 0 then -1 else 0
  let hi : Int := if st < 0 then len - 1 else len
  let clamp (x : Int) : Int :=
    let y := if x < 0 then x + len else x
    if y < lo then lo else if y > hi then hi else y
  let s := match start with | some x => clamp x | none => if st < 0 then hi else lo
  let e := match stop with | some x => clamp x | none => if st < 0 then lo else hi
  some (s, e, st)

/-- `range(s, e, st)` with at most `fuel` items -/
def pyRange : Nat → Int → Int → Int → List Int
  | 0, _, _, _ => []
  | fuel + 1, s, e, st =>
    if (st > 0 ∧ s < e) ∨ (st < 0 ∧ s > e) then s :: pyRange fuel (s + st) e st else []

def sliceIdx (start stop step : Option Int) (n : Nat) : Option (List Nat) :=
  match sliceIndices start stop step n with
  | some (s, e, st) => some ((pyRange n s e st).map Int.toNat)
  | none => none

/-! ### iteration -/

/-- `iter(ens)`.  Repaired: a fresh iterator over `range(n_conformers)`.  As shipped: the ensemble itself,
with its cursor reset to 0 (handle 0 stands for "the ensemble"). -/
def iterNew (v : Variant) (w : World) : World × Nat :=
  match v with
  | .repaired => ({ w with iters := w.iters ++ [⟨0, w.ens.nC⟩] }, w.iters.length)
  | .shipped => ({ w with cursor := 0 }, 0)

/-- `next(it)`: the index of the conformer handed out, or `none` for StopIteration -/
def iterNext (v : Variant) (w : World) (k : Nat) : World × Option Nat :=
  match v with
  | .repaired =>
    match w.iters[k]? with
    | some it =>
      if it.pos < it.stop then ({ w with iters := w.iters.set k ⟨it.pos + 1, it.stop⟩ }, some it.pos)
      else (w, none)
    | none => (w, none)
  | .shipped =>
    if w.cursor < w.ens.nC then ({ w with cursor := w.cursor + 1 }, some w.cursor) else (w, none)

/-- `for a in ens: trace.append(a)` on a fresh iterator, at most `fuel` steps -/
def drain (v : Variant) : Nat → World → Nat → World × List Nat
  | 0, w, _ => (w, [])
  | fuel + 1, w, k =>
    match iterNext v w k with
    | (w', some i) => let r := drain v fuel w' k; (r.1, i :: r.2)
    | (w', none) => (w', [])

/-- `for a in ens: for b in ens: trace.append((a, b))` -/
def nestedInner (v : Variant) (w : World) (i : Nat) : World × List (Nat × Nat) :=
  let (w1, k2) := iterNew v w
  let (w2, js) := drain v (w1.ens.nC + 1) w1 k2
  (w2, js.map (fun j => (i, j)))

def nestedOuter (v : Variant) : Nat → World → Nat → World × List (Nat × Nat)
  | 0, w, _ => (w, [])
  | fuel + 1, w, k1 =>
    match iterNext v w k1 with
    | (w', some i) =>
      let (w2, ps) := nestedInner v w' i
      let r := nestedOuter v fuel w2 k1
      (r.1, ps ++ r.2)
    | (w', none) => (w', [])

def nested (v : Variant) (w : World) : World × List (Nat × Nat) :=
  let (w1, k1) := iterNew v w
  nestedOuter v (w1.ens.nC + 1) w1 k1

/-! ### operations and histories -/

inductive Op
  | ctorAtoms (nA nC : Nat)
  | ctorMol (nA k : Nat)
  | ctorMols (ms : List Geom)
  | ctorCopy
  | append (g : Geom)
  | extendEns (o : Ens)
  | extendSelf
  | extendGeoms (gs : List Geom)
  | scale (f : Rat) (allowInv : Bool)
  | invert
  | translate (v : Row)
  | translateEach (vs : List Row)
  | rotate (m : Mat)
  | rotateEach (ms : List Mat)
  | setCoords (cs : List Conf)
  | setWeights (ws : List Num)
  | setCharges (qs : List (List Num))
  | writeCoords (i : Nat) (c : Conf)
  | writeCharges (i : Nat) (q : List Num)
  | writeAtom (i a : Nat) (xyz : Row)
  | writeCharge (i a : Nat) (x : Num)
  | read (i : Nat)
  | slice (start stop step : Option Int)
  | dump (i : Nat)
  | serialise
  | iterNew
  | iterNext (k : Nat)
  | loop
  | nestedLoop
  /-- make the `k`-th other live ensemble the current one (the current one takes its place) -/
  | swap (k : Nat)
  /-- `ConformerEnsemble(ens, name=…, n_conformers=…)`: keywords do not change what is copied -/
  | ctorCopyKw
  /-- `kept.append(next(it))` -/
  | iterNextKeep (k : Nat)
  /-- `kept += list(ens)` -/
  | loopKeep
  /-- use a kept conformer object after its iteration has moved on / ended -/
  | readKept (j : Nat)
  | writeKept (j : Nat) (c : Conf)
  | dumpKept (j : Nat)
  /-- `lib[k] = ens; ens = lib[k]`: go on with the deserialised object -/
  | reload
  /-- the constructor with array arguments (`none` = not given) -/
  | ctorAtomsKw (nA nC : Nat) (cs : Option (List Conf)) (qs : Option (List (List Num))) (ws : Option (List Num))
  /-- `ens[i]` for any Python / numpy integer `i`, then read the view -/
  | readAt (i : Int)
  /-- `ens[i].coords = rows` for any integer `i` -/
  | writeAt (i : Int) (c : Conf)
  deriving Repr

inductive Out
  | ok
  | err
  | view (w : View)
  | idxs (l : List Nat)
  | handle (k : Nat)
  | yielded (i : Option Nat)
  | pairs (l : List (Nat × Nat))
  | blob (vs : List View) (ws : List Num)
  deriving Repr, DecidableEq

def initWorld : World := { ens := alloc 0 0, iters := [], cursor := 0 }

/-- a constructor binds a fresh ensemble to the variable: old iterators belong to the old object -/
def rebind (e : Ens) : World := { ens := e, iters := [], cursor := 0 }

/-- … inside a history: the other live ensembles stay what they are -/
def rebindIn (w : World) (e : Ens) : World := { ens := e, iters := [], cursor := 0, others := w.others, kept := [] }

/-- `ConformerEnsemble(ens)`: the copy becomes the current ensemble, the source stays alive -/
def copyCtor (w : World) : World := { ens := w.ens, iters := [], cursor := 0, others := w.ens :: w.others, kept := [] }

def upd (w : World) : Option Ens → World × Out
  | some e => ({ w with ens := e }, .ok)
  | none => (w, .err)

def step (v : Variant) (w : World) : Op → World × Out
  | .ctorAtoms nA nC => (rebindIn w (alloc nA nC), .ok)
  | .ctorMol nA k => (rebindIn w (allocFromMol nA k), .ok)
  | .ctorMols ms =>
    match allocFromMols ms with
    | some e => (rebindIn w e, .ok)
    | none => (w, .err)
  | .ctorCopy => (copyCtor w, .ok)
  | .ctorCopyKw => (copyCtor w, .ok)
  | .swap k =>
    match w.others[k]? with
    | some o => ({ ens := o, iters := [], cursor := 0, others := w.others.set k w.ens, kept := [] }, .ok)
    | none => (w, .err)
  | .iterNextKeep k =>
    if v = .repaired ∧ w.iters.length ≤ k then (w, .err)
    else let (w', r) := iterNext v w k; ({ w' with kept := w'.kept ++ r.toList }, .yielded r)
  | .loopKeep =>
    let (w1, k) := iterNew v w
    let (w2, l) := drain v (w1.ens.nC + 1) w1 k
    ({ w2 with iters := w.iters, kept := w2.kept ++ l }, .idxs l)
  | .readKept j =>
    match w.kept[j]? with
    | some i =>
      match readConf w.ens i with
      | some x => (w, .view x)
      | none => (w, .err)
    | none => (w, .err)
  | .writeKept j c =>
    match w.kept[j]? with
    | some i => upd w (writeCoords w.ens i c)
    | none => (w, .err)
  | .dumpKept j =>
    match w.kept[j]? with
    | some i =>
      match dump w.ens i with
      | some x => (w, .view x)
      | none => (w, .err)
    | none => (w, .err)
  | .append g => upd w (append v w.ens g)
  | .extendEns o => upd w (extendEns v w.ens o)
  | .extendSelf => upd w (extendEns v w.ens w.ens)
  | .extendGeoms gs => upd w (extendGeoms v w.ens gs)
  | .scale f a => upd w (scale w.ens f a)
  | .invert => upd w (scale w.ens (-1) true)
  | .translate x => upd w (translateB w.ens x)
  | .translateEach vs => upd w (translateEachB w.ens vs)
  | .rotate m => upd w (rotateB w.ens m)
  | .rotateEach ms => upd w (rotateEachB w.ens ms)
  | .setCoords cs => upd w (setCoordsB w.ens cs)
  | .setWeights ws => upd w (setWeightsB w.ens ws)
  | .setCharges qs => upd w (setChargesB w.ens qs)
  | .ctorAtomsKw nA nC cs qs ws =>
    match ctorKw nA nC cs qs ws with
    | some e => (rebindIn w e, .ok)
    | none => (w, .err)
  | .readAt i =>
    match normIdx w.ens.nC i with
    | some j =>
      match readConf w.ens j with
      | some x => (w, .view x)
      | none => (w, .err)
    | none => (w, .err)
  | .writeAt i c =>
    match normIdx w.ens.nC i with
    | some j => upd w (writeCoords w.ens j c)
    | none => (w, .err)
  | .reload =>
    match reloaded w.ens with
    | some e => (rebindIn w e, .ok)
    | none => (w, .err)
  | .writeCoords i c => upd w (writeCoords w.ens i c)
  | .writeCharges i q => upd w (writeCharges v w.ens i q)
  | .writeAtom i a xyz => upd w (writeAtom w.ens i a xyz)
  | .writeCharge i a x => upd w (writeCharge w.ens i a x)
  | .read i =>
    match readConf w.ens i with
    | some x => (w, .view x)
    | none => (w, .err)
  | .slice a b c =>
    match sliceIdx a b c w.ens.nC with
    | some l => (w, .idxs l)
    | none => (w, .err)
  | .dump i =>
    match dump w.ens i with
    | some x => (w, .view x)
    | none => (w, .err)
  | .serialise =>
    match serialise w.ens with
    | some (vs, ws) => (w, .blob vs ws)
    | none => (w, .err)
  | .iterNew => let (w', k) := iterNew v w; (w', .handle k)
  | .iterNext k =>
    if v = .repaired ∧ w.iters.length ≤ k then (w, .err)   -- no such iterator object
    else let (w', r) := iterNext v w k; (w', .yielded r)
  | .loop =>
    let (w1, k) := iterNew v w
    let (w2, l) := drain v (w1.ens.nC + 1) w1 k
    ({ w2 with iters := w.iters }, .idxs l)      -- the loop's iterator object is dropped
  | .nestedLoop => let (w', l) := nested v w; ({ w' with iters := w.iters }, .pairs l)

def run (v : Variant) (w : World) : List Op → World × List Out
  | [] => (w, [])
  | o :: os =>
    let (w1, out) := step v w o
    let r := run v w1 os
    (r.1, out :: r.2)

end Molli.Model.Ensemble
