/-
Model of the distance kernels (`molli_xt/distance.cpp`) and of the grid based descriptors
(`molli/descriptor/gridbased.py`) — property C19.   Core Lean only.

Arrays are nested lists: an `(N,3)` array is a `List (P3 α)`, an `(X,N,3)` array a
`List (List (P3 α))`.  The kernels are generic in the number type, so that the same definitions
  * run over `Float32` / `Float` with exactly the operations and the summation order of the C++
    templates (`dist = 0; dist += square(v1[i] - v2[i])`, i = 0,1,2), and
  * are the exact mathematical objects over `Rat`, about which the theorems are proved.
The descriptors are modelled over `Rat` (every float32/float64 input is a rational).
-/
namespace Molli.Model.Grid

structure P3 (α : Type) where
  x : α
  y : α
  z : α
deriving Repr, DecidableEq

/-! ## distance kernels (generic) -/
section kernels
variable {α β : Type}

/-- `molli::square` -/
def sq [Mul α] (a : α) : α := a * a

/-- `molli::euclidean2<T,3>`: `T dist = 0; for i in 0..2: dist += square(vec1[i] - vec2[i])`. -/
def dist2 [Add α] [Sub α] [Mul α] [OfNat α 0] (p q : P3 α) : α :=
  ((0 + sq (p.x - q.x)) + sq (p.y - q.y)) + sq (p.z - q.z)

/-- `molli::cdist22<T, f>`: `result(i,j) = f(arr1[i], arr2[j])`, shape `(L1, L2)`. -/
def cdist22With (f : P3 α → P3 α → β) (a b : List (P3 α)) : List (List β) :=
  a.map fun p => b.map fun q => f p q

/-- `molli::cdist32<T, f>`: `result(x,i,j) = f(arr1[x,i], arr2[j])`, shape `(X, L1, L2)`. -/
def cdist32With (f : P3 α → P3 α → β) (a : List (List (P3 α))) (b : List (P3 α)) : List (List (List β)) :=
  a.map fun c => cdist22With f c b

/-- `cdist22_eu2` -/
def cdist22 [Add α] [Sub α] [Mul α] [OfNat α 0] (a b : List (P3 α)) : List (List α) :=
  cdist22With dist2 a b

/-- `cdist32_eu2` -/
def cdist32 [Add α] [Sub α] [Mul α] [OfNat α 0] (a : List (List (P3 α))) (b : List (P3 α)) :
    List (List (List α)) :=
  cdist32With dist2 a b

end kernels

/-- `euclidean<float,3>` = `sqrt(euclidean2)` in binary32 / binary64 -/
def distF32 (p q : P3 Float32) : Float32 := Float32.sqrt (dist2 p q)
def distF64 (p q : P3 Float) : Float := Float.sqrt (dist2 p q)

/-! ## rectangular_grid (exact arithmetic) -/

/-- `n = int((r - l) // spacing) + 1` -/
def axisCount (lo hi s : Rat) : Int := ((hi - lo) / s).floor + 1

/-- `o = (r - l - (n - 1) * spacing) / 2` -/
def axisOffset (lo hi s : Rat) : Rat :=
  ((hi - lo) - ((axisCount lo hi s - 1 : Int) : Rat) * s) / 2

/-- `numpy.linspace(a, b, n, endpoint=True)`: `a + i * ((b - a) / (n - 1))`, `[a]` for `n = 1`. -/
def linspace (a b : Rat) (n : Nat) : List Rat :=
  if n = 1 then [a] else (List.range n).map fun (i : Nat) => a + (i : Rat) * ((b - a) / ((n : Rat) - 1))

/-- the points of one axis: `linspace(l + o, r - o, n)` -/
def axis (lo hi s : Rat) : List Rat :=
  linspace (lo + axisOffset lo hi s) (hi - axisOffset lo hi s) (axisCount lo hi s).toNat

/-- `np.meshgrid(xs, ys, zs)` (indexing `xy`) ravelled in C order and stacked column-wise:
`y` runs slowest, then `x`, then `z`. -/
def mesh (xs ys zs : List Rat) : List (P3 Rat) :=
  ys.flatMap fun y => xs.flatMap fun x => zs.map fun z => ⟨x, y, z⟩

def rectGrid (l r : P3 Rat) (pad s : Rat) : List (P3 Rat) :=
  mesh (axis (l.x - pad) (r.x + pad) s) (axis (l.y - pad) (r.y + pad) s) (axis (l.z - pad) (r.z + pad) s)

/-! ## nearest atom, pruning -/

/-- index and value of the first minimum of a list (`none` for the empty list); `i0` = index of the head -/
def argminFrom : Nat → List Rat → Option (Nat × Rat)
  | _, [] => none
  | i0, d :: ds =>
    match argminFrom (i0 + 1) ds with
    | none => some (i0, d)
    | some (j, e) => if d ≤ e then some (i0, d) else some (j, e)

def argmin (ds : List Rat) : Option (Nat × Rat) := argminFrom 0 ds

/-- `nearest_atom_index` for one geometry and one grid point: the index of a closest atom if it is
within `maxd`, else `-1` (distances compared through their squares; `0 ≤ maxd`). -/
def nearest (atoms : List (P3 Rat)) (maxd : Rat) (g : P3 Rat) : Int :=
  match argmin (atoms.map fun a => dist2 a g) with
  | none => -1
  | some (i, d) => if d ≤ maxd * maxd then (i : Int) else -1

/-- indices (ascending) of the elements satisfying `q` — `np.where(mask)[0]` -/
def whereFrom {α : Type} (q : α → Bool) : Nat → List α → List Nat
  | _, [] => []
  | i, g :: gs => if q g then i :: whereFrom q (i + 1) gs else whereFrom q (i + 1) gs

/-- `prune` for an arbitrary neighbour query: `q g = true` iff the query returned a neighbour
(at a distance `≤ max_dist`). -/
def pruneWith (q : P3 Rat → Bool) (grid : List (P3 Rat)) : List Nat := whereFrom q 0 grid

/-- the exact query -/
def withinCut (atoms : List (P3 Rat)) (maxd : Rat) (g : P3 Rat) : Bool :=
  atoms.any fun a => decide (dist2 a g ≤ maxd * maxd)

def pruneExact (atoms : List (P3 Rat)) (maxd : Rat) (grid : List (P3 Rat)) : List Nat :=
  pruneWith (withinCut atoms maxd) grid

/-! ## indicator fields -/

/-- the grid point lies in the van der Waals sphere of some atom of the conformer:
`np.any(alldist2 <= (radii**2)[:, None], axis=1)` -/
def occupied (conf : List (P3 Rat)) (radii : List Rat) (g : P3 Rat) : Bool :=
  (conf.zip radii).any fun ar => decide (dist2 ar.1 g ≤ ar.2 * ar.2)

def rsum : List Rat → Rat
  | [] => 0
  | a :: as => a + rsum as

def dot : List Rat → List Rat → Rat
  | a :: as, b :: bs => a * b + dot as bs
  | _, _ => 0

/-- `np.average(values, weights=w)` over the conformer axis -/
def average (weights : Option (List Rat)) (vals : List Rat) : Rat :=
  match weights with
  | none => rsum vals / (vals.length : Rat)
  | some w => dot w vals / rsum w

def indicator01 (b : Bool) : Rat := if b then 1 else 0

/-- `aso(ens, grid, weighted)` -/
def aso (ens : List (List (P3 Rat))) (radii : List Rat) (weights : Option (List Rat))
    (grid : List (P3 Rat)) : List Rat :=
  grid.map fun g => average weights (ens.map fun c => indicator01 (occupied c radii g))

def maxOf : List Rat → Rat
  | [] => 0
  | [a] => a
  | a :: as => let m := maxOf as; if m ≤ a then a else m

/-- value of the indicator at one grid point for one conformer: the value carried by the nearest
atom (within `maxd`) when the point is inside some sphere, else 0 -/
def indicatorAt (conf : List (P3 Rat)) (vals radii : List Rat) (maxd : Rat) (g : P3 Rat) : Rat :=
  let k := nearest conf maxd g
  if occupied conf radii g && decide (0 ≤ k) then vals.getD k.toNat 0 else 0

/-- `atomic_indicator_field` with the default `nearest_atom_idx` (`max_dist = max(radii)`) -/
def indicatorField (ens : List (List (P3 Rat))) (vals : List (List Rat)) (radii : List Rat)
    (weights : Option (List Rat)) (grid : List (P3 Rat)) : List Rat :=
  grid.map fun g =>
    average weights (List.zipWith (fun c v => indicatorAt c v radii (maxOf radii) g) ens vals)

/-- `aeif(ens, grid, weighted)`: indicator values are the atomic charges of each conformer -/
def aeif (ens : List (List (P3 Rat))) (charges : List (List Rat)) (radii : List Rat)
    (weights : Option (List Rat)) (grid : List (P3 Rat)) : List Rat :=
  indicatorField ens charges radii weights grid

/-! ## float evaluation of the occupancy test, as the code performs it
`cdist32f_eu2` in binary32, compared with `radius**2` in binary64 -/
def occupiedF32 (conf : List (P3 Float32)) (radii : List Float) (g : P3 Float32) : Bool :=
  (conf.zip radii).any fun ar => decide ((dist2 ar.1 g).toFloat ≤ ar.2 * ar.2)

end Molli.Model.Grid
