/-
Model of the graph queries of `molli.chem.bond.Connectivity` (property C15).

Anchors (molli/chem/bond.py):
  bonds_with_atom   `for b in self._bonds: if _a in b: yield b`
  connected_atoms   `for b in self.bonds_with_atom(_a): yield b % _a`
  bonded_valence    `val = 0.0; for b in bonds_with_atom(a): val += b.order`
  yield_bfsd        deque used as FIFO: `append` / `pop` (right end) / `appendleft`;
                    `visited = {start}`; with a direction `visited.add(direction)`,
                    `(direction, 1)` is queued and yielded first
  yield_bfs         the same traversal without labels
  is_bond_in_ring   `connections = {a for a in connected_atoms(b.a1) if a != b.a2}`;
                    true iff `yield_bfs(b.a1, b.a2)` yields a member of `connections`
  match / get_substr_indices
                    `GraphMatcher(source, pattern, node_match, edge_match).subgraph_isomorphisms_iter()`
                    (node-induced subgraph isomorphisms); replaced here by a brute-force
                    extension-by-one-vertex enumerator that is proved sound and complete.

Atoms are their indices `0 … n-1` in `_atoms`; a bond is `(a1, a2, attributes)` in `_bonds` order.
Core Lean only (linked into the driver).
-/
namespace Molli.Model.Graph

/-- a yielded item of `yield_bfsd`: (atom index, distance label) -/
abbrev Lab := Nat × Nat

structure Bond (EA : Type) where
  a1 : Nat
  a2 : Nat
  attr : EA
deriving Repr, DecidableEq

/-- `_a in b`  (`other in {self.a1, self.a2}`) -/
def Bond.has {EA} (b : Bond EA) (u : Nat) : Bool := b.a1 == u || b.a2 == u

/-- `b % a`: the other end (`a2` when `a1 == a`, else `a1` when `a2 == a`) -/
def Bond.other? {EA} (b : Bond EA) (u : Nat) : Option Nat :=
  if b.a1 = u then some b.a2 else if b.a2 = u then some b.a1 else none

/-- `bonds_with_atom` -/
def bondsWith {EA} (bonds : List (Bond EA)) (u : Nat) : List (Bond EA) :=
  bonds.filter (·.has u)

/-- `connected_atoms`: the other ends of the incident bonds, in bond-list order -/
def neighbors {EA} (bonds : List (Bond EA)) (u : Nat) : List Nat :=
  (bondsWith bonds u).filterMap (·.other? u)

/-- `n_bonds_with_atom` -/
def degree {EA} (bonds : List (Bond EA)) (u : Nat) : Nat := (neighbors bonds u).length

/-- `bonded_valence` for a bond-order function (orders come from the generated table) -/
def valence {EA} (order : EA → Rat) (bonds : List (Bond EA)) (u : Nat) : Rat :=
  ((bondsWith bonds u).map (fun b => order b.attr)).sum

/-! ### breadth-first traversal with the code's queue discipline -/

/-- the inner `for a in connected_atoms(start)` loop for a vertex popped with label `d`:
returns the newly yielded items (in order) and the new visited set -/
def visitNbrs (d : Nat) : List Nat → List Nat → List Lab × List Nat
  | [], vis => ([], vis)
  | a :: as, vis =>
    if a ∈ vis then visitNbrs d as vis
    else
      let r := visitNbrs d as (a :: vis)
      ((a, d+1) :: r.1, r.2)

/-- the `while queue:` loop. The queue is a list whose head is the next item popped
(`queue.pop()` takes the right end, `appendleft` adds at the left end: first in, first out).
The result is the sequence of yielded items.  The first argument is fuel. -/
def bfs (adj : Nat → List Nat) : Nat → List Lab → List Nat → List Lab
  | 0, _, _ => []
  | _+1, [], _ => []
  | f+1, (u, d) :: q, vis =>
    let r := visitNbrs d (adj u) vis
    r.1 ++ bfs adj f (q ++ r.1) r.2

/-- `yield_bfsd(start)` on a molecule of `n` atoms -/
def bfsd (adj : Nat → List Nat) (n s : Nat) : List Lab :=
  bfs adj (n + 1) [(s, 0)] [s]

/-- `yield_bfsd(start, direction)` (the assertion `direction in connected_atoms(start)` is checked by the caller) -/
def bfsdDir (adj : Nat → List Nat) (n s dir : Nat) : List Lab :=
  (dir, 1) :: bfs adj (n + 1) [(dir, 1)] [dir, s]

/-- `yield_bfsd(start, direction)` including the assertion -/
def bfsdDir? (adj : Nat → List Nat) (n s dir : Nat) : Option (List Lab) :=
  if dir ∈ adj s then some (bfsdDir adj n s dir) else none

/-- `is_bond_in_ring(b)` with `b.a1 = a1`, `b.a2 = a2` -/
def inRing (adj : Nat → List Nat) (n a1 a2 : Nat) : Bool :=
  (bfsdDir adj n a1 a2).any (fun x => decide (x.1 ∈ adj a1) && decide (x.1 ≠ a2))

/-! ### graph-theoretic vocabulary used by the theorems -/

/-- `Walk adj s v k`: there is a walk of length `k` from `s` to `v` -/
inductive Walk (adj : Nat → List Nat) (s : Nat) : Nat → Nat → Prop
  | refl : Walk adj s s 0
  | step {u v k} : Walk adj s u k → v ∈ adj u → Walk adj s v (k+1)

def Reach (adj : Nat → List Nat) (s v : Nat) : Prop := ∃ k, Walk adj s v k

/-- the graph with vertex `s` deleted -/
def delVertex (adj : Nat → List Nat) (s : Nat) : Nat → List Nat :=
  fun u => if u = s then [] else (adj u).filter (· ≠ s)

/-- the graph with every `a`–`b` adjacency deleted -/
def delEdge (adj : Nat → List Nat) (a b : Nat) : Nat → List Nat :=
  fun u => if u = a then (adj u).filter (· ≠ b) else if u = b then (adj u).filter (· ≠ a) else adj u

/-! ### labelled graphs and the induced-embedding enumerator -/

structure LGraph (NA EA : Type) where
  nodes : List NA
  bonds : List (Bond EA)

def LGraph.n {NA EA} (g : LGraph NA EA) : Nat := g.nodes.length

def LGraph.adj {NA EA} (g : LGraph NA EA) : Nat → List Nat := neighbors g.bonds

/-- bonds end inside the atom list -/
def LGraph.WF {NA EA} (g : LGraph NA EA) : Prop := ∀ b ∈ g.bonds, b.a1 < g.n ∧ b.a2 < g.n

/-- attribute of the (first) bond between `i` and `j`, if any -/
def edge? {EA} (bonds : List (Bond EA)) (i j : Nat) : Option EA :=
  (bonds.find? (fun b => (b.a1 == i && b.a2 == j) || (b.a1 == j && b.a2 == i))).map (·.attr)

/-- pattern pair (i,j) against graph pair (x,y): bonded ↦ bonded with compatible attributes,
non-bonded ↦ non-bonded -/
def edgeCond {EA EB} (edgeOK : EA → EB → Bool) (pb : List (Bond EB)) (gb : List (Bond EA))
    (i j x y : Nat) : Bool :=
  match edge? pb i j, edge? gb x y with
  | some ep, some eg => edgeOK eg ep
  | none, none => true
  | _, _ => false

def nodeCond {NA NB} (nodeOK : NA → NB → Bool) (pn : List NB) (gn : List NA) (i x : Nat) : Bool :=
  match pn[i]?, gn[x]? with
  | some np, some ng => nodeOK ng np
  | _, _ => false

/-- may graph atom `x` be the image of pattern atom `φ.length`, given the images `φ` of the
pattern atoms `0 … φ.length-1`? -/
def extOK {NA NB EA EB} (nodeOK : NA → NB → Bool) (edgeOK : EA → EB → Bool)
    (P : LGraph NB EB) (G : LGraph NA EA) (φ : List Nat) (x : Nat) : Bool :=
  !φ.contains x && nodeCond nodeOK P.nodes G.nodes φ.length x &&
  (List.range φ.length).all (fun i => edgeCond edgeOK P.bonds G.bonds i φ.length (φ.getD i 0) x)

/-- all valid images of the first `k` pattern atoms -/
def partials {NA NB EA EB} (nodeOK : NA → NB → Bool) (edgeOK : EA → EB → Bool)
    (P : LGraph NB EB) (G : LGraph NA EA) : Nat → List (List Nat)
  | 0 => [[]]
  | k+1 => (partials nodeOK edgeOK P G k).flatMap
      (fun φ => ((List.range G.n).filter (extOK nodeOK edgeOK P G φ)).map (fun x => φ ++ [x]))

/-- `get_substr_indices`: every list `φ` with `φ[i]` = index of the graph atom matched to pattern atom `i` -/
def embeddings {NA NB EA EB} (nodeOK : NA → NB → Bool) (edgeOK : EA → EB → Bool)
    (P : LGraph NB EB) (G : LGraph NA EA) : List (List Nat) :=
  partials nodeOK edgeOK P G P.n

/-! ### the compatibility predicates of the code (`_node_match`, `_edge_match`) on enum values -/

/-- node attributes that `_node_match` looks at: element (Z, Unknown = 0), isotope (`none` = None), stereo value -/
structure NodeA where
  element : Nat
  isotope : Option Int
  stereo : Nat
deriving Repr, DecidableEq

/-- edge attributes that `_edge_match` looks at -/
structure EdgeA where
  btype : Nat
  stereo : Nat
  label : Option String
  forder : Rat := 1
deriving Repr, DecidableEq

/-- `_node_match(a1 = source, a2 = pattern)`; `atype` never decides (`a2["atype"] != a2["atype"]`). -/
def nodeMatch (elUnknown stUnknown : Nat) (g p : NodeA) : Bool :=
  !(p.element != elUnknown && g.element != p.element) &&
  !(p.isotope.isSome && g.isotope != p.isotope) &&
  !(p.stereo != stUnknown && g.stereo != p.stereo)

/-- outcome of the `match e2["btype"]` block of `_edge_match`: `none` = `NotImplementedError` -/
def btypeMatch (g p : Nat) : Option Bool :=
  if p = 0 then some true
  else if p = 1 ∨ p = 2 ∨ p = 3 then some (!(g < p))
  else if p = 20 ∨ p = 21 then some (g == p)
  else if p = 11 then some false
  else none

/-- `_edge_match(e1 = source, e2 = pattern)`, total version (`NotImplementedError` ↦ false; the
harness never draws such pattern bond types, the driver reports them as `err`) -/
def edgeMatch (bsUnknown : Nat) (g p : EdgeA) : Bool :=
  (btypeMatch g.btype p.btype).getD false &&
  !(p.stereo != bsUnknown && g.stereo != p.stereo) &&
  !(p.label.isSome && g.label != p.label)

end Molli.Model.Graph
