/-
xyz writer and strict reader models, and the unit table semantics (C08, C10).

Code modelled:
* `molli/chem/geometry.py`  `dump_xyz` (`f"{s:<5} {x:12.6f} {y:12.6f} {z:12.6f}"`), `yield_from_xyz`
                            (`*` -> Dummy/Unknown, `Element.get(symbol)`, unit scaling), `DistanceUnit`
* `molli/parsing/xyz.py`    `read_xyz`: count line, comment line, exactly `n` atom lines of 4 fields;
                            any deviation raises `XYZSyntaxError`; end of input between frames ends the file
* `molli/chem/ensemble.py`  `dump_xyz` / `load_xyz`: frames back to back

The model is the REPAIRED behaviour for the two defects of the unchanged tree:
 D16  `source_units` must DIVIDE by the table value (the table holds "units per Ångström");
 D17  a frame with 0 atoms is read back (the unrepaired code fails on the empty coordinate list).
Core Lean only.
-/
import Molli.Model.Text
import Molli.Model.Mol2Types
namespace Molli.Model.Xyz
open Molli.Model.Text Molli.Model.Mol2Types

/-! ### units -/

/-- one member of `DistanceUnit`: the table value `num/den` is "how many of this unit make one Ångström" -/
structure UnitEntry where
  name : String
  num : Nat
  den : Nat
deriving Repr, DecidableEq

def UnitEntry.factor (u : UnitEntry) : Rat := mkRat u.num u.den

/-- a length given in unit `u`, expressed in Ångström -/
def toAngstrom (u : UnitEntry) (x : Rat) : Rat := x / u.factor

/-- the same length expressed in unit `u` -/
def fromAngstrom (u : UnitEntry) (x : Rat) : Rat := x * u.factor

/-- physical reference (CODATA Bohr radius 0.529177210903 Å), independent of the code's table:
name, units per Ångström -/
def unitReference : List (String × Nat × Nat) :=
  [ ("A", 1, 1), ("Angstrom", 1, 1),
    ("Bohr", 1000000000000, 529177210903), ("au", 1000000000000, 529177210903),
    ("fm", 100000, 1), ("pm", 100, 1), ("nm", 1, 10) ]

def refOf (name : String) : Option (Nat × Nat) :=
  match unitReference.find? (fun r => r.1 == name) with
  | some r => some r.2
  | none => none

/-- `|a/b - c/d| ≤ 10⁻⁴ · c/d` in integers -/
def closeTo (a b c d : Nat) : Bool :=
  let l := a * d
  let r := c * b
  10000 * (if l ≥ r then l - r else r - l) ≤ r

/-- every member of the table is a known unit, is non-zero, and has the physical value (to 1e-4,
the table gives Bohr to six digits) -/
def unitsOk (tab : List UnitEntry) : Bool :=
  tab.all fun u => u.num ≠ 0 && u.den ≠ 0 &&
    match refOf u.name with
    | some (c, d) => closeTo u.num u.den c d
    | none => false

/-! ### geometry values -/

structure XAtom where
  e : Nat          -- element index
  dummy : Bool     -- `*` was read: AtomType.Dummy
  x : Num
  y : Num
  z : Num
deriving DecidableEq, Repr

structure Frame where
  comment : Str
  atoms : List XAtom
deriving DecidableEq, Repr

/-! ### writer -/

section writer
variable (tt : TypeTable)

/-- `f"{s:<5} {x:12.6f} {y:12.6f} {z:12.6f}"` -/
def atomLine (a : XAtom) : Str :=
  padRight 5 (strOf (tt.sym a.e)) ++ [' '] ++ padLeft 12 (fmtFixed 6 a.x) ++ [' '] ++
  padLeft 12 (fmtFixed 6 a.y) ++ [' '] ++ padLeft 12 (fmtFixed 6 a.z)

def frameLines (f : Frame) : List Str :=
  [natStr f.atoms.length, f.comment] ++ f.atoms.map (atomLine tt)

def writeText (fs : List Frame) : Str := joinLines (fs.flatMap (frameLines tt))

end writer

/-! ### reader -/

inductive Err
  | count     -- count line is not an integer
  | eof       -- end of input inside a frame
  | atom      -- atom line is not `symbol x y z`
  | value     -- unknown element symbol, negative count
  | fuel
deriving DecidableEq, Repr

/-- raw block of `read_xyz` -/
structure RawAtom where
  sym : Str
  x : Num
  y : Num
  z : Num
deriving DecidableEq, Repr

structure RawBlock where
  n : Int
  comment : Str
  atoms : List RawAtom
deriving DecidableEq, Repr

def parseAtomLine (l : Str) : Except Err RawAtom :=
  match pySplit l with
  | [a, x, y, z] =>
    match parseFloat x, parseFloat y, parseFloat z with
    | some x, some y, some z => .ok ⟨a, x, y, z⟩
    | _, _, _ => .error .atom
  | _ => .error .atom

/-- `n` atom lines -/
def readAtoms : Nat → List Str → Except Err (List RawAtom × List Str)
  | 0, ls => .ok ([], ls)
  | _ + 1, [] => .error .eof
  | n + 1, l :: ls =>
    match parseAtomLine l with
    | .error e => .error e
    | .ok a =>
      match readAtoms n ls with
      | .error e => .error e
      | .ok (as, rest) => .ok (a :: as, rest)

/-- `read_xyz` on the lines of the input -/
def readLoop : Nat → List Str → Except Err (List RawBlock)
  | 0, _ => .error .fuel
  | _, [] => .ok []
  | f + 1, line :: ls =>
    match parseInt line with
    | none => .error .count
    | some n =>
      match ls with
      | [] => .error .eof
      | c :: ls' =>
        match readAtoms n.toNat ls' with
        | .error e => .error e
        | .ok (as, rest) =>
          match readLoop f rest with
          | .error e => .error e
          | .ok more => .ok (⟨n, pyStrip c, as⟩ :: more)

def readBlocks (text : Str) : Except Err (List RawBlock) :=
  let ls := splitLines text
  readLoop (ls.length + 1) ls

section build
variable (tt : TypeTable)

def star : Str := ['*']

/-- one atom of `yield_from_xyz` -/
def buildAtom (a : RawAtom) : Except Err XAtom :=
  if a.sym = star then .ok ⟨tt.sp.eUnknown, true, a.x, a.y, a.z⟩
  else match tt.elementGet (codesOf a.sym) with
    | some e => .ok ⟨e, false, a.x, a.y, a.z⟩
    | none => .error .value

def mapE {α β : Type} (f : α → Except Err β) : List α → Except Err (List β)
  | [] => .ok []
  | a :: as =>
    match f a with
    | .error e => .error e
    | .ok b => match mapE f as with
      | .error e => .error e
      | .ok bs => .ok (b :: bs)

def buildFrame (b : RawBlock) : Except Err Frame :=
  if b.n < 0 then .error .value
  else match mapE (buildAtom tt) b.atoms with
    | .error e => .error e
    | .ok as => .ok ⟨b.comment, as⟩

/-- `cls.loads_all_xyz(text)` (coordinates still in the unit of the file) -/
def loadsAll (text : Str) : Except Err (List Frame) :=
  match readBlocks text with
  | .error e => .error e
  | .ok bs => mapE (buildFrame tt) bs

end build

end Molli.Model.Xyz
