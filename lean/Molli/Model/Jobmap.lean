/-
Model of `molli.pipeline.jobmap` — property C18.   Core Lean only.

State between runs: the destination library (key ↦ stored result), the cache directory
(`<cache>/output/<job>.out`: job name ↦ input hash, recorded exit code, returned file) and — as ghost state —
how often each job was really executed (the counter files of the harness).
A source item is a key plus the number of sub-jobs (`none`: the job prepares one `JobInput`; `some n`: a
vectorised job prepares `n` inputs named `<key>.<i>`).  One run is a function of (source, arguments, scripted
per-job behaviour, state).  The behaviour of a job is a `Plan` (succeed / fail / killed by a signal / fail after having written the
file / succeed from the n-th attempt on / succeed but omit the return file); the input hash is abstracted to
the pair (job name, argument tag): equal iff the prepared inputs are equal.
`Variant.repaired` is the behaviour the property demands (`all − skip`, hash of the sub-input, no
post-processing of failed jobs); `Variant.asShipped` is the pinned commit.
-/
namespace Molli.Model.Jobmap

inductive Variant | asShipped | repaired
deriving Repr, DecidableEq

structure Item where
  key : String
  subs : Option Nat
deriving Repr, DecidableEq

/-- names of the jobs of an item: `<key>` or `<key>.0 … <key>.(n-1)` -/
def jobNames (it : Item) : List String :=
  match it.subs with
  | none => [it.key]
  | some n => (List.range n).map fun i => it.key ++ "." ++ toString i

inductive Plan
  | ok
  | fail (code : Nat)
  | failWrote (code : Nat)
  | okFrom (attempt : Nat) (code : Nat)
  | omit
  | killed (signal : Nat)          -- writes the return file, then dies by a signal (return code `-signal`)
  | okUntil (attempt : Nat) (code : Nat)   -- succeeds before the given attempt, fails with `code` from it on
deriving Repr, DecidableEq

/-- return code of the command (negative: killed by that signal) and whether the return file was written, at the
given attempt (1-based) -/
def outcome : Plan → Nat → Int × Bool
  | .ok, _ => (0, true)
  | .fail c, _ => (c, false)
  | .failWrote c, _ => (c, true)
  | .okFrom n c, a => if n ≤ a then (0, true) else (c, false)
  | .omit, _ => (0, false)
  | .killed s, _ => (-(s : Int), true)
  | .okUntil n c, a => if a < n then (0, true) else (c, false)

/-- a job is a list of commands (a compute step, a tolerant collect step, …): the runner starts them in order and
stops at the first non-zero return code, which is the job's; the return file exists if a started command wrote it -/
def jobOutcome : List Plan → Nat → Int × Bool
  | [], _ => (0, false)
  | p :: ps, a =>
    if (outcome p a).1 ≠ 0 then outcome p a
    else ((jobOutcome ps a).1, (outcome p a).2 || (jobOutcome ps a).2)

/-- one cache file `<job>.out` -/
structure Ent where
  tag : String              -- stands for `input_hash`: the argument tag the input was prepared with
  code : Int                -- `JobOutput.exitcode`
  payload : Option String   -- content of the returned file, if any
deriving Repr, DecidableEq

structure St where
  dest : String → Option String
  cache : String → Option Ent
  attempts : String → Nat

structure Run where
  tag : String                 -- the `args` of this run
  plan : String → List Plan    -- scripted behaviour per job name: one plan per command of the job
  strict : Bool := true

/-- what `_molli_run` records for a job executed for the `a`-th time (C17: the failing code, else 0 only if
the requested file exists) -/
def entOf (r : Run) (j : String) (a : Nat) : Ent :=
  let (c, wrote) := jobOutcome (r.plan j) a
  { tag := r.tag
    code := if c ≠ 0 then c else if wrote then 0 else 1
    payload := if wrote then some (j ++ ":" ++ r.tag ++ ":" ++ toString a) else none }

/-- the cache test of `jobmap`: `(not strict_hash or hash equal) and exitcode == 0` -/
def validCache (r : Run) (st : St) (j : String) : Bool :=
  match st.cache j with
  | some e => (!r.strict || e.tag == r.tag) && e.code == 0
  | none => false

/-- keys to work on: source keys that are not in the destination -/
def todo (src : List Item) (st : St) : List Item :=
  src.filter fun it => (st.dest it.key).isNone

/-- jobs that are executed in this run -/
def toRun (src : List Item) (r : Run) (st : St) : List String :=
  ((todo src st).flatMap jobNames).filter fun j => !validCache r st j

/-- the processed result of an item, if every one of its outputs is usable -/
def postOf (v : Variant) (cache : String → Option Ent) (r : Run) (it : Item) : Option String :=
  let ents := (jobNames it).map cache
  let usable (e : Option Ent) : Bool := match e with
    | some e => (v == .asShipped || e.code == 0) && e.payload.isSome
    | none => false
  if ents.all usable then
    some (r.tag ++ "|" ++ ",".intercalate (ents.filterMap fun e => e.bind (·.payload)))
  else none

/-- one call of `jobmap` (repaired behaviour): new state and the list of executed jobs -/
def runRepaired (src : List Item) (r : Run) (st : St) : St × List String :=
  let ex := toRun src r st
  let cache' : String → Option Ent := fun j => if j ∈ ex then some (entOf r j (st.attempts j + 1)) else st.cache j
  let attempts' : String → Nat := fun j => if j ∈ ex then st.attempts j + 1 else st.attempts j
  let dest' : String → Option String := fun k =>
    match st.dest k with
    | some v => some v
    | none => match (todo src st).find? (fun it => it.key == k) with
      | some it => postOf .repaired cache' r it
      | none => none
  ({ dest := dest', cache := cache', attempts := attempts' }, ex)

/-- the pinned commit: `all ^ skip` makes the call raise (`none`) when a key is only in the destination; a
vectorised item with an existing output file makes it raise (`_input.hash` of a generator); failed jobs are
post-processed. `destKeys` lists the keys of the destination. -/
def runShipped (src : List Item) (destKeys : List String) (r : Run) (st : St) : Option (St × List String) :=
  if destKeys.any (fun k => !(src.any fun it => it.key == k)) then none
  else if r.strict && (todo src st).any (fun it => it.subs.isSome && (jobNames it).any fun j => (st.cache j).isSome) then none
  else
    let ex := toRun src r st
    let cache' : String → Option Ent := fun j => if j ∈ ex then some (entOf r j (st.attempts j + 1)) else st.cache j
    let attempts' : String → Nat := fun j => if j ∈ ex then st.attempts j + 1 else st.attempts j
    let dest' : String → Option String := fun k =>
      match st.dest k with
      | some v => some v
      | none => match (todo src st).find? (fun it => it.key == k) with
        | some it => postOf .asShipped cache' r it
        | none => none
    some ({ dest := dest', cache := cache', attempts := attempts' }, ex)

/-- a history of runs over the same source -/
def runs (src : List Item) : St → List Run → St × List (List String)
  | st, [] => (st, [])
  | st, r :: rs =>
    let (st1, ex) := runRepaired src r st
    let (st2, exs) := runs src st1 rs
    (st2, ex :: exs)

def emptySt : St := { dest := fun _ => none, cache := fun _ => none, attempts := fun _ => 0 }

end Molli.Model.Jobmap
