/-
Executable model of `molli/storage/ukvfile.py` (UKVFile) at the byte level.

  file    = List UInt8 (or absent)
  handle  = the Python object's fields: mode, closed, h1/h2/b0, _toc (insertion-ordered
            dict as an association list), _last, _eof
  world   = file × handles

Modelled: `__init__`/`open` in the four modes, `read_header`, `write_header`,
`map_blocks` (with the `(eof, last)` shortcut and the size-bounded scan that drops a torn
tail and, on a writable stream, cuts it off), `put`, `get`, `keys`, `close`.
Not modelled (environment): buffered I/O — the byte list is updated in program order;
the history generator keeps an open writable handle exclusive (that is what the
reader-writer lock of C04 guarantees), so no handle reads through another's buffer.

Core Lean only: this file is linked into the driver executable.
-/
import Molli.Util.Basic
namespace Molli.Model.Ukv
open Molli.Util

/-! ### integers on the wire (big endian, as `struct` with `>`) -/

def be16 (n : Nat) : Bytes := [UInt8.ofNat (n / 256 % 256), UInt8.ofNat (n % 256)]

def be32 (n : Nat) : Bytes :=
  [UInt8.ofNat (n / 16777216 % 256), UInt8.ofNat (n / 65536 % 256),
   UInt8.ofNat (n / 256 % 256), UInt8.ofNat (n % 256)]

def rd16 (a b : UInt8) : Nat := a.toNat * 256 + b.toNat

def rd32 (a b c d : UInt8) : Nat :=
  a.toNat * 16777216 + b.toNat * 65536 + c.toNat * 256 + d.toNat

/-! ### records and blocks -/

/-- A key/value pair as the user sees it. -/
structure KV where
  key : Bytes
  val : Bytes
deriving DecidableEq, Repr

/-- `struct.pack(">BI", len(key), len(value))` succeeds exactly under this guard. -/
def KV.ok (r : KV) : Prop := r.key.length < 256 ∧ r.val.length < 4294967296

instance (r : KV) : Decidable r.ok := by unfold KV.ok; exact inferInstance

/-- `_BLOCK_HEADER.pack(len key, len value) + key + value` -/
def encBlock (r : KV) : Bytes :=
  UInt8.ofNat r.key.length :: (be32 r.val.length ++ (r.key ++ r.val))

/-- `UKVRecord`: where a block sits in the file. -/
structure Rec where
  pos  : Nat
  klen : Nat
  vlen : Nat
deriving DecidableEq, Repr

def Rec.size (r : Rec) : Nat := 5 + r.klen + r.vlen
def Rec.end_ (r : Rec) : Nat := r.pos + r.size
def Rec.posV (r : Rec) : Nat := r.pos + 5 + r.klen

/-! ### file header  (`>16sHI10x`, then h2, then b0) -/

/-- `16s`: truncate or zero-pad to exactly 16 bytes. -/
def pad16 (b : Bytes) : Bytes := (b.take 16) ++ List.replicate (16 - b.length) 0

def encHeader (h1 h2 b0 : Bytes) : Bytes :=
  pad16 h1 ++ be16 h2.length ++ be32 b0.length ++ List.replicate 10 0 ++ h2 ++ b0

/-- The fixed 32-byte part of the file header: `_FILE_HEADER.pack(h1, len(h2), len(b0))`. -/
def hdrFixed (h1 : Bytes) (h2len b0len : Nat) : Bytes :=
  pad16 h1 ++ be16 h2len ++ be32 b0len ++ List.replicate 10 0

/-- `_BLOCK_HEADER.pack(klen, vlen)` -/
def blkHdr (klen vlen : Nat) : Bytes := UInt8.ofNat klen :: be32 vlen

def bofOf (h2 b0 : Bytes) : Nat := 32 + b0.length + h2.length

/-! ### table of contents: Python dict (insertion ordered, assignment keeps the slot) -/

abbrev Toc := List (Bytes × Rec)

def tocFind (t : Toc) (k : Bytes) : Option Rec :=
  match t with
  | [] => none
  | (k', r) :: rest => if k' = k then some r else tocFind rest k

def tocSet (t : Toc) (k : Bytes) (r : Rec) : Toc :=
  match t with
  | [] => [(k, r)]
  | (k', r') :: rest => if k' = k then (k, r) :: rest else (k', r') :: tocSet rest k r

def tocMerge (t : Toc) (news : Toc) : Toc := news.foldl (fun acc kr => tocSet acc kr.1 kr.2) t

/-! ### the scan of `map_blocks` -/

/-- Size-bounded scan of the bytes that follow position `pos`.
Returns the (key, record) pairs in file order and the position after the last complete block.
`fuel` bounds the number of blocks; every block consumes at least five bytes, so
`rest.length` always suffices (`scan_fuel_irrelevant` in `Props.C03`). The structural
recursion is the termination proof of the `while` loop. -/
def scanAux : Nat → Nat → Bytes → Toc × Nat
  | 0, pos, _ => ([], pos)
  | f+1, pos, k :: a :: b :: c :: d :: rest =>
      let kl := k.toNat
      let vl := rd32 a b c d
      if kl + vl ≤ rest.length then
        let r := scanAux f (pos + 5 + kl + vl) (rest.drop (kl + vl))
        ((rest.take kl, ⟨pos, kl, vl⟩) :: r.1, r.2)
      else ([], pos)
  | _+1, pos, _ => ([], pos)

def scanFile (file : Bytes) (bof : Nat) : Toc × Nat :=
  scanAux file.length bof (file.drop bof)

/-- The user-visible content of a file region: the key/value pairs of its complete blocks. -/
def kvScan : Nat → Bytes → List KV
  | 0, _ => []
  | f+1, k :: a :: b :: c :: d :: rest =>
      let kl := k.toNat
      let vl := rd32 a b c d
      if kl + vl ≤ rest.length then
        ⟨rest.take kl, (rest.drop kl).take vl⟩ :: kvScan f (rest.drop (kl + vl))
      else []
  | _+1, _ => []

/-! ### handles and the world -/

inductive Mode | r | a | w | x
deriving DecidableEq, Repr

structure Handle where
  mode   : Mode
  closed : Bool
  h1 : Bytes
  h2 : Bytes
  b0 : Bytes
  toc  : Toc
  last : Option Bytes
  eof  : Option Nat
deriving Repr

structure World where
  file : Option Bytes
  hs   : Nat → Option Handle      -- slot i = handle object i (none: never constructed)

inductive Err
  | notFound | exists_ | badHeader | notWritable | closed | keyExists | tooLong | noKey | noHandle | badMode
deriving DecidableEq, Repr

inductive Out
  | ok
  | val (b : Bytes)
  | keys (ks : List Bytes)
  | err (e : Err)
deriving DecidableEq, Repr

def Handle.bof (h : Handle) : Nat := bofOf h.h2 h.b0

def Handle.writable (h : Handle) : Bool :=
  !h.closed && (h.mode != Mode.r)

/-- `read_header` on a file that has a complete header; `none` when it has not. -/
def readHeader (file : Bytes) : Option (Bytes × Bytes × Bytes) :=
  if file.length < 32 then none else
  match file.drop 16 with
  | a :: b :: c :: d :: e :: f :: _ =>
    let h2len := rd16 a b
    let b0len := rd32 c d e f
    some (file.take 16, (file.drop 32).take h2len, (file.drop (32 + h2len)).take b0len)
  | _ => none

def lastKey (t : Toc) : Option Bytes := (t.getLast?).map (·.1)

/-- `self._toc[self._last].end if self._last is not None else self._bof` -/
def Handle.lastEnd (h : Handle) : Option Nat :=
  match h.last with
  | some k => (tocFind h.toc k).map Rec.end_
  | none => some h.bof

/-- `map_blocks` (repaired form: size-bounded, torn tail cut when writable). -/
def mapBlocks (h : Handle) (file : Bytes) : Handle × Bytes :=
  if h.eof = some file.length ∧ h.eof = h.lastEnd then (h, file)
  else
    let sc := scanFile file h.bof
    let file' := if sc.2 < file.length ∧ h.mode ≠ Mode.r then file.take sc.2 else file
    ({ h with toc := tocMerge h.toc sc.1, last := lastKey sc.1, eof := some sc.2 }, file')

/-- `open()` on a closed handle object whose mode has been set. -/
def openHandle (h : Handle) (file : Option Bytes) : Except Err (Handle × Option Bytes) :=
  match h.mode with
  | .r | .a =>
    match file with
    | none => .error .notFound
    | some f =>
      match readHeader f with
      | none => .error .badHeader
      | some (h1, h2, b0) =>
        let h' := { h with h1 := h1, h2 := h2, b0 := b0 }
        let (h'', f') := mapBlocks h' f
        .ok ({ h'' with closed := false }, some f')
  | .x =>
    match file with
    | some _ => .error .exists_
    | none =>
      .ok ({ h with closed := false, eof := some h.bof }, some (encHeader h.h1 h.h2 h.b0))
  | .w =>
    .ok ({ h with closed := false, eof := some h.bof }, some (encHeader h.h1 h.h2 h.b0))

/-- b"ML10UKV01" -/
def defaultH1 : Bytes := [77, 76, 49, 48, 85, 75, 86, 48, 49]

/-- `UKVFile(path, mode, h1=, h2=, b0=)`: `x or default` treats empty as absent. -/
def newHandle (mode : Mode) (h1 h2 b0 : Bytes) : Handle :=
  { mode := mode, closed := true,
    h1 := if h1.isEmpty then defaultH1 else h1, h2 := h2, b0 := b0,
    toc := [], last := none, eof := none }

inductive Op
  | new (h : Nat) (m : Mode) (h1 h2 b0 : Bytes)
  | reopen (h : Nat) (m : Option Mode)
  | close (h : Nat)
  | put (h : Nat) (k v : Bytes)
  | get (h : Nat) (k : Bytes)
  | keys (h : Nat)
deriving Repr

def getH (w : World) (i : Nat) : Option Handle := w.hs i

def setH (w : World) (i : Nat) (h : Option Handle) : World :=
  { w with hs := fun j => if j = i then h else w.hs j }

def step (w : World) : Op → World × Out
  | .new i m h1 h2 b0 =>
    -- a constructor that raises leaves no object behind
    match openHandle (newHandle m h1 h2 b0) w.file with
    | .error e => (setH w i none, .err e)
    | .ok (h, f) => (setH { w with file := f } i (some h), .ok)
  | .reopen i m =>
    match getH w i with
    | none => (w, .err .noHandle)
    | some h =>
      if !h.closed then (w, .ok) else
      let h := match m with | some m => { h with mode := m } | none => h
      match openHandle h w.file with
      | .error e => (setH w i (some h), .err e)    -- the mode assignment happened before the failure
      | .ok (h', f) => (setH { w with file := f } i (some h'), .ok)
  | .close i =>
    match getH w i with
    | none => (w, .err .noHandle)
    | some h =>
      let m := match h.mode with | .x | .w => Mode.a | m => m
      (setH w i (some { h with closed := true, mode := m }), .ok)
  | .put i k v =>
    match getH w i, w.file with
    | none, _ => (w, .err .noHandle)
    | some _, none => (w, .err .notWritable)
    | some h, some f =>
      if !h.writable then (w, .err .notWritable)
      else if (tocFind h.toc k).isSome then (w, .err .keyExists)
      else if ¬ (KV.ok ⟨k, v⟩) then (w, .err .tooLong)
      else
        let eof := h.eof.getD f.length
        -- seek(eof); write: overwrites from eof on (never happens on synchronised handles), pads if beyond
        let f' := f.take eof ++ List.replicate (eof - f.length) 0 ++ encBlock ⟨k, v⟩
                    ++ f.drop (eof + (encBlock ⟨k, v⟩).length)
        let h' := { h with toc := tocSet h.toc k ⟨eof, k.length, v.length⟩,
                           eof := some (eof + (encBlock ⟨k, v⟩).length) }
        (setH { w with file := some f' } i (some h'), .ok)
  | .get i k =>
    match getH w i, w.file with
    | none, _ => (w, .err .noHandle)
    | some _, none => (w, .err .closed)
    | some h, some f =>
      if h.closed then (w, .err .closed) else
      match tocFind h.toc k with
      | none => (w, .err .noKey)
      | some r => (w, .val ((f.drop r.posV).take r.vlen))
  | .keys i =>
    match getH w i with
    | none => (w, .err .noHandle)
    | some h => (w, .keys (h.toc.map (·.1)))

def initWorld : World := { file := none, hs := fun _ => none }

/-- A crash of the process that owns the handle objects selected by `dead`: only the first `n` bytes of
the file survive and those handle objects are gone; the handle objects of other processes keep
whatever they cached (table of contents, end-of-file mark, mode). -/
def crash (w : World) (n : Nat) (dead : Nat → Bool) : World :=
  { file := w.file.map (·.take n), hs := fun i => if dead i then none else w.hs i }

def run (w : World) (ops : List Op) : World × List Out :=
  ops.foldl (fun (acc : World × List Out) op =>
    let (w', o) := step acc.1 op
    (w', acc.2 ++ [o])) (w, [])

/-! ### abstraction: what the file means -/

/-- The key/value pairs stored in a file (complete blocks after the header). -/
def absFile (file : Bytes) : List KV :=
  match readHeader file with
  | none => []
  | some (_, h2, b0) => kvScan file.length ((file.drop (bofOf h2 b0)))

end Molli.Model.Ukv
