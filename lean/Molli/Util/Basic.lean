/-
Shared helpers for the line-protocol driver: hex <-> bytes, decimal parsing, joins.
Core Lean only (the driver executable must not import Mathlib).
-/
namespace Molli.Util

abbrev Bytes := List UInt8

def hexDigit (n : Nat) : Char :=
  if n < 10 then Char.ofNat (48 + n) else Char.ofNat (87 + n)

def hexOfByte (b : UInt8) : String :=
  String.ofList [hexDigit (b.toNat / 16), hexDigit (b.toNat % 16)]

def hexOfBytes (bs : Bytes) : String :=
  String.join (bs.map hexOfByte)

def hexVal? (c : Char) : Option Nat :=
  if '0' ≤ c ∧ c ≤ '9' then some (c.toNat - 48)
  else if 'a' ≤ c ∧ c ≤ 'f' then some (c.toNat - 87)
  else if 'A' ≤ c ∧ c ≤ 'F' then some (c.toNat - 55)
  else none

def bytesOfHexChars : List Char → Option Bytes
  | [] => some []
  | [_] => none
  | a :: b :: rest =>
    match hexVal? a, hexVal? b, bytesOfHexChars rest with
    | some x, some y, some r => some (UInt8.ofNat (16 * x + y) :: r)
    | _, _, _ => none

/-- `"-"` denotes the empty byte string (so that every field is a non-empty token). -/
def bytesOfHex? (s : String) : Option Bytes :=
  if s == "-" then some [] else bytesOfHexChars s.toList

def hexTok (bs : Bytes) : String :=
  if bs.isEmpty then "-" else hexOfBytes bs

def words (s : String) : List String :=
  (s.splitOn " ").filter (· ≠ "")

def intOfString? (s : String) : Option Int := s.toInt?

end Molli.Util
