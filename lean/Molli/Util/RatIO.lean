/-
Exact numbers across the driver boundary (C11, C12): a token is
  `p/q` or `p`        an exact rational (decimal integers, optional sign)
  `x<16 hex digits>`  an IEEE-754 binary64 bit pattern, read as the exact dyadic rational it denotes
                      (NaN / ±inf are rejected)
Output is always `p/q` in lowest terms (`p` when q = 1).  Core Lean only.
-/
import Molli.Util.Basic
namespace Molli.Util

def hexNat? (cs : List Char) : Option Nat :=
  cs.foldlM (fun acc c => (hexVal? c).map (fun d => 16 * acc + d)) 0

/-- the rational denoted by a binary64 bit pattern; `none` for NaN and infinities -/
def ratOfBits? (bits : Nat) : Option Rat :=
  let sign : Nat := bits / 2 ^ 63 % 2
  let e : Nat := bits / 2 ^ 52 % 2048
  let m : Nat := bits % 2 ^ 52
  if e == 2047 then none
  else
    let mag : Rat :=
      if e == 0 then mkRat (Int.ofNat m) (2 ^ 1074)
      else if e ≥ 1075 then ((Int.ofNat ((m + 2 ^ 52) * 2 ^ (e - 1075)) : Int) : Rat)
      else mkRat (Int.ofNat (m + 2 ^ 52)) (2 ^ (1075 - e))
    some (if sign == 1 then -mag else mag)

def ratOfTok? (s : String) : Option Rat :=
  match s.toList with
  | 'x' :: hex => if hex.length == 16 then (hexNat? hex).bind ratOfBits? else none
  | _ =>
    match s.splitOn "/" with
    | [p] => p.toInt?.map (fun i => (i : Rat))
    | [p, q] => do
        let pi ← p.toInt?
        let qn ← q.toNat?
        if qn == 0 then none else some (mkRat pi qn)
    | _ => none

def ratTok (r : Rat) : String :=
  if r.den == 1 then toString r.num else toString r.num ++ "/" ++ toString r.den

def ratAbs (r : Rat) : Rat := if r < 0 then -r else r

end Molli.Util
