/-
Driver entry for property C09.
  request : `spec <cr> <entry> <fmt> <kind> <otype> <name> <pathform>`
            <cr> = `-` or a comma separated list of `otype:entry:fmt` triples whose class-level codec raises by itself
  response: the canonical text of `Molli.Model.Dispatch.spec cr cell`
-/
import Molli.Util.Basic
import Molli.Model.Dispatch
namespace Molli.Driver.C09
open Molli.Model.Dispatch

def parseTriple (s : String) : Option (OType × Entry × Fmt) :=
  match s.splitOn ":" with
  | [o, e, f] =>
    match OType.parse? o, Entry.parse? e, Fmt.parse? f with
    | some o, some e, some f => some (o, e, f)
    | _, _, _ => none
  | _ => none

def parseCr (s : String) : Option (List (OType × Entry × Fmt)) :=
  if s == "-" then some [] else (s.splitOn ",").mapM parseTriple

def crOf (l : List (OType × Entry × Fmt)) : ClassRaises :=
  fun o e f => l.any (fun t => decide (t = (o, e, f)))

def handle (payload : String) : String :=
  match Molli.Util.words payload with
  | ["spec", cr, e, f, k, o, n, pf] =>
    match parseCr cr, Entry.parse? e, Fmt.parse? f, Kind.parse? k, OType.parse? o, NameArg.parse? n, PathForm.parse? pf with
    | some cr, some e, some f, some k, some o, some n, some pf => (spec (crOf cr) ⟨⟨e, f, k, o, n⟩, pf⟩).txt
    | _, _, _, _, _, _, _ => "err:syntax"
  | _ => "err:syntax"

end Molli.Driver.C09
