/- Driver entry for property C09: one request payload in, one canonical response line out. -/
import Molli.Util.Basic
namespace Molli.Driver.C09

def handle (_payload : String) : String := "err:not-implemented"

end Molli.Driver.C09
