/-
Shared line-protocol codec of the mol2 / xyz drivers (C07, C08, C10).

  text      hex of the UTF-8 bytes ("-" = empty)
  number    `+:m:e` / `-:m:e` (the decimal (-1)^s · m · 10^e), `inf`, `-inf`, `nan`;
            in responses a coordinate scaled by a unit factor is an exact rational `p/q`
  molecule  `<name>;<atom>|<atom>…;<bond>|<bond>…`   atom = `e,t,g,<label>,<x>,<y>,<z>,<charge>`   bond = `a1,a2,btype`
            (read responses append `;<formal charges>;<atom attributes>;<bond attributes>`, attributes `k=v&k=v` in hex)
  frame     `<comment>;<atom>|…`                       atom = `e,<x>,<y>,<z>` (request)  `e,d,<x>,<y>,<z>` (response)
  several molecules / frames are joined by `#`
-/
import Molli.Util.Basic
import Molli.Model.Mol2
import Molli.Model.Xyz
import Molli.Gen.Mol2Types
import Molli.Gen.Units
namespace Molli.Driver.TextIO
open Molli.Util Molli.Model.Text Molli.Model.Mol2Types

def tt : TypeTable := Molli.Gen.Mol2Types.table
def bt : BondTable := Molli.Gen.Mol2Types.bonds

/-- hex decoding with an accumulator (texts of several MiB cross the driver boundary) -/
def hexBytesTR : List Char → Array UInt8 → Option (Array UInt8)
  | [], acc => some acc
  | [_], _ => none
  | a :: b :: rest, acc =>
    match hexVal? a, hexVal? b with
    | some x, some y => hexBytesTR rest (acc.push (UInt8.ofNat (16 * x + y)))
    | _, _ => none

def strOfHex? (s : String) : Option Str :=
  if s == "-" then some [] else do
    let bs ← hexBytesTR s.toList #[]
    let str ← String.fromUTF8? (ByteArray.mk bs)
    pure str.toList

def hexOfStr (s : Str) : String := hexTok (String.ofList s).toUTF8.toList

def numOfString? (s : String) : Option Num :=
  if s == "inf" then some (.inf false)
  else if s == "-inf" then some (.inf true)
  else if s == "nan" then some .nan
  else match s.splitOn ":" with
    | [sg, m, e] => do
      let m ← m.toNat?
      let e ← e.toInt?
      if sg == "+" then pure (.fin false m e) else if sg == "-" then pure (.fin true m e) else none
    | _ => none

def showNum : Num → String
  | .fin neg m e => (if neg then "-:" else "+:") ++ toString m ++ ":" ++ toString e
  | .inf neg => if neg then "-inf" else "inf"
  | .nan => "nan"

/-- a coordinate read from a file in a unit with `num/den` units per Ångström -/
def showScaled (num den : Nat) (x : Num) : String :=
  if num = den then showNum x
  else match x with
    | .fin _ _ _ =>
      let r : Rat := x.toRat / mkRat num den
      toString r.num ++ "/" ++ toString r.den
    | y => showNum y

def splitNonEmpty (s : String) (sep : String) : List String :=
  if s.isEmpty then [] else s.splitOn sep

def parseUnit? (s : String) : Option (Nat × Nat) :=
  match s.splitOn "/" with
  | [a, b] => do
    let a ← a.toNat?
    let b ← b.toNat?
    if a = 0 ∨ b = 0 then none else pure (a, b)
  | _ => none

open Molli.Model.Mol2 in
def parseAtomV? (s : String) : Option AtomV :=
  match s.splitOn "," with
  | [e, t, g, lab, x, y, z, c] => do
    pure ⟨⟨← e.toNat?, ← t.toNat?, ← g.toNat?⟩, ← strOfHex? lab, ← numOfString? x, ← numOfString? y,
          ← numOfString? z, ← numOfString? c⟩
  | _ => none

open Molli.Model.Mol2 in
def parseBondV? (s : String) : Option BondV :=
  match s.splitOn "," with
  | [a, b, t] => do pure ⟨← a.toNat?, ← b.toNat?, ← t.toNat?⟩
  | _ => none

open Molli.Model.Mol2 in
def parseMolV? (s : String) : Option MolV :=
  match s.splitOn ";" with
  | [nm, as, bs] => do
    let atoms ← (splitNonEmpty as "|").mapM parseAtomV?
    let bonds ← (splitNonEmpty bs "|").mapM parseBondV?
    pure ⟨← strOfHex? nm, atoms, bonds⟩
  | _ => none

open Molli.Model.Mol2 in
def showMolV (num den : Nat) (m : MolV) : String :=
  let a := m.atoms.map fun a =>
    ",".intercalate [toString a.st.e, toString a.st.t, toString a.st.g, hexOfStr a.label,
      showScaled num den a.x, showScaled num den a.y, showScaled num den a.z, showNum a.charge]
  let b := m.bonds.map fun b => ",".intercalate [toString b.a1, toString b.a2, toString b.btype]
  hexOfStr m.name ++ ";" ++ "|".intercalate a ++ ";" ++ "|".intercalate b

def showAttrib (d : List (Str × Str)) : String :=
  if d.isEmpty then "-" else "&".intercalate (d.map fun p => hexOfStr p.1 ++ "=" ++ hexOfStr p.2)

/-- `<mol>;<formal charges>;<atom attribs>;<bond attribs>` -/
def showMolEx (num den : Nat)
    (x : Molli.Model.Mol2.MolV × List (Int × List (Str × Str)) × List (List (Str × Str))) : String :=
  showMolV num den x.1 ++ ";" ++ ",".intercalate (x.2.1.map fun p => toString p.1) ++ ";" ++
    "|".intercalate (x.2.1.map fun p => showAttrib p.2) ++ ";" ++ "|".intercalate (x.2.2.map showAttrib)

open Molli.Model.Xyz in
def parseFrame? (s : String) : Option Frame :=
  match s.splitOn ";" with
  | [cm, as] => do
    let atoms ← (splitNonEmpty as "|").mapM fun a =>
      match a.splitOn "," with
      | [e, x, y, z] => do pure (⟨← e.toNat?, false, ← numOfString? x, ← numOfString? y, ← numOfString? z⟩ : XAtom)
      | _ => none
    pure ⟨← strOfHex? cm, atoms⟩
  | _ => none

open Molli.Model.Xyz in
def showFrame (num den : Nat) (f : Frame) : String :=
  let a := f.atoms.map fun a =>
    ",".intercalate [toString a.e, if a.dummy then "1" else "0",
      showScaled num den a.x, showScaled num den a.y, showScaled num den a.z]
  hexOfStr f.comment ++ ";" ++ "|".intercalate a

def parseKind? : String → Option Molli.Model.Mol2.Kind
  | "molecule" => some .molecule
  | "structure" => some .structure
  | _ => none

def mol2ErrName : Molli.Model.Mol2.Err → String
  | .eof => "eof" | .syntax => "syntax" | .value => "value" | .fuel => "fuel"

def xyzErrName : Molli.Model.Xyz.Err → String
  | .count => "count" | .eof => "eof" | .atom => "atom" | .value => "value" | .fuel => "fuel"

/-- requests shared by C07 / C08 / C10 -/
def handle (payload : String) : String :=
  match words payload with
  | ["write", k, mols] =>
    (match parseKind? k, (splitNonEmpty mols "#").mapM parseMolV? with
     | some k, some ms => "ok " ++ hexOfStr (Molli.Model.Mol2.writeTextMany tt bt k ms)
     | _, _ => "err:bad-request")
  | ["read", k, nm, u, text] =>
    (match parseKind? k, parseUnit? u, strOfHex? text with
     | some k, some (num, den), some t =>
       let name? : Option (Option Str) := if nm == "~" then some none else (strOfHex? nm).map some
       (match name? with
        | none => "err:bad-request"
        | some name =>
          match Molli.Model.Mol2.loadsAllEx tt bt k name t with
          | .ok ms => "ok " ++ "#".intercalate (ms.map (showMolEx num den))
          | .error e => "err:" ++ mol2ErrName e)
     | _, _, _ => "err:bad-request")
  | ["xwrite", frames] =>
    (match (splitNonEmpty frames "#").mapM parseFrame? with
     | some fs => "ok " ++ hexOfStr (Molli.Model.Xyz.writeText tt fs)
     | none => "err:bad-request")
  | ["xread", u, text] =>
    (match parseUnit? u, strOfHex? text with
     | some (num, den), some t =>
       (match Molli.Model.Xyz.loadsAll tt t with
        | .ok fs => "ok " ++ "#".intercalate (fs.map (showFrame num den))
        | .error e => "err:" ++ xyzErrName e)
     | _, _ => "err:bad-request")
  | ["typetok", e, t, g] =>
    (match e.toNat?, t.toNat?, g.toNat? with
     | some e, some t, some g => "ok " ++ hexOfStr (tt.emitStr ⟨e, t, g⟩)
     | _, _, _ => "err:bad-request")
  | ["settype", tok] =>
    (match strOfHex? tok with
     | some s => (match tt.acceptStr s with
        | some st => s!"ok {st.e},{st.t},{st.g}"
        | none => "err:type")
     | none => "err:bad-request")
  | ["settypefrom", st0, tok] =>
    -- `Atom(e, atype=t, geom=g).set_mol2_type(tok)`: the state the token is applied to matters
    (match st0.splitOn ",", strOfHex? tok with
     | [e, t, g], some s =>
       (match e.toNat?, t.toNat?, g.toNat? with
        | some e, some t, some g =>
          (match tt.setMol2Type ⟨e, t, g⟩ (codesOf s) with
           | some st => s!"ok {st.e},{st.t},{st.g}"
           | none => "err:type")
        | _, _, _ => "err:bad-request")
     | _, _ => "err:bad-request")
  | ["float", tok] =>
    (match strOfHex? tok with
     | some s => (match parseFloat s with | some x => "ok " ++ showNum x | none => "err:value")
     | none => "err:bad-request")
  | ["int", tok] =>
    (match strOfHex? tok with
     | some s => (match parseInt s with | some x => "ok " ++ toString x | none => "err:value")
     | none => "err:bad-request")
  | ["fmt", d, x] =>
    (match d.toNat?, numOfString? x with
     | some d, some x => "ok " ++ hexOfStr (fmtFixed d x)
     | _, _ => "err:bad-request")
  | _ => "err:bad-request"

end Molli.Driver.TextIO
