/- Driver entry for property C15: one request payload in, one canonical response line out. -/
import Molli.Util.Basic
namespace Molli.Driver.C15

def handle (_payload : String) : String := "err:not-implemented"

end Molli.Driver.C15
