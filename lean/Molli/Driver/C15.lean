/-
Driver entry for property C15: one request payload in, one canonical response line out.

  q n=<n> bonds=<a1-a2:btype:stereo:label:forder,...|->
      → bfs=<start 0>;<start 1>;…  (items v:d)   dir=<bond 0 a1→a2>;<bond 0 a2→a1>;<bond 1 …  (items v:d, `err` when
        the direction is not a neighbour)   ring=<0|1 per bond>  ringr=<the same for a bond object with the ends swapped>   nb=<neighbours per atom>   bw=<bond indices per atom>
        val=<p/q per atom>
  m P=<atoms>;<bonds> G=<atoms>;<bonds>     atoms: element:isotope:stereo,…   (isotope `-` = None)
      → embeddings (model order) as i.j.k|…  or `err:pattern-bond-type`
-/
import Molli.Util.Basic
import Molli.Model.Graph
import Molli.Gen.Valence
namespace Molli.Driver.C15
open Molli.Model.Graph Molli.Util

structure DEdge where
  idx : Nat
  e : EdgeA

def kv (ws : List String) (k : String) : Option String :=
  ws.findSome? (fun w => match w.splitOn "=" with
    | [a, b] => if a == k then some b else none
    | _ => none)

def items (s : String) : List String := if s == "-" || s == "" then [] else s.splitOn ","

def parseRat? (s : String) : Option Rat :=
  match s.splitOn "/" with
  | [p] => p.toInt?.map (fun i => (i : Rat))
  | [p, q] => do
    let a ← p.toInt?
    let b ← q.toNat?
    if b = 0 then none else some (mkRat a b)
  | _ => none

def showRat (r : Rat) : String := if r.den = 1 then toString r.num else s!"{r.num}/{r.den}"

def parseBond? (idx : Nat) (s : String) : Option (Bond DEdge) :=
  match s.splitOn ":" with
  | [ends, bt, st, lab, fo] =>
    match ends.splitOn "-" with
    | [a, b] => do
      let a1 ← a.toNat?
      let a2 ← b.toNat?
      let bt ← bt.toNat?
      let st ← st.toNat?
      let fo ← parseRat? fo
      let label := if lab == "" then none else some lab
      some ⟨a1, a2, ⟨idx, ⟨bt, st, label, fo⟩⟩⟩
    | _ => none
  | _ => none

def parseBonds? (s : String) : Option (List (Bond DEdge)) :=
  let toks := items s
  (toks.zipIdx.map (fun (t, i) => parseBond? i t)).mapM id

def parseAtom? (s : String) : Option NodeA :=
  match s.splitOn ":" with
  | [e, iso, st] => do
    let e ← e.toNat?
    let st ← st.toNat?
    let iso ← (if iso == "-" then some none else iso.toInt?.map some)
    some ⟨e, iso, st⟩
  | _ => none

def showLabs (l : List Lab) : String :=
  if l.isEmpty then "-" else ",".intercalate (l.map (fun x => s!"{x.1}:{x.2}"))

def showNats (l : List Nat) : String :=
  if l.isEmpty then "-" else ",".intercalate (l.map toString)

def order (d : DEdge) : Rat := Molli.Gen.Valence.bondOrder d.e.btype d.e.forder

def query (n : Nat) (bonds : List (Bond DEdge)) : String :=
  let adj := neighbors bonds
  let starts := List.range n
  let bfsS := ";".intercalate (starts.map (fun s => showLabs (bfsd adj n s)))
  let dirOne := fun (s d : Nat) => match bfsdDir? adj n s d with
    | some l => showLabs l
    | none => "err"
  let dirS := ";".intercalate (bonds.flatMap (fun b => [dirOne b.a1 b.a2, dirOne b.a2 b.a1]))
  let ringS := "".intercalate (bonds.map (fun b => if inRing adj n b.a1 b.a2 then "1" else "0"))
  let ringR := "".intercalate (bonds.map (fun b => if inRing adj n b.a2 b.a1 then "1" else "0"))
  let nbS := ";".intercalate (starts.map (fun u => showNats (neighbors bonds u)))
  let bwS := ";".intercalate (starts.map (fun u => showNats ((bondsWith bonds u).map (·.attr.idx))))
  let valS := ";".intercalate (starts.map (fun u => showRat (valence order bonds u)))
  s!"bfs={bfsS} dir={dirS} ring={ringS} ringr={ringR} nb={nbS} bw={bwS} val={valS}"

def parseGraph? (s : String) : Option (LGraph NodeA EdgeA) :=
  match s.splitOn ";" with
  | [as, bs] => do
    let atoms ← ((items as).map parseAtom?).mapM id
    let bonds ← parseBonds? bs
    some ⟨atoms, bonds.map (fun b => ⟨b.a1, b.a2, b.attr.e⟩)⟩
  | _ => none

def showEmb (l : List (List Nat)) : String :=
  if l.isEmpty then "-" else "|".intercalate (l.map (fun φ => ".".intercalate (φ.map toString)))

def handle (payload : String) : String :=
  let ws := words payload
  match ws with
  | "q" :: rest =>
    match (kv rest "n").bind String.toNat?, (kv rest "bonds").bind parseBonds? with
    | some n, some bonds =>
      if bonds.all (fun b => b.a1 < n && b.a2 < n) then query n bonds else "err:bond-out-of-range"
    | _, _ => "err:parse"
  | "m" :: rest =>
    match (kv rest "P").bind parseGraph?, (kv rest "G").bind parseGraph? with
    | some P, some G =>
      if P.bonds.all (fun b => (btypeMatch 1 b.attr.btype).isSome) then
        showEmb (embeddings (nodeMatch 0 0) (edgeMatch 0) P G)
      else "err:pattern-bond-type"
    | _, _ => "err:parse"
  | _ => "err:unknown-op"

end Molli.Driver.C15
