/-
Driver for the UKV model (C02, C03).
payload : ops separated by ';'
   new <h> <r|a|w|x> <h1hex> <h2hex> <b0hex> | reopen <h> <mode|-> | close <h>
   put <h> <khex> <vhex> | get <h> <khex> | keys <h> | cut <n>
response: one token per op joined by ';' then ';file:<hex|none>'
   ok | err:<kind> | val:<hex> | keys:<sorted hex list, comma separated>
`cut n` is the crash: only the first n bytes of the file survive and every handle object is gone.
`cutkeep n h` is the crash of the process that owns handle h only: the other handle objects survive.
-/
import Molli.Util.Basic
import Molli.Model.Ukv
import Molli.Model.Backend
namespace Molli.Driver.C02
open Molli.Util Molli.Model.Ukv Molli.Model.Backend

inductive XOp
  | op (o : Op)
  | cut (n : Nat)
  | cutKeep (n h : Nat)
  | bop (o : BOp)
  | probe

def parseMode? : String → Option Mode
  | "r" => some .r | "a" => some .a | "w" => some .w | "x" => some .x | _ => none

def parseOp (s : String) : Option XOp :=
  match words s with
  | ["new", h, m, h1, h2, b0] => do
      let h ← h.toNat?; let m ← parseMode? m
      let h1 ← bytesOfHex? h1; let h2 ← bytesOfHex? h2; let b0 ← bytesOfHex? b0
      pure (.op (.new h m h1 h2 b0))
  | ["reopen", h, m] => do
      let h ← h.toNat?
      if m == "-" then pure (.op (.reopen h none)) else do
        let m ← parseMode? m
        pure (.op (.reopen h (some m)))
  | ["close", h] => do pure (.op (.close (← h.toNat?)))
  | ["put", h, k, v] => do
      pure (.op (.put (← h.toNat?) (← bytesOfHex? k) (← bytesOfHex? v)))
  | ["get", h, k] => do pure (.op (.get (← h.toNat?) (← bytesOfHex? k)))
  | ["keys", h] => do pure (.op (.keys (← h.toNat?)))
  | ["cut", n] => do pure (.cut (← n.toNat?))
  | ["cutkeep", n, h] => do pure (.cutKeep (← n.toNat?) (← h.toNat?))
  | ["cnew", c, bs, ro, ow, cm] => do
      pure (.bop (.cnew (← c.toNat?) (← bs.toInt?) (ro == "1") (ow == "1") (← bytesOfHex? cm)))
  | ["begin", c, m] => do pure (.bop (.begin (← c.toNat?) (m == "w")))
  | ["end", c] => do pure (.bop (.end_ (← c.toNat?)))
  | ["cput", c, k, v] => do
      let kb ← bytesOfHex? k
      pure (.bop (.put (← c.toNat?) kb (← bytesOfHex? v) kb.length))
  | ["cput", c, k, v, n] => do pure (.bop (.put (← c.toNat?) (← bytesOfHex? k) (← bytesOfHex? v) (← n.toNat?)))
  | ["cget", c, k] => do pure (.bop (.get (← c.toNat?) (← bytesOfHex? k)))
  | ["ckeys", c] => do pure (.bop (.keys (← c.toNat?)))
  | ["cflush", c] => do pure (.bop (.flush (← c.toNat?)))
  | ["endfault", c] => do pure (.bop (.endFault (← c.toNat?)))
  | ["endfaulttorn", c, n] => do pure (.bop (.endFaultTorn (← c.toNat?) (← n.toNat?)))
  | ["probe"] => some .probe
  | _ => none

def errName : Err → String
  | .notFound => "not-found" | .exists_ => "exists" | .badHeader => "bad-header"
  | .notWritable => "not-writable" | .closed => "closed" | .keyExists => "key-exists"
  | .tooLong => "too-long" | .noKey => "no-key" | .noHandle => "no-handle" | .badMode => "bad-mode"

def bytesLt : Bytes → Bytes → Bool
  | [], [] => false
  | [], _ :: _ => true
  | _ :: _, [] => false
  | a :: as, b :: bs => if a < b then true else if b < a then false else bytesLt as bs

def showOut : Out → String
  | .ok => "ok"
  | .val b => "val:" ++ hexTok b
  | .keys ks => "keys:" ++ ",".intercalate ((ks.mergeSort (fun a b => !bytesLt b a)).map hexTok)
  | .err e => "err:" ++ errName e

def berrName : BErr → String
  | .ukv e => errName e
  | .readonly => "readonly" | .notFound => "not-found" | .badArgs => "bad-args"
  | .keyExists => "key-exists" | .tooLong => "too-long" | .noBackend => "no-backend" | .noSession => "no-session"

def showBOut : BOut → String
  | .ok => "ok"
  | .val b => "val:" ++ hexTok b
  | .keys ks => "keys:" ++ ",".intercalate ((ks.mergeSort (fun a b => !bytesLt b a)).map hexTok)
  | .err e => "err:" ++ berrName e

def xstep (bw : BWorld) : XOp → BWorld × String
  | .op o => let (w', out) := step bw.w o; ({ bw with w := w' }, showOut out)
  | .cut n => ({ w := crash bw.w n (fun _ => true), bs := fun _ => none }, "ok")
  | .cutKeep n h => ({ bw with w := crash bw.w n (· == h) }, "ok")
  | .bop o => let (bw', out) := bstep bw o; (bw', showBOut out)
  | .probe =>
    -- what a second process sees: the complete records of the file
    let kvs := match bw.w.file with | some f => absFile f | none => []
    let sorted := kvs.mergeSort (fun a b => !bytesLt b.key a.key)
    (bw, "lib:" ++ ",".intercalate (sorted.map (fun kv => hexTok kv.key ++ "=" ++ hexTok kv.val)))

def handle (payload : String) : String :=
  let opsS := (payload.splitOn ";").filter (fun s => (words s) ≠ [])
  match opsS.mapM parseOp with
  | none => "err:bad-request"
  | some ops =>
    let (bw, outs) := ops.foldl (fun (acc : BWorld × List String) o =>
        let (w', s) := xstep acc.1 o; (w', s :: acc.2)) (initB, [])
    let fileS := match bw.w.file with | none => "none" | some f => hexTok f
    ";".intercalate (outs.reverse ++ ["file:" ++ fileS])

end Molli.Driver.C02
