/- Driver entry for property C11: one request payload in, one canonical response line out. -/
import Molli.Util.Basic
namespace Molli.Driver.C11

def handle (_payload : String) : String := "err:not-implemented"

end Molli.Driver.C11
