/-
Driver entry for property C11 (geometry model over exact rationals).

Numbers are tokens of `Molli.Util.RatIO` (`p/q`, `p`, or `x<16 hex>` = the exact value of a float).
Requests (first word = op):

  model ops (answer `m <9 numbers>` / `c <3n numbers>` / …; compared entry-wise with numpy, tol 1e-9)
    rotvec      a(3) b(3)                                  general branch, `err:degenerate` when 1 + a·b = 0
    rotvecfull  <shipped|repaired> a(3) b(3) tol n rv(3)   full constructor incl. antiparallel branch
    rotaxis     u(3) s c
    dihedral    p1 p2 p3 p4 (3 each) l                     → `pair A B`   (`err:norm` unless |l² − |u2|²| ≤ 1e-12·|u2|²)
    translate   n coords(3n) v(3)
    transform   n coords(3n) R(9)
    subedit     n coords(3n) k sel(k) R(9) t(3)            Substructure edit  p ↦ p@R + t  on rows `sel`
    viewedit    n ids(n) coords(3n) k handle(k) R(9) t(3)  edit p ↦ p@R + t through a Substructure handle that holds atom
                                                           identities `handle`; `ids` = the parent's atom list NOW
    centerat    n coords(3n) k core(k)
    rotdih      <shipped|repaired> n coords(3n) k sel(k) p2(3) u(3) sφ cφ sτ cτ
    enstranslate2 nc na coords(3·nc·na) vs(3·nc)
    ensrotaten    nc na coords(3·nc·na) Rs(9·nc)
    enscenter     nc na coords(3·nc·na) k core(k)
    align       n coords(3n) nref ref(3·nref) hasvec [vec(3)] m { k idx(k) R(9) r }×m
                → `ok r=<r> idx=<i,j,…> c <3n numbers>` | `none`
                (`func` is the table of what the real callback returned for each candidate index list)

  spec predicates, evaluated EXACTLY on float outputs of the real code (answer `name=0|1 …`)
    specrot     R(9) v1(3) v2(3) tol            orth det maps   (maps: v1@R ∥ v2, same sense)
    specaxis    R(9) axis(3) l s c tol          norm orth det fix angle   (l = float norm of axis, certified)
    rigidcheck  n before(3n) after(3n) k sel(k) tol   frame dist chir   (rows ∉ sel bit-identical; moved part rigid)
    dihcheck    p1 p2 p3 p4 l s c tol           norm target    ((A, B) ∥ (s, c), same sense)
-/
import Molli.Util.RatIO
import Molli.Model.Geom
namespace Molli.Driver.C11
open Molli.Util Molli.Model.Geom

abbrev P := StateT (List String) Option

def tok : P String := fun
  | [] => none
  | t :: ts => some (t, ts)

def num : P Rat := do
  let t ← tok
  match ratOfTok? t with
  | some r => pure r
  | none => failure

def nat : P Nat := do
  let t ← tok
  match t.toNat? with
  | some n => pure n
  | none => failure

def vec : P (V3 Rat) := do
  let x ← num; let y ← num; let z ← num
  pure ⟨x, y, z⟩

def mat : P (M3 Rat) := do
  let a ← vec; let b ← vec; let c ← vec
  pure ⟨a, b, c⟩

def rep {β : Type} (p : P β) : Nat → P (List β)
  | 0 => pure []
  | n + 1 => do
    let x ← p
    let xs ← rep p n
    pure (x :: xs)

def variant : P Variant := do
  let t ← tok
  match t with
  | "shipped" => pure .asShipped
  | "repaired" => pure .repaired
  | _ => failure

def done : P Unit := fun
  | [] => some ((), [])
  | _ => none

def showV (v : V3 Rat) : String := s!"{ratTok v.x} {ratTok v.y} {ratTok v.z}"
def showM (m : M3 Rat) : String := s!"m {showV m.r1} {showV m.r2} {showV m.r3}"
def showC (l : List (V3 Rat)) : String := "c " ++ " ".intercalate (l.map showV)
def showE (e : List (List (V3 Rat))) : String := "e " ++ " ".intercalate (e.map (fun c => " ".intercalate (c.map showV)))
def bit (b : Bool) : String := if b then "1" else "0"

def mEntries (m : M3 Rat) : List Rat :=
  [m.r1.x, m.r1.y, m.r1.z, m.r2.x, m.r2.y, m.r2.z, m.r3.x, m.r3.y, m.r3.z]

def within (x y tol : Rat) : Bool := ratAbs (x - y) ≤ tol

/-- `R Rᵀ = I` and `det R = 1` within `tol`, exactly evaluated -/
def orthOk (r : M3 Rat) (tol : Rat) : Bool :=
  (List.zip (mEntries (r.mul r.transpose)) (mEntries (M3.one : M3 Rat))).all (fun p => within p.1 p.2 tol)
def detOk (r : M3 Rat) (tol : Rat) : Bool := within r.det 1 tol

/-- `w ∥ v`, same sense: `|w × v|² ≤ tol²·|w|²|v|²` and `w·v > 0` -/
def sameDir (w v : V3 Rat) (tol : Rat) : Bool :=
  let cr := w.cross v
  decide (cr.dot cr ≤ tol * tol * (w.dot w) * (v.dot v)) && decide (0 < w.dot v)

def normOk (l : Rat) (v : V3 Rat) : Bool :=
  decide (0 < l) && decide (ratAbs (l * l - v.dot v) ≤ (1 / 1000000000000 : Rat) * v.dot v)

def chunks {β : Type} (n : Nat) (l : List β) : Nat → List (List β)
  | 0 => []
  | k + 1 => l.take n :: chunks n (l.drop n) k

/-- all 4-subsets (as index lists into `sel`) when few, else sliding windows -/
def quads (k : Nat) : List (Nat × Nat × Nat × Nat) :=
  if k ≤ 9 then
    (List.range k).flatMap fun a => (List.range k).flatMap fun b => (List.range k).flatMap fun c =>
      (List.range k).filterMap fun d => if a < b ∧ b < c ∧ c < d then some (a, b, c, d) else none
  else
    (List.range (k - 3)).map (fun i => (i, i + 1, i + 2, i + 3)) ++
    (List.range (k - 3)).map (fun i => (0, i + 1, (i + k / 2) % k, k - 1))

def rigidCheck (before after : List (V3 Rat)) (sel : List Nat) (tol : Rat) : String :=
  let n := before.length
  let frame := after.length == n && (List.range n).all (fun i =>
    sel.contains i || before[i]? == after[i]?)
  let b := gather before sel
  let a := gather after sel
  let k := b.length
  let z : V3 Rat := V3.zero
  let dist := a.length == k && (List.range k).all (fun i => (List.range k).all (fun j =>
    i ≥ j || within (dist2 (b.getD i z) (b.getD j z)) (dist2 (a.getD i z) (a.getD j z)) tol))
  let chir := (quads k).all (fun q =>
    let (i, j, l, m) := q
    within (triple (b.getD i z) (b.getD j z) (b.getD l z) (b.getD m z))
           (triple (a.getD i z) (a.getD j z) (a.getD l z) (a.getD m z)) tol)
  s!"frame={bit frame} dist={bit dist} chir={bit chir}"

structure AlignCand where
  idx : List Nat
  rot : M3 Rat
  r : Rat

def cand : P AlignCand := do
  let k ← nat
  let idx ← rep nat k
  let rot ← mat
  let r ← num
  pure ⟨idx, rot, r⟩

def run : String → P String
  | "rotvec" => do
    let a ← vec; let b ← vec; done
    if 1 + a.dot b == 0 then pure "err:degenerate" else pure (showM (rotVec a b))
  | "rotvecfull" => do
    let v ← variant; let a ← vec; let b ← vec; let tol ← num; let n ← num; let rv ← vec; done
    if n == 0 then pure "err:degenerate" else pure (showM (rotVecFull v a b tol n rv))
  | "rotaxis" => do
    let u ← vec; let s ← num; let c ← num; done
    pure (showM (rotAxis u s c))
  | "dihedral" => do
    let p1 ← vec; let p2 ← vec; let p3 ← vec; let p4 ← vec; let l ← num; done
    if !normOk l (p3.sub p2) then pure "err:norm" else
      let pr := dihedralPair p1 p2 p3 p4 l
      pure s!"pair {ratTok pr.1} {ratTok pr.2}"
  | "translate" => do
    let n ← nat; let cs ← rep vec n; let v ← vec; done
    pure (showC (translate cs v))
  | "transform" => do
    let n ← nat; let cs ← rep vec n; let r ← mat; done
    pure (showC (transform cs r))
  | "subedit" => do
    let n ← nat; let cs ← rep vec n; let k ← nat; let sel ← rep nat k; let r ← mat; let t ← vec; done
    pure (showC (updateSel cs sel (fun p => (p.mulM r).add t)))
  | "viewedit" => do
    let n ← nat; let ids ← rep nat n; let cs ← rep vec n; let k ← nat; let h ← rep nat k
    let r ← mat; let t ← vec; done
    pure (showC (viewEdit ids cs h (fun p => (p.mulM r).add t)))
  | "centerat" => do
    let n ← nat; let cs ← rep vec n; let k ← nat; let core ← rep nat k; done
    if (gather cs core).length == 0 then pure "err:empty-core" else pure (showC (centerAt cs core))
  | "rotdih" => do
    let v ← variant; let n ← nat; let cs ← rep vec n; let k ← nat; let sel ← rep nat k
    let p2 ← vec; let u ← vec; let sp ← num; let cp ← num; let st ← num; let ct ← num; done
    pure (showC (rotateDihedral v cs sel p2 u sp cp st ct))
  | "enstranslate2" => do
    let nc ← nat; let na ← nat; let cs ← rep vec (nc * na); let vs ← rep vec nc; done
    pure (showE (ensTranslate2 (chunks na cs nc) vs))
  | "ensrotaten" => do
    let nc ← nat; let na ← nat; let cs ← rep vec (nc * na); let rs ← rep mat nc; done
    pure (showE (ensRotateN (chunks na cs nc) rs))
  | "enscenter" => do
    let nc ← nat; let na ← nat; let cs ← rep vec (nc * na); let k ← nat; let core ← rep nat k; done
    pure (showE (ensCenterAtCore (chunks na cs nc) core))
  | "align" => do
    let n ← nat; let cs ← rep vec n; let nref ← nat; let ref ← rep vec nref
    let hasvec ← nat
    let v ← (if hasvec == 1 then (do let x ← vec; pure (some x)) else pure none)
    let m ← nat; let cands ← rep cand m; done
    let centred := centerAt cs ((cands.map (·.idx)).headD [])
    let func : List (V3 Rat) → List (V3 Rat) → M3 Rat × Rat := fun X _ =>
      match cands.find? (fun c => gather centred c.idx == X) with
      | some c => (c.rot, c.r)
      | none => (M3.one, 1000000)
    match alignMol func 100 (cands.map (·.idx)) ref v cs with
    | none => pure "none"
    | some (final, r, idx) =>
      pure s!"ok r={ratTok r} idx={",".intercalate (idx.map toString)} {showC final}"
  | "specrot" => do
    let r ← mat; let v1 ← vec; let v2 ← vec; let tol ← num; done
    pure s!"orth={bit (orthOk r tol)} det={bit (detOk r tol)} maps={bit (sameDir (v1.mulM r) v2 tol)}"
  | "specaxis" => do
    let r ← mat; let ax ← vec; let l ← num; let s ← num; let c ← num; let tol ← num; done
    let fixRow := (ax.mulM r).sub ax
    let fixCol := (r.mulV ax).sub ax
    let fix := decide (fixRow.dot fixRow ≤ tol * tol * ax.dot ax) && decide (fixCol.dot fixCol ≤ tol * tol * ax.dot ax)
    -- a vector ⊥ axis: axis × (coordinate axis least aligned with it)
    let v := ax.cross (basis (argminAbs ax))
    let rv := r.mulV v
    let vv := v.dot v
    let angle := decide (0 < vv) && within (rv.dot v) (c * vv) (tol * vv) &&
      within (ax.dot (v.cross rv)) (s * vv * l) (tol * vv * l)
    pure s!"norm={bit (normOk l ax)} orth={bit (orthOk r tol)} det={bit (detOk r tol)} fix={bit fix} angle={bit angle}"
  | "rigidcheck" => do
    let n ← nat; let b ← rep vec n; let a ← rep vec n; let k ← nat; let sel ← rep nat k; let tol ← num; done
    pure (rigidCheck b a sel tol)
  | "dihcheck" => do
    let p1 ← vec; let p2 ← vec; let p3 ← vec; let p4 ← vec; let l ← num; let s ← num; let c ← num
    let tol ← num; done
    let pr := dihedralPair p1 p2 p3 p4 l
    -- (A, B) ∥ (s, c), same sense, as 2-d vectors
    let cr := pr.1 * c - pr.2 * s
    let dt := pr.1 * s + pr.2 * c
    let ok := decide (cr * cr ≤ tol * tol * (pr.1 * pr.1 + pr.2 * pr.2) * (s * s + c * c)) && decide (0 < dt)
    pure s!"norm={bit (normOk l (p3.sub p2))} target={bit ok}"
  | _ => failure

def handle (payload : String) : String :=
  match words payload with
  | [] => "err:bad-request"
  | op :: rest =>
    match (run op).run rest with
    | some (out, _) => out
    | none => "err:bad-request"

end Molli.Driver.C11
