/- Driver entry for property C04: session replays run on the backend model of C02
   (ops: cnew, begin, ckeys, cput, end, endfault, probe). -/
import Molli.Driver.C02
namespace Molli.Driver.C04

def handle (payload : String) : String := Molli.Driver.C02.handle payload

end Molli.Driver.C04
