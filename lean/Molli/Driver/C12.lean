/-
Driver entry for property C12 (join model).  Numbers are tokens of `Molli.Util.RatIO`.

fragment  F := n id×n  m (a1 a2 data)×m  charge mult          (ids / data: tokens without blanks or commas)
override    := `-` (None) | integer

  join    <shipped|repaired> F_A F_B i1 i2 newdata charge? mult?
          → `ok atoms=<id,…> bonds=<a1-a2:data,…> charge=<q> mult=<m> new=<r1>-<r2>` | `err:assert`
  coords  <shipped|repaired> nA ca(3nA) nB cb(3nB) i1 i2 n1 n2 v1n(3) v2n(3) d tol n rv(3) k (s c)×k
          → k = 0: `c <coords>` (no rotamer scan);  k > 0: the k candidate results of the scan, `c … | c … | …`
  spec    nA ca nB cb i1 i2 n1 n2 res(3(nA+nB−2)) d tol
          exact spec predicates on the floats the real join returned:
          → `shape= partA= rigidB= anchor= len= dir=`
  combine <shipped|repaired> F_core k aps(k) newdata ns (F_sub ap)×ns
          → like `join`, for the whole loop of `_ml_assemble` | `err:index` | `err:assert`
-/
import Molli.Util.RatIO
import Molli.Model.Join
import Molli.Driver.C11
namespace Molli.Driver.C12
open Molli.Util Molli.Model.Geom Molli.Model.Join
open Molli.Driver.C11 (P tok num nat vec mat rep variant done showV showC bit within)

structure F where
  atoms : List String
  bonds : List (Bond String)
  charge : Int
  mult : Int

def int : P Int := do
  let t ← tok
  match t.toInt? with
  | some i => pure i
  | none => failure

def bond : P (Bond String) := do
  let a ← nat; let b ← nat; let d ← tok
  pure ⟨a, b, d⟩

def frag : P F := do
  let n ← nat; let atoms ← rep tok n
  let m ← nat; let bonds ← rep bond m
  let q ← int; let mu ← int
  pure ⟨atoms, bonds, q, mu⟩

def override : P (Option Int) := do
  let t ← tok
  if t == "-" then pure none else
    match t.toInt? with
    | some i => pure (some i)
    | none => failure

def showTopo (t : Topo String String) : String :=
  let bs := t.bonds.map (fun b => s!"{b.a1}-{b.a2}:{b.data}")
  s!"ok atoms={",".intercalate t.atoms} bonds={",".intercalate bs} charge={t.charge} mult={t.mult} new={t.r1}-{t.r2}"

def scPair : P (Rat × Rat) := do
  let s ← num; let c ← num
  pure (s, c)

def sub : P (Sub String String) := do
  let f ← frag; let ap ← nat
  pure ⟨f.atoms, f.bonds, f.charge, f.mult, ap⟩

def allQuads (k : Nat) : List (Nat × Nat × Nat × Nat) := Molli.Driver.C11.quads k

def run : String → P String
  | "join" => do
    let v ← variant; let fa ← frag; let fb ← frag; let i1 ← nat; let i2 ← nat; let nd ← tok
    let c ← override; let m ← override; done
    match joinTopo v fa.atoms fa.bonds fa.charge fa.mult fb.atoms fb.bonds fb.charge fb.mult i1 i2 nd c m with
    | some t => pure (showTopo t)
    | none => pure "err:assert"
  | "coords" => do
    let v ← variant
    let na ← nat; let ca ← rep vec na; let nb ← nat; let cb ← rep vec nb
    let i1 ← nat; let i2 ← nat; let n1 ← nat; let n2 ← nat
    let v1n ← vec; let v2n ← vec; let d ← num; let tol ← num; let n ← num; let rv ← vec
    let k ← nat; let scs ← rep scPair k; done
    match ca[n1]?, cb[n2]? with
    | some r1, some r2 =>
      if n == 0 then pure "err:degenerate" else
      if k == 0 then pure (showC (joinCoords v ca cb i1 i2 r1 r2 v1n v2n d tol n rv none))
      else pure (" | ".intercalate (scs.map (fun sc => showC (joinCoords v ca cb i1 i2 r1 r2 v1n v2n d tol n rv (some sc)))))
    | _, _ => pure "err:index"
  | "spec" => do
    let na ← nat; let ca ← rep vec na; let nb ← nat; let cb ← rep vec nb
    let i1 ← nat; let i2 ← nat; let n1 ← nat; let n2 ← nat
    let res ← rep vec (na + nb - 2); let d ← num; let tol ← num; done
    match ca[n1]?, cb[n2]?, ca[i1]? with
    | some r1, some _, some ap1 =>
      let z : V3 Rat := V3.zero
      let expA := (ca.eraseIdx i1).map (fun p => p.sub r1)
      let gotA := res.take (na - 1)
      let gotB := res.drop (na - 1)
      let oldB := cb.eraseIdx i2
      let partA := gotA.length == expA.length && (List.zip gotA expA).all (fun pq =>
        within pq.1.x pq.2.x tol && within pq.1.y pq.2.y tol && within pq.1.z pq.2.z tol)
      let kb := oldB.length
      let distB := gotB.length == kb && (List.range kb).all (fun i => (List.range kb).all (fun j =>
        i ≥ j || within (dist2 (oldB.getD i z) (oldB.getD j z)) (dist2 (gotB.getD i z) (gotB.getD j z)) tol))
      let chirB := (allQuads kb).all (fun q =>
        let (i, j, l, m) := q
        within (triple (oldB.getD i z) (oldB.getD j z) (oldB.getD l z) (oldB.getD m z))
               (triple (gotB.getD i z) (gotB.getD j z) (gotB.getD l z) (gotB.getD m z)) tol)
      let p := res.getD (reidx i1 n1) z
      let q := res.getD (na - 1 + reidx i2 n2) z
      let anchor := within p.x 0 tol && within p.y 0 tol && within p.z 0 tol
      let bv := q.sub p
      let len := within (bv.dot bv) (d * d) (tol * (1 + d * d))
      let dir := Molli.Driver.C11.sameDir bv (ap1.sub r1) tol
      pure s!"shape={bit (res.length == na + nb - 2)} partA={bit partA} rigidB={bit (distB && chirB)} anchor={bit anchor} len={bit len} dir={bit dir}"
    | _, _, _ => pure "err:index"
  | "combine" => do
    let v ← variant; let core ← frag; let k ← nat; let aps ← rep nat k; let nd ← tok
    let ns ← nat; let subs ← rep sub ns; done
    let start : Topo String String := ⟨core.atoms, core.bonds, core.charge, core.mult, 0, 0⟩
    match assemble v .repaired aps nd 0 start subs with
    | some t => pure (showTopo t)
    | none => pure "err:join"
  | _ => failure

def handle (payload : String) : String :=
  match words payload with
  | [] => "err:bad-request"
  | op :: rest =>
    match (run op).run rest with
    | some (out, _) => out
    | none => "err:bad-request"

end Molli.Driver.C12
