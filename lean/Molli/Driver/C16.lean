/-
Driver entry for property C16: one request payload in, one canonical response line out.

  h atoms=<Z:charge:spin:cc:hint,…> bonds=<a1-a2:btype:forder,…|-> sel=<*|i,j,…|->
      (cc = 1 for AtomType.CoordinationCenter, hint `-` = none; sel `*` = the default atom list)
      → n=<atoms after> k=<hydrogens per old atom> new=<centre-newatom,…|-> hints=<hint per old atom after>
  g z=<Z of the centre> k=<number of hydrogens> a=<x,y,z> w=<x,y,z|-> [nrm=<x,y,z|->] hs=<x,y,z;…>   (exact rationals p/q)
      → d=<0|1 per hydrogen: |dist² − L²·const| ≤ 2·10⁻⁵·L²> away=<0|1 per hydrogen | -> ang=<0|1|-> par=<0|1 per hydrogen: (h − a) ∥ nrm | ->
        with L = radius(Z) + radius(H) and the exact constants of `Molli.Props.C16`
-/
import Molli.Util.Basic
import Molli.Model.Hydrogens
import Molli.Gen.Valence
namespace Molli.Driver.C16
open Molli.Model.Graph Molli.Model.Hydrogens Molli.Util Molli.Gen.Valence

def kv (ws : List String) (k : String) : Option String :=
  ws.findSome? (fun w => match w.splitOn "=" with
    | [a, b] => if a == k then some b else none
    | _ => none)

def items (s : String) : List String := if s == "-" || s == "" then [] else s.splitOn ","

def parseRat? (s : String) : Option Rat :=
  match s.splitOn "/" with
  | [p] => p.toInt?.map (fun i => (i : Rat))
  | [p, q] => do
    let a ← p.toInt?
    let b ← q.toNat?
    if b = 0 then none else some (mkRat a b)
  | _ => none

def parseAtom? (s : String) : Option HAtom :=
  match s.splitOn ":" with
  | [z, q, sp, cc, hint] => do
    let z ← z.toNat?
    let q ← q.toInt?
    let sp ← sp.toInt?
    let hint ← (if hint == "-" then some none else hint.toNat?.map some)
    some ⟨z, q, sp, cc == "1", hint⟩
  | _ => none

def parseBond? (s : String) : Option (Bond Rat) :=
  match s.splitOn ":" with
  | [ends, bt, fo] =>
    match ends.splitOn "-" with
    | [a, b] => do
      let a1 ← a.toNat?
      let a2 ← b.toNat?
      let bt ← bt.toNat?
      let fo ← parseRat? fo
      some ⟨a1, a2, bondOrder bt fo⟩
    | _ => none
  | _ => none

def zeroFrame : Frame Rat := ⟨⟨0, 0, 0⟩, ⟨0, 0, 0⟩, ⟨⟨0, 0, 0⟩, ⟨0, 0, 0⟩, ⟨0, 0, 0⟩⟩⟩

def showNats (l : List Nat) : String := if l.isEmpty then "-" else ",".intercalate (l.map toString)

def runH (atoms : List HAtom) (bonds : List (Bond Rat)) (sel : Option (List Nat)) : String :=
  let m : Mol Rat := ⟨atoms, bonds, atoms.map (fun _ => ⟨0, 0, 0⟩), atoms.map (fun _ => none)⟩
  let cs := match sel with | some l => l | none => centres tables m
  let r := addHSeq tables id (fun _ => zeroFrame) cs m
  let n := atoms.length
  let newB := r.bonds.drop bonds.length
  let ks := (List.range n).map (fun j => (newB.filter (fun b => b.a1 == j)).length)
  let newS := if newB.isEmpty then "-" else ",".intercalate (newB.map (fun b => s!"{b.a1}-{b.a2}"))
  let hints := (r.atoms.take n).map (fun a => match a.hint with | some h => toString h | none => "-")
  s!"n={r.atoms.length} k={showNats ks} new={newS} hints={",".intercalate hints} rows={r.coords.length} charges={r.charges.length}"

def parseV3? (s : String) : Option (V3 Rat) :=
  match (s.splitOn ",").map parseRat? with
  | [some x, some y, some z] => some ⟨x, y, z⟩
  | _ => none

def absR (q : Rat) : Rat := if q < 0 then -q else q

def b01 (b : Bool) : String := if b then "1" else "0"

def crossR (a b : V3 Rat) : V3 Rat :=
  ⟨a.y * b.z - a.z * b.y, a.z * b.x - a.x * b.z, a.x * b.y - a.y * b.x⟩

def runG (z k : Nat) (a : V3 Rat) (w : Option (V3 Rat)) (nrm : Option (V3 Rat)) (hs : List (V3 Rat)) : String :=
  let L := tables.radius z + tables.radius tables.hydrogen
  let tol := (2 / 100000 : Rat) * (L * L)
  let consts : List Rat :=
    match k with
    | 1 => [1]
    | 2 => [tables.c2 * tables.c2 + tables.s2 * tables.s2, tables.c2 * tables.c2 + tables.s2 * tables.s2]
    | 3 => (tables.tet.drop 1).map V3.norm2
    | _ => tables.tet.map V3.norm2
  let ds := (hs.zip consts).map (fun (hc : V3 Rat × Rat) => decide (absR ((hc.1.sub a).norm2 - L * L * hc.2) ≤ tol))
  let aw := match w with
    | some w => "".intercalate (hs.map (fun (h : V3 Rat) => b01 (decide ((h.sub a).dot (w.sub a) < 0))))
    | none => "-"
  let ang := match k, hs with
    | 2, [h1, h2] => b01 (decide (absR ((h1.sub a).dot (h2.sub a) - L * L * (tables.c2 * tables.c2 - tables.s2 * tables.s2)) ≤ tol))
    | _, _ => "-"
  -- the hydrogen lies on the line through the centre along `nrm` (sin² of the angle ≤ 10⁻⁸)
  let par := match nrm with
    | some n => "".intercalate (hs.map (fun (h : V3 Rat) =>
        b01 (decide ((crossR (h.sub a) n).norm2 ≤ (1 / 100000000 : Rat) * ((h.sub a).norm2 * n.norm2)))))
    | none => "-"
  if hs.length != (if k ≤ 4 then k else 4) then "err:count" else
  s!"d={"".intercalate (ds.map b01)} away={aw} ang={ang} par={par}"

def handle (payload : String) : String :=
  let ws := words payload
  match ws with
  | "h" :: rest =>
    match (kv rest "atoms").map (fun s => (items s).map parseAtom?), (kv rest "bonds").map (fun s => (items s).map parseBond?),
        kv rest "sel" with
    | some as, some bs, some sel =>
      match as.mapM id, bs.mapM id with
      | some atoms, some bonds =>
        if !bonds.all (fun b => b.a1 < atoms.length && b.a2 < atoms.length) then "err:bond-out-of-range" else
        if sel == "*" then runH atoms bonds none
        else match ((items sel).map String.toNat?).mapM id with
          | some l => if l.all (· < atoms.length) then runH atoms bonds (some l) else "err:sel"
          | none => "err:parse"
      | _, _ => "err:parse"
    | _, _, _ => "err:parse"
  | "g" :: rest =>
    match (kv rest "z").bind String.toNat?, (kv rest "k").bind String.toNat?, (kv rest "a").bind parseV3?, kv rest "w", kv rest "hs" with
    | some z, some k, some a, some w, some hs =>
      match ((if hs == "-" then [] else hs.splitOn ";").map parseV3?).mapM id with
      | some hl =>
        let wv := if w == "-" then none else parseV3? w
        let nv := (kv rest "nrm").bind (fun s => if s == "-" then none else parseV3? s)
        if w != "-" && wv.isNone then "err:parse" else runG z k a wv nv hl
      | none => "err:parse"
    | _, _, _, _, _ => "err:parse"
  | _ => "err:unknown-op"

end Molli.Driver.C16
