/- Driver entry for property C01: one request payload in, one canonical response line out. -/
import Molli.Util.Basic
namespace Molli.Driver.C01

def handle (_payload : String) : String := "err:not-implemented"

end Molli.Driver.C01
