/-
Driver for the codec model (C01).  One request line, one response line; tokens separated by blanks.

values (msgpack data model):
   n | t | f | i<int> | d<16 hex: float64 bits> | e<8 hex: float32 bits> | s<utf8 hex or -> | b<hex or ->
   L<k> v*k (list) | T<k> v*k (tuple) | M<k> (key value)*k (dict, insertion order)
float arrays:  X<k> followed by k tokens of 16 hex digits (float64 bits)
record:  name charge mult attrib  A<n> (9 values per atom, order of `AField.all`)
         B<n> (7 values per bond: a1 a2 label btype stereo f_order attrib)
         molecule:  R<n> (X<3> row)*n   X<n> charges
         ensemble:  Q<nc> (R<n> (X<3> row)*n)*nc   X<nc> weights   R<nc> (X<n> row)*nc
schema:  S <na> afield*na <nb> bfield*nb <nt> tfield*nt  D (9 atom default values) (7 bond default values)

requests
   N <value>                         ->  <value after a msgpack round trip>
   mol <schema> <record>             ->  ok B <hex of the stored bytes> W <wire value> K <record read back>
                                         |  err:<kind> B <hex> W <wire value>
   ens <schema> <record>             ->  likewise
   ver <hex of the first 16 bytes of the file | none>   ->  1 | 2
   pack <value>                      ->  <hex of msgpack.dumps(value)> | unpackable
   unpack <hex>                      ->  <value msgpack.loads gives> | none
-/
import Molli.Util.Basic
import Molli.Model.Codec
import Molli.Model.Msgpack
namespace Molli.Driver.C01
open Molli.Util Molli.Model.Codec Molli.Model.Msgpack

/-! ### printing -/

def hex64 (x : UInt64) : String :=
  String.ofList ((List.range 16).map (fun i => hexDigit ((x.toNat / 16 ^ (15 - i)) % 16)))

def hex32 (x : UInt32) : String :=
  String.ofList ((List.range 8).map (fun i => hexDigit ((x.toNat / 16 ^ (7 - i)) % 16)))

mutual
def showVal : MVal → List String
  | .nil => ["n"]
  | .bool b => [if b then "t" else "f"]
  | .int i => ["i" ++ toString i]
  | .f64 b => ["d" ++ hex64 b]
  | .f32 b => ["e" ++ hex32 b]
  | .str s => ["s" ++ hexTok s]
  | .bin b => ["b" ++ hexTok b]
  | .arr isList l => ((if isList then "L" else "T") ++ toString l.length) :: showVals l
  | .map l => ("M" ++ toString l.length) :: showPairs l
def showVals : List MVal → List String
  | [] => []
  | v :: vs => showVal v ++ showVals vs
def showPairs : List (MVal × MVal) → List String
  | [] => []
  | (k, v) :: r => showVal k ++ showVal v ++ showPairs r
end

def showX (xs : List F64) : List String := ("X" ++ toString xs.length) :: xs.map hex64
def showR (rs : List (List F64)) : List String := ("R" ++ toString rs.length) :: (rs.map showX).flatten

def showAB (atoms : List AtomRec) (bonds : List BondRec) : List String :=
  ("A" ++ toString atoms.length) :: (atoms.map (fun a => (AField.all.map (fun f => showVal (a.get f))).flatten)).flatten
  ++ ("B" ++ toString bonds.length) :: (bonds.map (fun b => (BField.all.map (fun f => showVal (b.get f))).flatten)).flatten

def showMol (m : MolRec) : List String :=
  showVal m.name ++ showVal m.charge ++ showVal m.mult ++ showVal m.attrib ++ showAB m.atoms m.bonds
  ++ showR m.coords ++ showX m.charges

def showEns (e : EnsRec) : List String :=
  showVal e.name ++ showVal e.charge ++ showVal e.mult ++ showVal e.attrib ++ showAB e.atoms e.bonds
  ++ ("Q" ++ toString e.coords.length) :: (e.coords.map showR).flatten ++ showX e.weights ++ showR e.charges

def errName : Err → String
  | .notTuple => "not-tuple" | .arity => "arity" | .missing => "missing" | .type => "type"
  | .shape => "shape" | .index => "index"

/-! ### parsing (fuel = number of tokens; every step consumes one) -/

abbrev P (α : Type) := List String → Option (α × List String)

def natOfHex? (cs : List Char) : Option Nat :=
  cs.foldlM (fun acc c => (hexVal? c).map (fun d => acc * 16 + d)) 0

def headTail (t : String) : Option (Char × List Char) :=
  match t.toList with
  | c :: r => some (c, r)
  | [] => none

def bytesTok? (r : List Char) : Option Bytes :=
  if r == ['-'] then some [] else bytesOfHexChars r

mutual
def parseVal : Nat → P MVal
  | 0, _ => none
  | _, [] => none
  | fuel + 1, t :: ts =>
    match headTail t with
    | none => none
    | some (c, r) =>
      match c with
      | 'n' => if r.isEmpty then some (.nil, ts) else none
      | 't' => if r.isEmpty then some (.bool true, ts) else none
      | 'f' => if r.isEmpty then some (.bool false, ts) else none
      | 'i' => (String.ofList r).toInt?.map (fun i => (.int i, ts))
      | 'd' => if r.length = 16 then (natOfHex? r).map (fun n => (.f64 (UInt64.ofNat n), ts)) else none
      | 'e' => if r.length = 8 then (natOfHex? r).map (fun n => (.f32 (UInt32.ofNat n), ts)) else none
      | 's' => (bytesTok? r).map (fun b => (.str b, ts))
      | 'b' => (bytesTok? r).map (fun b => (.bin b, ts))
      | 'L' => do
          let n ← (String.ofList r).toNat?
          let (xs, ts') ← parseVals fuel n ts
          pure (.arr true xs, ts')
      | 'T' => do
          let n ← (String.ofList r).toNat?
          let (xs, ts') ← parseVals fuel n ts
          pure (.arr false xs, ts')
      | 'M' => do
          let n ← (String.ofList r).toNat?
          let (xs, ts') ← parsePairs fuel n ts
          pure (.map xs, ts')
      | _ => none
def parseVals : Nat → Nat → P (List MVal)
  | _, 0, ts => some ([], ts)
  | 0, _ + 1, _ => none
  | fuel + 1, n + 1, ts => do
      let (v, ts1) ← parseVal fuel ts
      let (vs, ts2) ← parseVals fuel n ts1
      pure (v :: vs, ts2)
def parsePairs : Nat → Nat → P (List (MVal × MVal))
  | _, 0, ts => some ([], ts)
  | 0, _ + 1, _ => none
  | fuel + 1, n + 1, ts => do
      let (k, ts1) ← parseVal fuel ts
      let (v, ts2) ← parseVal fuel ts1
      let (r, ts3) ← parsePairs fuel n ts2
      pure ((k, v) :: r, ts3)
end

def pVal : P MVal := fun ts => parseVal (2 * ts.length + 2) ts
def pVals (n : Nat) : P (List MVal) := fun ts => parseVals (2 * ts.length + 2) n ts

/-- `<prefix><n>` -/
def pCount (pre : Char) : P Nat
  | t :: ts =>
    match headTail t with
    | some (c, r) => if c == pre then (String.ofList r).toNat?.map (fun n => (n, ts)) else none
    | none => none
  | [] => none

def pRepeat {α : Type} (p : P α) : Nat → P (List α)
  | 0, ts => some ([], ts)
  | n + 1, ts => do
      let (x, ts1) ← p ts
      let (xs, ts2) ← pRepeat p n ts1
      pure (x :: xs, ts2)

def pHex64 : P F64
  | t :: ts => if t.length = 16 then (natOfHex? t.toList).map (fun n => (UInt64.ofNat n, ts)) else none
  | [] => none

def pX : P (List F64) := fun ts => do
  let (n, ts1) ← pCount 'X' ts
  pRepeat pHex64 n ts1

def pR : P (List (List F64)) := fun ts => do
  let (n, ts1) ← pCount 'R' ts
  pRepeat pX n ts1

def pAtom : P AtomRec := fun ts => do
  let (vs, ts1) ← pVals 9 ts
  pure (AtomRec.ofList vs, ts1)

def pBond : P BondRec := fun ts => do
  let (vs, ts1) ← pVals 7 ts
  pure (BondRec.ofList vs, ts1)

def pAB : P (List AtomRec × List BondRec) := fun ts => do
  let (na, ts1) ← pCount 'A' ts
  let (atoms, ts2) ← pRepeat pAtom na ts1
  let (nb, ts3) ← pCount 'B' ts2
  let (bonds, ts4) ← pRepeat pBond nb ts3
  pure ((atoms, bonds), ts4)

def pMol : P MolRec := fun ts => do
  let (hd, ts1) ← pVals 4 ts
  let ((atoms, bonds), ts2) ← pAB ts1
  let (coords, ts3) ← pR ts2
  let (charges, ts4) ← pX ts3
  pure ({ name := hd.getD 0 .nil, charge := hd.getD 1 .nil, mult := hd.getD 2 .nil, attrib := hd.getD 3 .nil,
          atoms := atoms, bonds := bonds, coords := coords, charges := charges }, ts4)

def pEns : P EnsRec := fun ts => do
  let (hd, ts1) ← pVals 4 ts
  let ((atoms, bonds), ts2) ← pAB ts1
  let (nc, ts3) ← pCount 'Q' ts2
  let (coords, ts4) ← pRepeat pR nc ts3
  let (weights, ts5) ← pX ts4
  let (charges, ts6) ← pR ts5
  pure ({ name := hd.getD 0 .nil, charge := hd.getD 1 .nil, mult := hd.getD 2 .nil, attrib := hd.getD 3 .nil,
          atoms := atoms, bonds := bonds, coords := coords, weights := weights, charges := charges }, ts6)

def aField? : String → Option AField
  | "element" => some .element | "isotope" => some .isotope | "label" => some .label
  | "atype" => some .atype | "stereo" => some .stereo | "geom" => some .geom
  | "formal_charge" => some .formal_charge | "formal_spin" => some .formal_spin
  | "attrib" => some .attrib | "other" => some .other | _ => none

def bField? : String → Option BField
  | "a1" => some .a1 | "a2" => some .a2 | "label" => some .label | "btype" => some .btype
  | "stereo" => some .stereo | "f_order" => some .f_order | "attrib" => some .attrib
  | "other" => some .other | _ => none

def tField? : String → Option TField
  | "name" => some .name | "n_conformers" => some .n_conformers | "n_atoms" => some .n_atoms
  | "n_bonds" => some .n_bonds | "charge" => some .charge | "mult" => some .mult
  | "atoms" => some .atoms | "bonds" => some .bonds | "coords" => some .coords
  | "weights" => some .weights | "atomic_charges" => some .atomic_charges | "attrib" => some .attrib
  | "skip" => some .skip | "other" => some .other | _ => none

def pNames {α : Type} (f : String → Option α) : P (List α)
  | t :: ts => do
      let n ← t.toNat?
      if ts.length < n then none else do
        let xs ← (ts.take n).mapM f
        pure (xs, ts.drop n)
  | [] => none

def pLit (s : String) : P Unit
  | t :: ts => if t == s then some ((), ts) else none
  | [] => none

def pSchema : P Schema := fun ts => do
  let (_, ts0) ← pLit "S" ts
  let (ao, ts1) ← pNames aField? ts0
  let (bo, ts2) ← pNames bField? ts1
  let (to, ts3) ← pNames tField? ts2
  let (_, ts4) ← pLit "D" ts3
  let (ad, ts5) ← pAtom ts4
  let (bd, ts6) ← pBond ts5
  pure ({ atom := ao, bond := bo, top := to, atomDflt := ad, bondDflt := bd }, ts6)

/-! ### requests -/

def join (ts : List String) : String := " ".intercalate ts

def handle (payload : String) : String :=
  match words payload with
  | "N" :: ts =>
    match pVal ts with
    | some (v, []) => join (showVal (N v))
    | _ => "err:bad-request"
  | "mol" :: ts =>
    match pSchema ts with
    | some (S, ts1) =>
      match pMol ts1 with
      | some (m, []) =>
        let w := N (serMol S m)
        match deserMol S w with
        | .ok m' => join (["ok", "B", hexTok (pack (serMol S m)), "W"] ++ showVal w ++ ["K"] ++ showMol m')
        | .error e => join (["err:" ++ errName e, "B", hexTok (pack (serMol S m)), "W"] ++ showVal w)
      | _ => "err:bad-record"
    | none => "err:bad-schema"
  | "ens" :: ts =>
    match pSchema ts with
    | some (S, ts1) =>
      match pEns ts1 with
      | some (e, []) =>
        let w := N (serEns S e)
        match deserEns S w with
        | .ok e' => join (["ok", "B", hexTok (pack (serEns S e)), "W"] ++ showVal w ++ ["K"] ++ showEns e')
        | .error er => join (["err:" ++ errName er, "B", hexTok (pack (serEns S e)), "W"] ++ showVal w)
      | _ => "err:bad-record"
    | none => "err:bad-schema"
  | "pack" :: ts =>
    match pVal ts with
    | some (v, []) => if packable v then hexTok (pack v) else "unpackable"
    | _ => "err:bad-request"
  | ["unpack", h] =>
    match bytesOfHex? h with
    | some b => match loads b with
      | some v => join (showVal v)
      | none => "none"
    | none => "err:bad-request"
  | ["ver", h] =>
    if h == "none" then toString (codecVersion none)
    else match bytesOfHex? h with
      | some b => toString (codecVersion (some b))
      | none => "err:bad-request"
  | _ => "err:bad-request"

end Molli.Driver.C01
