/- Driver entry for property C08: one request payload in, one canonical response line out
(mol2 / xyz writer and reader models; protocol in Molli/Driver/TextIO.lean). -/
import Molli.Util.Basic
import Molli.Driver.TextIO
namespace Molli.Driver.C08

def handle (payload : String) : String := Molli.Driver.TextIO.handle payload

end Molli.Driver.C08
