/-
Driver entry for property C17 (model: Molli.Model.Job). One request payload in, one response line out.
Every string (names, values, contents) travels hex-encoded (UTF-8 bytes), `-` = empty.

  bind2 <r|s> <jobattrs> <cls~defaulthex|-[|cls~default…]> <which name=path&…|-> <ev> …   ev = C<i>:<k>:<kwargs attrs>:<find 0|1> | m<i>:<attrs> | u<i> | d<i>
      (driver classes sharing one job object; DriverBase.__init__ modelled by initAttrs; same response as `bind`)
  bind <r|s> <jobattrs> <clsattrs> <ev> <ev> ...
      attrs = <exe|->,<nprocs|->,<memory|->,<k=v&k=v|->        ev = c<i>:<attrs> | u<i> | m<i>:<attrs> (attributes reassigned) | d<i> (driver dropped)
      → one token per `u` event:  <exe|->,<nprocs>,<memory>,<k=v&… sorted|->   (none = unknown driver)
  lookup <baseenv> <envars> <existing executable files hex,…|-> <prog hex> …   → the file started for each prog (hex) | none
  run <r|s> <baseenv k=v&…|-> <envars k=v&…|-> <files name:hex&…|-> <ret none|-|name&name…> <cmd>;<cmd>;…
      cmd = <name|->/<code>/<out|->/<err|->/<eff,eff…|->      code = return code (negative: killed by that signal)
      eff = w:<name>:<data|->  |  c:<src>:<dst>  |  r:<name>  |  e:<var>:<dst>
      → ran=<n> exit=<code> residue=<number of extra scratch entries> out=<none | <exitcode>|<stdouts>|<stderrs>|<files>>
        (dicts: sorted `name:hex` joined by `&`, `-` if empty)
-/
import Molli.Util.Basic
import Molli.Model.Job
namespace Molli.Driver.C17
open Molli.Util Molli.Model.Job

def strOfHex? (s : String) : Option String := do
  let bs ← bytesOfHex? s
  String.fromUTF8? (ByteArray.mk bs.toArray)

def hexOfStr (s : String) : String := hexTok s.toUTF8.toList

def optTok? {α : Type} (f : String → Option α) (s : String) : Option (Option α) :=
  if s == "-" then some none else (f s).map some

def splitList (s : String) (sep : String) : List String := if s == "-" then [] else s.splitOn sep

def parseEnv? (s : String) : Option Env :=
  (splitList s "&").mapM fun kv => match kv.splitOn "=" with
    | [k, v] => do pure (← strOfHex? k, ← strOfHex? v)
    | _ => none

def parseAttrs? (s : String) : Option Attrs :=
  match s.splitOn "," with
  | [e, n, m, env] => do
    pure { executable := ← optTok? strOfHex? e, nprocs := ← optTok? String.toNat? n,
           memory := ← optTok? String.toNat? m, envars := ← parseEnv? env }
  | _ => none

def parseEv? (s : String) : Option Ev :=
  if s.startsWith "u" then (s.drop 1).toString.toNat?.map Ev.use
  else if s.startsWith "c" then
    match (s.drop 1).toString.splitOn ":" with
    | [i, a] => do pure (.create (← i.toNat?) (← parseAttrs? a))
    | _ => none
  else if s.startsWith "m" then
    match (s.drop 1).toString.splitOn ":" with
    | [i, a] => do pure (.mutate (← i.toNat?) (← parseAttrs? a))
    | _ => none
  else if s.startsWith "d" then (s.drop 1).toString.toNat?.map Ev.discard
  else none

def strLt (a b : String) : Bool := a < b

def showEnv (e : Env) : String :=
  let items := (e.map fun kv => (hexOfStr kv.1, hexOfStr kv.2)).mergeSort (fun a b => !strLt b.1 a.1)
  if items.isEmpty then "-" else "&".intercalate (items.map fun kv => kv.1 ++ "=" ++ kv.2)

def showBound (b : Bound) : String :=
  (match b.executable with | some e => hexOfStr e | none => "-") ++ s!",{b.nprocs},{b.memory}," ++ showEnv b.envars

def showDict (d : List (String × Bytes)) : String :=
  let items := (d.map fun kv => (hexOfStr kv.1, hexTok kv.2)).mergeSort (fun a b => !strLt b.1 a.1)
  if items.isEmpty then "-" else "&".intercalate (items.map fun kv => kv.1 ++ ":" ++ kv.2)

def parseVariant? : String → Option Variant
  | "r" => some .repaired | "s" => some .asShipped | _ => none

def parseEffect? (s : String) : Option Effect :=
  match s.splitOn ":" with
  | ["w", n, d] => do pure (.write (← strOfHex? n) (← bytesOfHex? d))
  | ["c", a, b] => do pure (.copy (← strOfHex? a) (← strOfHex? b))
  | ["r", n] => do pure (.remove (← strOfHex? n))
  | ["e", v, d] => do pure (.dumpEnv (← strOfHex? v) (← strOfHex? d))
  | _ => none

def parseCmd? (s : String) : Option (Option String × Outcome) :=
  match s.splitOn "/" with
  | [n, c, o, e, effs] => do
    let name ← optTok? strOfHex? n
    let code ← c.toInt?
    let out ← bytesOfHex? o
    let err ← bytesOfHex? e
    let effects ← (splitList effs ",").mapM parseEffect?
    pure (name, { effects := effects, out := out, err := err, code := code })
  | _ => none

def parseFiles? (s : String) : Option (List (String × Bytes)) :=
  (splitList s "&").mapM fun kv => match kv.splitOn ":" with
    | [k, v] => do pure (← strOfHex? k, ← bytesOfHex? v)
    | _ => none

def parseRet? (s : String) : Option (Option (List String)) :=
  if s == "none" then some none else ((splitList s "&").mapM strOfHex?).map some

/-- events of `bind2`: `C<i>:<k>:<attrs>:<find>` creates instance `i` of class `k` with keyword arguments `attrs`;
`m<i>:<attrs>` assigns attributes; `u<i>`, `d<i>` as before.  Returns the model events (class attributes folded into the
instance) -/
def parseEv2? (which : String → Option String) (classes : List (Attrs × Option String))
    (acc : Option (List Ev × List (Nat × Nat))) (s : String) : Option (List Ev × List (Nat × Nat)) := do
  let (evs, owner) ← acc
  if s.startsWith "C" then
    match (s.drop 1).toString.splitOn ":" with
    | [i, k, a, f] => do
      let i ← i.toNat?; let k ← k.toNat?; let a ← parseAttrs? a
      let (cls, decl) ← classes[k]?
      pure (evs ++ [.create i (foldClass cls (initAttrs which decl a (f == "1")))], (i, k) :: owner.filter (·.1 != i))
    | _ => none
  else if s.startsWith "m" then
    match (s.drop 1).toString.splitOn ":" with
    | [i, a] => do
      let i ← i.toNat?; let a ← parseAttrs? a
      let k := ((owner.find? (·.1 == i)).map (·.2)).getD 0
      let (cls, _) ← classes[k]?
      pure (evs ++ [.mutate i (foldClass cls a)], owner)
    | _ => none
  else do
    let e ← parseEv? s
    pure (evs ++ [e], owner)

def parseClass? (s : String) : Option (Attrs × Option String) :=
  match s.splitOn "~" with
  | [a, d] => do pure (← parseAttrs? a, ← optTok? strOfHex? d)
  | _ => none

def handle (payload : String) : String :=
  match words payload with
  | "bind2" :: v :: job :: classes :: which :: evs =>
    match parseVariant? v, parseAttrs? job, (classes.splitOn "|").mapM parseClass?, parseEnv? which with
    | some v, some job, some classes, some wt =>
      let which : String → Option String := fun n => dget wt n
      match evs.foldl (parseEv2? which classes) (some ([], [])) with
      | none => "err:bad-request"
      | some (mevs, _) =>
        let outs := (runEvs v {} { job := job, insts := [] } mevs).2
        let uses := (mevs.zip outs).filterMap fun (e, o) => match e with
          | .use _ => some (match o with | some b => showBound b | none => "none")
          | _ => none
        if uses.isEmpty then "-" else " ".intercalate uses
    | _, _, _, _ => "err:bad-request"
  | "bind" :: v :: job :: cls :: evs =>
    match parseVariant? v, parseAttrs? job, parseAttrs? cls, evs.mapM parseEv? with
    | some v, some job, some cls, some evs =>
      let outs := (runEvs v cls { job := job, insts := [] } evs).2
      let uses := (evs.zip outs).filterMap fun (e, o) => match e with
        | .use _ => some (match o with | some b => showBound b | none => "none")
        | _ => none
      if uses.isEmpty then "-" else " ".intercalate uses
    | _, _, _, _ => "err:bad-request"
  | "lookup" :: base :: envars :: has :: progs =>
    match parseEnv? base, parseEnv? envars, (splitList has ",").mapM strOfHex?, progs.mapM strOfHex? with
    | some base, some envars, some has, some progs =>
      let inp : JobInput := { jid := "j", commands := [], files := [], returnFiles := none, envars := envars }
      let env := jobEnv base inp
      " ".intercalate (progs.map fun p => match resolveProgram env (fun f => has.contains f) p with
        | some f => hexOfStr f
        | none => "none")
    | _, _, _, _ => "err:bad-request"
  | ["run", v, base, envars, files, ret, cmds] =>
    match parseVariant? v, parseEnv? base, parseEnv? envars, parseFiles? files, parseRet? ret,
          (splitList cmds ";").mapM parseCmd? with
    | some v, some base, some envars, some files, some ret, some cmds =>
      let inp : JobInput :=
        { jid := "j", commands := cmds.map fun c => ("", c.1), files := files, returnFiles := ret, envars := envars }
      let r := runJob v (fun _ => "") base [] "j__td" inp (cmds.map (·.2))
      let out := match r.output with
        | none => "none"
        | some o => s!"{o.exitcode}|{showDict o.stdouts}|{showDict o.stderrs}|{showDict o.files}"
      s!"ran={r.ran.length} exit={r.exit} residue={r.scratchAfter.length} out={out}"
    | _, _, _, _, _, _ => "err:bad-request"
  | _ => "err:bad-request"

end Molli.Driver.C17
