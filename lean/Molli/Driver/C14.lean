/-
Driver for the ensemble model (C14).  payload:  <shipped|repaired> ; op ; op ; ...
numbers: `nan` | integer | p/q          vectors: V<n> x*n        conformer: C<n> (x y z)*n
charges: Q<n> x*n | Q-                  matrix: M<r> (V<n> ..)*r
ops
  ctorAtoms nA nC | ctorMol nA k | ctorMols m (C Q)*m | ctorCopy
  append C Q | extendEns nA m (C V<nA> w)*m | extendSelf | extendGeoms m (C Q)*m
  scale f allow | invert | translate V | translateEach m V*m | rotate M | rotateEach m M*m
  setCoords m C*m | setWeights V | setCharges m V*m
  writeCoords i C | writeCharges i V | writeAtom i a V | writeCharge i a x
  read i | slice a b c ('-' = omitted) | dump i | serialise | iterNew | iterNext k | loop | nestedLoop
  ctorAtomsKw nA nC <coords: - | cs m C*m | c1 C> <charges: - | qs m V*m | q1 V> <weights: - | ws V>
  readAt i | writeAt i C   (any integer i, negative ones count from the end)
  reload (continue with the ensemble read back from a library) | ctorCopyKw | swap k (the k-th other live ensemble becomes the current one) | iterNextKeep k | loopKeep
  readKept j | writeKept j C | dumpKept j   (conformer objects kept from iterations, used later)
response: per op  <out>@<nA>,<len coords>,<len charges>,<len weights>,<rect 0|1>  joined by ';', then
  ';state ' + the three arrays + ' || others n' + (' || state …' of every other live ensemble)
outs: ok | err | view C.. V.. | idxs i,j,.. | handle k | yield i | stop | pairs i:j,.. | blob m (C V)*m V
-/
import Molli.Util.Basic
import Molli.Model.Ensemble
namespace Molli.Driver.C14
open Molli.Util Molli.Model.Ensemble

abbrev P (α : Type) := List String → Option (α × List String)

def pNum : P Num
  | t :: ts =>
    if t == "nan" then some (none, ts) else
    match t.splitOn "/" with
    | [p] => p.toInt?.map (fun i => (some (i : Rat), ts))
    | [p, q] => do
        let a ← p.toInt?
        let b ← q.toNat?
        if b = 0 then none else pure (some (mkRat a b), ts)
    | _ => none
  | [] => none

def pNat : P Nat
  | t :: ts => t.toNat?.map (fun n => (n, ts))
  | [] => none

def pOptInt : P (Option Int)
  | t :: ts => if t == "-" then some (none, ts) else t.toInt?.map (fun i => (some i, ts))
  | [] => none

def pRepeat {α : Type} (p : P α) : Nat → P (List α)
  | 0, ts => some ([], ts)
  | n + 1, ts => do
      let (x, ts1) ← p ts
      let (xs, ts2) ← pRepeat p n ts1
      pure (x :: xs, ts2)

def pCount (pre : Char) : P Nat
  | t :: ts =>
    match t.toList with
    | c :: r => if c == pre then (String.ofList r).toNat?.map (fun n => (n, ts)) else none
    | [] => none
  | [] => none

def pVec : P (List Num) := fun ts => do
  let (n, ts1) ← pCount 'V' ts
  pRepeat pNum n ts1

def pRow : P Row := pRepeat pNum 3

def pConf : P Conf := fun ts => do
  let (n, ts1) ← pCount 'C' ts
  pRepeat pRow n ts1

def pCharges : P (Option (List Num))
  | "Q-" :: ts => some (none, ts)
  | ts => do
      let (n, ts1) ← pCount 'Q' ts
      let (xs, ts2) ← pRepeat pNum n ts1
      pure (some xs, ts2)

def pGeom : P Geom := fun ts => do
  let (c, ts1) ← pConf ts
  let (q, ts2) ← pCharges ts1
  pure (⟨c, q⟩, ts2)

def pMat : P Mat := fun ts => do
  let (n, ts1) ← pCount 'M' ts
  pRepeat pVec n ts1

def pMany {α : Type} (p : P α) : P (List α) := fun ts => do
  let (n, ts1) ← pNat ts
  pRepeat p n ts1

def pEns : P Ens := fun ts => do
  let (nA, ts1) ← pNat ts
  let (items, ts2) ← pMany (fun ts => do
      let (c, t1) ← pConf ts
      let (q, t2) ← pVec t1
      let (w, t3) ← pNum t2
      pure ((c, q, w), t3)) ts1
  pure ({ nA := nA, coords := items.map (·.1), charges := items.map (·.2.1), weights := items.map (·.2.2) }, ts2)

def pRat : P Rat := fun ts => do
  let (x, ts1) ← pNum ts
  match x with
  | some r => pure (r, ts1)
  | none => none

/-- `-` | `cs m C*m` (three-dimensional) | `c1 C` (one geometry, two-dimensional) -/
def pCoordsArg : P (Option (List Conf))
  | "-" :: ts => some (none, ts)
  | "cs" :: ts => (pMany pConf ts).map (fun r => (some r.1, r.2))
  | "c1" :: ts => (pConf ts).map (fun r => (some [r.1], r.2))
  | _ => none

def pChargesArg : P (Option (List (List Num)))
  | "-" :: ts => some (none, ts)
  | "qs" :: ts => (pMany pVec ts).map (fun r => (some r.1, r.2))
  | "q1" :: ts => (pVec ts).map (fun r => (some [r.1], r.2))
  | _ => none

def pWeightsArg : P (Option (List Num))
  | "-" :: ts => some (none, ts)
  | "ws" :: ts => (pVec ts).map (fun r => (some r.1, r.2))
  | _ => none

def parseOp (s : String) : Option Op :=
  match words s with
  | "ctorAtoms" :: ts => do let (a, t1) ← pNat ts; let (b, t2) ← pNat t1; if t2.isEmpty then pure (.ctorAtoms a b) else none
  | "ctorMol" :: ts => do let (a, t1) ← pNat ts; let (b, t2) ← pNat t1; if t2.isEmpty then pure (.ctorMol a b) else none
  | "ctorMols" :: ts => do let (ms, t1) ← pMany pGeom ts; if t1.isEmpty then pure (.ctorMols ms) else none
  | ["ctorCopy"] => some .ctorCopy
  | "append" :: ts => do let (g, t1) ← pGeom ts; if t1.isEmpty then pure (.append g) else none
  | "extendEns" :: ts => do let (e, t1) ← pEns ts; if t1.isEmpty then pure (.extendEns e) else none
  | ["extendSelf"] => some .extendSelf
  | "extendGeoms" :: ts => do let (gs, t1) ← pMany pGeom ts; if t1.isEmpty then pure (.extendGeoms gs) else none
  | "scale" :: ts => do let (f, t1) ← pRat ts; let (a, t2) ← pNat t1; if t2.isEmpty then pure (.scale f (a != 0)) else none
  | ["invert"] => some .invert
  | "translate" :: ts => do let (x, t1) ← pVec ts; if t1.isEmpty then pure (.translate x) else none
  | "translateEach" :: ts => do let (vs, t1) ← pMany pVec ts; if t1.isEmpty then pure (.translateEach vs) else none
  | "rotate" :: ts => do let (m, t1) ← pMat ts; if t1.isEmpty then pure (.rotate m) else none
  | "rotateEach" :: ts => do let (ms, t1) ← pMany pMat ts; if t1.isEmpty then pure (.rotateEach ms) else none
  | "setCoords" :: ts => do let (cs, t1) ← pMany pConf ts; if t1.isEmpty then pure (.setCoords cs) else none
  | "setWeights" :: ts => do let (x, t1) ← pVec ts; if t1.isEmpty then pure (.setWeights x) else none
  | "setCharges" :: ts => do let (qs, t1) ← pMany pVec ts; if t1.isEmpty then pure (.setCharges qs) else none
  | "writeCoords" :: ts => do let (i, t1) ← pNat ts; let (c, t2) ← pConf t1; if t2.isEmpty then pure (.writeCoords i c) else none
  | "writeCharges" :: ts => do let (i, t1) ← pNat ts; let (q, t2) ← pVec t1; if t2.isEmpty then pure (.writeCharges i q) else none
  | "writeAtom" :: ts => do
      let (i, t1) ← pNat ts; let (a, t2) ← pNat t1; let (x, t3) ← pVec t2
      if t3.isEmpty then pure (.writeAtom i a x) else none
  | "writeCharge" :: ts => do
      let (i, t1) ← pNat ts; let (a, t2) ← pNat t1; let (x, t3) ← pNum t2
      if t3.isEmpty then pure (.writeCharge i a x) else none
  | "read" :: ts => do let (i, t1) ← pNat ts; if t1.isEmpty then pure (.read i) else none
  | "slice" :: ts => do
      let (a, t1) ← pOptInt ts; let (b, t2) ← pOptInt t1; let (c, t3) ← pOptInt t2
      if t3.isEmpty then pure (.slice a b c) else none
  | "dump" :: ts => do let (i, t1) ← pNat ts; if t1.isEmpty then pure (.dump i) else none
  | ["serialise"] => some .serialise
  | ["iterNew"] => some .iterNew
  | "iterNext" :: ts => do let (k, t1) ← pNat ts; if t1.isEmpty then pure (.iterNext k) else none
  | ["loop"] => some .loop
  | ["nestedLoop"] => some .nestedLoop
  | ["ctorCopyKw"] => some .ctorCopyKw
  | ["reload"] => some .reload
  | "readAt" :: ts => do
      let (i, t1) ← pOptInt ts
      match i, t1 with
      | some i, [] => pure (.readAt i)
      | _, _ => none
  | "writeAt" :: ts => do
      let (i, t1) ← pOptInt ts
      let (c, t2) ← pConf t1
      match i, t2 with
      | some i, [] => pure (.writeAt i c)
      | _, _ => none
  | "ctorAtomsKw" :: ts => do
      let (nA, t1) ← pNat ts
      let (nC, t2) ← pNat t1
      let (cs, t3) ← pCoordsArg t2
      let (qs, t4) ← pChargesArg t3
      let (ws, t5) ← pWeightsArg t4
      if t5.isEmpty then pure (.ctorAtomsKw nA nC cs qs ws) else none
  | ["loopKeep"] => some .loopKeep
  | "swap" :: ts => do let (k, t1) ← pNat ts; if t1.isEmpty then pure (.swap k) else none
  | "iterNextKeep" :: ts => do let (k, t1) ← pNat ts; if t1.isEmpty then pure (.iterNextKeep k) else none
  | "readKept" :: ts => do let (j, t1) ← pNat ts; if t1.isEmpty then pure (.readKept j) else none
  | "dumpKept" :: ts => do let (j, t1) ← pNat ts; if t1.isEmpty then pure (.dumpKept j) else none
  | "writeKept" :: ts => do let (j, t1) ← pNat ts; let (c, t2) ← pConf t1; if t2.isEmpty then pure (.writeKept j c) else none
  | _ => none

/-! ### printing -/

def showNum : Num → String
  | none => "nan"
  | some r => if r.den = 1 then toString r.num else toString r.num ++ "/" ++ toString r.den

def showVec (xs : List Num) : String := " ".intercalate (("V" ++ toString xs.length) :: xs.map showNum)
def showConf (c : Conf) : String :=
  " ".intercalate (("C" ++ toString c.length) :: (c.map (fun r => " ".intercalate (r.map showNum))))
def showView (w : View) : String := showConf w.coords ++ " " ++ showVec w.charges

def showOut : Out → String
  | .ok => "ok"
  | .err => "err"
  | .view w => "view " ++ showView w
  | .idxs l => "idxs " ++ ",".intercalate (l.map toString)
  | .handle k => "handle " ++ toString k
  | .yielded (some i) => "yield " ++ toString i
  | .yielded none => "stop"
  | .pairs l => "pairs " ++ ",".intercalate (l.map (fun p => toString p.1 ++ ":" ++ toString p.2))
  | .blob vs ws => "blob " ++ toString vs.length ++ " " ++ " ".intercalate (vs.map showView) ++ " " ++ showVec ws

def showShape (e : Ens) : String :=
  ",".intercalate [toString e.nA, toString e.coords.length, toString e.charges.length, toString e.weights.length,
    if e.rect then "1" else "0"]

def showState (e : Ens) : String :=
  "state " ++ toString e.coords.length ++ " " ++ " ".intercalate (e.coords.map showConf) ++ " | " ++
  toString e.charges.length ++ " " ++ " ".intercalate (e.charges.map showVec) ++ " | " ++ showVec e.weights

def handle (payload : String) : String :=
  match (payload.splitOn ";").filter (fun s => words s ≠ []) with
  | [] => "err:bad-request"
  | vs :: opsS =>
    let v? : Option Variant := match words vs with
      | ["shipped"] => some .shipped | ["repaired"] => some .repaired | _ => none
    match v?, opsS.mapM parseOp with
    | some v, some ops =>
      let (w, outs) := ops.foldl (fun (acc : World × List String) o =>
          let (w', out) := step v acc.1 o
          (w', (showOut out ++ "@" ++ showShape w'.ens) :: acc.2)) (initWorld, [])
      ";".intercalate (outs.reverse ++ [showState w.ens ++ " || others " ++ toString w.others.length ++
        String.join (w.others.map (fun e => " || " ++ showState e))])
    | _, _ => "err:bad-request"

end Molli.Driver.C14
