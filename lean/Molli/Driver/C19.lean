/-
Driver entry for property C19 (model: Molli.Model.Grid). One request payload in, one response line out.

Number tokens: in float modes 8 (binary32) or 16 (binary64) hex digits of the IEEE bit pattern; in
exact mode a rational `p/q` or `p`.  A point is `x:y:z`; a list of points is joined by `,` (`-` = empty);
a list of conformers (each a list of points) by `|` (`~` = no conformer).  Lists of numbers by `,`.

  cdist22 <f32|f64|rat> <sq|eu> <A> <B>       → `<L1> <L2> <entries C order, `,`>`
  cdist32 <f32|f64|rat> <sq|eu> <ENS> <B>     → `<X> <L2> <entries C order>`   (row length L1 is that of each conformer)
  grid <lx> <ly> <lz> <rx> <ry> <rz> <pad> <s>→ `<nx> <ny> <nz> <points>`       | err:domain
  nearest <band> <maxd> <atoms> <grid>        → per grid point `<k>:<flag>`; flag=1 iff the decision is within the
                                                relative band of the cut-off or of a tie between two atoms
  prune <band> <maxd> <eps> <atoms> <grid>    → `<exact kept indices>;<class per point>` class ∈ K (must keep), D (must drop),
                                                F (free), lower case when within the band of a class boundary
  aso <band> <w|-> <radii> <ENS> <grid>       → per grid point `<value p/q>:<flag>`
  aeif <band> <w|-> <radii> <CHARGES> <ENS> <grid> → per grid point `<value p/q>:<flag>`   (CHARGES: lists joined by `|`)
  asof32 <w|-> <radii f64> <ENS f32> <grid f32> → per grid point value p/q with the occupancy test evaluated in
                                                binary32/binary64 exactly as the code does (weights as exact rationals of f64)
-/
import Molli.Util.Basic
import Molli.Model.Grid
namespace Molli.Driver.C19
open Molli.Util Molli.Model.Grid

def natOfHex? (s : String) : Option Nat :=
  if s.isEmpty then none else
  s.toList.foldl (fun acc c => match acc, hexVal? c with
    | some a, some v => some (16 * a + v)
    | _, _ => none) (some 0)

def hexOfNat (width : Nat) (n : Nat) : String :=
  String.ofList ((List.range width).reverse.map fun i => hexDigit ((n / 16 ^ i) % 16))

def parseRat? (s : String) : Option Rat :=
  match s.splitOn "/" with
  | [p] => p.toInt?.map fun i => (i : Rat)
  | [p, q] => do
      let p ← p.toInt?
      let q ← q.toNat?
      if q = 0 then none else some (mkRat p q)
  | _ => none

def showRat (r : Rat) : String :=
  if r.den = 1 then toString r.num else toString r.num ++ "/" ++ toString r.den

def parseF32? (s : String) : Option Float32 :=
  if s.length ≠ 8 then none else (natOfHex? s).map fun n => Float32.ofBits (UInt32.ofNat n)
def parseF64? (s : String) : Option Float :=
  if s.length ≠ 16 then none else (natOfHex? s).map fun n => Float.ofBits (UInt64.ofNat n)
def showF32 (f : Float32) : String := hexOfNat 8 f.toBits.toNat
def showF64 (f : Float) : String := hexOfNat 16 f.toBits.toNat

/-- exact rational value of a finite binary64 -/
def ratOfF64 (f : Float) : Rat :=
  let b : Nat := f.toBits.toNat
  let neg : Bool := b / 2 ^ 63 == 1
  let e : Nat := (b / 2 ^ 52) % 2048
  let m : Nat := b % 2 ^ 52
  let mag : Rat :=
    if e = 0 then mkRat (Int.ofNat m) (2 ^ 1074)
    else if e ≥ 1075 then ((Int.ofNat ((2 ^ 52 + m) * 2 ^ (e - 1075)) : Int) : Rat)
    else mkRat (Int.ofNat (2 ^ 52 + m)) (2 ^ (1075 - e))
  if neg then -mag else mag

section parse
variable {α : Type} (num : String → Option α)

def parseList (s : String) (sep : String) {β : Type} (f : String → Option β) : Option (List β) :=
  if s == "-" then some [] else (s.splitOn sep).mapM f

def parsePoint (s : String) : Option (P3 α) :=
  match s.splitOn ":" with
  | [x, y, z] => do pure ⟨← num x, ← num y, ← num z⟩
  | _ => none

def parsePoints (s : String) : Option (List (P3 α)) := parseList s "," (parsePoint num)
def parseEns (s : String) : Option (List (List (P3 α))) :=
  if s == "~" then some [] else (s.splitOn "|").mapM (parsePoints num)
def parseNums (s : String) : Option (List α) := parseList s "," num
end parse

def joinC (l : List String) : String := if l.isEmpty then "-" else ",".intercalate l

def showP (p : P3 Rat) : String := showRat p.x ++ ":" ++ showRat p.y ++ ":" ++ showRat p.z

def abs' (r : Rat) : Rat := if r < 0 then -r else r

/-- `|d − c| ≤ band·c` -/
def near (band d c : Rat) : Bool := decide (abs' (d - c) ≤ band * abs' c)

def runCdist22 {α : Type} (num : String → Option α) (shw : α → String) (f : P3 α → P3 α → α) (a b : String) : String :=
  match parsePoints num a, parsePoints num b with
  | some a, some b =>
    let r := cdist22With f a b
    s!"{r.length} {b.length} " ++ joinC (r.flatten.map shw)
  | _, _ => "err:bad-request"

def runCdist32 {α : Type} (num : String → Option α) (shw : α → String) (f : P3 α → P3 α → α) (a b : String) : String :=
  match parseEns num a, parsePoints num b with
  | some a, some b =>
    let r := cdist32With f a b
    s!"{r.length} {b.length} " ++ joinC ((r.flatten).flatten.map shw)
  | _, _ => "err:bad-request"

def weights? (s : String) : Option (Option (List Rat)) :=
  if s == "-" then some none else (parseNums parseRat? s).map some

/-- flags of the exact decisions of one (conformer, grid point) pair -/
def sphereBand (band : Rat) (conf : List (P3 Rat)) (radii : List Rat) (g : P3 Rat) : Bool :=
  (conf.zip radii).any fun ar => near band (dist2 ar.1 g) (ar.2 * ar.2)

/-- two atoms whose squared distances to `g` are within the band of the minimum (a tie up to rounding) -/
def tieBand (band : Rat) (conf : List (P3 Rat)) (g : P3 Rat) : Bool :=
  match argmin (conf.map fun a => dist2 a g) with
  | none => false
  | some (i, d) =>
    (List.zipIdx (conf.map fun a => dist2 a g)).any fun (e, j) => j ≠ i && decide (e - d ≤ band * (abs' d + abs' e))

def handle (payload : String) : String :=
  match words payload with
  | ["cdist22", "f32", "sq", a, b] => runCdist22 parseF32? showF32 dist2 a b
  | ["cdist22", "f32", "eu", a, b] => runCdist22 parseF32? showF32 distF32 a b
  | ["cdist22", "f64", "sq", a, b] => runCdist22 parseF64? showF64 dist2 a b
  | ["cdist22", "f64", "eu", a, b] => runCdist22 parseF64? showF64 distF64 a b
  | ["cdist22", "rat", "sq", a, b] => runCdist22 parseRat? showRat dist2 a b
  | ["cdist32", "f32", "sq", a, b] => runCdist32 parseF32? showF32 dist2 a b
  | ["cdist32", "f32", "eu", a, b] => runCdist32 parseF32? showF32 distF32 a b
  | ["cdist32", "f64", "sq", a, b] => runCdist32 parseF64? showF64 dist2 a b
  | ["cdist32", "f64", "eu", a, b] => runCdist32 parseF64? showF64 distF64 a b
  | ["cdist32", "rat", "sq", a, b] => runCdist32 parseRat? showRat dist2 a b
  | ["grid", lx, ly, lz, rx, ry, rz, pad, s] =>
    match [lx, ly, lz, rx, ry, rz, pad, s].mapM parseRat? with
    | some [lx, ly, lz, rx, ry, rz, pad, s] =>
      if s ≤ 0 ∨ rx + pad < lx - pad ∨ ry + pad < ly - pad ∨ rz + pad < lz - pad then "err:domain" else
      let g := rectGrid ⟨lx, ly, lz⟩ ⟨rx, ry, rz⟩ pad s
      s!"{axisCount (lx - pad) (rx + pad) s} {axisCount (ly - pad) (ry + pad) s} {axisCount (lz - pad) (rz + pad) s} "
        ++ joinC (g.map showP)
    | _ => "err:bad-request"
  | ["nearest", band, maxd, atoms, grid] =>
    match parseRat? band, parseRat? maxd, parsePoints parseRat? atoms, parsePoints parseRat? grid with
    | some band, some maxd, some atoms, some grid =>
      joinC (grid.map fun g =>
        let k := nearest atoms maxd g
        let cut := match argmin (atoms.map fun a => dist2 a g) with
          | none => false
          | some (_, d) => near band d (maxd * maxd)
        s!"{k}:{if cut || tieBand band atoms g then 1 else 0}")
    | _, _, _, _ => "err:bad-request"
  | ["prune", band, maxd, eps, atoms, grid] =>
    match parseRat? band, parseRat? maxd, parseRat? eps, parsePoints parseRat? atoms, parsePoints parseRat? grid with
    | some band, some maxd, some eps, some atoms, some grid =>
      let cls := grid.map fun g =>
        match argmin (atoms.map fun a => dist2 a g) with
        | none => "D"
        | some (_, d) =>
          let m2 := maxd * maxd
          let inner := m2 / ((1 + eps) * (1 + eps))
          let c := if d ≤ inner then "K" else if d ≤ m2 then "F" else "D"
          if near band d m2 || near band d inner then c.toLower else c
      joinC ((pruneExact atoms maxd grid).map toString) ++ ";" ++ joinC cls
    | _, _, _, _, _ => "err:bad-request"
  | ["aso", band, w, radii, ens, grid] =>
    match parseRat? band, weights? w, parseNums parseRat? radii, parseEns parseRat? ens, parsePoints parseRat? grid with
    | some band, some w, some radii, some ens, some grid =>
      let vals := aso ens radii w grid
      joinC ((vals.zip grid).map fun (v, g) =>
        s!"{showRat v}:{if ens.any (fun c => sphereBand band c radii g) then 1 else 0}")
    | _, _, _, _, _ => "err:bad-request"
  | ["aeif", band, w, radii, charges, ens, grid] =>
    match parseRat? band, weights? w, parseNums parseRat? radii, parseList charges "|" (parseNums parseRat?),
          parseEns parseRat? ens, parsePoints parseRat? grid with
    | some band, some w, some radii, some charges, some ens, some grid =>
      let vals := aeif ens charges radii w grid
      let m := maxOf radii
      joinC ((vals.zip grid).map fun (v, g) =>
        let flag := ens.any fun c =>
          sphereBand band c radii g || (occupied c radii g && tieBand band c g) ||
          (match argmin (c.map fun a => dist2 a g) with
            | none => false
            | some (_, d) => near band d (m * m))
        s!"{showRat v}:{if flag then 1 else 0}")
    | _, _, _, _, _, _ => "err:bad-request"
  | ["asof32", w, radii, ens, grid] =>
    match parseList w "," parseF64?, parseNums parseF64? radii, parseEns parseF32? ens, parsePoints parseF32? grid with
    | some wf, some radii, some ens, some grid =>
      let w : Option (List Rat) := if w == "-" then none else some (wf.map ratOfF64)
      joinC (grid.map fun g => showRat (average w (ens.map fun c => indicator01 (occupiedF32 c radii g))))
    | _, _, _, _ => "err:bad-request"
  | _ => "err:bad-request"

end Molli.Driver.C19
