/-
Driver for the edit-history model (C05).
payload :  init <s|m> <atoms|-> <bonds|-> ; <op> ; <op> …
   atoms  = elem:label:coord:charge,…        (label `-` = None; coord / charge are payload codes)
   bonds  = i-j,…                            (positions)
   op     = add <spec> <coord> <charge|->    | addbad <spec> | new <elem> <label|-> <coord>
          | del <ref> | con <ref> <ref> | bond <spec> <spec> | bonds <spec>+<spec>,… | delb <bid>
          | rmsub <ref> <ref> <label|-> | addh <atomid>:<coord>,…   (`addh -` = no hydrogen added)
   spec   = <atomid>:<elem>:<label|->        atomid = e<n> | o<n>
   ref    = @<atomid> | #<int> | L<label> | E<elem>
response: `<state>` of the initial molecule, then `<out>#<state>` per op, joined by ';'
   state  = A=<atomid>[!],…|R=<coord>,…|T=<tag>,…|Q=<charge|n>,…|U=<tag>,…|B=<bid>:<a1>:<a2>[!],…|inv=<0|1>
            (`!` marks an object whose parent is not the molecule; T/U are the ghost tags)
            after mkview / vread the state is followed by |X=<atoms the view holds> resp. |X=<rows the view reads>
-/
import Molli.Util.Basic
import Molli.Model.MolEdit
namespace Molli.Driver.C05
open Molli.Util Molli.Model.MolEdit

def parseAtomId? (s : String) : Option AtomId :=
  match s.toList with
  | 'e' :: r => (String.ofList r).toNat?.map .ext
  | 'o' :: r => (String.ofList r).toNat?.map .own
  | _ => none

def parseOptNat? (s : String) : Option (Option Nat) :=
  if s == "-" then some none else s.toNat?.map some

def parseSpec? (s : String) : Option AtomSpec :=
  match s.splitOn ":" with
  | [a, e, l] => do
      let a ← parseAtomId? a; let e ← e.toNat?; let l ← parseOptNat? l
      pure { id := a, elem := e, label := l }
  | _ => none

def parseRef? (s : String) : Option Ref :=
  match s.toList with
  | '@' :: r => (parseAtomId? (String.ofList r)).map .obj
  | '#' :: r => (String.ofList r).toInt?.map .idx
  | 'L' :: r => (String.ofList r).toNat?.map .label
  | 'E' :: r => (String.ofList r).toNat?.map .elem
  | _ => none

def parseList? {α} (f : String → Option α) (s : String) : Option (List α) :=
  if s == "-" then some [] else (s.splitOn ",").mapM f

def parseOp (s : String) : Option Op :=
  match words s with
  | ["add", sp, c, q] => do pure (.addAtom (← parseSpec? sp) (← c.toNat?) (← parseOptNat? q))
  | ["addbad", sp] => do pure (.addAtomBad (← parseSpec? sp))
  | ["new", e, l, c] => do pure (.newAtom (← e.toNat?) (← parseOptNat? l) (← c.toNat?))
  | ["del", r] => do pure (.delAtom (← parseRef? r))
  | ["con", r1, r2] => do pure (.connect (← parseRef? r1) (← parseRef? r2))
  | ["bond", x, y] => do pure (.appendBond (← parseSpec? x) (← parseSpec? y))
  | ["bonds", l] => do
      let ps ← parseList? (fun t => match t.splitOn "+" with
        | [x, y] => do pure ((← parseSpec? x), (← parseSpec? y))
        | _ => none) l
      pure (.appendBonds ps)
  | ["delb", b] => do pure (.delBond (← b.toNat?))
  | ["rmsub", r1, r2, l] => do pure (.removeSubstituent (← parseRef? r1) (← parseRef? r2) (← parseOptNat? l))
  | ["addh", l] => do
      let hs ← parseList? (fun t => match t.splitOn ":" with
        | [a, c] => do pure ((← parseAtomId? a), (← c.toNat?))
        | _ => none) l
      pure (.addHydrogens hs)
  | ["rebond", b, x, y] => do pure (.appendBondObj (← b.toNat?) (← parseSpec? x) (← parseSpec? y))
  | ["rebonds", l] => do
      let ps ← parseList? (fun t => match t.splitOn "+" with
        | [b, x, y] => do pure ((← b.toNat?), (← parseSpec? x), (← parseSpec? y))
        | _ => none) l
      pure (.appendBondObjs ps)
  | ["vlocal"] => some .viewLocal
  | ["setq", ps] => do pure (.chargeWrite (← parseList? (·.toNat?) ps))
  | ["mkview", l] => do pure (.mkView (← parseList? parseRef? l))
  | ["vread", l] => do pure (.viewRead (← parseList? parseAtomId? l))
  | ["vwrite", l, ps] => do pure (.viewWrite (← parseList? parseAtomId? l) (← parseList? (·.toNat?) ps))
  | _ => none

def parseInit (s : String) : Option Mol :=
  match words s with
  | ["init", k, atoms, bonds] => do
      let k ← (if k == "s" then some Kind.structure else if k == "m" then some Kind.molecule else none)
      let specs ← parseList? (fun t => match t.splitOn ":" with
        | [e, l, c, q] => do
            pure ({ elem := (← e.toNat?), label := (← parseOptNat? l), coord := (← c.toNat?), charge := (← q.toNat?) } : LoadAtom)
        | _ => none) atoms
      let bs ← parseList? (fun t => match t.splitOn "-" with
        | [i, j] => do pure ((← i.toNat?), (← j.toNat?))
        | _ => none) bonds
      pure (loaded k specs bs)
  | _ => none

def showId : AtomId → String
  | .ext n => s!"e{n}"
  | .own n => s!"o{n}"

def showState (m : Mol) : String :=
  let a := ",".intercalate (m.atoms.map (fun x => showId x.id ++ (if x.parentOk then "" else "!")))
  let r := ",".intercalate (m.rows.map (fun x => toString x.2))
  let t := ",".intercalate (m.rows.map (fun x => showId x.1))
  let q := ",".intercalate (m.charges.map (fun x => match x.2 with | some v => toString v | none => "n"))
  let u := ",".intercalate (m.charges.map (fun x => showId x.1))
  let b := ",".intercalate (m.bonds.map (fun x =>
      s!"{x.id}:{showId x.a1}:{showId x.a2}" ++ (if x.parentOk then "" else "!")))
  s!"A={a}|R={r}|T={t}|Q={q}|U={u}|B={b}|inv={if invB m then 1 else 0}"

def handle (payload : String) : String :=
  match (payload.splitOn ";").filter (fun s => (words s) ≠ []) with
  | [] => "err:bad-request"
  | i :: opsS =>
    match parseInit i, opsS.mapM parseOp with
    | some m0, some ops =>
      let (_, outs) := ops.foldl (fun (acc : Mol × List String) o =>
          let (m', out) := step acc.1 o
          let extra := match o with
            | .mkView refs => "|X=" ++ (match resolveView acc.1 refs with
                | some l => ",".intercalate (l.map showId) | none => "none")
            | .viewRead as => "|X=" ++ (match viewRows acc.1 as with
                | some l => ",".intercalate (l.map toString) | none => "none")
            | _ => ""
          (m', ((if out == .ok then "ok" else "err") ++ "#" ++ showState m' ++ extra) :: acc.2)) (m0, [showState m0])
      ";".intercalate outs.reverse
    | _, _ => "err:bad-request"

end Molli.Driver.C05
