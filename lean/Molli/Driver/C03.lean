/- Driver entry for property C03: same UKV world model as C02 (ops include `cut n`, the crash). -/
import Molli.Driver.C02
namespace Molli.Driver.C03

def handle (payload : String) : String := Molli.Driver.C02.handle payload

end Molli.Driver.C03
