/-
Driver entry for property C18 (model: Molli.Model.Jobmap). One request payload (a whole history) in, one line out.

  hist <r|s> <items> <predest> <plans> <runs>
     items   = keyhex:subs,…       subs = `-` (single job) or the number of sub-jobs   (keys and job names hex-encoded UTF-8)
     predest = key=markerhex,… | -  (entries of the destination before the first run)
     plans   = job=PLAN[+PLAN…],… | -   one PLAN per command of the job;       PLAN = S | F<c> | W<c> | K<signal> | N<n>/<c> | U<n>/<c> | O      (default S)
     runs    = tag:strict[:reset[:damaged]];…  strict = 1 | 0; reset = 1: the destination is replaced by an empty one before the
                                      run; damaged = jobhex+jobhex…: cache outputs made unreadable before the run
  → per run, joined by ` | `:
     `ex=<executed jobs, sorted,> dest=<key=valuehex sorted,> cache=<job=code/payloadhex|- sorted,> att=<job=n,>`
     or `raise` (variant s: the call raises; the state is unchanged)
-/
import Molli.Util.Basic
import Molli.Model.Jobmap
namespace Molli.Driver.C18
open Molli.Util Molli.Model.Jobmap

def splitL (s : String) (sep : String) : List String := if s == "-" then [] else s.splitOn sep

def hexS (s : String) : String := hexTok s.toUTF8.toList

def strOfHex? (s : String) : Option String := do
  let bs ← bytesOfHex? s
  String.fromUTF8? (ByteArray.mk bs.toArray)

def parseItem? (s : String) : Option Item :=
  match s.splitOn ":" with
  | [k, n] => do
    let k ← strOfHex? k
    if n == "-" then some ⟨k, none⟩ else n.toNat?.map fun n => ⟨k, some n⟩
  | _ => none

def parsePlan? (s : String) : Option Plan :=
  if s == "S" then some .ok
  else if s == "O" then some .omit
  else if s.startsWith "F" then (s.drop 1).toString.toNat?.map Plan.fail
  else if s.startsWith "W" then (s.drop 1).toString.toNat?.map Plan.failWrote
  else if s.startsWith "K" then (s.drop 1).toString.toNat?.map Plan.killed
  else if s.startsWith "N" then
    match (s.drop 1).toString.splitOn "/" with
    | [n, c] => do pure (.okFrom (← n.toNat?) (← c.toNat?))
    | _ => none
  else if s.startsWith "U" then
    match (s.drop 1).toString.splitOn "/" with
    | [n, c] => do pure (.okUntil (← n.toNat?) (← c.toNat?))
    | _ => none
  else none

def parseKV? {α : Type} (f : String → Option α) (s : String) : Option (String × α) :=
  match s.splitOn "=" with
  | [k, v] => do pure (← strOfHex? k, ← f v)
  | _ => none

/-- a run, whether the destination is replaced by a new empty one before it, and the jobs whose cache output is
damaged (unreadable = absent) before it -/
def parseRun? (plans : List (String × List Plan)) (s : String) : Option (Run × Bool × List String) :=
  let mk (t st : String) : Run := { tag := t, plan := fun j => ((plans.find? (·.1 == j)).map (·.2)).getD [.ok], strict := st == "1" }
  match s.splitOn ":" with
  | [t, st] => some (mk t st, false, [])
  | [t, st, rs] => some (mk t st, rs == "1", [])
  | [t, st, rs, dm] => do
    let jobs ← (splitL dm "+").mapM strOfHex?
    pure (mk t st, rs == "1", jobs)
  | _ => none

def sortS (l : List String) : List String := l.mergeSort (fun a b => !(b < a))

def showState (src : List Item) (destKeys : List String) (st : St) (ex : List String) : String :=
  let byHex (l : List String) : List (String × String) := ((l.eraseDups).map fun k => (hexS k, k)).mergeSort (fun a b => !(b.1 < a.1))
  let jobs := byHex (src.flatMap jobNames)
  let keys := byHex destKeys
  let d := keys.filterMap fun (h, k) => (st.dest k).map fun v => h ++ "=" ++ hexS v
  let c := jobs.filterMap fun (h, j) => (st.cache j).map fun e =>
    h ++ "=" ++ toString e.code ++ "/" ++ (match e.payload with | some p => hexS p | none => "-")
  let a := jobs.filterMap fun (h, j) => if st.attempts j = 0 then none else some (h ++ "=" ++ toString (st.attempts j))
  s!"ex={",".intercalate (sortS (ex.map hexS))} dest={",".intercalate d} cache={",".intercalate c} att={",".intercalate a}"

def handle (payload : String) : String :=
  match words payload with
  | ["hist", v, items, predest, plans, runs] =>
    match (splitL items ",").mapM parseItem?, (splitL predest ",").mapM (parseKV? strOfHex?),
          (splitL plans ",").mapM (parseKV? fun v => (v.splitOn "+").mapM parsePlan?) with
    | some src, some pre, some plans =>
      match (splitL runs ";").mapM (parseRun? plans) with
      | none => "err:bad-request"
      | some rs =>
        let st0 : St := { emptySt with dest := fun k => (pre.find? (·.1 == k)).map (·.2) }
        let destKeys := pre.map (·.1) ++ src.map (·.key)
        let step := fun (acc0 : St × List String) (rr : Run × Bool × List String) =>
          let r := rr.1
          let st1 : St := if rr.2.1 then { acc0.1 with dest := fun _ => none } else acc0.1
          let st2 : St := { st1 with cache := fun j => if j ∈ rr.2.2 then none else st1.cache j }
          let acc : St × List String := (st2, acc0.2)
          if v == "s" then
            match runShipped src (destKeys.filter fun k => (acc.1.dest k).isSome) r acc.1 with
            | none => (acc.1, acc.2 ++ ["raise"])
            | some (st', ex) => (st', acc.2 ++ [showState src destKeys st' ex])
          else
            let (st', ex) := runRepaired src r acc.1
            (st', acc.2 ++ [showState src destKeys st' ex])
        " | ".intercalate (rs.foldl step (st0, [])).2
    | _, _, _ => "err:bad-request"
  | _ => "err:bad-request"

end Molli.Driver.C18
