/-
Driver entry for property C13 (model: Molli.Model.Cdxml).

  frag <F> <F> ...         fragments in post-order (nested before the node holding them), the LAST one is parsed.
                           F = `<node>;<node>;...|<bond>;<bond>;...`  (an empty list is the empty string)
                           node = 13 comma separated fields id,Element,AtomNumber,Isotope,Charge,Radical,NodeType,
                                  ExternalConnectionNum,GenericNickname,text of ./t/s,NumHydrogens,Attachments,nested
                                  each raw string as `=<hex of utf-8>` or `~` (absent); nested = decimal index or `~`
                           bond = B,E,Order,Display
      → `ok atoms=<z:iso:label:atype:charge:spin:implH;...> bonds=<i-j:btype:p/q;...> charge=<c> mult=<m> ap=<i,...>`
        or `err:syntax`
  resolve <frags> <labels> frags = `id,x,y;...`, labels = `<keyhex>,x,y,<sibling id or ~>;...`, coordinates `p/q`
      → `<keyhex>><id or !>;...`
  orient <eps> <quad> ...  quad = `x,y,z|x,y,z|x,y,z|x,y,z` (centre and three neighbours) → `+`, `-` or `0` per quad
-/
import Molli.Util.Basic
import Molli.Model.Cdxml
namespace Molli.Driver.C13
open Molli.Util Molli.Model.Cdxml

def decodeStr (tok : String) : Option (Option String) :=
  if tok == "~" then some none
  else if tok.startsWith "=" then
    match bytesOfHexChars (tok.drop 1).toString.toList with
    | some bs => (String.fromUTF8? (ByteArray.mk bs.toArray)).map some
    | none => none
  else none

def encodeStr : Option String → String
  | none => "~"
  | some s => "=" ++ hexOfBytes s.toUTF8.toList

def parseRat (s : String) : Option Rat :=
  match s.splitOn "/" with
  | [p] => p.toInt?.map (fun n => (n : Rat))
  | [p, q] =>
    match p.toInt?, q.toNat? with
    | some n, some d => if d == 0 then none else some (mkRat n d)
    | _, _ => none
  | _ => none

def ratStr (r : Rat) : String := s!"{r.num}/{r.den}"

def items (s : String) (sep : String) : List String := if s.isEmpty then [] else s.splitOn sep

def parseNode (s : String) : Option RawNode :=
  match s.splitOn "," with
  | [a, b, c, d, e, f, g, h, i, j, k, l, m] =>
    match decodeStr a, decodeStr b, decodeStr c, decodeStr d, decodeStr e, decodeStr f, decodeStr g,
          decodeStr h, decodeStr i, decodeStr j, decodeStr k, decodeStr l with
    | some a, some b, some c, some d, some e, some f, some g, some h, some i, some j, some k, some l =>
      let nested : Option (Option Nat) := if m == "~" then some none else m.toNat?.map some
      nested.map fun nested =>
        { id := a, element := b, atomNumber := c, isotope := d, charge := e, radical := f, nodeType := g,
          extNum := h, genericNickname := i, unspecText := j, numH := k, attachments := l, nested }
    | _, _, _, _, _, _, _, _, _, _, _, _ => none
  | _ => none

def parseBond (s : String) : Option RawBond :=
  match s.splitOn "," with
  | [a, b, c, d] =>
    match decodeStr a, decodeStr b, decodeStr c, decodeStr d with
    | some a, some b, some c, some d => some { b := a, e := b, order := c, display := d }
    | _, _, _, _ => none
  | _ => none

def parseFrag (s : String) : Option RawFrag :=
  match s.splitOn "|" with
  | [ns, bs] =>
    match (items ns ";").mapM parseNode, (items bs ";").mapM parseBond with
    | some nodes, some bonds => some { nodes, bonds }
    | _, _ => none
  | _ => none

def optInt : Option Int → String
  | none => "~"
  | some i => toString i

def atomStr (a : MAtom) : String :=
  s!"{a.z}:{optInt a.isotope}:{encodeStr a.label}:{a.atype}:{a.charge}:{a.spin}:{optInt a.implicitH}"

def bondStr (b : MBond) : String :=
  s!"{min b.a1 b.a2}-{max b.a1 b.a2}:{b.btype}:{ratStr b.forder}"

def listStr (l : List String) (sep : String) : String := if l.isEmpty then "-" else sep.intercalate l

def molStr (m : Mol) : String :=
  s!"ok atoms={listStr (m.atoms.map atomStr) ";"} bonds={listStr (m.bonds.map bondStr) ";"} charge={m.charge} mult={m.mult} ap={listStr (m.attachmentPoints.map toString) ","}"

def parseP (x y : String) : Option P :=
  match parseRat x, parseRat y with
  | some x, some y => some ⟨x, y⟩
  | _, _ => none

def parseFragPos (s : String) : Option FragPos :=
  match s.splitOn "," with
  | [i, x, y] =>
    match i.toNat?, parseP x y with
    | some i, some p => some ⟨i, p⟩
    | _, _ => none
  | _ => none

def parseLabel (s : String) : Option (String × P × Option Nat) :=
  match s.splitOn "," with
  | [k, x, y, sib] =>
    let sib? : Option (Option Nat) := if sib == "~" then some none else sib.toNat?.map some
    match parseP x y, sib? with
    | some p, some sb => some (k, p, sb)
    | _, _ => none
  | _ => none

def parseV3 (s : String) : Option V3 :=
  match s.splitOn "," with
  | [x, y, z] =>
    match parseRat x, parseRat y, parseRat z with
    | some x, some y, some z => some ⟨x, y, z⟩
    | _, _, _ => none
  | _ => none

def signStr : Sign → String
  | .pos => "+" | .neg => "-" | .zero => "0"

def orientQuad (eps : Rat) (s : String) : Option String :=
  match (s.splitOn "|").mapM parseV3 with
  | some [c, a, b, d] => some (signStr (orient eps c a b d))
  | _ => none

def handle (payload : String) : String :=
  match words payload with
  | "frag" :: fs =>
    match fs.mapM parseFrag with
    | some frags =>
      match parseFragment frags with
      | some m => molStr m
      | none => "err:syntax"
    | none => "err:request"
  | ["resolve", frags, labels] =>
    match (items (if frags == "-" then "" else frags) ";").mapM parseFragPos,
          (items (if labels == "-" then "" else labels) ";").mapM parseLabel with
    | some fr, some ls =>
      listStr (ls.map fun (k, p, sib) =>
        match resolve fr sib p with
        | some i => s!"{k}>{i}"
        | none => s!"{k}>!") ";"
    | _, _ => "err:request"
  | "orient" :: eps :: quads =>
    match parseRat eps, quads.mapM (fun q => (parseRat eps).bind (fun e => orientQuad e q)) with
    | some _, some out => listStr out ","
    | _, _ => "err:request"
  | _ => "err:request"

end Molli.Driver.C13
