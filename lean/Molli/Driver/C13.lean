/- Driver entry for property C13: one request payload in, one canonical response line out. -/
import Molli.Util.Basic
namespace Molli.Driver.C13

def handle (_payload : String) : String := "err:not-implemented"

end Molli.Driver.C13
