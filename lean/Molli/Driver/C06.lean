/-
Driver for the heap model (C06).
payload :  <route> <n> <cls> <i1> <i2> <scalars> <bondFields> <coords> M <mol> [M <mol>]
   route  = copy | concat | join            (copy = copy constructor = pickle round trip = deepcopy)
   n      = the allocation counter (every identity of the sources is below it)
   mol    = <id> <cls> <scalars> <box> <atomsId> <atoms|-> <bondsId> <bonds|-> <arrays|->
   box    = <id>/<ents>      ents = tokens joined by ',' in prefix form:
              s.<key>.<value>          a scalar entry
              c.<key>.<tag>.<id>       opens a nested container … closed by  e
   atoms  = atom+atom+…      atom = <id>;<fields>;<box>;<parent|->
   bonds  = bond+bond+…      bond = <id>;<a1>;<a2>;<fields>;<box>;<parent|->
   arrays = arr+arr+…        arr  = <id>;<data>
   lists of integers are comma separated, `-` = empty
response: obs=<canonical observation of the result>#shared=<number of identities the result shares with
          a source>#below=<0|1>  (all source identities are below n)
   observation = cls|scalars|ents|atoms|bonds|arrays   with atom = fields/ents/p, bond = e1/e2/fields/ents/p
-/
import Molli.Util.Basic
import Molli.Model.Heap
namespace Molli.Driver.C06
open Molli.Util Molli.Model.Heap

def ints? (s : String) : Option (List Int) :=
  if s == "-" || s == "" then some [] else (s.splitOn ",").mapM (·.toInt?)

def optNat? (s : String) : Option (Option Nat) :=
  if s == "-" then some none else s.toNat?.map some

partial def parseEntToks : List String → Option (Ents × List String)
  | [] => some (.nil, [])
  | "e" :: rest => some (.nil, rest)
  | tok :: rest =>
    match tok.splitOn "." with
    | ["s", k, v] => do
        let k ← k.toInt?; let v ← v.toInt?
        let (r, rest') ← parseEntToks rest
        pure (.scalar k v r, rest')
    | ["c", k, t, i] => do
        let k ← k.toInt?; let t ← t.toNat?; let i ← i.toNat?
        let (inner, rest1) ← parseEntToks rest
        let (r, rest2) ← parseEntToks rest1
        pure (.cont k t i inner r, rest2)
    | _ => none

def parseBox? (s : String) : Option Box :=
  match s.splitOn "/" with
  | [i, e] => do
      let i ← i.toNat?
      let toks := if e == "" then [] else e.splitOn ","
      let (ents, rest) ← parseEntToks toks
      if rest.isEmpty then pure { id := i, ents := ents } else none
  | _ => none

def parseAtom? (s : String) : Option AtomO :=
  match s.splitOn ";" with
  | [i, f, b, p] => do
      pure { id := (← i.toNat?), fields := (← ints? f), attrib := (← parseBox? b), parent := (← optNat? p) }
  | _ => none

def parseBond? (s : String) : Option BondO :=
  match s.splitOn ";" with
  | [i, a1, a2, f, b, p] => do
      pure { id := (← i.toNat?), a1 := (← a1.toNat?), a2 := (← a2.toNat?), fields := (← ints? f),
             attrib := (← parseBox? b), parent := (← optNat? p) }
  | _ => none

def parseArr? (s : String) : Option Arr :=
  match s.splitOn ";" with
  | [i, d] => do pure { id := (← i.toNat?), data := (← ints? d) }
  | _ => none

def plusList? {α} (f : String → Option α) (s : String) : Option (List α) :=
  if s == "-" then some [] else (s.splitOn "+").mapM f

def parseMol? : List String → Option MolO
  | [i, c, sc, box, ai, atoms, bi, bonds, arrs] => do
      pure { id := (← i.toNat?), cls := (← c.toNat?), scalars := (← ints? sc), attrib := (← parseBox? box),
             atomsId := (← ai.toNat?), atoms := (← plusList? parseAtom? atoms),
             bondsId := (← bi.toNat?), bonds := (← plusList? parseBond? bonds),
             arrays := (← plusList? parseArr? arrs) }
  | _ => none

def showInts (l : List Int) : String := if l.isEmpty then "-" else ",".intercalate (l.map toString)

def showEntToks : Ents → List String
  | .nil => []
  | .scalar k v r => s!"s.{k}.{v}" :: showEntToks r
  | .cont k t _ inner r => (s!"c.{k}.{t}" :: showEntToks inner) ++ ("e" :: showEntToks r)

def showEnts (e : Ents) : String := ",".intercalate (showEntToks e)

def showObs (o : MolObs) : String :=
  let atoms := "+".intercalate (o.atoms.map (fun a =>
    s!"{showInts a.fields}/{showEnts a.attrib}/{if a.parentOk then 1 else 0}"))
  let bonds := "+".intercalate (o.bonds.map (fun b =>
    s!"{b.e1}/{b.e2}/{showInts b.fields}/{showEnts b.attrib}/{if b.parentOk then 1 else 0}"))
  let arrays := "+".intercalate (o.arrays.map showInts)
  s!"{o.cls}|{showInts o.scalars}|{showEnts o.attrib}|{atoms}|{bonds}|{arrays}"

def splitMols (ws : List String) : List (List String) :=
  (ws.foldl (fun (acc : List (List String)) w =>
    if w == "M" then [] :: acc else
      match acc with
      | [] => []
      | cur :: rest => (cur ++ [w]) :: rest) []).reverse

def optInts? (s : String) : Option (List (Option Int)) :=
  if s == "-" then some [] else (s.splitOn ",").mapM (fun t => if t == "_" then some none else t.toInt?.map some)

/-- slots separated by '+': `_` = not given, `=` = the empty array, else comma separated integers -/
def slots? (s : String) : Option (List (Option (List Int))) :=
  if s == "-" then some [] else (s.splitOn "+").mapM (fun t =>
    if t == "_" then some none else if t == "=" then some (some []) else (ints? t).map some)

def parseEnts? (s : String) : Option Ents :=
  if s == "-" then some .nil else do
    let (ents, rest) ← parseEntToks (s.splitOn ",")
    if rest.isEmpty then pure ents else none

def finish (r : MolO) (mols : List MolO) (n : Nat) : String :=
  let shared := (mols.map (fun s => (sharedIds r s).length)).sum
  let below := mols.all (belowB n)
  s!"obs={showObs (observe r)}#shared={shared}#below={if below then 1 else 0}"

/-- requests:
  copy   <n> <cls> 0 0 - - -                                   M <mol>
  copyas <n> <cls'> <name,charge,mult|_> <attrib ents|-> <array overrides> <fills> -   M <mol>
  concat <n> <cls> 0 0 - - -                                   M <mol> M <mol> …   (any number)
  join   <n> <cls> <i1> <i2> <scalars> <bondFields> <coords>   M <mol> M <mol> -/
def handle (payload : String) : String :=
  match words payload with
  | route :: n :: cls :: a1 :: a2 :: a3 :: a4 :: a5 :: rest =>
    match n.toNat?, cls.toNat?, (splitMols rest).mapM parseMol? with
    | some n, some cls, some mols =>
      match route, mols with
      | "copy", [s] => finish (deepCopy repaired n s) mols n
      | "copyas", [s] =>
        match optInts? a1, parseEnts? a2, slots? a3, slots? a4 with
        | some sc, some oat, some arrs, some fills =>
          let ov : Override := { scalars := sc, attrib := oat, arrays := arrs, fills := fills.map (·.getD []) }
          let r := copyAs repaired n cls ov s
          -- identities of the caller's `attrib=` containers are not the source's: they are not counted as shared
          finish r mols n
        | _, _, _, _ => "err:bad-request"
      | "concat", _ => finish (concatN repaired n cls mols) mols n
      | "join", [s1, s2] =>
        match a1.toNat?, a2.toNat?, ints? a3, ints? a4, ints? a5 with
        | some i1, some i2, some sc, some bf, some co => finish (join repaired n cls s1 s2 i1 i2 sc bf co) mols n
        | _, _, _, _, _ => "err:bad-request"
      | _, _ => "err:bad-route"
    | _, _, _ => "err:bad-request"
  | _ => "err:bad-request"

end Molli.Driver.C06
