/-
C12 — Joining fragments at attachment points builds exactly the intended molecule.

  "join(A, B, apA, apB) returns a new molecule containing every atom and bond of A and B except the
   two attachment points, plus one new bond between their former neighbours; each fragment keeps its
   internal geometry and handedness (it is moved rigidly, never mirrored), the new bond has the
   requested length and points along A's former attachment direction, charge and multiplicity
   combine (qA+qB, mA+mB-1) unless overridden, the result does not depend on hidden state, and A and
   B are left untouched."      … "and iterated joins on multi-attachment cores as done by `molli combine`".

Reading.  Model: `Molli.Model.Join` (+ `Molli.Model.Geom`).  A fragment = atom list (any payload),
bond list (endpoints are indices, any payload), one coordinate row per atom, charge, multiplicity.
All theorems are for fragments of ANY size, any attachment index, over any field.
  * "every atom and bond … except the attachment points, plus one new bond" : `join_atoms_bonds`
    (exact atom list, exact bond list, what each index denotes, counts);
  * "moved rigidly, never mirrored" : `join_rigid` (each fragment by one `Rigid` map — C11's
    `rigid_dist`/`rigid_chirality` then give all distances and signed volumes);
  * "requested length" / "points along A's former attachment direction" : `join_bond_length`,
    `join_bond_direction` (+ `optimize_keeps_bond` for the rotamer scan, any scan angle);
  * "(qA+qB, mA+mB-1) unless overridden" : `join_charge_mult` for the repaired code, override wins
    INCLUDING 0 for the charge; `join_charge_override_counterexample` for the shipped `charge or …` (D24);
  * "does not depend on hidden state" : `join_deterministic` (repaired) /
    `join_hidden_state_counterexample` (shipped: process-global numpy RNG, D25);
  * "A and B are left untouched" : `join_sources_untouched`;
  * `molli combine` : `iterated_join_index` (repaired shift), `iterated_join_index_sorted` (the shipped
    `ap_i - i` is right for ascending indices), `iterated_join_unsorted_counterexample` (D26).
Partial charges of the result are outside this property's check (D13, work package C06).
-/
import Mathlib.Algebra.Field.Rat
import Mathlib.Algebra.Order.Field.Basic
import Molli.Lemmas.JoinGeom
import Molli.Props.C11
namespace Molli.Props.C12
open Molli.Model.Geom Molli.Model.Join Molli.Lemmas.Geom Molli.Lemmas.Join Molli.Lemmas.JoinGeom

set_option linter.unusedVariables false
set_option linter.unusedSectionVars false
set_option linter.unusedSimpArgs false

variable {A B : Type}

/-! ## atoms and bonds -/

/-- well-formed bond table: endpoints are valid, distinct atom indices -/
def BondsOK (n : Nat) (bonds : List (Bond B)) : Prop :=
  ∀ b ∈ bonds, b.a1 < n ∧ b.a2 < n ∧ b.a1 ≠ b.a2

theorem other_ne {b : Bond B} {i : Nat} (hd : b.a1 ≠ b.a2) (ht : b.touches i = true) : b.other i ≠ i := by
  unfold Bond.other
  unfold Bond.touches at ht
  simp only [Bool.or_eq_true, beq_iff_eq] at ht
  by_cases h1 : b.a1 = i
  · simp only [h1, beq_self_eq_true, if_true]; intro h; exact hd (h1.trans h.symm)
  · simp only [beq_iff_eq, h1, if_false]; exact h1

/-- "a new molecule containing every atom and bond of A and B except the two attachment points,
plus one new bond between their former neighbours".  Whenever `join` succeeds
(`i1`, `i2` valid, each with exactly one bond):
1. the atom list is A's atoms without `i1` followed by B's atoms without `i2` (exact list), hence
   `|A| + |B| − 2` atoms;
2. atom `j ≠ i1` of A is atom `reidx i1 j` of the result, atom `j ≠ i2` of B is atom
   `|A| − 1 + reidx i2 j`;
3. the bond list is A's bonds not containing `i1`, then B's not containing `i2` (endpoints
   re-mapped, payload and orientation kept), then exactly one new bond (exact list), hence
   `|bonds A| + |bonds B| − 1` bonds;
4. the new bond joins the former neighbours `n1`, `n2` of the attachment points;
5. every kept bond connects the same two atoms as before. -/
theorem join_atoms_bonds (v : Variant) (atomsA : List A) (bondsA : List (Bond B)) (qA mA : Int)
    (atomsB : List A) (bondsB : List (Bond B)) (qB mB : Int) (i1 i2 : Nat) (nb : B)
    (charge? mult? : Option Int) (t : Topo A B)
    (hwfA : BondsOK atomsA.length bondsA) (hwfB : BondsOK atomsB.length bondsB)
    (h : joinTopo v atomsA bondsA qA mA atomsB bondsB qB mB i1 i2 nb charge? mult? = some t) :
    t.atoms = atomsA.eraseIdx i1 ++ atomsB.eraseIdx i2 ∧
    t.atoms.length = atomsA.length + atomsB.length - 2 ∧
    (∀ j, j < atomsA.length → j ≠ i1 → t.atoms[reidx i1 j]? = atomsA[j]?) ∧
    (∀ j, j ≠ i2 → t.atoms[atomsA.length - 1 + reidx i2 j]? = atomsB[j]?) ∧
    (∃ n1 n2, neighbour? bondsA i1 = some n1 ∧ neighbour? bondsB i2 = some n2 ∧
      t.bonds = keptBonds bondsA i1 0 ++ keptBonds bondsB i2 (atomsA.length - 1) ++
        [⟨reidx i1 n1, atomsA.length - 1 + reidx i2 n2, nb⟩] ∧
      t.atoms[reidx i1 n1]? = atomsA[n1]? ∧
      t.atoms[atomsA.length - 1 + reidx i2 n2]? = atomsB[n2]? ∧
      t.r1 = reidx i1 n1 ∧ t.r2 = atomsA.length - 1 + reidx i2 n2) ∧
    t.bonds.length = bondsA.length + bondsB.length - 1 ∧
    (∀ b ∈ bondsA, b.touches i1 = false → ∃ b' ∈ t.bonds, b'.data = b.data ∧
      t.atoms[b'.a1]? = atomsA[b.a1]? ∧ t.atoms[b'.a2]? = atomsA[b.a2]?) ∧
    (∀ b ∈ bondsB, b.touches i2 = false → ∃ b' ∈ t.bonds, b'.data = b.data ∧
      t.atoms[b'.a1]? = atomsB[b.a1]? ∧ t.atoms[b'.a2]? = atomsB[b.a2]?) := by
  obtain ⟨h1, h2, hb1, hb2, n1, n2, hn1, hn2, hat, hbo, _, _, hr1, hr2⟩ := joinTopo_some h
  have hL : ∀ j, j < atomsA.length → j ≠ i1 → t.atoms[reidx i1 j]? = atomsA[j]? := by
    intro j hj hne; rw [hat]; exact atoms_left h1 j hj hne
  have hR : ∀ j, j ≠ i2 → t.atoms[atomsA.length - 1 + reidx i2 j]? = atomsB[j]? := by
    intro j hne; rw [hat]; exact atoms_right h1 j hne
  obtain ⟨bA, hbA, htA, hoA⟩ := neighbour_spec hn1
  obtain ⟨bB, hbB, htB, hoB⟩ := neighbour_spec hn2
  have hn1ne : n1 ≠ i1 := hoA ▸ other_ne (hwfA bA hbA).2.2 htA
  have hn2ne : n2 ≠ i2 := hoB ▸ other_ne (hwfB bB hbB).2.2 htB
  have hn1lt : n1 < atomsA.length := by
    rw [← hoA]; unfold Bond.other; split
    · exact (hwfA bA hbA).2.1
    · exact (hwfA bA hbA).1
  refine ⟨hat, ?_, hL, hR, ⟨n1, n2, hn1, hn2, hbo, hL n1 hn1lt hn1ne, hR n2 hn2ne, hr1, hr2⟩, ?_, ?_, ?_⟩
  · rw [hat, List.length_append, List.length_eraseIdx, List.length_eraseIdx]
    simp only [h1, h2, if_true]; omega
  · rw [hbo]
    simp only [List.length_append, List.length_cons, List.length_nil, keptBonds_length, hb1, hb2]
    have : 1 ≤ bondsA.length := by
      have := List.length_pos_of_mem hbA; omega
    have : 1 ≤ bondsB.length := by
      have := List.length_pos_of_mem hbB; omega
    omega
  · intro b hb hk
    refine ⟨⟨0 + reidx i1 b.a1, 0 + reidx i1 b.a2, b.data⟩, ?_, rfl, ?_, ?_⟩
    · rw [hbo]; simp only [List.mem_append]; left; left; exact mem_keptBonds hb hk
    · simp only [Nat.zero_add]; exact hL b.a1 (hwfA b hb).1 (not_touches hk).1
    · simp only [Nat.zero_add]; exact hL b.a2 (hwfA b hb).2.1 (not_touches hk).2
  · intro b hb hk
    refine ⟨⟨atomsA.length - 1 + reidx i2 b.a1, atomsA.length - 1 + reidx i2 b.a2, b.data⟩, ?_, rfl, ?_, ?_⟩
    · rw [hbo]; simp only [List.mem_append]; left; right; exact mem_keptBonds hb hk
    · exact hR b.a1 (not_touches hk).1
    · exact hR b.a2 (not_touches hk).2

/-- nothing else: every bond of the result is a kept bond of A, a kept bond of B, or the new bond
(no bond mentions a removed attachment point) -/
theorem join_no_extra_bonds (v : Variant) (atomsA : List A) (bondsA : List (Bond B)) (qA mA : Int)
    (atomsB : List A) (bondsB : List (Bond B)) (qB mB : Int) (i1 i2 : Nat) (nb : B)
    (charge? mult? : Option Int) (t : Topo A B)
    (h : joinTopo v atomsA bondsA qA mA atomsB bondsB qB mB i1 i2 nb charge? mult? = some t)
    (b' : Bond B) (hb' : b' ∈ t.bonds) :
    (∃ b ∈ bondsA, b.touches i1 = false ∧ b' = ⟨0 + reidx i1 b.a1, 0 + reidx i1 b.a2, b.data⟩) ∨
    (∃ b ∈ bondsB, b.touches i2 = false ∧
      b' = ⟨atomsA.length - 1 + reidx i2 b.a1, atomsA.length - 1 + reidx i2 b.a2, b.data⟩) ∨
    (b' = ⟨t.r1, t.r2, nb⟩) := by
  obtain ⟨_, _, _, _, n1, n2, _, _, _, hbo, _, _, hr1, hr2⟩ := joinTopo_some h
  rw [hbo] at hb'
  simp only [List.mem_append, List.mem_singleton] at hb'
  rcases hb' with (hA | hB) | hN
  · left; exact of_mem_keptBonds hA
  · right; left; exact of_mem_keptBonds hB
  · right; right; rw [hN, hr1, hr2]

/-! ## charge and multiplicity -/

/-- "charge and multiplicity combine (qA+qB, mA+mB-1) unless overridden" — the repaired code: an
explicit override wins, INCLUDING charge 0; no override gives the sum / `mA+mB−1`.
(The constructor stores `mult or 1`, so a multiplicity of 0 — not a multiplicity — reads back as 1.) -/
theorem join_charge_mult (atomsA : List A) (bondsA : List (Bond B)) (qA mA : Int)
    (atomsB : List A) (bondsB : List (Bond B)) (qB mB : Int) (i1 i2 : Nat) (nb : B)
    (charge? mult? : Option Int) (t : Topo A B)
    (h : joinTopo .repaired atomsA bondsA qA mA atomsB bondsB qB mB i1 i2 nb charge? mult? = some t) :
    t.charge = charge?.getD (qA + qB) ∧
    (∀ m, mult? = some m → m ≠ 0 → t.mult = m) ∧
    (mult? = none → mA + mB - 1 ≠ 0 → t.mult = mA + mB - 1) := by
  obtain ⟨_, _, _, _, _, _, _, _, _, _, hq, hm, _, _⟩ := joinTopo_some h
  refine ⟨?_, ?_, ?_⟩
  · rw [hq]; cases charge? <;> rfl
  · intro m hm' hne; rw [hm, hm']; simp only [pick, ctorMult, hne, if_false]
  · intro hm' hne; rw [hm, hm']; simp only [pick, ctorMult, hne, if_false]

/-- the statement "an explicit charge override wins" for a variant of the code -/
def charge_override_wins_statement (v : Variant) : Prop :=
  ∀ (q qA qB : Int), pick v (some q) (qA + qB) = q

/-- D24: the shipped `charge = charge or q1 + q2` ignores an override of 0 on charged fragments
(`join(A⁺, B, …, charge=0)` stays at +1). -/
theorem join_charge_override_counterexample : ¬ charge_override_wins_statement .asShipped := by
  intro h; have := h 0 1 0; revert this; decide

theorem join_charge_override_repaired : charge_override_wins_statement .repaired := by
  intro q qA qB; rfl

/-- what the shipped code does guarantee: non-zero overrides win, no override gives the sum -/
theorem join_charge_shipped_partial (q qA qB : Int) (hq : q ≠ 0) :
    pick .asShipped (some q) (qA + qB) = q ∧ pick .asShipped none (qA + qB) = qA + qB := by
  simp only [pick, hq, if_false, and_self]

/-! ## geometry -/

section Geometry
variable {α : Type} [Field α] [LE α] [DecidableLE α]

/-- The side conditions on the rotation hold for the repaired code under exactly the hypotheses of
C11's `rotVecFull_spec` (with `a = v̂2`, `b = −v̂1`). -/
theorem joinGeomOK_repaired (v1n v2n rv : V3 α) (tol n : α)
    (h1 : v1n.dot v1n = 1) (h2 : v2n.dot v2n = 1)
    (hgen : ¬ v2n.dot v1n.neg ≤ -1 + tol → 1 + v2n.dot v1n.neg ≠ 0) (hn0 : n ≠ 0)
    (hn : n * n = (gramSchmidt (basis (argminAbs v1n.neg)) v1n.neg).dot
      (gramSchmidt (basis (argminAbs v1n.neg)) v1n.neg))
    (hao : 1 + v2n.dot (orthoTo v1n.neg n) ≠ 0) :
    JoinGeomOK .repaired v1n v2n tol n rv := by
  have hb := neg_unit v1n h1
  by_cases hbr : v2n.dot v1n.neg ≤ -1 + tol
  · have hgs := helper_unit_perp (basis (argminAbs v1n.neg)) v1n.neg n hb hn hn0
    have := rotVecVia_spec v2n (orthoTo v1n.neg n) v1n.neg h2 hgs.1 hb hgs.2 hao
    refine ⟨h1, h2, ?_, ?_⟩ <;> unfold rotVecFull <;> rw [if_pos hbr]
    · exact this.1
    · exact this.2
  · refine ⟨h1, h2, ?_, ?_⟩ <;> unfold rotVecFull <;> rw [if_neg hbr]
    · exact rotVec_isRot v2n v1n.neg h2 hb (hgen hbr)
    · exact rotVec_maps v2n v1n.neg h2 hb (hgen hbr)

/-- Over an ordered field (ℚ, ℝ) nothing but the defining equations is needed: for unit attachment
directions, `0 ≤ tol < 1` (the code uses 1e-6) and `n` the norm of the deterministic helper, the
repaired join's rotation satisfies `JoinGeomOK` — for attachment vectors in general position,
exactly parallel and exactly antiparallel alike.  Hence `join_rigid`, `join_bond_length`,
`join_bond_direction`, `join_fragment_faces` hold for EVERY pair of poses. -/
theorem joinGeomOK_repaired_ordered {β : Type} [Field β] [LinearOrder β] [IsStrictOrderedRing β]
    (v1n v2n rv : V3 β) (tol n : β) (h1 : v1n.dot v1n = 1) (h2 : v2n.dot v2n = 1)
    (ht0 : 0 ≤ tol) (ht1 : tol < 1)
    (hn : n * n = 1 - v1n.neg.get (argminAbs v1n.neg) * v1n.neg.get (argminAbs v1n.neg)) :
    JoinGeomOK .repaired v1n v2n tol n rv := by
  obtain ⟨hr, hm⟩ := Molli.Props.C11.rotVecFull_spec_ordered v2n v1n.neg rv tol n h2 (neg_unit v1n h1) ht0 ht1 hn
  exact ⟨h1, h2, hr, hm⟩

/-- "each fragment keeps its internal geometry and handedness (it is moved rigidly, never
mirrored)": the result's coordinates are A's remaining rows under ONE rigid motion followed by
B's remaining rows under ONE rigid motion — so (C11 `rigid_dist`, `rigid_chirality`) every
distance and every signed volume inside a fragment is unchanged.  Holds with and without the
rotamer scan, for every scan angle. -/
theorem join_rigid (v : Variant) (ca cb : List (V3 α)) (i1 i2 : Nat) (r1 r2 v1n v2n : V3 α)
    (d tol n : α) (rv : V3 α) (opt : Option (α × α)) (hok : JoinGeomOK v v1n v2n tol n rv)
    (hopt : ∀ sc, opt = some sc → sc.1 * sc.1 + sc.2 * sc.2 = 1) :
    ∃ fA fB : V3 α → V3 α, Rigid fA ∧ Rigid fB ∧
      joinCoords v ca cb i1 i2 r1 r2 v1n v2n d tol n rv opt =
        (ca.eraseIdx i1).map fA ++ (cb.eraseIdx i2).map fB ∧
      (∀ p q, dist2 (fA p) (fA q) = dist2 p q) ∧ (∀ p q, dist2 (fB p) (fB q) = dist2 p q) ∧
      (∀ p q r o, triple (fA p) (fA q) (fA r) (fA o) = triple p q r o) ∧
      (∀ p q r o, triple (fB p) (fB q) (fB r) (fB o) = triple p q r o) := by
  have hA : Rigid (fun p : V3 α => p.sub r1) := Rigid.sub r1
  have hB := moveB_rigid v r2 v1n v2n d tol n rv opt hok hopt
  exact ⟨_, _, hA, hB, rfl, hA.dist, hB.dist, hA.triple, hB.triple⟩

/-- The two ends of the new bond: A's former neighbour (index `n1`, coordinates `r1`) is at the
origin, B's former neighbour (index `n2`, coordinates `r2`) at `d·v̂1` — with or without the scan. -/
theorem join_new_bond_ends (v : Variant) (ca cb : List (V3 α)) (i1 i2 n1 n2 : Nat)
    (r1 r2 v1n v2n : V3 α) (d tol n : α) (rv : V3 α) (opt : Option (α × α))
    (h1 : i1 < ca.length) (hn1 : n1 ≠ i1) (hn2 : n2 ≠ i2)
    (hr1 : ca[n1]? = some r1) (hr2 : cb[n2]? = some r2) (hu : v1n.dot v1n = 1) :
    (joinCoords v ca cb i1 i2 r1 r2 v1n v2n d tol n rv opt)[reidx i1 n1]? = some V3.zero ∧
    (joinCoords v ca cb i1 i2 r1 r2 v1n v2n d tol n rv opt)[ca.length - 1 + reidx i2 n2]? =
      some (v1n.smul d) := by
  have hn1lt : n1 < ca.length := by
    rcases Nat.lt_or_ge n1 ca.length with h | h
    · exact h
    · rw [List.getElem?_eq_none_iff.mpr h] at hr1; simp at hr1
  constructor
  · rw [joinCoords_left v ca cb i1 i2 r1 r2 v1n v2n d tol n rv opt h1 n1 hn1lt hn1, hr1]
    simp only [Option.map_some, sub_self_zero]
  · rw [joinCoords_right v ca cb i1 i2 r1 r2 v1n v2n d tol n rv opt h1 n2 hn2, hr2]
    simp only [Option.map_some, moveB_anchor v r2 v1n v2n d tol n rv opt hu]

/-- "the new bond has the requested length": the squared distance between the two bonded atoms of
the result is `d²`. -/
theorem join_bond_length (v : Variant) (ca cb : List (V3 α)) (i1 i2 n1 n2 : Nat)
    (r1 r2 v1n v2n : V3 α) (d tol n : α) (rv : V3 α) (opt : Option (α × α))
    (h1 : i1 < ca.length) (hn1 : n1 ≠ i1) (hn2 : n2 ≠ i2)
    (hr1 : ca[n1]? = some r1) (hr2 : cb[n2]? = some r2) (hu : v1n.dot v1n = 1) :
    ∃ p q, (joinCoords v ca cb i1 i2 r1 r2 v1n v2n d tol n rv opt)[reidx i1 n1]? = some p ∧
      (joinCoords v ca cb i1 i2 r1 r2 v1n v2n d tol n rv opt)[ca.length - 1 + reidx i2 n2]? = some q ∧
      dist2 q p = d * d := by
  obtain ⟨hp, hq⟩ := join_new_bond_ends v ca cb i1 i2 n1 n2 r1 r2 v1n v2n d tol n rv opt h1 hn1 hn2 hr1 hr2 hu
  refine ⟨_, _, hp, hq, ?_⟩
  obtain ⟨x, y, z⟩ := v1n
  simp only [V3.dot] at hu
  simp only [dist2, V3.sub, V3.smul, V3.zero, V3.dot]
  linear_combination (d * d) * hu

/-- "… and points along A's former attachment direction": the new bond vector (from A's atom to B's)
is `d·v̂1`, i.e. `(d / l1)` times A's former attachment vector `ap − r1` (`l1` its length). -/
theorem join_bond_direction (v : Variant) (ca cb : List (V3 α)) (i1 i2 n1 n2 : Nat)
    (r1 r2 v1n v2n ap1 : V3 α) (d l1 tol n : α) (rv : V3 α) (opt : Option (α × α))
    (h1 : i1 < ca.length) (hn1 : n1 ≠ i1) (hn2 : n2 ≠ i2)
    (hr1 : ca[n1]? = some r1) (hr2 : cb[n2]? = some r2) (hu : v1n.dot v1n = 1)
    (hap : ca[i1]? = some ap1) (hl1 : ap1.sub r1 = v1n.smul l1) (hl0 : l1 ≠ 0) :
    ∃ p q, (joinCoords v ca cb i1 i2 r1 r2 v1n v2n d tol n rv opt)[reidx i1 n1]? = some p ∧
      (joinCoords v ca cb i1 i2 r1 r2 v1n v2n d tol n rv opt)[ca.length - 1 + reidx i2 n2]? = some q ∧
      q.sub p = v1n.smul d ∧ q.sub p = (ap1.sub r1).smul (d / l1) := by
  obtain ⟨hp, hq⟩ := join_new_bond_ends v ca cb i1 i2 n1 n2 r1 r2 v1n v2n d tol n rv opt h1 hn1 hn2 hr1 hr2 hu
  refine ⟨_, _, hp, hq, ?_, ?_⟩
  · apply V3.eq_of <;> simp only [V3.sub, V3.smul, V3.zero] <;> ring
  · rw [hl1]
    apply V3.eq_of <;> simp only [V3.sub, V3.smul, V3.zero] <;> field_simp <;> ring

/-- "same sense": for a positive requested length the factor `d / l1` is positive. -/
theorem join_bond_same_sense {β : Type} [Field β] [LinearOrder β] [IsStrictOrderedRing β]
    (d l1 : β) (hd : 0 < d) (hl : 0 < l1) : 0 < d / l1 := div_pos hd hl

/-- B is turned to face A: B's own attachment point (at `r2 + l2·v̂2`) would land on the line
through the new bond, at `(d − l2)·v̂1` — B's attachment direction is mapped onto MINUS A's. -/
theorem join_fragment_faces (v : Variant) (r2 v1n v2n : V3 α) (d l2 tol n : α) (rv : V3 α)
    (opt : Option (α × α)) (hok : JoinGeomOK v v1n v2n tol n rv) :
    moveB v r2 v1n v2n d tol n rv opt (r2.add (v2n.smul l2)) = v1n.smul (d - l2) :=
  moveB_attachment v r2 v1n v2n d l2 tol n rv opt hok

/-- "optimize_rotation": the rotamer scan turns the second fragment about an axis through BOTH atoms
of the new bond — A's part and both bond ends are where they are without the scan, every other atom of
B is its unscanned position turned by `rotation_matrix_from_axis(v1, angle)` (any angle). -/
theorem optimize_keeps_bond (v : Variant) (ca cb : List (V3 α)) (i1 i2 : Nat)
    (r1 r2 v1n v2n : V3 α) (d tol n s c : α) (rv : V3 α) (hu : v1n.dot v1n = 1) :
    joinCoords v ca cb i1 i2 r1 r2 v1n v2n d tol n rv (some (s, c)) =
      (ca.eraseIdx i1).map (fun p => p.sub r1) ++
      ((cb.eraseIdx i2).map (moveB v r2 v1n v2n d tol n rv none)).map (fun q => q.mulM (rotAxis v1n s c)) ∧
    (V3.zero : V3 α).mulM (rotAxis v1n s c) = V3.zero ∧
    (v1n.smul d).mulM (rotAxis v1n s c) = v1n.smul d := by
  refine ⟨?_, zero_mulM _, ?_⟩
  · unfold joinCoords
    rw [List.map_map]
    rfl
  · rw [mulM_smul, rotAxis_fixes_row v1n s c hu]

/-- "the result does not depend on hidden state": the repaired `join` is a function of its
arguments — whatever the process-global random stream would have produced is ignored. -/
theorem join_deterministic (ca cb : List (V3 α)) (i1 i2 : Nat) (r1 r2 v1n v2n : V3 α)
    (d tol n : α) (rv rv' : V3 α) (opt : Option (α × α)) :
    joinCoords .repaired ca cb i1 i2 r1 r2 v1n v2n d tol n rv opt =
    joinCoords .repaired ca cb i1 i2 r1 r2 v1n v2n d tol n rv' opt := rfl

end Geometry

/-- D25: the shipped `join` on (anti)parallel attachment vectors depends on the random helper:
`v̂1 = v̂2 = ẑ`, B = {neighbour at 0, an atom at x̂, attachment point}: the atom lands at different
places when the helper is drawn as x̂ or as ŷ. -/
theorem join_hidden_state_counterexample :
    joinCoords .asShipped [(⟨0, 0, 0⟩ : V3 Int), ⟨0, 0, 1⟩] [⟨0, 0, 0⟩, ⟨1, 0, 0⟩, ⟨0, 0, 1⟩] 1 2
      ⟨0, 0, 0⟩ ⟨0, 0, 0⟩ ⟨0, 0, 1⟩ ⟨0, 0, 1⟩ 2 0 1 ⟨1, 0, 0⟩ none ≠
    joinCoords .asShipped [(⟨0, 0, 0⟩ : V3 Int), ⟨0, 0, 1⟩] [⟨0, 0, 0⟩, ⟨1, 0, 0⟩, ⟨0, 0, 1⟩] 1 2
      ⟨0, 0, 0⟩ ⟨0, 0, 0⟩ ⟨0, 0, 1⟩ ⟨0, 0, 1⟩ 2 0 1 ⟨0, 1, 0⟩ none := by decide

/-! ## the sources -/

/-- "A and B are left untouched".  In the model `join` is a pure function, so this is true by
construction; it is stated in state-passing form (a world holding both fragments, the join step
returns the new world and the product) to make the claim explicit: the world after the call is
the world before it.  That the real code shares no mutable state with its inputs is what the
harness checks (snapshots of A and B before/after, object identities of the product's atoms). -/
def joinStep (w : (List A × List (Bond B)) × (List A × List (Bond B))) (i1 i2 : Nat) (nb : B) :
    ((List A × List (Bond B)) × (List A × List (Bond B))) × Option (Topo A B) :=
  (w, joinTopo .repaired w.1.1 w.1.2 0 1 w.2.1 w.2.2 0 1 i1 i2 nb none none)

theorem join_sources_untouched (w : (List A × List (Bond B)) × (List A × List (Bond B)))
    (i1 i2 : Nat) (nb : B) : (joinStep w i1 i2 nb).1 = w := rfl

/-! ## iterated joins (`molli combine`) -/

/-- the statement "step `i` of the loop consumes the core's `i`-th attachment point" for a variant
of the index shift -/
def iterated_join_index_statement (v : Variant) : Prop :=
  ∀ (core : List Nat) (aps : List Nat) (exts : List (List Nat)),
    aps.Nodup → (∀ a ∈ aps, a < core.length) → exts.length = aps.length →
    (combineAtoms v aps 0 core exts).1 = aps.map (fun a => core[a]?)

/-- "iterated joins on multi-attachment cores as done by `molli combine`" — repaired shift
(`ap_i` minus the number of already consumed attachment points that preceded it): for ANY order of
pairwise distinct attachment indices, any core and any substituent sizes, the atom consumed at
step `i` is the core's atom `aps[i]`. -/
theorem iterated_join_index (core : List A) (aps : List Nat) (exts : List (List A))
    (hnd : aps.Nodup) (hlt : ∀ a ∈ aps, a < core.length) (hlen : exts.length = aps.length) :
    (combineAtoms .repaired aps 0 core exts).1 = aps.map (fun a => core[a]?) :=
  combine_repaired_spec aps.length aps core exts rfl hnd hlt hlen

/-- The shipped `ap_i - i` is right when the attachment indices are strictly ascending (the case
of `core.attachment_points`, which are listed in atom order). -/
theorem iterated_join_index_sorted (core : List A) (aps : List Nat) (exts : List (List A))
    (hs : aps.Pairwise (· < ·)) (hlt : ∀ a ∈ aps, a < core.length) (hlen : exts.length = aps.length) :
    (combineAtoms .asShipped aps 0 core exts).1 = aps.map (fun a => core[a]?) := by
  rw [combine_congr .asShipped .repaired aps aps 0 0 (fun j => address_shipped_sorted aps hs (0 + j))]
  exact iterated_join_index core aps exts (hs.imp (fun h => Nat.ne_of_lt h)) hlt hlen

/-- D26: with attachment indices that are not ascending (labels given with `-a`), the shipped
`ap_i - i` addresses the wrong atom: core `[0,1,2]`, attachment points `[2, 1]` — step 1 consumes
atom 0 instead of atom 1. -/
theorem iterated_join_unsorted_counterexample : ¬ iterated_join_index_statement .asShipped := by
  intro h
  have := h [0, 1, 2] [2, 1] [[10], [11]] (by decide) (by decide) (by decide)
  revert this
  decide

theorem iterated_join_index_repaired_statement : iterated_join_index_statement .repaired :=
  fun core aps exts => iterated_join_index core aps exts

/-- The atom lists inside `_ml_assemble` are the ones `combineAtoms` tracks: a successful assembly
ends with exactly the atom list of the atom-level loop (each join keeps A's remaining atoms, then
the substituent's remaining atoms). -/
theorem assemble_atoms (v jv : Variant) (aps : List Nat) (nb : B) (i : Nat) (cur t : Topo A B)
    (subs : List (Sub A B)) (h : assemble v jv aps nb i cur subs = some t) :
    t.atoms = (combineAtoms v aps i cur.atoms (subs.map (fun s => s.atoms.eraseIdx s.ap))).2 := by
  induction subs generalizing i cur with
  | nil =>
    simp only [assemble, Option.some.injEq] at h
    simp only [List.map_nil, combineAtoms, h]
  | cons s subs ih =>
    simp only [assemble] at h
    simp only [List.map_cons, combineAtoms]
    cases hk : (address v aps i).bind (pyIndex cur.atoms.length) with
    | none => rw [hk] at h; simp at h
    | some k =>
      rw [hk] at h
      simp only at h ⊢
      cases hj : joinTopo jv cur.atoms cur.bonds cur.charge cur.mult s.atoms s.bonds s.charge s.mult k s.ap nb none none with
      | none => rw [hj] at h; simp at h
      | some t' =>
        rw [hj] at h
        simp only at h
        obtain ⟨_, _, _, _, _, _, _, _, hat, _⟩ := joinTopo_some hj
        rw [← hat]
        exact ih (i + 1) t' h

/-! ## non-vacuity -/

/-- a join that succeeds: A = a0–a1–ap (ap at index 1 of the atom list), B = ap–b1–b2, charged -/
example : (joinTopo .repaired ["a0", "apA", "a1"] [⟨0, 2, "s"⟩, ⟨2, 1, "s"⟩] 1 2
    ["apB", "b1", "b2"] [⟨1, 0, "s"⟩, ⟨1, 2, "d"⟩] (-1) 1 1 0 "new" (some 0) none).map
    (fun t => (t.atoms, t.bonds, t.charge, t.mult)) =
    some (["a0", "a1", "b1", "b2"], [⟨0, 1, "s"⟩, ⟨2, 3, "d"⟩, ⟨1, 2, "new"⟩], 0, 2) := by decide

/-- the hypotheses of the geometry theorems are satisfiable in general position over ℚ
(`v̂1 = (3,4,0)/5`, `v̂2 = (1,2,2)/3`, general branch) -/
example : JoinGeomOK .repaired (⟨3/5, 4/5, 0⟩ : V3 ℚ) ⟨1/3, 2/3, 2/3⟩ (1/1000000) 1 ⟨0, 0, 0⟩ := by
  refine ⟨by decide +kernel, by decide +kernel, ?_, by decide +kernel⟩
  unfold M3.IsRot M3.IsOrth
  decide +kernel

/-- … and in the exactly parallel case `v̂2 = v̂1` (antiparallel branch of the rotation, helper norm 1) -/
example : JoinGeomOK .repaired (⟨0, 3/5, 4/5⟩ : V3 ℚ) ⟨0, 3/5, 4/5⟩ (1/1000000) 1 ⟨0, 0, 0⟩ := by
  refine ⟨by decide +kernel, by decide +kernel, ?_, by decide +kernel⟩
  unfold M3.IsRot M3.IsOrth
  decide +kernel

/-- unsorted attachment indices handled by the repaired shift -/
example : (combineAtoms .repaired [2, 0, 3] 0 ["c0", "c1", "c2", "c3"] [["x"], ["y", "z"], []]).1 =
    [some "c2", some "c0", some "c3"] := by decide

end Molli.Props.C12
