/-
C08 — xyz round trip and unit handling: coordinates mean what the file says.

  "Writing any geometry or ensemble as xyz and reading it back preserves atom count, order, elements and
   coordinates to the written precision, frame by frame for ensembles. Reading a file whose coordinates
   are declared in another unit (Bohr, pm, nm, fm) yields coordinates in Angstrom, i.e. the physical
   distances are unchanged."

Round trip (`xyz_read_write`, `xyz_frames`, `xyz_read_write_preserves`): about the writer / strict reader
models of `Molli.Model.Xyz`, for every list of frames whose elements are inside the enum and whose comment
is one line — unbounded in frames and atoms (0 atoms included).  Numbers as in C07 (`Num`, `fmtFixed`,
`parseFloat`; assumption A-dec).

Units: `Molli.Gen.Units.units` is `DistanceUnit.__members__` (aliases included) read from the live
module; its generated obligation `units_ok` says that every member is a known unit whose table value is
the number of such units in one Ångström (to 1e-4 of the CODATA value) and is non-zero.  The reader
model converts with `toAngstrom u x = x / factor u`; the theorems below are parametric in the table and
only use `unitsOk`.
-/
import Mathlib.Tactic.Ring
import Mathlib.Tactic.FieldSimp
import Molli.Model.Xyz
import Molli.Gen.Units
import Molli.Gen.Mol2Types
import Molli.Lemmas.Mol2Types
import Molli.Lemmas.XyzReader
namespace Molli.Props.C08
open Molli.Model.Text Molli.Model.Xyz Molli.Model.Mol2Types Molli.Lemmas.XyzReader Molli.Lemmas.Num
open Molli.Gen.Mol2Types (table)

theorem factor_ne_zero_of_unitsOk {tab : List UnitEntry} (h : unitsOk tab = true) (u : UnitEntry) (hu : u ∈ tab) :
    u.factor ≠ 0 := by
  simp only [unitsOk, List.all_eq_true] at h
  have := h u hu
  simp only [Bool.and_eq_true, decide_eq_true_eq, ne_eq] at this
  obtain ⟨⟨hn, hd⟩, _⟩ := this
  simp only [UnitEntry.factor]
  rw [Rat.mkRat_ne_zero hd]
  exact_mod_cast hn

/-- "Reading a file whose coordinates are declared in another unit … yields coordinates in Angstrom":
for every member `u` of `DistanceUnit` and every coordinate `x` (in Å), the value written in unit `u`
(`x · factor u`) is converted back to exactly `x`. -/
theorem unit_invariance (u : UnitEntry) (hu : u ∈ Molli.Gen.Units.units) (x : Rat) :
    toAngstrom u (fromAngstrom u x) = x := by
  have hf := factor_ne_zero_of_unitsOk Molli.Gen.Units.units_ok u hu
  simp only [toAngstrom, fromAngstrom]
  rw [Rat.div_def, Rat.mul_assoc, Rat.mul_inv_cancel _ hf, Rat.mul_one]

/-- conversion is linear, so differences of coordinates — hence all physical distances — are the
differences of the converted coordinates: nothing but the common factor `1 / factor u` is applied. -/
theorem toAngstrom_sub (u : UnitEntry) (x y : Rat) :
    toAngstrom u x - toAngstrom u y = toAngstrom u (x - y) := by
  simp only [toAngstrom, Rat.div_def, Rat.sub_eq_add_neg, Rat.add_mul, Rat.neg_mul]

/-- Ångström (and its alias `A`) is the identity conversion. -/
theorem angstrom_identity (u : UnitEntry) (hu : u ∈ Molli.Gen.Units.units) (hn : u.name = "Angstrom" ∨ u.name = "A")
    (x : Rat) : toAngstrom u x = x := by
  have : u.factor = 1 := by
    revert u
    decide
  simp only [toAngstrom, this, Rat.div_def, Rat.inv_def]
  show x * 1 = x
  rw [Rat.mul_one]

/-- `Element.get(e.symbol) = e` for every element: the symbol `dump_xyz` writes is read back as the same element. -/
theorem symbol_roundtrip (e : Nat) (he : e < Molli.Gen.Mol2Types.table.nE) :
    Molli.Gen.Mol2Types.table.elementGet (Molli.Gen.Mol2Types.table.sym e) = some e :=
  Molli.Lemmas.Mol2Types.symbolRoundtrip_spec _ Molli.Gen.Mol2Types.symbol_roundtrip e he

/-! ### physical distances (the "i.e." of the statement) -/

/-- squared Euclidean distance of two points -/
def sq3 (p q : Rat × Rat × Rat) : Rat :=
  (p.1 - q.1) * (p.1 - q.1) + (p.2.1 - q.2.1) * (p.2.1 - q.2.1) + (p.2.2 - q.2.2) * (p.2.2 - q.2.2)
/-- what the reader does to a coordinate row declared in unit `u` -/
def conv3 (u : UnitEntry) (p : Rat × Rat × Rat) : Rat × Rat × Rat :=
  (toAngstrom u p.1, toAngstrom u p.2.1, toAngstrom u p.2.2)
/-- a physical point (in Å) expressed in unit `u`, as a file declared in `u` carries it -/
def expr3 (u : UnitEntry) (p : Rat × Rat × Rat) : Rat × Rat × Rat :=
  (fromAngstrom u p.1, fromAngstrom u p.2.1, fromAngstrom u p.2.2)

/-- the conversion loses nothing: distinct file values stay distinct coordinates -/
theorem toAngstrom_injective (u : UnitEntry) (hu : u ∈ Molli.Gen.Units.units) (x y : Rat)
    (h : toAngstrom u x = toAngstrom u y) : x = y := by
  have hf := factor_ne_zero_of_unitsOk Molli.Gen.Units.units_ok u hu
  simp only [toAngstrom] at h
  field_simp at h
  exact h

/-- the distance of two points read from a file declared in `u` is the distance of the file values
divided by the number of `u` per Ångström (squared form, no square roots): one common factor, every
pair of atoms. -/
theorem distance_scaling (u : UnitEntry) (hu : u ∈ Molli.Gen.Units.units) (p q : Rat × Rat × Rat) :
    sq3 (conv3 u p) (conv3 u q) * (u.factor * u.factor) = sq3 p q := by
  have hf := factor_ne_zero_of_unitsOk Molli.Gen.Units.units_ok u hu
  simp only [sq3, conv3, toAngstrom]
  field_simp

/-- "the physical distances are unchanged": two physical points expressed in any unit of the table and
read back are at exactly their physical distance. -/
theorem physical_distance_unchanged (u : UnitEntry) (hu : u ∈ Molli.Gen.Units.units) (p q : Rat × Rat × Rat) :
    sq3 (conv3 u (expr3 u p)) (conv3 u (expr3 u q)) = sq3 p q := by
  simp only [conv3, expr3, unit_invariance u hu]

/-- the same physical point read from a file in unit `u` and from a file in unit `v` is the same
coordinate row: the result does not depend on the unit the file chose. -/
theorem unit_independent (u v : UnitEntry) (hu : u ∈ Molli.Gen.Units.units) (hv : v ∈ Molli.Gen.Units.units)
    (p : Rat × Rat × Rat) : conv3 u (expr3 u p) = conv3 v (expr3 v p) := by
  simp only [conv3, expr3, unit_invariance u hu, unit_invariance v hv]

/-- non-vacuity: H–H at 1.4 Bohr along x; the squared distance read is (1.4 / 1.88973)² Å², not 1.96. -/
example : sq3 (conv3 ⟨"Bohr", 188973, 100000⟩ (0, 0, 0)) (conv3 ⟨"Bohr", 188973, 100000⟩ (14 / 10, 0, 0))
    = (140000 / 188973) * (140000 / 188973) := by decide +kernel

/-! ### round trip -/

/-- the frames are inside the domain: valid elements, one-line comment -/
def FramesOk (fs : List Frame) : Prop := ∀ f ∈ fs, (∀ a ∈ f.atoms, a.e < table.nE) ∧ '\n' ∉ f.comment

/-- `xyz_frames`: "frame by frame for ensembles": any number of frames written back to back by
`dump_xyz` are read back by `loads_all_xyz` as the same number of frames, in order, each `normFrame f`
(see `xyz_read_write_preserves`). -/
theorem xyz_frames (fs : List Frame) (hf : FramesOk fs) :
    loadsAll table (writeText table fs) = .ok (fs.map normFrame) :=
  loadsAll_writeText table Molli.Gen.Mol2Types.symbol_roundtrip Molli.Gen.Mol2Types.tokens_wellformed.2.1 fs hf

/-- `xyz_read_write`: one geometry -/
theorem xyz_read_write (f : Frame) (hf : FramesOk [f]) :
    loadsAll table (writeText table [f]) = .ok [normFrame f] := by
  simpa using xyz_frames [f] hf

/-- `xyz_read_write_preserves`: "preserves atom count, order, elements and coordinates to the written
precision": the frame read back has the same number of atoms, and atom by atom the same element and the
coordinates rounded to 6 decimals (error bound: `Molli.Props.C07.coordinate_precision`, shared). -/
theorem xyz_read_write_preserves (f : Frame) :
    (normFrame f).atoms.length = f.atoms.length ∧
    ∀ i (hi : i < f.atoms.length) (hi' : i < (normFrame f).atoms.length),
      ((normFrame f).atoms[i]).e = (f.atoms[i]).e ∧ ((normFrame f).atoms[i]).x = roundNum 6 (f.atoms[i]).x ∧
      ((normFrame f).atoms[i]).y = roundNum 6 (f.atoms[i]).y ∧ ((normFrame f).atoms[i]).z = roundNum 6 (f.atoms[i]).z := by
  refine ⟨by simp [normFrame], ?_⟩
  intro i hi hi'
  have hget : (normFrame f).atoms[i] = normAtom (f.atoms[i]) := by simp [normFrame]
  rw [hget]
  exact ⟨rfl, rfl, rfl, rfl⟩

/-- the written coordinate token read back is the value rounded to 6 decimals, and writing that value
again gives the same token (the xyz text is a fixed point after one cycle) -/
theorem xyz_token_fixed (x : Num) :
    parseFloat (fmtFixed 6 x) = some (roundNum 6 x) ∧ fmtFixed 6 (roundNum 6 x) = fmtFixed 6 x :=
  ⟨parseFloat_fmtFixed 6 (by omega) x, fmtFixed_roundNum 6 x⟩

/-- non-vacuity: two frames, one of them with zero atoms (defect D17), an `Unknown` element whose
symbol overflows the 5-column pad, a 7th-decimal tie -/
example : FramesOk [⟨"empty".toList, []⟩,
    ⟨"one".toList, [⟨0, false, .fin false 15 (-7), .fin true 0 0, .fin false 1 7⟩, ⟨6, true, .nan, .inf true, .fin false 5 (-1)⟩]⟩] := by
  intro f hf
  simp only [List.mem_cons, List.not_mem_nil, or_false] at hf
  rcases hf with rfl | rfl
  · exact ⟨by intro a ha; simp at ha, by decide⟩
  · refine ⟨?_, by decide⟩
    intro a ha
    simp only [List.mem_cons, List.not_mem_nil, or_false] at ha
    rcases ha with rfl | rfl <;> decide

/-- non-vacuity: the table has the Bohr entry, 1.4 Bohr is 0.7408… Å (and not 2.6456 Å). -/
example : (⟨"Bohr", 188973, 100000⟩ : UnitEntry) ∈ Molli.Gen.Units.units ∧
    toAngstrom ⟨"Bohr", 188973, 100000⟩ (14 / 10) = 140000 / 188973 := by decide +kernel

end Molli.Props.C08
