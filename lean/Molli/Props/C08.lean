/-
C08 — xyz round trip and unit handling: coordinates mean what the file says.

  "Writing any geometry or ensemble as xyz and reading it back preserves atom count, order, elements and
   coordinates to the written precision, frame by frame for ensembles. Reading a file whose coordinates
   are declared in another unit (Bohr, pm, nm, fm) yields coordinates in Angstrom, i.e. the physical
   distances are unchanged."

Units: `Molli.Gen.Units.units` is `DistanceUnit.__members__` (aliases included) read from the live
module; its generated obligation `units_ok` says that every member is a known unit whose table value is
the number of such units in one Ångström (to 1e-4 of the CODATA value) and is non-zero.  The reader
model converts with `toAngstrom u x = x / factor u`; the theorems below are parametric in the table and
only use `unitsOk`.
-/
import Molli.Model.Xyz
import Molli.Gen.Units
import Molli.Gen.Mol2Types
import Molli.Lemmas.Mol2Types
namespace Molli.Props.C08
open Molli.Model.Text Molli.Model.Xyz Molli.Model.Mol2Types

theorem factor_ne_zero_of_unitsOk {tab : List UnitEntry} (h : unitsOk tab = true) (u : UnitEntry) (hu : u ∈ tab) :
    u.factor ≠ 0 := by
  simp only [unitsOk, List.all_eq_true] at h
  have := h u hu
  simp only [Bool.and_eq_true, decide_eq_true_eq, ne_eq] at this
  obtain ⟨⟨hn, hd⟩, _⟩ := this
  simp only [UnitEntry.factor]
  rw [Rat.mkRat_ne_zero hd]
  exact_mod_cast hn

/-- "Reading a file whose coordinates are declared in another unit … yields coordinates in Angstrom":
for every member `u` of `DistanceUnit` and every coordinate `x` (in Å), the value written in unit `u`
(`x · factor u`) is converted back to exactly `x`. -/
theorem unit_invariance (u : UnitEntry) (hu : u ∈ Molli.Gen.Units.units) (x : Rat) :
    toAngstrom u (fromAngstrom u x) = x := by
  have hf := factor_ne_zero_of_unitsOk Molli.Gen.Units.units_ok u hu
  simp only [toAngstrom, fromAngstrom]
  rw [Rat.div_def, Rat.mul_assoc, Rat.mul_inv_cancel _ hf, Rat.mul_one]

/-- conversion is linear, so differences of coordinates — hence all physical distances — are the
differences of the converted coordinates: nothing but the common factor `1 / factor u` is applied. -/
theorem toAngstrom_sub (u : UnitEntry) (x y : Rat) :
    toAngstrom u x - toAngstrom u y = toAngstrom u (x - y) := by
  simp only [toAngstrom, Rat.div_def, Rat.sub_eq_add_neg, Rat.add_mul, Rat.neg_mul]

/-- Ångström (and its alias `A`) is the identity conversion. -/
theorem angstrom_identity (u : UnitEntry) (hu : u ∈ Molli.Gen.Units.units) (hn : u.name = "Angstrom" ∨ u.name = "A")
    (x : Rat) : toAngstrom u x = x := by
  have : u.factor = 1 := by
    revert u
    decide
  simp only [toAngstrom, this, Rat.div_def, Rat.inv_def]
  show x * 1 = x
  rw [Rat.mul_one]

/-- `Element.get(e.symbol) = e` for every element: the symbol `dump_xyz` writes is read back as the same element. -/
theorem symbol_roundtrip (e : Nat) (he : e < Molli.Gen.Mol2Types.table.nE) :
    Molli.Gen.Mol2Types.table.elementGet (Molli.Gen.Mol2Types.table.sym e) = some e :=
  Molli.Lemmas.Mol2Types.symbolRoundtrip_spec _ Molli.Gen.Mol2Types.symbol_roundtrip e he

/-- non-vacuity: the table has the Bohr entry, 1.4 Bohr is 0.7408… Å (and not 2.6456 Å). -/
example : (⟨"Bohr", 188973, 100000⟩ : UnitEntry) ∈ Molli.Gen.Units.units ∧
    toAngstrom ⟨"Bohr", 188973, 100000⟩ (14 / 10) = 140000 / 188973 := by decide +kernel

end Molli.Props.C08
