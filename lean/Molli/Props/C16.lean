/-
C16 — Adding implicit hydrogens only completes valences.

  "add_implicit_hydrogens adds hydrogen atoms and nothing else: existing atoms, bonds, coordinates and
   charges are unchanged; each main-group atom of groups 13-16 receives exactly the number its drawing
   hint states or, without a hint, max(0, 4 - |4 - (valence electrons - formal charge - |spin|)| -
   ceil(bonded valence)); every new hydrogen is bonded once, to that atom, at the sum of covalent radii,
   at finite coordinates, pointing away from the centroid of the atom's existing neighbours; and on
   hint-free molecules a second call adds nothing."

Model: `Molli.Model.Hydrogens` (the routine after the repairs of D31 / D32), parametric in the tables
`Molli.Gen.Valence.tables` regenerated from the repository on every run, and in the `Frame` (unit
direction, unit normal, rotation) that the floating-point part of the routine produces.
The combinatorial theorems hold for every frame, every molecule, every atom list; the geometric
theorems hold over every commutative ring / ordered field and state exactly what they need of the frame.
Readings: "unchanged" atoms — up to the consumed `__implicit_hydrogens` hint (the code pops it);
"exactly the number" — hints above four are outside the domain (`nPlaced h = min h 4`; without a hint
the formula never exceeds four, `hint_free_at_most_four`); "at the sum of covalent radii" — exactly for
one hydrogen, times √1.0001056 for two (the literals 0.5736, 0.8192), times ‖TETRAHEDRON[i]‖ for three/four.
-/
import Molli.Lemmas.HydrogensCount
import Molli.Lemmas.HydrogensGeom
import Molli.Gen.Valence
namespace Molli.Props.C16
open Molli.Model.Graph Molli.Model.Hydrogens Molli.Lemmas.Graph Molli.Lemmas.Hydrogens

/-! ## the count -/

/-- "exactly the number its drawing hint states or, without a hint,
max(0, 4 − |4 − (valence electrons − formal charge − |spin|)| − ceil(bonded valence))". -/
theorem hcount_formula (T : Tables) (a : HAtom) (bv : Rat) :
    (∀ h, a.hint = some h → hcount T a bv = h) ∧
    (a.hint = none → ∀ ve, T.ve (T.group a.element) = some ve →
      (hcount T a bv : Int) =
        max 0 (4 - ((4 - (ve - a.charge - (a.spin.natAbs : Int))).natAbs : Int) - bv.ceil)) := by
  constructor
  · intro h hh; simp [hcount, hh]
  · intro hh ve hve
    simp only [hcount, hh, electrons, hve, Option.map_some, hcountFree]
    omega

/-- `formal_spin` is a signed integer (2·S; a beta-spin radical has a negative value): the count depends on it only
through `|spin|` — flipping the sign of the spin changes nothing. -/
theorem hcount_spin_sign (T : Tables) (a : HAtom) (bv : Rat) :
    hcount T { a with spin := -a.spin } bv = hcount T a bv := by
  simp only [hcount, electrons, Int.natAbs_neg]

/-- the formula for a NEGATIVE formal spin, with the absolute value resolved: the unpaired electrons are
subtracted (`− |spin| = + spin`), never added. -/
theorem hcount_formula_negative_spin (T : Tables) (a : HAtom) (bv : Rat) (hs : a.spin < 0) (hh : a.hint = none)
    (ve : Int) (hve : T.ve (T.group a.element) = some ve) :
    (hcount T a bv : Int) = max 0 (4 - ((4 - (ve - a.charge + a.spin)).natAbs : Int) - bv.ceil) := by
  have h := (hcount_formula T a bv).2 hh ve hve
  have e : (a.spin.natAbs : Int) = -a.spin := by omega
  rw [h, e]
  congr 3
  omega

/-- the atom's type label never enters the count or the selection: the model atom carries of `atype` only the
flag "is a CoordinationCenter" (which decides whether a NEIGHBOUR orients the placement), and neither `hcount` nor
`selected` looks at it. (The harness runs every `AtomType` / `AtomGeom` value and every mol2 token through the code.) -/
theorem count_ignores_atom_type (T : Tables) (a : HAtom) (b : Bool) (bv : Rat) :
    hcount T { a with coordCentre := b } bv = hcount T a bv ∧
    selected T { a with coordCentre := b } = selected T a := ⟨rfl, rfl⟩

/-- `ceil` is the least integer not below the bonded valence -/
theorem ceil_spec (q : Rat) : q ≤ (q.ceil : Rat) ∧ ∀ z : Int, q ≤ (z : Rat) → q.ceil ≤ z :=
  ⟨Rat.le_ceil, fun _ h => Rat.ceil_le_iff.2 h⟩

/-- without a hint the formula never asks for more than four hydrogens (bond orders are ≥ 0) -/
theorem hint_free_at_most_four (T : Tables) (a : HAtom) (bv : Rat) (hh : a.hint = none) (hbv : 0 ≤ bv) :
    hcount T a bv ≤ 4 := by
  unfold hcount
  rw [hh]
  cases electrons T a with
  | none => simp
  | some e => exact hcountFree_le_four e bv hbv

/-! ## selection -/

theorem mem_centres {α : Type} (T : Tables) (m : Mol α) (j : Nat) :
    j ∈ centres T m ↔ ∃ a, m.atoms[j]? = some a ∧ selected T a = true := by
  unfold centres
  rw [List.mem_filter, List.mem_range]
  constructor
  · rintro ⟨hj, h⟩
    rw [List.getElem?_eq_getElem hj] at h
    exact ⟨m.atoms[j], List.getElem?_eq_getElem hj, h⟩
  · rintro ⟨a, ha, hs⟩
    have hj := (List.getElem?_eq_some_iff.1 ha).1
    exact ⟨hj, by rw [ha]; exact hs⟩

theorem centres_nodup {α : Type} (T : Tables) (m : Mol α) : (centres T m).Nodup :=
  List.Nodup.sublist List.filter_sublist List.nodup_range

theorem centres_lt {α : Type} (T : Tables) (m : Mol α) : ∀ c ∈ centres T m, c < m.atoms.length := by
  intro c hc
  obtain ⟨a, ha, _⟩ := (mem_centres T m c).1 hc
  exact (List.getElem?_eq_some_iff.1 ha).1

/-- "each main-group atom of groups 13-16": the default atom list is exactly the atoms whose element
is in one of the groups 13, 14, 15, 16. -/
theorem selection_groups_13_16 {α : Type} (T : Tables) (m : Mol α) (j : Nat) :
    j ∈ centres T m ↔ ∃ a, m.atoms[j]? = some a ∧ 13 ≤ T.group a.element ∧ T.group a.element ≤ 16 := by
  rw [mem_centres]
  constructor
  · rintro ⟨a, ha, hs⟩
    simp only [selected, Bool.and_eq_true, decide_eq_true_eq] at hs
    exact ⟨a, ha, hs.1, by omega⟩
  · rintro ⟨a, ha, h1, h2⟩
    exact ⟨a, ha, by simp only [selected, Bool.and_eq_true, decide_eq_true_eq]; omega⟩

section
variable {α : Type} [Add α] [Sub α] [Mul α] [Inhabited α]
variable (T : Tables) (cast : Rat → α) (G : Nat → Frame α)

/-! ## what every old atom receives -/

/-- "receives exactly the number …": after `add_implicit_hydrogens()` the incident bonds of an old atom
`j` are its old incident bonds followed by new bonds of order 1 from `j` to new atoms; their number is
`nPlaced (hcount …)` evaluated on the molecule BEFORE the call (bonded valence, charge, spin, hint of `j`
itself) when `j` is in groups 13–16, and zero otherwise. -/
theorem addH_counts (m : Mol α) (j : Nat) (a : HAtom) (ha : m.atoms[j]? = some a) :
    ∃ ys, bondsWith (addH T cast G m).bonds j = bondsWith m.bonds j ++ ys ∧
      ys.length = (if selected T a then nPlaced (hcount T a (valence id m.bonds j)) else 0) ∧
      ∀ y ∈ ys, y.a1 = j ∧ y.attr = 1 ∧ m.atoms.length ≤ y.a2 := by
  have hj := (List.getElem?_eq_some_iff.1 ha).1
  obtain ⟨ys, h1, h2, h3⟩ := addHSeq_bondsWith T cast G (centres T m) m (centres_nodup T m) (centres_lt T m) j hj
  refine ⟨ys, h1, ?_, h3⟩
  rw [h2]
  by_cases hs : selected T a = true
  · have : j ∈ centres T m := (mem_centres T m j).2 ⟨a, ha, hs⟩
    simp [this, hs, kOf, ha]
  · have : j ∉ centres T m := by
      intro h
      obtain ⟨a', ha', hs'⟩ := (mem_centres T m j).1 h
      rw [ha] at ha'; cases ha'; exact hs hs'
    simp [this, hs]

/-- in particular the bonded valence grows by exactly that number -/
theorem addH_valence (m : Mol α) (j : Nat) (a : HAtom) (ha : m.atoms[j]? = some a) :
    valence id (addH T cast G m).bonds j = valence id m.bonds j +
      ((if selected T a then nPlaced (hcount T a (valence id m.bonds j)) else 0 : Nat) : Rat) := by
  obtain ⟨ys, h1, h2, h3⟩ := addH_counts T cast G m j a ha
  rw [valence_of_bondsWith h1 (fun y hy => (h3 y hy).2.1), h2]

/-! ## only hydrogens are added -/

/-- "adds hydrogen atoms and nothing else: existing atoms, bonds, coordinates and charges are unchanged":
the old atoms keep their place and content (a processed atom's hint is consumed), everything beyond
is a hydrogen; bonds, coordinates and charges are the old lists followed by one entry per new atom. -/
theorem addH_only_appends (m : Mol α) (ht : T.tet.length = 4) :
    m.atoms.length ≤ (addH T cast G m).atoms.length ∧
    (∀ j, j < m.atoms.length → (addH T cast G m).atoms[j]? =
        (m.atoms[j]?).map (fun a => if j ∈ centres T m then a.clearHint else a)) ∧
    (∀ j, m.atoms.length ≤ j → j < (addH T cast G m).atoms.length →
        (addH T cast G m).atoms[j]? = some (hyd T)) ∧
    (∃ X, (addH T cast G m).bonds = m.bonds ++ X ∧
        m.atoms.length + X.length = (addH T cast G m).atoms.length) ∧
    (∃ Y, (addH T cast G m).coords = m.coords ++ Y ∧
        m.atoms.length + Y.length = (addH T cast G m).atoms.length) ∧
    (∃ K, (addH T cast G m).charges = m.charges ++ List.replicate K none ∧
        m.atoms.length + K = (addH T cast G m).atoms.length) := by
  refine ⟨addHSeq_length_le T cast G _ m, addHSeq_old_atoms T cast G _ m (centres_lt T m),
    addHSeq_new_atoms T cast G _ m (centres_lt T m), ?_, addHSeq_coords T cast G ht _ m,
    addHSeq_charges T cast G _ m⟩
  obtain ⟨X, h1, h2, _⟩ := addHSeq_bonds T cast G (centres T m) m
  exact ⟨X, h1, h2⟩

/-- a consumed hint is the only way an old atom changes: element, charge, spin and type stay -/
theorem clearHint_keeps (a : HAtom) :
    a.clearHint.element = a.element ∧ a.clearHint.charge = a.charge ∧ a.clearHint.spin = a.spin ∧
    a.clearHint.coordCentre = a.coordCentre := ⟨rfl, rfl, rfl, rfl⟩

/-- "every new hydrogen is bonded once, to that atom": a new atom occurs in exactly one bond of the
result; that bond joins it, with order 1, to an old atom of groups 13–16. -/
theorem newH_bonded_once_to_centre (m : Mol α) (hwf : m.WF) (j : Nat) (h1 : m.atoms.length ≤ j)
    (h2 : j < (addH T cast G m).atoms.length) :
    ∃ c ∈ centres T m, bondsWith (addH T cast G m).bonds j = [⟨c, j, 1⟩] := by
  obtain ⟨X, hX, hlen, hXt⟩ := addHSeq_bonds T cast G (centres T m) m
  have hX' : (addH T cast G m).bonds = m.bonds ++ X := hX
  have hlen' : m.atoms.length + X.length = (addH T cast G m).atoms.length := hlen
  have ht : j - m.atoms.length < X.length := by omega
  obtain ⟨c, hc, hxc⟩ := hXt _ ht
  refine ⟨c, hc, ?_⟩
  rw [hX', bondsWith_append]
  have hold : bondsWith m.bonds j = [] := by
    unfold bondsWith
    apply List.filter_eq_nil_iff.2
    intro b hb
    have := hwf b hb
    simp only [Bond.has, Bool.or_eq_true, beq_iff_eq, not_or]
    omega
  rw [hold, List.nil_append]
  have hj : m.atoms.length + (j - m.atoms.length) = j := by omega
  rw [hj] at hxc
  unfold bondsWith
  apply filter_unique _ X (j - m.atoms.length) _ hxc
  intro i y hy
  have hi : i < X.length := (List.getElem?_eq_some_iff.1 hy).1
  obtain ⟨c', hc', hy'⟩ := hXt i hi
  rw [hy] at hy'
  cases hy'
  have hc'lt := centres_lt T m c' hc'
  simp only [Bond.has, Bool.or_eq_true, beq_iff_eq]
  omega

/-! ## a second call adds nothing -/

theorem clearHint_of_none (a : HAtom) (h : a.hint = none) : a.clearHint = a := by
  cases a; simp_all [HAtom.clearHint]

/-- "on hint-free molecules a second call adds nothing" (bond orders ≥ 0; a hydrogen is not in
groups 13–16 — a generated obligation). -/
theorem idempotent_hint_free (m : Mol α) (hfree : ∀ a ∈ m.atoms, a.hint = none)
    (hord : ∀ b ∈ m.bonds, 0 ≤ b.attr) (hH : selected T (hyd T) = false) :
    addH T cast G (addH T cast G m) = addH T cast G m := by
  apply addHSeq_noop
  intro c hc
  obtain ⟨a', ha', hs'⟩ := (mem_centres T _ c).1 hc
  have hclt : c < (addH T cast G m).atoms.length := (List.getElem?_eq_some_iff.1 ha').1
  by_cases hcn : c < m.atoms.length
  · -- an old atom
    have hold := addHSeq_old_atoms T cast G (centres T m) m (centres_lt T m) c hcn
    have hold' : (addH T cast G m).atoms[c]? =
        (m.atoms[c]?).map (fun a => if c ∈ centres T m then a.clearHint else a) := hold
    rw [List.getElem?_eq_getElem hcn] at hold'
    have hah : (m.atoms[c]).hint = none := hfree _ (List.getElem_mem hcn)
    have ha'eq : a' = m.atoms[c] := by
      rw [ha'] at hold'
      simp only [Option.map_some, Option.some.injEq] at hold'
      rw [hold']
      split
      · exact clearHint_of_none _ hah
      · rfl
    subst ha'eq
    have hmem : c ∈ centres T m := (mem_centres T m c).2 ⟨_, List.getElem?_eq_getElem hcn, hs'⟩
    refine ⟨?_, fun a ha => by rw [ha'] at ha; cases ha; exact hah⟩
    -- its count on the result is zero
    have hval := addH_valence T cast G m c _ (List.getElem?_eq_getElem hcn)
    rw [if_pos hs'] at hval
    unfold kOf
    rw [ha']
    simp only
    rw [hval]
    have hbv := valence_nonneg m.bonds hord c
    generalize valence id m.bonds c = bv at *
    unfold hcount
    rw [hah]
    cases he : electrons T m.atoms[c] with
    | none => simp [nPlaced]
    | some e =>
      simp only
      have h4 := hcountFree_le_four e bv hbv
      have : nPlaced (hcountFree e bv) = hcountFree e bv := by unfold nPlaced; omega
      rw [this, hcountFree_add_nat]
      simp [nPlaced]
  · -- a new atom is a hydrogen, which is never selected
    have hnew := addHSeq_new_atoms T cast G (centres T m) m (centres_lt T m) c (by omega) hclt
    have hnew' : (addH T cast G m).atoms[c]? = some (hyd T) := hnew
    rw [ha'] at hnew'
    cases hnew'
    rw [hH] at hs'
    cases hs'

end

/-! ## placement: distance to the centre, direction -/

section geometry
variable {α : Type} [CommRing α]

/-- "at the sum of covalent radii": one hydrogen sits at squared distance `L²` from its centre
(`L` = sum of the two covalent radii), for a unit direction. -/
theorem newH_distance_one (c s : α) (tet : List (V3 α)) (a : V3 α) (L : α) (F : Frame α) (hv : F.v.norm2 = 1) :
    ∀ p ∈ placeH c s tet a L F 1, (p.sub a).norm2 = L * L := by
  intro p hp
  simp only [placeH, List.mem_singleton] at hp
  subst hp
  exact oneH_dist a F.v L hv

/-- one hydrogen lies on the line through the centre along the direction `v` — for three neighbours `v` is
the normal of the plane through them, so the hydrogen is placed along that normal. -/
theorem newH_along_direction_one (c s : α) (tet : List (V3 α)) (a : V3 α) (L : α) (F : Frame α) :
    ∀ p ∈ placeH c s tet a L F 1, cross (p.sub a) F.v = ⟨0, 0, 0⟩ := by
  intro p hp
  simp only [placeH, List.mem_singleton] at hp
  subst hp
  exact oneH_parallel a F.v L

/-- two hydrogens: squared distance `L²·(c² + s²)` each, and a fixed angle between them -/
theorem newH_distance_two (c s : α) (tet : List (V3 α)) (a : V3 α) (L : α) (F : Frame α)
    (hv : F.v.norm2 = 1) (hz : F.z.norm2 = 1) (hvz : F.v.dot F.z = 0) :
    (∀ p ∈ placeH c s tet a L F 2, (p.sub a).norm2 = L * L * (c * c + s * s)) ∧
    (∀ p q, placeH c s tet a L F 2 = [p, q] → (p.sub a).dot (q.sub a) = L * L * (c * c - s * s)) := by
  constructor
  · intro p hp
    simp only [placeH, List.mem_cons, List.not_mem_nil, or_false] at hp
    rcases hp with rfl | rfl
    · exact twoH_dist_plus a F.v F.z c s L hv hz hvz
    · exact twoH_dist_minus a F.v F.z c s L hv hz hvz
  · intro p q h
    simp only [placeH, List.cons.injEq, and_true] at h
    obtain ⟨rfl, rfl⟩ := h
    exact twoH_angle a F.v F.z c s L hv hz

/-- three (or four) hydrogens: squared distance `L²·‖t‖²` for the tetrahedron vertex `t` used -/
theorem newH_distance_tet (c s : α) (tet : List (V3 α)) (a : V3 α) (L : α) (F : Frame α) (hR : Orth F.R)
    (k : Nat) (hk : 3 ≤ k) :
    ∀ p ∈ placeH c s tet a L F k, ∃ t ∈ tet, (p.sub a).norm2 = L * L * t.norm2 := by
  intro p hp
  rcases k with _ | _ | _ | _ | k
  · omega
  · omega
  · omega
  · simp only [placeH, List.mem_map] at hp
    obtain ⟨t, ht, rfl⟩ := hp
    exact ⟨t, List.mem_of_mem_drop ht, tetH_dist a t F.R L hR⟩
  · simp only [placeH, List.mem_map] at hp
    obtain ⟨t, ht, rfl⟩ := hp
    exact ⟨t, ht, tetH_dist a t F.R L hR⟩

end geometry

section away
variable {α : Type} [Field α] [LinearOrder α] [IsStrictOrderedRing α]

/-- "pointing away from the centroid of the atom's existing neighbours", one hydrogen: for any `w`
(centroid − centre) with a positive component along the direction `v`. Covers the mean-of-neighbours
branch (`w ∥ v`) and the three-neighbour mean-plane branch (`v` = plane normal oriented towards the centroid). -/
theorem newH_points_away_one (c s : α) (tet : List (V3 α)) (a w : V3 α) (L : α) (F : Frame α)
    (hL : 0 < L) (hw : 0 < F.v.dot w) : ∀ p ∈ placeH c s tet a L F 1, (p.sub a).dot w < 0 := by
  intro p hp
  simp only [placeH, List.mem_singleton] at hp
  subst hp
  exact oneH_away a F.v w L hL hw

/-- two hydrogens: `z ⊥ w` (the normal is orthogonal to the centroid direction) -/
theorem newH_points_away_two (c s : α) (tet : List (V3 α)) (a w : V3 α) (L : α) (F : Frame α)
    (hL : 0 < L) (hc : 0 < c) (hw : 0 < F.v.dot w) (hz : F.z.dot w = 0) :
    ∀ p ∈ placeH c s tet a L F 2, (p.sub a).dot w < 0 := by
  intro p hp
  simp only [placeH, List.mem_cons, List.not_mem_nil, or_false] at hp
  have := twoH_away a F.v F.z w c s L hL hc hw hz
  rcases hp with rfl | rfl
  · exact this.1
  · exact this.2

/-- three hydrogens: the vertices used lie below the xy-plane (`t.z < 0`, a generated obligation for
`TETRAHEDRON[1..3]`), the rotation takes ẑ to `v`, the centroid direction is `κ·v` with `κ > 0` -/
theorem newH_points_away_three (c s : α) (tet : List (V3 α)) (a : V3 α) (L κ : α) (F : Frame α)
    (hR : Orth F.R) (hv : F.R.r3 = F.v) (hL : 0 < L) (hκ : 0 < κ) (htet : ∀ t ∈ tet.drop 1, t.z < 0) :
    ∀ p ∈ placeH c s tet a L F 3, (p.sub a).dot (F.v.smul κ) < 0 := by
  intro p hp
  simp only [placeH, List.mem_map] at hp
  obtain ⟨t, ht, rfl⟩ := hp
  exact tetH_away a t F.v F.R L κ hR hv hL hκ (htet t ht)

end away


/-! ## "at finite coordinates": the normalisations of the repaired routine are defined -/

/-- D32: the as-shipped normal `cross(vec, ẑ)` is the zero vector exactly when the direction lies along
ẑ (normalising it gives NaN); the repaired choice (`cross(vec, x̂)` in that case) is non-zero for every
non-zero direction and orthogonal to it, over any commutative ring. -/
theorem two_hydrogen_normal_defined {α : Type} [CommRing α] [DecidableEq α] (vec : V3 α) :
    (cross vec ⟨0, 0, 1⟩ = ⟨0, 0, 0⟩ ↔ vec.x = 0 ∧ vec.y = 0) ∧
    (vec ≠ ⟨0, 0, 0⟩ → fallbackNormal vec ≠ ⟨0, 0, 0⟩) ∧ (fallbackNormal vec).dot vec = 0 :=
  ⟨cross_z_eq_zero_iff vec, fallbackNormal_ne_zero vec, fallbackNormal_orth vec⟩

/-- the rotation `rotation_matrix_from_vectors(TETRAHEDRON[0] = ẑ, v)` of the three/four-hydrogen branch
(regular case `1 + v·ẑ ≠ 0`, `k = 1/(1 + v·ẑ)`) meets the hypotheses of `newH_distance_tet` and
`newH_points_away_three`: its rows are orthonormal and its third row is `v`. -/
theorem tetrahedron_rotation_ok {α : Type} [CommRing α] (v : V3 α) (k : α) (hv : v.norm2 = 1)
    (hk : k * (1 + v.z) = 1) : Orth (rotZk v k) ∧ (rotZk v k).r3 = v :=
  ⟨rotZk_orth v k hv hk, rotZk_r3 v k hv hk⟩

/-- D31: an atom without neighbours gets the default direction ẑ, which is a unit vector; with it
`rotZk ẑ (1/2)` is the identity, so the hydrogens sit on the tetrahedron vertices themselves. -/
theorem default_direction_ok : (⟨0, 0, 1⟩ : V3 Rat).norm2 = 1 ∧
    rotZk (⟨0, 0, 1⟩ : V3 Rat) (1 / 2) = ⟨⟨1, 0, 0⟩, ⟨0, 1, 0⟩, ⟨0, 0, 1⟩⟩ := by
  constructor <;> decide +kernel

/-! ## the generated tables meet the hypotheses; concrete instances (non-vacuity) -/

open Molli.Gen.Valence in
/-- with the regenerated tables: a second call adds nothing on hint-free molecules -/
theorem idempotent_with_generated_tables (G : Nat → Frame Rat) (m : Mol Rat)
    (hfree : ∀ a ∈ m.atoms, a.hint = none) (hord : ∀ b ∈ m.bonds, 0 ≤ b.attr) :
    addH tables id G (addH tables id G m) = addH tables id G m :=
  idempotent_hint_free tables id G m hfree hord hydrogen_not_selected

open Molli.Gen.Valence in
/-- with the regenerated literals the two-hydrogen distance is `L·√1.0001056` (5.3·10⁻⁵ above `L`),
and the tetrahedron vertices are unit vectors to 10⁻⁷ -/
theorem generated_distance_constants :
    tables.c2 * tables.c2 + tables.s2 * tables.s2 = 1250132 / 1250000 ∧
    (∀ t ∈ tables.tet.drop 1, t.z < 0 ∧ t.norm2 - 1 ≤ 1 / 10000000 ∧ 1 - t.norm2 ≤ 1 / 10000000) := by
  refine ⟨two_h_constants.2.2, ?_⟩
  have h := tetrahedron_shape.2.2
  rw [List.all_eq_true] at h
  intro t ht
  have := h t ht
  simp only [Bool.and_eq_true, decide_eq_true_eq] at this
  exact ⟨this.1.1, this.1.2, this.2⟩

/-- ethanol skeleton C–C–O plus a chloride ion: the carbons get 3 and 2, the oxygen 1, chlorine nothing -/
def exMol : Mol Rat :=
  { atoms := [⟨6, 0, 0, false, none⟩, ⟨6, 0, 0, false, none⟩, ⟨8, 0, 0, false, none⟩, ⟨17, -1, 0, false, none⟩]
    bonds := [⟨0, 1, 1⟩, ⟨2, 1, 1⟩]
    coords := [⟨0, 0, 0⟩, ⟨1, 0, 0⟩, ⟨2, 1, 0⟩, ⟨9, 9, 9⟩]
    charges := [some 0, some 0, some 0, some (-1)] }

def exFrame : Frame Rat := ⟨⟨1, 0, 0⟩, ⟨0, 1, 0⟩, ⟨⟨0, 0, -1⟩, ⟨0, 1, 0⟩, ⟨1, 0, 0⟩⟩⟩

example : centres Molli.Gen.Valence.tables exMol = [0, 1, 2] := by decide +kernel
example : (addH Molli.Gen.Valence.tables id (fun _ => exFrame) exMol).atoms.length = 10 := by decide +kernel
example : ((addH Molli.Gen.Valence.tables id (fun _ => exFrame) exMol).bonds.drop 2).map (fun b => (b.a1, b.a2))
    = [(0, 4), (0, 5), (0, 6), (1, 7), (1, 8), (2, 9)] := by decide +kernel
example : exMol.WF := by unfold Mol.WF; decide
example : Orth exFrame.R ∧ exFrame.R.r3 = exFrame.v ∧ exFrame.v.norm2 = 1 ∧ exFrame.z.norm2 = 1 ∧
    exFrame.v.dot exFrame.z = 0 := by
  refine ⟨⟨?_, ?_, ?_, ?_, ?_, ?_⟩, ?_, ?_, ?_, ?_⟩ <;> decide +kernel

/-- negative formal spin, concrete: bare neutral boron with spin −1 gets 2 hydrogens (not 4), neutral nitrogen with
spin −1 and one single bond gets 3 (not 1) — as with spin +1 —, a bare oxygen with spin −2 gets 4 (not 0) -/
example : hcount Molli.Gen.Valence.tables ⟨5, 0, -1, false, none⟩ 0 = 2 ∧
    hcount Molli.Gen.Valence.tables ⟨7, 0, -1, false, none⟩ 1 = 3 ∧
    hcount Molli.Gen.Valence.tables ⟨7, 0, 1, false, none⟩ 1 = 3 ∧
    hcount Molli.Gen.Valence.tables ⟨8, 0, -2, false, none⟩ 0 = 4 := by decide +kernel

end Molli.Props.C16
