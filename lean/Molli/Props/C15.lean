/-
C15 — Graph queries agree with graph theory.

  "On any molecular graph: breadth-first traversal from an atom yields every other atom of its
   connected component exactly once, in non-decreasing distance, with the true shortest-path
   distance; with a direction it yields exactly the atoms reachable through that neighbour without
   passing the start; a bond is reported in a ring iff it is not a bridge; connected_atoms /
   bonds_with_atom / bonded_valence agree with the bond list; and substructure matching returns
   exactly the induced embeddings of the pattern: injective maps that respect elements (Unknown
   matches any), send bonded pattern atoms to bonded atoms and non-bonded ones to non-bonded atoms -
   none invalid, none missed."

Model: `Molli.Model.Graph` — atoms are indices, the bond list is ordered as `_bonds`; `bfs` has the
queue discipline of `yield_bfsd` (FIFO through `append`/`pop`/`appendleft`, visited set updated at
yield time); `inRing` is `is_bond_in_ring`; `embeddings` replaces networkx' VF2 (which the code calls)
by a brute-force enumerator whose output the theorems below characterise completely; the harness
compares the code's match sets with it on every run.  All theorems are for graphs of any size;
the traversal theorems hold for ANY adjacency function (multigraphs and loops included).
-/
import Molli.Lemmas.GraphNbr
import Molli.Lemmas.GraphEmb
namespace Molli.Props.C15
open Molli.Model.Graph Molli.Lemmas.Graph

/-- adjacency lists stay inside the atom list -/
def Bounded (adj : Nat → List Nat) (n : Nat) : Prop := ∀ u, u < n → ∀ a ∈ adj u, a < n

/-! ## breadth-first traversal without a direction -/

/-- "yields every other atom … exactly once": no atom is yielded twice and the start is not yielded. -/
theorem bfs_nodup (adj : Nat → List Nat) (n s : Nat) (hs : s < n) (hadj : Bounded adj n) :
    ((bfsd adj n s).map Prod.fst).Nodup ∧ s ∉ (bfsd adj n s).map Prod.fst :=
  let h := bfs_correct adj s n hs hadj
  ⟨h.1, h.2.1⟩

/-- "yields every other atom of its connected component": an atom other than the start is yielded
iff some walk leads to it from the start. -/
theorem bfs_complete (adj : Nat → List Nat) (n s : Nat) (hs : s < n) (hadj : Bounded adj n)
    (v : Nat) (hv : v ≠ s) : v ∈ (bfsd adj n s).map Prod.fst ↔ Reach adj s v := by
  have h := bfs_correct adj s n hs hadj
  constructor
  · intro hm
    obtain ⟨x, hx, rfl⟩ := List.mem_map.1 hm
    exact ⟨x.2, (h.2.2.2.1 x hx).1⟩
  · rintro ⟨k, hw⟩
    obtain ⟨d, hd⟩ := h.2.2.2.2 v k hw hv
    exact List.mem_map.2 ⟨(v, d), hd, rfl⟩

/-- "in non-decreasing distance" -/
theorem bfs_monotone (adj : Nat → List Nat) (n s : Nat) (hs : s < n) (hadj : Bounded adj n) :
    (bfsd adj n s).Pairwise (fun x y => x.2 ≤ y.2) :=
  (bfs_correct adj s n hs hadj).2.2.1

/-- "with the true shortest-path distance": the label is the length of a walk from the start and
no walk is shorter. -/
theorem bfs_shortest (adj : Nat → List Nat) (n s : Nat) (hs : s < n) (hadj : Bounded adj n) :
    ∀ x ∈ bfsd adj n s, Walk adj s x.1 x.2 ∧ ∀ k, Walk adj s x.1 k → x.2 ≤ k :=
  (bfs_correct adj s n hs hadj).2.2.2.1


/-- the four traversal statements on a molecule's own bond list: the hypotheses of the theorems above are
met by every well-formed molecular graph (`neighbors` is bounded and symmetric) -/
theorem bfs_on_molecule {NA EA : Type} (g : LGraph NA EA) (hwf : g.WF) (s : Nat) (hs : s < g.n) :
    ((bfsd g.adj g.n s).map Prod.fst).Nodup ∧ s ∉ (bfsd g.adj g.n s).map Prod.fst ∧
    (∀ v, v ≠ s → (v ∈ (bfsd g.adj g.n s).map Prod.fst ↔ Reach g.adj s v)) ∧
    (bfsd g.adj g.n s).Pairwise (fun x y => x.2 ≤ y.2) ∧
    (∀ x ∈ bfsd g.adj g.n s, Walk g.adj s x.1 x.2 ∧ ∀ k, Walk g.adj s x.1 k → x.2 ≤ k) := by
  have hadj : Bounded g.adj g.n := neighbors_bounded hwf
  exact ⟨(bfs_nodup g.adj g.n s hs hadj).1, (bfs_nodup g.adj g.n s hs hadj).2,
    fun v hv => bfs_complete g.adj g.n s hs hadj v hv, bfs_monotone g.adj g.n s hs hadj,
    bfs_shortest g.adj g.n s hs hadj⟩

/-! ## traversal with a direction -/

theorem bounded_delVertex {adj : Nat → List Nat} {n : Nat} (hadj : Bounded adj n) (s : Nat) :
    Bounded (delVertex adj s) n := by
  intro u hu a ha
  exact hadj u hu a (mem_delVertex.1 ha).2.1

/-- "with a direction it yields exactly the atoms reachable through that neighbour without passing
the start": the direction atom comes first with label 1; an atom is yielded iff a walk leads to it
from the direction atom in the graph without the start atom; each exactly once, never the start, in
non-decreasing label order, labelled 1 + (shortest distance from the direction atom in that graph). -/
theorem bfs_directed (adj : Nat → List Nat) (n s dir : Nat) (hd : dir < n) (hne : dir ≠ s)
    (hadj : Bounded adj n) :
    (bfsdDir adj n s dir).head? = some (dir, 1) ∧
    ((bfsdDir adj n s dir).map Prod.fst).Nodup ∧
    s ∉ (bfsdDir adj n s dir).map Prod.fst ∧
    (bfsdDir adj n s dir).Pairwise (fun x y => x.2 ≤ y.2) ∧
    (∀ v, v ∈ (bfsdDir adj n s dir).map Prod.fst ↔ Reach (delVertex adj s) dir v) ∧
    (∀ x ∈ bfsdDir adj n s dir, ∃ d, x.2 = d + 1 ∧ Walk (delVertex adj s) dir x.1 d ∧
        ∀ k, Walk (delVertex adj s) dir x.1 k → d ≤ k) := by
  have hc := bfs_correct (delVertex adj s) dir n hd (bounded_delVertex hadj s)
  have heq := bfsdDir_eq adj n s dir hne
  simp only at hc
  obtain ⟨hnd, hns, hsorted, hsound, hcompl⟩ := hc
  have hfst : (bfsdDir adj n s dir).map Prod.fst = dir :: (bfsd (delVertex adj s) n dir).map Prod.fst := by
    rw [heq]; simp [shift, Function.comp_def]
  have hreach_ne : ∀ v, Reach (delVertex adj s) dir v → v ≠ s := by
    rintro v ⟨k, hw⟩; exact walk_delVertex_ne hne hw
  refine ⟨by simp [bfsdDir], ?_, ?_, ?_, ?_, ?_⟩
  · rw [hfst, List.nodup_cons]; exact ⟨hns, hnd⟩
  · rw [hfst, List.mem_cons]
    rintro (h | h)
    · exact hne h.symm
    · obtain ⟨x, hx, hxs⟩ := List.mem_map.1 h
      exact hreach_ne s ⟨x.2, hxs ▸ (hsound x hx).1⟩ rfl
  · rw [heq, List.map_cons, List.pairwise_cons]
    constructor
    · intro y hy
      obtain ⟨x, _, rfl⟩ := List.mem_map.1 hy
      simp [shift]
    · rw [List.pairwise_map]
      exact List.Pairwise.imp (by intro a b h; simp [shift]; exact h) hsorted
  · intro v
    rw [hfst, List.mem_cons]
    constructor
    · rintro (rfl | h)
      · exact ⟨0, Walk.refl⟩
      · obtain ⟨x, hx, rfl⟩ := List.mem_map.1 h
        exact ⟨x.2, (hsound x hx).1⟩
    · rintro ⟨k, hw⟩
      by_cases hv : v = dir
      · exact Or.inl hv
      · obtain ⟨d, hd'⟩ := hcompl v k hw hv
        exact Or.inr (List.mem_map.2 ⟨(v, d), hd', rfl⟩)
  · intro x hx
    rw [heq, List.map_cons, List.mem_cons] at hx
    rcases hx with rfl | hx
    · exact ⟨0, by simp [shift], Walk.refl, fun k _ => Nat.zero_le k⟩
    · obtain ⟨y, hy, rfl⟩ := List.mem_map.1 hx
      exact ⟨y.2, by simp [shift], by simpa [shift] using (hsound y hy).1,
        by simpa [shift] using (hsound y hy).2⟩

/-! ## ring perception -/

/-- `is_bond_in_ring` answers reachability after deleting the bond: for a symmetric adjacency and
`a1 ≠ a2`, the bond `a1–a2` is reported in a ring iff `a1` can still be reached from `a2` once every
`a1–a2` adjacency is removed. -/
theorem inRing_iff (adj : Nat → List Nat) (n a1 a2 : Nat) (h2 : a2 < n) (hne : a2 ≠ a1)
    (hadj : Bounded adj n) (hsym : ∀ u v, v ∈ adj u → u ∈ adj v) :
    inRing adj n a1 a2 = true ↔ Reach (delEdge adj a1 a2) a2 a1 := by
  have hdir := bfs_directed adj n a1 a2 h2 hne hadj
  obtain ⟨_, _, _, _, hreach, _⟩ := hdir
  unfold inRing
  rw [List.any_eq_true]
  constructor
  · rintro ⟨x, hx, hc⟩
    simp only [Bool.and_eq_true, decide_eq_true_eq] at hc
    obtain ⟨k, hw⟩ := (hreach x.1).1 (List.mem_map.2 ⟨x, hx, rfl⟩)
    have hx1 : x.1 ≠ a1 := walk_delVertex_ne hne hw
    have hw' : Walk (delEdge adj a1 a2) a2 x.1 k := by
      refine Walk.mono ?_ hw
      intro u v hv
      obtain ⟨hu, hv1, hv2⟩ := mem_delVertex.1 hv
      exact mem_delEdge.2 ⟨hv1, fun h => hu h.1, fun h => hv2 h.2⟩
    refine ⟨k + 1, Walk.step hw' (mem_delEdge.2 ⟨hsym _ _ hc.1, fun h => hx1 h.1, fun h => hc.2 h.1⟩)⟩
  · rintro ⟨k, hw⟩
    rcases walk_first_hit hne hw with ⟨h, _⟩ | ⟨c, k', hwc, hc⟩
    · exact absurd rfl h
    · have hwc' : Walk (delVertex adj a1) a2 c k' := by
        refine Walk.mono ?_ hwc
        intro u v hv
        obtain ⟨hu, hv1, hv2⟩ := mem_delVertex.1 hv
        exact mem_delVertex.2 ⟨hu, (mem_delEdge.1 hv1).1, hv2⟩
      obtain ⟨hc1, _, hc3⟩ := mem_delEdge.1 hc
      have hca2 : c ≠ a2 := fun h => hc3 ⟨h, rfl⟩
      obtain ⟨x, hx, hxc⟩ := List.mem_map.1 ((hreach c).2 ⟨k', hwc'⟩)
      refine ⟨x, hx, ?_⟩
      simp only [Bool.and_eq_true, decide_eq_true_eq, hxc]
      exact ⟨hsym _ _ hc1, hca2⟩

/-- a bond `a–b` of the bond list is a bridge when its ends are disconnected after the bonds between
`a` and `b` are removed from the list -/
def IsBridge {EA : Type} (bonds : List (Bond EA)) (a b : Nat) : Prop :=
  ¬ Reach (neighbors (delBond bonds a b)) a b

/-- "a bond is reported in a ring iff it is not a bridge" — on the molecule's own bond list. -/
theorem ring_iff_not_bridge {NA EA : Type} (g : LGraph NA EA) (hwf : g.WF) (b : Bond EA)
    (hb : b ∈ g.bonds) (hne : b.a1 ≠ b.a2) :
    inRing g.adj g.n b.a1 b.a2 = true ↔ ¬ IsBridge g.bonds b.a1 b.a2 := by
  have hadj : Bounded g.adj g.n := neighbors_bounded hwf
  have hsym : ∀ u v, v ∈ g.adj u → u ∈ g.adj v := fun u v h => neighbors_symm.1 h
  rw [inRing_iff g.adj g.n b.a1 b.a2 (hwf b hb).2 (Ne.symm hne) hadj hsym]
  unfold IsBridge
  rw [Classical.not_not]
  have hsymD : ∀ u v, v ∈ neighbors (delBond g.bonds b.a1 b.a2) u →
      u ∈ neighbors (delBond g.bonds b.a1 b.a2) v := fun u v h => neighbors_symm.1 h
  constructor
  · rintro ⟨k, hw⟩
    exact ⟨k, Walk.reverse hsymD (Walk.mono (fun u v h => mem_neighbors_delBond.2 h) hw)⟩
  · rintro ⟨k, hw⟩
    exact ⟨k, Walk.mono (fun u v h => mem_neighbors_delBond.1 h) (Walk.reverse hsymD hw)⟩

/-- for a bond list without parallel bonds, "the bonds between `a` and `b`" is the bond itself -/
theorem delBond_simple {EA : Type} [DecidableEq EA] (bonds : List (Bond EA)) (b : Bond EA)
    (hsimple : ∀ x ∈ bonds, ((x.a1 = b.a1 ∧ x.a2 = b.a2) ∨ (x.a1 = b.a2 ∧ x.a2 = b.a1)) → x = b) :
    delBond bonds b.a1 b.a2 = bonds.filter (· ≠ b) := by
  unfold delBond
  apply List.filter_congr
  intro x hx
  by_cases hxb : x = b
  · subst hxb; simp
  · have := hsimple x hx
    have h' : ¬ ((x.a1 = b.a1 ∧ x.a2 = b.a2) ∨ (x.a1 = b.a2 ∧ x.a2 = b.a1)) := fun h => hxb (this h)
    simp [hxb]
    omega

/-! ## neighbours, incident bonds, valence -/

/-- `bonds_with_atom` returns exactly the bonds of the bond list that contain the atom, in bond-list
order and with their multiplicity. -/
theorem bondsWith_spec {EA : Type} (bonds : List (Bond EA)) (u : Nat) :
    (∀ x, x ∈ bondsWith bonds u ↔ x ∈ bonds ∧ (x.a1 = u ∨ x.a2 = u)) ∧
    (bondsWith bonds u).Sublist bonds :=
  ⟨fun _ => mem_bondsWith, List.filter_sublist⟩

/-- `connected_atoms` yields exactly the other ends of the bonds that contain the atom, one per
incident bond, and the relation is symmetric. -/
theorem neighbors_spec {EA : Type} (bonds : List (Bond EA)) (u : Nat) :
    (∀ v, v ∈ neighbors bonds u ↔ ∃ x ∈ bonds, (x.a1 = u ∧ x.a2 = v) ∨ (x.a2 = u ∧ x.a1 = v)) ∧
    (neighbors bonds u).length = (bondsWith bonds u).length ∧
    (∀ v, v ∈ neighbors bonds u ↔ u ∈ neighbors bonds v) :=
  ⟨fun _ => mem_neighbors, neighbors_length bonds u, fun _ => neighbors_symm⟩

/-- `bonded_valence` is the sum over the whole bond list of the orders of the bonds containing the atom. -/
theorem valence_spec {EA : Type} (order : EA → Rat) (bonds : List (Bond EA)) (u : Nat) :
    valence order bonds u = (bonds.map (fun b => if b.has u then order b.attr else 0)).sum :=
  valence_eq_sum order bonds u

/-! ## substructure matching -/

/-- the property's sentence, for arbitrary compatibility predicates: `φ[i]` is the graph atom matched
to pattern atom `i`; the map is total on the pattern, lands in the graph, is injective, respects the
node predicate, sends bonded pattern atoms to bonded atoms (with compatible bonds) and non-bonded
ones to non-bonded atoms. -/
structure IsInducedEmbedding {NA NB EA EB : Type} (nodeOK : NA → NB → Bool) (edgeOK : EA → EB → Bool)
    (P : LGraph NB EB) (G : LGraph NA EA) (φ : List Nat) : Prop where
  total : φ.length = P.n
  range : ∀ x ∈ φ, x < G.n
  inj : φ.Nodup
  node : ∀ i, i < P.n → ∃ np ng, P.nodes[i]? = some np ∧ G.nodes[φ.getD i 0]? = some ng ∧ nodeOK ng np = true
  bonded : ∀ i j, i < j → j < P.n → ∀ ep, edge? P.bonds i j = some ep →
    ∃ eg, edge? G.bonds (φ.getD i 0) (φ.getD j 0) = some eg ∧ edgeOK eg ep = true
  nonbonded : ∀ i j, i < j → j < P.n → edge? P.bonds i j = none →
    edge? G.bonds (φ.getD i 0) (φ.getD j 0) = none

theorem isPartial_iff_embedding {NA NB EA EB : Type} (nodeOK : NA → NB → Bool) (edgeOK : EA → EB → Bool)
    (P : LGraph NB EB) (G : LGraph NA EA) (φ : List Nat) :
    IsPartial nodeOK edgeOK P G P.n φ ↔ IsInducedEmbedding nodeOK edgeOK P G φ := by
  constructor
  · intro h
    have hnode : ∀ i (hi : i < P.n), ∃ np ng, P.nodes[i]? = some np ∧ G.nodes[φ.getD i 0]? = some ng ∧ nodeOK ng np = true := by
      intro i hi
      have := h.node i hi
      unfold nodeCond at this
      split at this
      · rename_i np ng h1 h2; exact ⟨np, ng, h1, h2, this⟩
      · simp at this
    refine ⟨h.len, ?_, h.inj, hnode, ?_, ?_⟩
    · intro x hx
      obtain ⟨i, hi, rfl⟩ := List.getElem_of_mem hx
      obtain ⟨_, ng, _, hg, _⟩ := hnode i (h.len ▸ hi)
      have e : φ.getD i 0 = φ[i] := by simp [List.getD_eq_getElem?_getD, hi]
      rw [e] at hg
      exact (List.getElem?_eq_some_iff.1 hg).1
    · intro i j hij hj ep hep
      have := h.edge i j hij hj
      unfold edgeCond at this
      rw [hep] at this
      split at this
      · rename_i ep' eg h1 h2
        cases h1; exact ⟨eg, h2, this⟩
      · rename_i h1 _; cases h1
      · simp at this
    · intro i j hij hj hep
      have := h.edge i j hij hj
      unfold edgeCond at this
      rw [hep] at this
      split at this
      · rename_i h1 _; cases h1
      · rename_i h2; exact h2
      · simp at this
  · intro h
    refine ⟨h.total, h.inj, ?_, ?_⟩
    · intro i hi
      obtain ⟨np, ng, h1, h2, h3⟩ := h.node i hi
      simp only [nodeCond, h1, h2, h3]
    · intro i j hij hj
      unfold edgeCond
      cases hp : edge? P.bonds i j with
      | some ep =>
        obtain ⟨eg, h1, h2⟩ := h.bonded i j hij hj ep hp
        simp only [h1, h2]
      | none =>
        have := h.nonbonded i j hij hj hp
        simp only [this]

/-- "none invalid": everything the enumerator returns is an induced embedding. -/
theorem embeddings_sound {NA NB EA EB : Type} (nodeOK : NA → NB → Bool) (edgeOK : EA → EB → Bool)
    (P : LGraph NB EB) (G : LGraph NA EA) (φ : List Nat) (h : φ ∈ embeddings nodeOK edgeOK P G) :
    IsInducedEmbedding nodeOK edgeOK P G φ :=
  (isPartial_iff_embedding nodeOK edgeOK P G φ).1 ((mem_partials nodeOK edgeOK P G P.n φ).1 h)

/-- "none missed": every induced embedding is returned. -/
theorem embeddings_complete {NA NB EA EB : Type} (nodeOK : NA → NB → Bool) (edgeOK : EA → EB → Bool)
    (P : LGraph NB EB) (G : LGraph NA EA) (φ : List Nat) (h : IsInducedEmbedding nodeOK edgeOK P G φ) :
    φ ∈ embeddings nodeOK edgeOK P G :=
  (mem_partials nodeOK edgeOK P G P.n φ).2 ((isPartial_iff_embedding nodeOK edgeOK P G φ).2 h)

/-- each embedding is returned once -/
theorem embeddings_nodup {NA NB EA EB : Type} (nodeOK : NA → NB → Bool) (edgeOK : EA → EB → Bool)
    (P : LGraph NB EB) (G : LGraph NA EA) : (embeddings nodeOK edgeOK P G).Nodup :=
  nodup_partials nodeOK edgeOK P G P.n

/-- `edge?` does not depend on the order in which the two atoms are given -/
theorem edge?_symm {EA : Type} (bonds : List (Bond EA)) (i j : Nat) : edge? bonds i j = edge? bonds j i := by
  unfold edge?
  congr 1
  induction bonds with
  | nil => rfl
  | cons x t ih => simp only [List.find?_cons, ih, Bool.or_comm]

/-- the property's own instance: elements must agree unless the pattern atom is `Unknown` (= 0),
bond attributes are not compared -/
def elementOK (g p : Nat) : Bool := p == 0 || g == p

theorem embeddings_elements (P G : LGraph Nat Unit) (φ : List Nat) :
    φ ∈ embeddings elementOK (fun _ _ => true) P G ↔
      IsInducedEmbedding elementOK (fun _ _ => true) P G φ :=
  ⟨embeddings_sound _ _ P G φ, embeddings_complete _ _ P G φ⟩

/-- with the code's `_node_match` restricted to atoms without isotope / stereo annotations the node
predicate is the property's element rule -/
theorem nodeMatch_plain (g p : NodeA) (hp : p.isotope = none) (hs : p.stereo = 0) :
    nodeMatch 0 0 g p = elementOK g.element p.element := by
  unfold nodeMatch elementOK
  simp only [hp, hs, Option.isSome_none, Bool.false_and, Bool.not_false, Bool.and_true, bne_self_eq_false]
  by_cases h1 : p.element = 0 <;> by_cases h2 : g.element = p.element <;> simp [bne, h1, h2]

/-! ## non-vacuity: concrete instances -/

/-- a 4-ring 0-1-2-3 with a tail 3-4 and a separate atom 5 (bond list order as given) -/
def exBonds : List (Bond Unit) := [⟨0, 1, ()⟩, ⟨2, 1, ()⟩, ⟨2, 3, ()⟩, ⟨3, 0, ()⟩, ⟨3, 4, ()⟩]
def exG : LGraph Nat Unit := ⟨[6, 6, 7, 6, 8, 6], exBonds⟩

example : exG.WF := by unfold LGraph.WF; decide
example : bfsd exG.adj exG.n 0 = [(1, 1), (3, 1), (2, 2), (4, 2)] := by decide
example : bfsdDir exG.adj exG.n 3 4 = [(4, 1)] := by decide
example : bfsdDir exG.adj exG.n 0 1 = [(1, 1), (2, 2), (3, 3), (4, 4)] := by decide
example : inRing exG.adj exG.n 0 1 = true ∧ inRing exG.adj exG.n 3 4 = false := by decide
/-- pattern C–N (element 0 = Unknown would match any) in the example graph -/
example : embeddings elementOK (fun _ _ => true) (⟨[6, 7], [⟨0, 1, ()⟩]⟩ : LGraph Nat Unit) exG
    = [[1, 2], [3, 2]] := by decide
example : embeddings elementOK (fun _ _ => true) (⟨[0, 8], [⟨0, 1, ()⟩]⟩ : LGraph Nat Unit) exG
    = [[3, 4]] := by decide

end Molli.Props.C15
