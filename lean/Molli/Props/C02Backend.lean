/-
C02 (backend level) — "Inside a writing session every key the collection lists is readable", and the
buffered collection is the same insert-only map for every buffer size.

Model: `Molli.Model.Backend` (write queue, `_keys`, `_usedmem`, `bufsize`, flush) on top of the UKV world.
`BInv` is the state of a writing session: the world is well formed, the backend's handle is open for
writing and synchronised, every other handle object is closed, and `_keys` lists exactly the stored
records followed by the queued ones (all keys distinct, every queued pair fits a block header).
-/
import Molli.Props.C02
import Molli.Model.Backend
namespace Molli.Props.C02Backend
open Molli.Util Molli.Model.Ukv Molli.Model.Backend Molli.Lemmas.Ukv Molli.Props.C02

/-- The world part of a writing session: handle `slot` is open, writable, synchronised; all others closed. -/
structure SessW (w : World) (slot : Nat) (h1 h2 b0 : Bytes) (recs : List KV) : Prop where
  wf : WF w h1 h2 b0 recs
  others : othersClosed w slot
  handle : ∃ h, getH w slot = some h ∧ Synced h h2 b0 recs

theorem sessW_put {w : World} {slot : Nat} {h1 h2 b0 : Bytes} {recs : List KV} (hs : SessW w slot h1 h2 b0 recs)
    (kv : KV) (hok : kv.ok) (hfresh : kv.key ∉ recs.map (·.key)) :
    (step w (.put slot kv.key kv.val)).2 = .ok ∧
    SessW (step w (.put slot kv.key kv.val)).1 slot h1 h2 b0 (recs ++ [kv]) := by
  obtain ⟨h, hg, hsy⟩ := hs.handle
  obtain ⟨h', hstep, hsy', _⟩ := put_synced w slot h h1 h2 b0 recs kv hg hs.wf.file hsy hok hfresh
  have hcases := put_cases hs.wf slot kv.key kv.val hs.others
  rcases hcases with ⟨e, he⟩ | ⟨_, _, _, hwf'⟩
  · rw [hstep] at he; have := congrArg Prod.snd he; simp at this
  · refine ⟨by rw [hstep], hwf', ?_, ?_⟩
    · rw [hstep]
      intro j hj hji hgj
      rw [getH_setH_other _ _ _ _ hji] at hgj
      exact hs.others j hj hji hgj
    · rw [hstep]
      exact ⟨h', getH_setH_same _ _ _, hsy'⟩

/-- `flush()` inside a writing session writes every queued pair, in order, without error. -/
theorem flushQ_drains (q : List KV) : ∀ (w : World) (slot : Nat) (h1 h2 b0 : Bytes) (recs : List KV),
    SessW w slot h1 h2 b0 recs → (∀ kv ∈ q, kv.ok) → ((recs ++ q).map (·.key)).Nodup →
    ∃ w', flushQ w slot q = (w', [], none) ∧ SessW w' slot h1 h2 b0 (recs ++ q) := by
  induction q with
  | nil => intro w slot h1 h2 b0 recs hs _ _; exact ⟨w, rfl, by simpa using hs⟩
  | cons kv q ih =>
    intro w slot h1 h2 b0 recs hs hok hnd
    have hfresh : kv.key ∉ recs.map (·.key) := by
      intro hmem
      rw [List.map_append, List.nodup_append] at hnd
      exact hnd.2.2 _ hmem _ (by simp) rfl
    obtain ⟨hout, hs'⟩ := sessW_put hs kv (hok kv (by simp)) hfresh
    obtain ⟨w', hfl, hs''⟩ := ih _ slot h1 h2 b0 (recs ++ [kv]) hs' (fun x hx => hok x (by simp [hx]))
      (by simpa [List.append_assoc] using hnd)
    refine ⟨w', ?_, by simpa [List.append_assoc] using hs''⟩
    simp only [flushQ]
    generalize hst : step w (.put slot kv.key kv.val) = st at hout hfl
    obtain ⟨w1, o1⟩ := st
    simp only at hout hfl
    subst hout
    exact hfl

/-- The state of a writing session of backend `c`. -/
structure BInv (bw : BWorld) (c : Nat) (b : Backend) (h1 h2 b0 : Bytes) (recs : List KV) : Prop where
  here : getB bw c = some b
  rw_ : b.readonly = false
  st : b.state = .writing
  hf : b.hasFile = true
  sess : SessW bw.w b.slot h1 h2 b0 recs
  keys : b.keys = recs.map (·.key) ++ b.queue.map (·.key)
  qok : ∀ kv ∈ b.queue, kv.ok
  nodup : ((recs ++ b.queue).map (·.key)).Nodup

/-- `flush_drains`: flushing inside a writing session succeeds for every queue, empties it, resets the
used memory and leaves exactly the stored records plus the formerly queued ones in the file; the key
listing is unchanged. -/
theorem flush_drains {bw : BWorld} {c : Nat} {b : Backend} {h1 h2 b0 : Bytes} {recs : List KV}
    (hi : BInv bw c b h1 h2 b0 recs) :
    ∃ bw', flush bw c b = (bw', .ok) ∧
      BInv bw' c { b with queue := [], usedmem := 0 } h1 h2 b0 (recs ++ b.queue) := by
  obtain ⟨w', hfl, hs'⟩ := flushQ_drains b.queue bw.w b.slot h1 h2 b0 recs hi.sess hi.qok hi.nodup
  refine ⟨setB { bw with w := w' } c (some { b with queue := [], usedmem := 0 }), by simp only [flush, hfl], ?_⟩
  refine ⟨by simp [getB, setB], hi.rw_, hi.st, hi.hf, hs', ?_, by simp, by simpa using hi.nodup⟩
  simp [hi.keys]

theorem lookupQ_mem (q : List KV) (kv : KV) (hm : kv ∈ q) (hn : (q.map (·.key)).Nodup) :
    lookupQ q kv.key = some kv.val := by
  induction q with
  | nil => cases hm
  | cons a t ih =>
    simp only [List.map_cons, List.nodup_cons] at hn
    rcases List.mem_cons.mp hm with rfl | hmem
    · simp [lookupQ]
    · have hne : a.key ≠ kv.key := fun he => hn.1 (by rw [he]; exact List.mem_map_of_mem hmem)
      simp [lookupQ, hne, ih hmem hn.2]

theorem lookupQ_none (q : List KV) (k : Bytes) (hk : k ∉ q.map (·.key)) : lookupQ q k = none := by
  induction q with
  | nil => rfl
  | cons a t ih =>
    simp only [List.map_cons, List.mem_cons, not_or] at hk
    simp [lookupQ, Ne.symm hk.1, ih hk.2]

/-- **`listed_readable`** — "Inside a writing session every key the collection lists is readable":
for every buffer size and every state of the queue, `c[k]` of a listed key returns a value, and it is the
value that was put under that key (whether it is already in the file or still queued). -/
theorem listed_readable {bw : BWorld} {c : Nat} {b : Backend} {h1 h2 b0 : Bytes} {recs : List KV}
    (hi : BInv bw c b h1 h2 b0 recs) (k : Bytes) (hk : k ∈ b.keys) :
    ∃ kv, kv ∈ recs ++ b.queue ∧ kv.key = k ∧ bstep bw (.get c k) = (bw, .val kv.val) := by
  rw [hi.keys, List.mem_append] at hk
  have hnd := hi.nodup
  rw [List.map_append, List.nodup_append] at hnd
  by_cases hq : k ∈ b.queue.map (·.key)
  · obtain ⟨kv, hkv, rfl⟩ := List.mem_map.mp hq
    refine ⟨kv, List.mem_append_right _ hkv, rfl, ?_⟩
    simp [bstep, hi.here, lookupQ_mem b.queue kv hkv hnd.2.1]
  · have hr : k ∈ recs.map (·.key) := by rcases hk with h | h; exact h; exact absurd h hq
    obtain ⟨kv, hkv, rfl⟩ := List.mem_map.mp hr
    refine ⟨kv, List.mem_append_left _ hkv, rfl, ?_⟩
    obtain ⟨h, hg, hsy⟩ := hi.sess.handle
    have hget := get_returns_put_value hi.sess.wf b.slot h hg hsy.open_ kv hkv
    simp [bstep, hi.here, lookupQ_none b.queue kv.key hq, hget]

/-- A put of a new key that fits the block header succeeds for every buffer size; afterwards the session
invariant holds again and the collection holds exactly one more pair (already flushed or still queued). -/
theorem cput_ok {bw : BWorld} {c : Nat} {b : Backend} {h1 h2 b0 : Bytes} {recs : List KV}
    (hi : BInv bw c b h1 h2 b0 recs) (k v : Bytes) (klen : Nat) (hnew : k ∉ b.keys) (hk : k.length < 256)
    (hv : v.length < 4294967296) :
    ∃ bw' b' recs', bstep bw (.put c k v klen) = (bw', .ok) ∧ BInv bw' c b' h1 h2 b0 recs' ∧
      recs' ++ b'.queue = recs ++ b.queue ++ [⟨k, v⟩] ∧ b'.keys = b.keys ++ [k] := by
  have hc : b.keys.contains k = false := by simpa using hnew
  let b1 : Backend := { b with queue := b.queue ++ [⟨k, v⟩], keys := b.keys ++ [k],
                               usedmem := b.usedmem + klen + v.length }
  have hi1 : BInv (setB bw c (some b1)) c b1 h1 h2 b0 recs := by
    refine ⟨by simp [getB, setB], hi.rw_, hi.st, hi.hf, hi.sess, ?_, ?_, ?_⟩
    · simp [b1, hi.keys, List.append_assoc]
    · intro kv hkv
      rcases List.mem_append.mp hkv with h | h
      · exact hi.qok kv h
      · simp only [List.mem_singleton] at h; subst h; exact ⟨hk, hv⟩
    · have : (recs ++ b1.queue).map (·.key) = (recs ++ b.queue).map (·.key) ++ [k] := by
        simp [b1, List.append_assoc]
      rw [this, List.nodup_append]
      refine ⟨hi.nodup, by simp, ?_⟩
      intro a ha x hx
      simp only [List.mem_singleton] at hx; subst hx
      intro he; subst he
      apply hnew
      rw [hi.keys, ← List.map_append]; exact ha
  have hstep : bstep bw (.put c k v klen) =
      if (b1.usedmem : Int) > b1.bufsize then flush (setB bw c (some b1)) c b1
      else (setB bw c (some b1), .ok) := by
    simp only [bstep, hi.here]
    rw [if_neg (by simp [hi.rw_]), if_neg (by simpa using hnew), if_neg (by simp [hk])]
  by_cases hbig : ((b1.usedmem : Int) > b1.bufsize)
  · obtain ⟨bw', hfl, hi'⟩ := flush_drains hi1
    refine ⟨bw', _, _, ?_, hi', by simp [b1, List.append_assoc], rfl⟩
    rw [hstep, if_pos hbig]; exact hfl
  · refine ⟨_, b1, recs, ?_, hi1, by simp [b1, List.append_assoc], rfl⟩
    rw [hstep, if_neg hbig]

/-- "an operation that fails (duplicate key, oversize key, write on read-only …) leaves … every handle's
view unchanged", at the collection level: such a put changes nothing at all. -/
theorem cput_fail_frame (bw : BWorld) (c : Nat) (b : Backend) (hb : getB bw c = some b) (k v : Bytes) (klen : Nat)
    (h : b.readonly = true ∨ k ∈ b.keys ∨ ¬ k.length < 256) :
    ∃ e, bstep bw (.put c k v klen) = (bw, .err e) := by
  simp only [bstep, hb]
  by_cases hr : b.readonly = true
  · exact ⟨.readonly, by rw [if_pos hr]⟩
  · rw [if_neg hr]
    by_cases hk : b.keys.contains k = true
    · exact ⟨.keyExists, by rw [if_pos hk]⟩
    · rw [if_neg hk]
      rcases h with h | h | h
      · exact absurd h hr
      · exact absurd (by simpa using h) hk
      · exact ⟨.tooLong, by rw [if_pos h]⟩


/-- All handle objects of the world are closed (no session is open). -/
def AllClosed (w : World) : Prop := ∀ j h, getH w j = some h → h.closed = true

/-- Between sessions: the backend object exists, is writable, has an empty queue, and its handle slot is
consistent with `hasattr(self, "_ukvfile")`. -/
structure Idle (bw : BWorld) (c : Nat) (b : Backend) : Prop where
  here : getB bw c = some b
  rw_ : b.readonly = false
  empty : b.queue = []
  slot : b.hasFile = (getH bw.w b.slot).isSome

/-- **A writing session starts in the session invariant**: on a well-formed library with no session open,
`writing()` (begin_write + update_keys) succeeds and establishes `BInv` with the keys of exactly the
stored records — whether the backend opens its file for the first time or reopens a stale cached handle. -/
theorem begin_establishes {bw : BWorld} {c : Nat} {b : Backend} {h1 h2 b0 : Bytes} {recs : List KV}
    (hw : WF bw.w h1 h2 b0 recs) (hc : AllClosed bw.w) (hi : Idle bw c b) :
    ∃ bw' b', bstep bw (.begin c true) = (bw', .ok) ∧ BInv bw' c b' h1 h2 b0 recs ∧ b'.queue = [] := by
  have hb := hi.here
  -- the world after begin_write: handle `b.slot` replaced by an open, synchronised handle in mode a
  have key : ∃ h', (if b.hasFile then step bw.w (.reopen b.slot (some .a)) else step bw.w (.new b.slot .a [] [] [])) =
      (setH { bw.w with file := bw.w.file } b.slot (some h'), .ok) ∧ h'.closed = false ∧ HInv h' h2 b0 recs ∧ h'.mode = .a := by
    cases hf : b.hasFile with
    | true =>
      have hsome : (getH bw.w b.slot).isSome = true := by rw [← hi.slot, hf]
      obtain ⟨h, hg⟩ := Option.isSome_iff_exists.mp hsome
      have hcl := hc b.slot h hg
      have hinv := hw.handles b.slot h hg
      obtain ⟨h', ho, hc', hi', hm'⟩ := wf_open_ra hw b.slot { h with mode := .a } (Or.inr rfl) (by
        obtain ⟨j, a, e⟩ := hinv_weaken_pre hinv
        exact ⟨j, a, e⟩)
      refine ⟨h', ?_, hc', hi', hm'⟩
      have hnc : (!h.closed) = false := by rw [hcl]; rfl
      simp only [step, hg, hnc, Bool.false_eq_true, ↓reduceIte, ho]
    | false =>
      obtain ⟨h', ho, hc', hi', hm'⟩ := wf_open_ra hw b.slot (newHandle .a [] [] []) (Or.inr rfl)
        ⟨0, by simp [newHandle, tocOf], Or.inl rfl⟩
      refine ⟨h', ?_, hc', hi', hm'⟩
      simp only [step, ho, Bool.false_eq_true, ↓reduceIte]
  obtain ⟨h', hstep, hopen, hinv', hmode⟩ := key
  obtain ⟨htoc, heof⟩ := hinv'.sync hopen
  have hw' : WF (setH { bw.w with file := bw.w.file } b.slot (some h')) h1 h2 b0 recs :=
    wf_setH hw b.slot _ (fun x hx => by cases hx; exact ⟨hinv', fun hcc => by rw [hopen] at hcc; cases hcc⟩)
  refine ⟨setB { bw with w := setH { bw.w with file := bw.w.file } b.slot (some h') } c
      (some { b with hasFile := true, state := .writing, keys := recs.map (·.key) }),
    { b with hasFile := true, state := .writing, keys := recs.map (·.key) }, ?_, ?_, hi.empty⟩
  · simp only [bstep, hb, hi.rw_, Bool.and_false, Bool.false_eq_true, ↓reduceIte]
    rw [hstep]
    simp only [tocKeys, getH_setH_same, htoc, tocOf_keys]
  · refine ⟨by simp [getB, setB], hi.rw_, rfl, rfl, ⟨hw', ?_, h', getH_setH_same _ _ _, ⟨hopen, by rw [hmode]; decide, htoc, heof⟩⟩,
      by simp [hi.empty], by simp [hi.empty], by simpa [hi.empty] using hw.nodup⟩
    intro j hj hji hgj
    have hgj' : getH (setH { bw.w with file := bw.w.file } b.slot (some h')) j = some hj := hgj
    rw [getH_setH_other _ _ _ _ hji] at hgj'
    exact hc j hj hgj'



/-- **The exit of a writing session** flushes what is queued, closes the file and leaves a well-formed
library that holds the stored and the queued records, with no session open and the backend idle again. -/
theorem end_restores {bw : BWorld} {c : Nat} {b : Backend} {h1 h2 b0 : Bytes} {recs : List KV}
    (hi : BInv bw c b h1 h2 b0 recs) :
    ∃ bw' b', bstep bw (.end_ c) = (bw', .ok) ∧ WF bw'.w h1 h2 b0 (recs ++ b.queue) ∧ AllClosed bw'.w ∧
      Idle bw' c b' := by
  obtain ⟨bw1, hfl, hi1⟩ := flush_drains hi
  obtain ⟨h, hg, hsy⟩ := hi1.sess.handle
  let b1 : Backend := { b with queue := [], usedmem := 0 }
  have hb1 : getB bw1 c = some b1 := hi1.here
  have hclose : ∃ hcl : Handle, hcl.closed = true ∧ (step bw1.w (.close b1.slot)).1 = setH bw1.w b1.slot (some hcl) := by
    have hg' : getH bw1.w b1.slot = some h := hg
    simp only [step, hg']
    exact ⟨_, rfl, rfl⟩
  obtain ⟨hcl, hclc, hclose⟩ := hclose
  refine ⟨setB { bw1 with w := (step bw1.w (.close b.slot)).1 } c (some { b1 with state := .idle }),
    { b1 with state := .idle }, ?_, ?_, ?_, ?_⟩
  · simp only [bstep, hi.here, hi.st, hfl, hb1]
  · exact wf_close hi1.sess.wf b.slot
  · intro j hj hgj
    have hgj' : getH (step bw1.w (.close b1.slot)).1 j = some hj := hgj
    rw [hclose] at hgj'
    by_cases hji : j = b1.slot
    · subst hji; rw [getH_setH_same] at hgj'; cases hgj'; exact hclc
    · rw [getH_setH_other _ _ _ _ hji] at hgj'
      exact hi1.sess.others j hj hji hgj'
  · refine ⟨by simp [getB, setB], hi.rw_, rfl, ?_⟩
    show b.hasFile = (getH (step bw1.w (.close b1.slot)).1 b1.slot).isSome
    rw [hclose, getH_setH_same, hi.hf]; rfl

def brun (bw : BWorld) (ops : List BOp) : BWorld := ops.foldl (fun w o => (bstep w o).1) bw

def bouts : BWorld → List BOp → List BOut
  | _, [] => []
  | bw, o :: ops => (bstep bw o).2 :: bouts (bstep bw o).1 ops

def putOpsB (c : Nat) (ps : List KV) : List BOp := ps.map (fun kv => BOp.put c kv.key kv.val kv.key.length)

/-- Any number of puts of fresh keys inside a writing session, for every buffer size: all succeed, the
invariant holds afterwards, and stored ++ queued grew by exactly those pairs in order. -/
theorem cputs_ok (ps : List KV) : ∀ {bw : BWorld} {c : Nat} {b : Backend} {h1 h2 b0 : Bytes} {recs : List KV},
    BInv bw c b h1 h2 b0 recs → (∀ kv ∈ ps, kv.ok) → ((recs ++ b.queue ++ ps).map (·.key)).Nodup →
    ∃ b' recs', BInv (brun bw (putOpsB c ps)) c b' h1 h2 b0 recs' ∧ recs' ++ b'.queue = recs ++ b.queue ++ ps ∧
      (bouts bw (putOpsB c ps)).all (· == .ok) = true := by
  induction ps with
  | nil => intro bw c b h1 h2 b0 recs hi _ _; exact ⟨b, recs, hi, by simp, rfl⟩
  | cons p ps ih =>
    intro bw c b h1 h2 b0 recs hi hok hnd
    have hnew : p.key ∉ b.keys := by
      rw [hi.keys, ← List.map_append]
      intro hmem
      rw [List.map_append, List.nodup_append] at hnd
      exact hnd.2.2 _ hmem _ (by simp) rfl
    obtain ⟨bw', b', recs', hstep, hi', hsum, _⟩ := cput_ok hi p.key p.val p.key.length hnew (hok p (by simp)).1 (hok p (by simp)).2
    have hnd' : ((recs' ++ b'.queue ++ ps).map (·.key)).Nodup := by
      rw [hsum]; simpa [List.append_assoc] using hnd
    obtain ⟨b'', recs'', hi'', hsum'', houts⟩ := ih hi' (fun kv hkv => hok kv (by simp [hkv])) hnd'
    refine ⟨b'', recs'', ?_, ?_, ?_⟩
    · simpa [brun, putOpsB, hstep] using hi''
    · rw [hsum'', hsum]; simp [List.append_assoc]
    · simp only [putOpsB, List.map_cons, bouts, hstep, List.all_cons]
      simpa [putOpsB] using houts

/-- One complete writing session: `with c.writing(): for k, v in puts: c[k] = v`. -/
def sessionOps (c : Nat) (ps : List KV) : List BOp := .begin c true :: (putOpsB c ps ++ [.end_ c])

theorem brun_append (bw : BWorld) (a b : List BOp) : brun bw (a ++ b) = brun (brun bw a) b := by
  simp [brun, List.foldl_append]

/-- **No record of a completed session is lost, for every buffer size**: a complete writing session that
puts fresh keys leaves a well-formed library holding exactly the former records followed by the new ones,
with no session open and the backend idle — ready for the next session. -/
theorem session_commits {bw : BWorld} {c : Nat} {b : Backend} {h1 h2 b0 : Bytes} {recs : List KV}
    (hw : WF bw.w h1 h2 b0 recs) (hc : AllClosed bw.w) (hi : Idle bw c b) (ps : List KV)
    (hok : ∀ kv ∈ ps, kv.ok) (hnd : ((recs ++ ps).map (·.key)).Nodup) :
    ∃ b', WF (brun bw (sessionOps c ps)).w h1 h2 b0 (recs ++ ps) ∧ AllClosed (brun bw (sessionOps c ps)).w ∧
      Idle (brun bw (sessionOps c ps)) c b' := by
  obtain ⟨bw1, b1, hbeg, hi1, hq1⟩ := begin_establishes hw hc hi
  obtain ⟨b2, recs2, hi2, hsum, _⟩ := cputs_ok ps hi1 hok (by simpa [hq1] using hnd)
  obtain ⟨bw3, b3, hend, hw3, hc3, hi3⟩ := end_restores hi2
  refine ⟨b3, ?_, ?_, ?_⟩ <;>
  · have hrun : brun bw (sessionOps c ps) = bw3 := by
      simp only [sessionOps, brun, List.foldl_cons, hbeg, List.foldl_append, List.foldl_nil]
      simp only [brun] at hend hi2
      rw [hend]
    rw [hrun]
    first
      | (rw [hsum, hq1] at hw3; simpa using hw3)
      | exact hc3
      | exact hi3

/-- … and so for any number of sessions in a row (induction over the list of sessions): the library ends
up holding every record of every session, in order. -/
theorem sessions_accumulate (sessions : List (List KV)) : ∀ {bw : BWorld} {c : Nat} {b : Backend} {h1 h2 b0 : Bytes}
    {recs : List KV}, WF bw.w h1 h2 b0 recs → AllClosed bw.w → Idle bw c b →
    (∀ ps ∈ sessions, ∀ kv ∈ ps, kv.ok) → ((recs ++ sessions.flatten).map (·.key)).Nodup →
    ∃ b', WF (brun bw (sessions.flatMap (sessionOps c))).w h1 h2 b0 (recs ++ sessions.flatten) ∧
      AllClosed (brun bw (sessions.flatMap (sessionOps c))).w ∧ Idle (brun bw (sessions.flatMap (sessionOps c))) c b' := by
  induction sessions with
  | nil => intro bw c b h1 h2 b0 recs hw hc hi _ _; exact ⟨b, by simpa [brun] using hw, by simpa [brun] using hc, by simpa [brun] using hi⟩
  | cons ps rest ih =>
    intro bw c b h1 h2 b0 recs hw hc hi hok hnd
    have hnd1 : ((recs ++ ps).map (·.key)).Nodup := by
      have : (recs ++ (ps :: rest).flatten) = (recs ++ ps) ++ rest.flatten := by simp [List.append_assoc]
      rw [this, List.map_append] at hnd
      exact (List.nodup_append.mp hnd).1
    obtain ⟨b1, hw1, hc1, hi1⟩ := session_commits hw hc hi ps (hok ps (by simp)) hnd1
    obtain ⟨b2, hw2, hc2, hi2⟩ := ih hw1 hc1 hi1 (fun qs hqs => hok qs (by simp [hqs]))
      (by simpa [List.append_assoc] using hnd)
    refine ⟨b2, ?_, ?_, ?_⟩
    · simpa [List.flatMap_cons, brun_append, List.append_assoc] using hw2
    · simpa [List.flatMap_cons, brun_append] using hc2
    · simpa [List.flatMap_cons, brun_append] using hi2



@[simp] theorem setB_w (bw : BWorld) (c : Nat) (x : Option Backend) : (setB bw c x).w = bw.w := rfl

/-- **Creating a collection on a fresh path** yields a well-formed empty library (header comment preserved),
no session open, the backend idle: the starting point of `sessions_accumulate`, so its hypotheses are
met by every library created through the public constructor. -/
theorem cnew_establishes (c : Nat) (bufsize : Int) (comment : Bytes) (hcm : comment.length < 65536) :
    ∃ b, WF (bstep initB (.cnew c bufsize false false comment)).1.w defaultH1 comment [] [] ∧
      AllClosed (bstep initB (.cnew c bufsize false false comment)).1.w ∧
      Idle (bstep initB (.cnew c bufsize false false comment)).1 c b := by
  have hw0 := wf_create initWorld (tmpSlot c) .x [] comment [] ⟨hcm, by simp⟩ (Or.inr rfl) (fun j _ => rfl)
  have hw1 := wf_close hw0 (tmpSlot c)
  have hbw : (bstep initB (.cnew c bufsize false false comment)).1 =
      setB { initB with w := setH (setH (step (step initWorld (.new (tmpSlot c) .x [] comment [])).1 (.close (tmpSlot c))).1
                (tmpSlot c) none) (slotOf c) none } c
        (some { slot := slotOf c, hasFile := false, readonly := false, bufsize := bufsize, queue := [], keys := [],
                usedmem := 0, state := .idle }) := by
    simp [bstep, initB, initWorld]
  have hstep1 : (step initWorld (.new (tmpSlot c) .x [] comment [])).1 =
      setH { initWorld with file := some (encHeader (newHandle .x [] comment []).h1 comment []) } (tmpSlot c)
        (some { newHandle .x [] comment [] with closed := false, eof := some (bofOf comment []) }) := rfl
  rw [hbw]
  refine ⟨{ slot := slotOf c, hasFile := false, readonly := false, bufsize := bufsize, queue := [], keys := [],
            usedmem := 0, state := .idle }, ?_, ?_, ⟨by simp [getB, setB], rfl, rfl, ?_⟩⟩
  · have h2 := wf_setH (wf_setH (by rw [← hstep1] at hw1; exact hw1) (tmpSlot c) none (fun h he => by cases he))
      (slotOf c) none (fun h he => by cases he)
    simpa [newHandle, defaultH1, setB_w] using h2
  · intro j h hg
    simp only [setB_w] at hg
    by_cases hj1 : j = slotOf c
    · subst hj1; rw [getH_setH_same] at hg; cases hg
    · rw [getH_setH_other _ _ _ _ hj1] at hg
      by_cases hj2 : j = tmpSlot c
      · subst hj2; rw [getH_setH_same] at hg; cases hg
      · rw [getH_setH_other _ _ _ _ hj2] at hg
        -- any other slot is untouched by new/close of the temporary handle: it is empty
        rw [hstep1] at hg
        simp only [step, getH_setH_same] at hg
        rw [getH_setH_other _ _ _ _ hj2, getH_setH_other _ _ _ _ hj2] at hg
        cases hg
  · simp only [setB_w, getH_setH_same]; rfl


/-! ### a concrete buffered session (non-vacuity / sanity): with a large buffer the pair is listed and
readable before anything reached the file, a duplicate and an oversize key are refused, and after the
session a reading session sees the record -/

def exRun : List BOut :=
  let ops : List BOp := [.cnew 0 1000000 false false [], .begin 0 true, .put 0 [97] [49] 1, .keys 0, .get 0 [97],
                         .put 0 [97] [50] 1, .put 0 (List.replicate 256 76) [1] 256, .end_ 0, .begin 0 false, .get 0 [97], .end_ 0]
  (ops.foldl (fun (acc : BWorld × List BOut) o => let r := bstep acc.1 o; (r.1, acc.2 ++ [r.2])) (initB, [])).2

example : exRun = [.ok, .ok, .ok, .keys [[97]], .val [49], .err .keyExists, .err .tooLong, .ok, .ok, .val [49], .ok] := by
  decide +kernel

end Molli.Props.C02Backend
