/-
C02 (backend level) — "Inside a writing session every key the collection lists is readable", and the
buffered collection is the same insert-only map for every buffer size.

Model: `Molli.Model.Backend` (write queue, `_keys`, `_usedmem`, `bufsize`, flush) on top of the UKV world.
`BInv` is the state of a writing session: the world is well formed, the backend's handle is open for
writing and synchronised, every other handle object is closed, and `_keys` lists exactly the stored
records followed by the queued ones (all keys distinct, every queued pair fits a block header).
-/
import Molli.Props.C02
import Molli.Model.Backend
namespace Molli.Props.C02Backend
open Molli.Util Molli.Model.Ukv Molli.Model.Backend Molli.Lemmas.Ukv Molli.Props.C02

/-- The world part of a writing session: handle `slot` is open, writable, synchronised; all others closed. -/
structure SessW (w : World) (slot : Nat) (h1 h2 b0 : Bytes) (recs : List KV) : Prop where
  wf : WF w h1 h2 b0 recs
  others : othersClosed w slot
  handle : ∃ h, getH w slot = some h ∧ Synced h h2 b0 recs

theorem sessW_put {w : World} {slot : Nat} {h1 h2 b0 : Bytes} {recs : List KV} (hs : SessW w slot h1 h2 b0 recs)
    (kv : KV) (hok : kv.ok) (hfresh : kv.key ∉ recs.map (·.key)) :
    (step w (.put slot kv.key kv.val)).2 = .ok ∧
    SessW (step w (.put slot kv.key kv.val)).1 slot h1 h2 b0 (recs ++ [kv]) := by
  obtain ⟨h, hg, hsy⟩ := hs.handle
  obtain ⟨h', hstep, hsy', _⟩ := put_synced w slot h h1 h2 b0 recs kv hg hs.wf.file hsy hok hfresh
  have hcases := put_cases hs.wf slot kv.key kv.val hs.others
  rcases hcases with ⟨e, he⟩ | ⟨_, _, _, hwf'⟩
  · rw [hstep] at he; have := congrArg Prod.snd he; simp at this
  · refine ⟨by rw [hstep], hwf', ?_, ?_⟩
    · rw [hstep]
      intro j hj hji hgj
      rw [getH_setH_other _ _ _ _ hji] at hgj
      exact hs.others j hj hji hgj
    · rw [hstep]
      exact ⟨h', getH_setH_same _ _ _, hsy'⟩

/-- `flush()` inside a writing session writes every queued pair, in order, without error. -/
theorem flushQ_drains (q : List KV) : ∀ (w : World) (slot : Nat) (h1 h2 b0 : Bytes) (recs : List KV),
    SessW w slot h1 h2 b0 recs → (∀ kv ∈ q, kv.ok) → ((recs ++ q).map (·.key)).Nodup →
    ∃ w', flushQ w slot q = (w', [], none) ∧ SessW w' slot h1 h2 b0 (recs ++ q) := by
  induction q with
  | nil => intro w slot h1 h2 b0 recs hs _ _; exact ⟨w, rfl, by simpa using hs⟩
  | cons kv q ih =>
    intro w slot h1 h2 b0 recs hs hok hnd
    have hfresh : kv.key ∉ recs.map (·.key) := by
      intro hmem
      rw [List.map_append, List.nodup_append] at hnd
      exact hnd.2.2 _ hmem _ (by simp) rfl
    obtain ⟨hout, hs'⟩ := sessW_put hs kv (hok kv (by simp)) hfresh
    obtain ⟨w', hfl, hs''⟩ := ih _ slot h1 h2 b0 (recs ++ [kv]) hs' (fun x hx => hok x (by simp [hx]))
      (by simpa [List.append_assoc] using hnd)
    refine ⟨w', ?_, by simpa [List.append_assoc] using hs''⟩
    simp only [flushQ]
    generalize hst : step w (.put slot kv.key kv.val) = st at hout hfl
    obtain ⟨w1, o1⟩ := st
    simp only at hout hfl
    subst hout
    exact hfl

/-- The state of a writing session of backend `c`. -/
structure BInv (bw : BWorld) (c : Nat) (b : Backend) (h1 h2 b0 : Bytes) (recs : List KV) : Prop where
  here : getB bw c = some b
  rw_ : b.readonly = false
  sess : SessW bw.w b.slot h1 h2 b0 recs
  keys : b.keys = recs.map (·.key) ++ b.queue.map (·.key)
  qok : ∀ kv ∈ b.queue, kv.ok
  nodup : ((recs ++ b.queue).map (·.key)).Nodup

/-- `flush_drains`: flushing inside a writing session succeeds for every queue, empties it, resets the
used memory and leaves exactly the stored records plus the formerly queued ones in the file; the key
listing is unchanged. -/
theorem flush_drains {bw : BWorld} {c : Nat} {b : Backend} {h1 h2 b0 : Bytes} {recs : List KV}
    (hi : BInv bw c b h1 h2 b0 recs) :
    ∃ bw', flush bw c b = (bw', .ok) ∧
      BInv bw' c { b with queue := [], usedmem := 0 } h1 h2 b0 (recs ++ b.queue) := by
  obtain ⟨w', hfl, hs'⟩ := flushQ_drains b.queue bw.w b.slot h1 h2 b0 recs hi.sess hi.qok hi.nodup
  refine ⟨setB { bw with w := w' } c (some { b with queue := [], usedmem := 0 }), by simp only [flush, hfl], ?_⟩
  refine ⟨by simp [getB, setB], hi.rw_, hs', ?_, by simp, by simpa using hi.nodup⟩
  simp [hi.keys]

theorem lookupQ_mem (q : List KV) (kv : KV) (hm : kv ∈ q) (hn : (q.map (·.key)).Nodup) :
    lookupQ q kv.key = some kv.val := by
  induction q with
  | nil => cases hm
  | cons a t ih =>
    simp only [List.map_cons, List.nodup_cons] at hn
    rcases List.mem_cons.mp hm with rfl | hmem
    · simp [lookupQ]
    · have hne : a.key ≠ kv.key := fun he => hn.1 (by rw [he]; exact List.mem_map_of_mem hmem)
      simp [lookupQ, hne, ih hmem hn.2]

theorem lookupQ_none (q : List KV) (k : Bytes) (hk : k ∉ q.map (·.key)) : lookupQ q k = none := by
  induction q with
  | nil => rfl
  | cons a t ih =>
    simp only [List.map_cons, List.mem_cons, not_or] at hk
    simp [lookupQ, Ne.symm hk.1, ih hk.2]

/-- **`listed_readable`** — "Inside a writing session every key the collection lists is readable":
for every buffer size and every state of the queue, `c[k]` of a listed key returns a value, and it is the
value that was put under that key (whether it is already in the file or still queued). -/
theorem listed_readable {bw : BWorld} {c : Nat} {b : Backend} {h1 h2 b0 : Bytes} {recs : List KV}
    (hi : BInv bw c b h1 h2 b0 recs) (k : Bytes) (hk : k ∈ b.keys) :
    ∃ kv, kv ∈ recs ++ b.queue ∧ kv.key = k ∧ bstep bw (.get c k) = (bw, .val kv.val) := by
  rw [hi.keys, List.mem_append] at hk
  have hnd := hi.nodup
  rw [List.map_append, List.nodup_append] at hnd
  by_cases hq : k ∈ b.queue.map (·.key)
  · obtain ⟨kv, hkv, rfl⟩ := List.mem_map.mp hq
    refine ⟨kv, List.mem_append_right _ hkv, rfl, ?_⟩
    simp [bstep, hi.here, lookupQ_mem b.queue kv hkv hnd.2.1]
  · have hr : k ∈ recs.map (·.key) := by rcases hk with h | h; exact h; exact absurd h hq
    obtain ⟨kv, hkv, rfl⟩ := List.mem_map.mp hr
    refine ⟨kv, List.mem_append_left _ hkv, rfl, ?_⟩
    obtain ⟨h, hg, hsy⟩ := hi.sess.handle
    have hget := get_returns_put_value hi.sess.wf b.slot h hg hsy.open_ kv hkv
    simp [bstep, hi.here, lookupQ_none b.queue kv.key hq, hget]

/-- A put of a new key that fits the block header succeeds for every buffer size; afterwards the session
invariant holds again and the collection holds exactly one more pair (already flushed or still queued). -/
theorem cput_ok {bw : BWorld} {c : Nat} {b : Backend} {h1 h2 b0 : Bytes} {recs : List KV}
    (hi : BInv bw c b h1 h2 b0 recs) (k v : Bytes) (klen : Nat) (hnew : k ∉ b.keys) (hk : k.length < 256)
    (hv : v.length < 4294967296) :
    ∃ bw' b' recs', bstep bw (.put c k v klen) = (bw', .ok) ∧ BInv bw' c b' h1 h2 b0 recs' ∧
      recs' ++ b'.queue = recs ++ b.queue ++ [⟨k, v⟩] ∧ b'.keys = b.keys ++ [k] := by
  have hc : b.keys.contains k = false := by simpa using hnew
  let b1 : Backend := { b with queue := b.queue ++ [⟨k, v⟩], keys := b.keys ++ [k],
                               usedmem := b.usedmem + klen + v.length }
  have hi1 : BInv (setB bw c (some b1)) c b1 h1 h2 b0 recs := by
    refine ⟨by simp [getB, setB], hi.rw_, hi.sess, ?_, ?_, ?_⟩
    · simp [b1, hi.keys, List.append_assoc]
    · intro kv hkv
      rcases List.mem_append.mp hkv with h | h
      · exact hi.qok kv h
      · simp only [List.mem_singleton] at h; subst h; exact ⟨hk, hv⟩
    · have : (recs ++ b1.queue).map (·.key) = (recs ++ b.queue).map (·.key) ++ [k] := by
        simp [b1, List.append_assoc]
      rw [this, List.nodup_append]
      refine ⟨hi.nodup, by simp, ?_⟩
      intro a ha x hx
      simp only [List.mem_singleton] at hx; subst hx
      intro he; subst he
      apply hnew
      rw [hi.keys, ← List.map_append]; exact ha
  have hstep : bstep bw (.put c k v klen) =
      if (b1.usedmem : Int) > b1.bufsize then flush (setB bw c (some b1)) c b1
      else (setB bw c (some b1), .ok) := by
    simp only [bstep, hi.here]
    rw [if_neg (by simp [hi.rw_]), if_neg (by simpa using hnew), if_neg (by simp [hk])]
  by_cases hbig : ((b1.usedmem : Int) > b1.bufsize)
  · obtain ⟨bw', hfl, hi'⟩ := flush_drains hi1
    refine ⟨bw', _, _, ?_, hi', by simp [b1, List.append_assoc], rfl⟩
    rw [hstep, if_pos hbig]; exact hfl
  · refine ⟨_, b1, recs, ?_, hi1, by simp [b1, List.append_assoc], rfl⟩
    rw [hstep, if_neg hbig]

/-- "an operation that fails (duplicate key, oversize key, write on read-only …) leaves … every handle's
view unchanged", at the collection level: such a put changes nothing at all. -/
theorem cput_fail_frame (bw : BWorld) (c : Nat) (b : Backend) (hb : getB bw c = some b) (k v : Bytes) (klen : Nat)
    (h : b.readonly = true ∨ k ∈ b.keys ∨ ¬ k.length < 256) :
    ∃ e, bstep bw (.put c k v klen) = (bw, .err e) := by
  simp only [bstep, hb]
  by_cases hr : b.readonly = true
  · exact ⟨.readonly, by rw [if_pos hr]⟩
  · rw [if_neg hr]
    by_cases hk : b.keys.contains k = true
    · exact ⟨.keyExists, by rw [if_pos hk]⟩
    · rw [if_neg hk]
      rcases h with h | h | h
      · exact absurd h hr
      · exact absurd (by simpa using h) hk
      · exact ⟨.tooLong, by rw [if_pos h]⟩

/-! ### a concrete buffered session (non-vacuity / sanity): with a large buffer the pair is listed and
readable before anything reached the file, a duplicate and an oversize key are refused, and after the
session a reading session sees the record -/

def exRun : List BOut :=
  let ops : List BOp := [.cnew 0 1000000 false false [], .begin 0 true, .put 0 [97] [49] 1, .keys 0, .get 0 [97],
                         .put 0 [97] [50] 1, .put 0 (List.replicate 256 76) [1] 256, .end_ 0, .begin 0 false, .get 0 [97], .end_ 0]
  (ops.foldl (fun (acc : BWorld × List BOut) o => let r := bstep acc.1 o; (r.1, acc.2 ++ [r.2])) (initB, [])).2

example : exRun = [.ok, .ok, .ok, .keys [[97]], .val [49], .err .keyExists, .err .tooLong, .ok, .ok, .val [49], .ok] := by
  decide +kernel

end Molli.Props.C02Backend
