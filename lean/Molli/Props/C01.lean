/-
C01 — Library round trip: what is stored in a .mlib/.clib is what is read back.

  "Any Molecule written to a MoleculeLibrary and any ConformerEnsemble written to a
   ConformerLibrary reads back, under the same key, as an object with the same name, charge,
   multiplicity, attributes, atom sequence (element, isotope, label, type, stereo, geometry,
   formal charge, formal spin, attributes), bond sequence (endpoints, label, type, stereo,
   fractional order, attributes), and with coordinates, partial charges and conformer weights
   equal to at least single-float precision. Nothing else about the object (array shapes,
   conformer count, atom order) changes."   — for the current (v2) and the legacy (v1,
   restricted to its schema) encodings.

Reading.  An object is a record (`MolRec` / `EnsRec`, `Molli.Model.Codec`) that carries every field
the statement names; it is in the domain when it is rectangular and its bonds join its own atoms
(`WF`).  Storing puts `serX S obj` through msgpack (`N`), reading applies `deserX S`.  The
theorems are proved for ANY wire orders `S` meeting decidable side conditions and are
instantiated with the orders probed from the repository on this run (`Molli.Gen.Schema`).
The result of a round trip is `normX obj`, and `norm_*` below say what `norm` can change:
nothing among the discrete fields, float arrays only through float32, attributes only by
turning Python lists into tuples (msgpack has one array type — finding D01, stated as
`roundtrip_exact_counterexample` / `roundtrip_exact_partial`).
Modelled, not verified: msgpack's byte format (data-model level only), the double→float32
conversion (`r32`, `widen` are the hardware's; only `r32 (widen b) = b` is assumed where stated).
-/
import Molli.Lemmas.CodecRT
import Molli.Lemmas.Msgpack
import Molli.Gen.Schema
namespace Molli.Props.C01
open Molli.Util Molli.Model.Codec Molli.Lemmas.Codec Molli.Model.Msgpack

/-! ### byte layer and array layer -/

/-- "coordinates … as big-endian `>f4` byte strings": encoding then decoding any list of float32 bit
patterns (all 2³² of them, NaN payloads included) is the identity. -/
theorem be32_roundtrip (xs : List F32) : decF32s (encF32s xs) = some xs := decF32s_encF32s xs

/-- "array shapes": flatten then `reshape((n, k))` / `reshape((nc, na, k))` is the identity on
rectangular arrays of any size (0 rows and 0 columns included). -/
theorem array_roundtrip {α : Type} (m k : Nat) :
    (∀ rs : List (List α), (∀ r ∈ rs, r.length = k) → reshape2 rs.length k rs.flatten = some rs) ∧
    (∀ cs : List (List (List α)), (∀ c ∈ cs, c.length = m) → (∀ c ∈ cs, ∀ r ∈ c, r.length = k) →
        reshape3 cs.length m k cs.flatten.flatten = some cs) :=
  ⟨fun rs h => reshape2_flatten k rs h, fun cs hm hk => reshape3_flatten m k cs hm hk⟩

example : reshape3 2 0 3 ([[], []] : List (List (List Nat))).flatten.flatten = some [[], []] := by decide

/-! ### the parametric round trip -/

/-- **`deser_ser`, molecules**: for ANY schema whose top-level order carries the required slots, the
decoder applied to the msgpack-normalised encoding returns the normalised object.  `hA`, `hB`,
`hattr` are vacuous for the current encoding and say "restricted to its schema" for the legacy one. -/
theorem deser_ser_mol (S : Schema) (m : MolRec)
    (hreq : ∀ f ∈ molRequiredV1, f ∈ S.top) (hattr : AttribFits S m.attrib)
    (hA : AtomsFit S m.atoms) (hB : BondsFit S m.bonds) (hw : m.WF) :
    deserMol S (N (serMol S m)) = .ok (normMol m) :=
  deserMol_serMol S m hreq hattr hA hB hw

/-- **`deser_ser`, ensembles** (any number of conformers, 0 included). -/
theorem deser_ser_ens (S : Schema) (e : EnsRec)
    (hreq : ∀ f ∈ ensRequiredV1, f ∈ S.top) (hattr : AttribFits S e.attrib)
    (hA : AtomsFit S e.atoms) (hB : BondsFit S e.bonds) (hw : e.WF) :
    deserEns S (N (serEns S e)) = .ok (normEns e) :=
  deserEns_serEns S e hreq hattr hA hB hw

/-- a schema whose atom and bond orders carry every field fits every object -/
theorem fits_of_all_fields (S : Schema) (ha : ∀ f ∈ AField.all, f ∈ S.atom) (hb : ∀ f ∈ BField.all, f ∈ S.bond)
    (hoa : AField.other ∈ S.atom ∨ S.atomDflt.get .other = .nil)
    (atoms : List AtomRec) (bonds : List BondRec)
    (hA : ∀ a ∈ atoms, a.get .other = .nil) (hB : ∀ b ∈ bonds, BField.other ∈ S.bond ∨ N (b.get .other) = S.bondDflt.get .other) :
    AtomsFit S atoms ∧ BondsFit S bonds := by
  constructor
  · intro a hain f hf
    cases f <;> first
      | exact absurd (ha _ (by decide)) hf
      | (cases hoa with
         | inl h => exact absurd h hf
         | inr h => rw [hA a hain, h]; rfl)
  · intro b hbin f hf
    cases f <;> first
      | exact absurd (hb _ (by decide)) hf
      | (cases hB b hbin with
         | inl h => exact absurd h hf
         | inr h => exact h)

/-! ### the decoder's order may leave out what it never reads -/

theorem lookup_eraseUnread (f : TField) (h1 : f ≠ .n_bonds) (h2 : f ≠ .skip) (o : List TField) (vs : List MVal) :
    lookup f (o.map eraseUnread) vs = lookup f o vs := by
  induction o generalizing vs with
  | nil => rfl
  | cons g o ih =>
    cases vs with
    | nil => rfl
    | cons v vs =>
      simp only [List.map_cons, lookup, ih]
      have : (eraseUnread g = f) = (g = f) := by
        cases g <;> cases f <;> simp_all [eraseUnread]
      simp only [this]

theorem deserAtom_top (S : Schema) (t : List TField) : deserAtom { S with top := t } = deserAtom S := by
  funext w; cases w <;> rfl
theorem deserBond_top (S : Schema) (t : List TField) (n : Nat) : deserBond { S with top := t } n = deserBond S n := by
  funext w; cases w <;> rfl

/-- reading with the order in which unread slots are marked `skip` is reading with the full order -/
theorem deserMol_eraseUnread (S : Schema) (w : MVal) :
    deserMol { S with top := S.top.map eraseUnread } w = deserMol S w := by
  cases w <;> simp only [deserMol, need, List.length_map]
  simp only [lookup_eraseUnread .name (by decide) (by decide), lookup_eraseUnread .n_atoms (by decide) (by decide), lookup_eraseUnread .charge (by decide) (by decide), lookup_eraseUnread .mult (by decide) (by decide), lookup_eraseUnread .atoms (by decide) (by decide), lookup_eraseUnread .bonds (by decide) (by decide), lookup_eraseUnread .coords (by decide) (by decide), lookup_eraseUnread .atomic_charges (by decide) (by decide), lookup_eraseUnread .attrib (by decide) (by decide), deserAtom_top, deserBond_top]

theorem deserEns_eraseUnread (S : Schema) (w : MVal) :
    deserEns { S with top := S.top.map eraseUnread } w = deserEns S w := by
  cases w <;> simp only [deserEns, need, List.length_map]
  simp only [lookup_eraseUnread .name (by decide) (by decide), lookup_eraseUnread .n_atoms (by decide) (by decide), lookup_eraseUnread .charge (by decide) (by decide), lookup_eraseUnread .mult (by decide) (by decide), lookup_eraseUnread .atoms (by decide) (by decide), lookup_eraseUnread .bonds (by decide) (by decide), lookup_eraseUnread .coords (by decide) (by decide), lookup_eraseUnread .atomic_charges (by decide) (by decide), lookup_eraseUnread .attrib (by decide) (by decide), lookup_eraseUnread .n_conformers (by decide) (by decide), lookup_eraseUnread .weights (by decide) (by decide), deserAtom_top, deserBond_top]

/-- serialiser order `Sw`, decoder order `Sr`: they agree when atom and bond orders are equal and the
decoder's top-level order is the serialiser's with unread slots marked. -/
structure Agree (Sw Sr : Schema) : Prop where
  atom : Sw.atom = Sr.atom
  bond : Sw.bond = Sr.bond
  top : Sw.top.map eraseUnread = Sr.top
  atomDflt : Sw.atomDflt = Sr.atomDflt
  bondDflt : Sw.bondDflt = Sr.bondDflt

theorem schema_of_agree (Sw Sr : Schema) (h : Agree Sw Sr) : Sr = { Sw with top := Sw.top.map eraseUnread } := by
  cases Sw; cases Sr; cases h; simp_all

/-- **round trip with a serialiser order and a separately probed decoder order** -/
theorem roundtrip_mol (Sw Sr : Schema) (h : Agree Sw Sr) (m : MolRec)
    (hreq : ∀ f ∈ molRequiredV1, f ∈ Sw.top) (hattr : AttribFits Sw m.attrib)
    (hA : AtomsFit Sw m.atoms) (hB : BondsFit Sw m.bonds) (hw : m.WF) :
    deserMol Sr (N (serMol Sw m)) = .ok (normMol m) := by
  rw [schema_of_agree Sw Sr h, deserMol_eraseUnread]
  exact deserMol_serMol Sw m hreq hattr hA hB hw

theorem roundtrip_ens (Sw Sr : Schema) (h : Agree Sw Sr) (e : EnsRec)
    (hreq : ∀ f ∈ ensRequiredV1, f ∈ Sw.top) (hattr : AttribFits Sw e.attrib)
    (hA : AtomsFit Sw e.atoms) (hB : BondsFit Sw e.bonds) (hw : e.WF) :
    deserEns Sr (N (serEns Sw e)) = .ok (normEns e) := by
  rw [schema_of_agree Sw Sr h, deserEns_eraseUnread]
  exact deserEns_serEns Sw e hreq hattr hA hB hw

/-! ### the instances: the orders the repository has on this run -/

open Molli.Gen.Schema

/-- objects built through the public API have no field outside the nine / seven named ones -/
def NoOther (atoms : List AtomRec) (bonds : List BondRec) : Prop :=
  (∀ a ∈ atoms, a.get .other = .nil) ∧ (∀ b ∈ bonds, b.get .other = .nil)

theorem agree_mol_v2 : Agree serMolV2 deserMolV2 :=
  ⟨atom_order_agrees_mol_v2, bond_order_agrees_mol_v2, top_order_agrees_mol_v2, rfl, rfl⟩
theorem agree_ens_v2 : Agree serEnsV2 deserEnsV2 :=
  ⟨atom_order_agrees_ens_v2, bond_order_agrees_ens_v2, top_order_agrees_ens_v2, rfl, rfl⟩
theorem agree_mol_v1 : Agree serMolV1 deserMolV1 :=
  ⟨atom_order_agrees_mol_v1, bond_order_agrees_mol_v1, top_order_agrees_mol_v1, rfl, rfl⟩
theorem agree_ens_v1 : Agree serEnsV1 deserEnsV1 :=
  ⟨atom_order_agrees_ens_v1, bond_order_agrees_ens_v1, top_order_agrees_ens_v1, rfl, rfl⟩

/-- **Current encoding, MoleculeLibrary**: every well-formed molecule — any number of atoms and bonds,
any field values, any attribute trees — reads back as `normMol m`. -/
theorem mol_v2_roundtrip (m : MolRec) (hw : m.WF) (hno : NoOther m.atoms m.bonds) :
    deserMol deserMolV2 (N (serMol serMolV2 m)) = .ok (normMol m) := by
  have hf := fits_of_all_fields serMolV2 atom_fields_mol_v2 bond_fields_mol_v2 (Or.inr rfl) m.atoms m.bonds hno.1
    (fun b hb => Or.inr (by rw [hno.2 b hb]; rfl))
  exact roundtrip_mol _ _ agree_mol_v2 m
    (fun f hf' => top_required_mol_v2 f (by revert hf'; revert f; decide))
    (Or.inl (top_required_mol_v2 _ (by decide))) hf.1 hf.2 hw

/-- **Current encoding, ConformerLibrary.** -/
theorem ens_v2_roundtrip (e : EnsRec) (hw : e.WF) (hno : NoOther e.atoms e.bonds) :
    deserEns deserEnsV2 (N (serEns serEnsV2 e)) = .ok (normEns e) := by
  have hf := fits_of_all_fields serEnsV2 atom_fields_ens_v2 bond_fields_ens_v2 (Or.inr rfl) e.atoms e.bonds hno.1
    (fun b hb => Or.inr (by rw [hno.2 b hb]; rfl))
  exact roundtrip_ens _ _ agree_ens_v2 e
    (fun f hf' => top_required_ens_v2 f (by revert hf'; revert f; decide))
    (Or.inl (top_required_ens_v2 _ (by decide))) hf.1 hf.2 hw

/-- "restricted to its schema": what the legacy encoding does not carry holds the constructor default -/
structure LegacyDomain (attrib : MVal) (atoms : List AtomRec) (bonds : List BondRec) : Prop where
  attrib : attrib = .map []
  formal_charge : ∀ a ∈ atoms, a.get .formal_charge = .int 0
  formal_spin : ∀ a ∈ atoms, a.get .formal_spin = .int 0
  atom_attrib : ∀ a ∈ atoms, a.get .attrib = .map []
  bond_attrib : ∀ b ∈ bonds, b.get .attrib = .map []

theorem legacy_fits (S : Schema) (hd : S.atomDflt = atomDflt ∧ S.bondDflt = bondDflt)
    (ha : ∀ f ∈ [AField.element, .isotope, .label, .atype, .stereo, .geom], f ∈ S.atom)
    (hb : ∀ f ∈ [BField.a1, .a2, .label, .btype, .stereo, .f_order], f ∈ S.bond)
    (attrib : MVal) (atoms : List AtomRec) (bonds : List BondRec)
    (hl : LegacyDomain attrib atoms bonds) (hno : NoOther atoms bonds) :
    AttribFits S attrib ∧ AtomsFit S atoms ∧ BondsFit S bonds := by
  refine ⟨Or.inr (by rw [hl.attrib]; rfl), ?_, ?_⟩
  · intro a hain f hf
    rw [hd.1]
    cases f <;> first
      | exact absurd (ha _ (by decide)) hf
      | (rw [hl.formal_charge a hain]; rfl)
      | (rw [hl.formal_spin a hain]; rfl)
      | (rw [hl.atom_attrib a hain]; rfl)
      | (rw [hno.1 a hain]; rfl)
  · intro b hbin f hf
    rw [hd.2]
    cases f <;> first
      | exact absurd (hb _ (by decide)) hf
      | (rw [hl.bond_attrib b hbin]; rfl)
      | (rw [hno.2 b hbin]; rfl)

/-- **Legacy encoding, MoleculeLibrary** (files whose header starts with `ML10Library`). -/
theorem mol_v1_roundtrip (m : MolRec) (hw : m.WF) (hno : NoOther m.atoms m.bonds)
    (hl : LegacyDomain m.attrib m.atoms m.bonds) :
    deserMol deserMolV1 (N (serMol serMolV1 m)) = .ok (normMol m) := by
  have hf := legacy_fits serMolV1 ⟨rfl, rfl⟩ atom_fields_mol_v1 bond_fields_mol_v1 _ _ _ hl hno
  exact roundtrip_mol _ _ agree_mol_v1 m top_required_mol_v1 hf.1 hf.2.1 hf.2.2 hw

/-- **Legacy encoding, ConformerLibrary.** -/
theorem ens_v1_roundtrip (e : EnsRec) (hw : e.WF) (hno : NoOther e.atoms e.bonds)
    (hl : LegacyDomain e.attrib e.atoms e.bonds) :
    deserEns deserEnsV1 (N (serEns serEnsV1 e)) = .ok (normEns e) := by
  have hf := legacy_fits serEnsV1 ⟨rfl, rfl⟩ atom_fields_ens_v1 bond_fields_ens_v1 _ _ _ hl hno
  exact roundtrip_ens _ _ agree_ens_v1 e top_required_ens_v1 hf.1 hf.2.1 hf.2.2 hw

/-- "v1 codecs chosen by file magic `ML10Library`": the version test selects the legacy codec iff the
first bytes of an existing file are the magic; a new file gets the current one. -/
theorem magic_dispatch (header : Option Bytes) :
    codecVersion header = 1 ↔ ∃ h, header = some h ∧ magicV1 <+: h.take 16 := by
  cases header with
  | none => simp [codecVersion]
  | some h =>
    simp only [codecVersion, Option.some.injEq, exists_eq_left']
    constructor
    · intro hv
      split at hv
      · rename_i heq; rw [← heq]; exact List.take_prefix _ _
      · cases hv
    · intro hp
      rw [if_pos (List.prefix_iff_eq_take.mp hp).symm]

/-! ### what a round trip can and cannot change -/

/-- "same … atom sequence …, bond sequence (endpoints …) … Nothing else about the object (array shapes,
conformer count, atom order) changes": counts, order, endpoints and shapes of `normMol m` are those of `m`,
and every atom / bond field is the stored one up to `N`. -/
theorem norm_mol_structure (m : MolRec) :
    (normMol m).atoms.length = m.atoms.length ∧ (normMol m).bonds.length = m.bonds.length ∧
    (normMol m).coords.map List.length = m.coords.map List.length ∧
    (normMol m).charges.length = m.charges.length ∧
    (∀ i (h : i < m.atoms.length) f, ((normMol m).atoms[i]'(by simp [normMol]; exact h)).get f = N ((m.atoms[i]).get f)) ∧
    (∀ j (h : j < m.bonds.length) f, ((normMol m).bonds[j]'(by simp [normMol]; exact h)).get f = N ((m.bonds[j]).get f)) := by
  refine ⟨by simp [normMol], by simp [normMol], ?_, by simp [normMol], ?_, ?_⟩
  · simp [normMol, List.map_map, Function.comp_def]
  · intro i h f; simp [normMol, normAtom]
  · intro j h f; simp [normMol, normBond]

theorem norm_ens_structure (e : EnsRec) :
    (normEns e).atoms.length = e.atoms.length ∧ (normEns e).bonds.length = e.bonds.length ∧
    (normEns e).coords.length = e.coords.length ∧
    (normEns e).coords.map (·.map List.length) = e.coords.map (·.map List.length) ∧
    (normEns e).weights.length = e.weights.length ∧
    (normEns e).charges.map List.length = e.charges.map List.length ∧
    (∀ i (h : i < e.atoms.length) f, ((normEns e).atoms[i]'(by simp [normEns]; exact h)).get f = N ((e.atoms[i]).get f)) ∧
    (∀ j (h : j < e.bonds.length) f, ((normEns e).bonds[j]'(by simp [normEns]; exact h)).get f = N ((e.bonds[j]).get f)) := by
  refine ⟨by simp [normEns], by simp [normEns], by simp [normEns], ?_, by simp [normEns], ?_, ?_, ?_⟩
  · simp [normEns, List.map_map, Function.comp_def]
  · simp [normEns, List.map_map, Function.comp_def]
  · intro i h f; simp [normEns, normAtom]
  · intro j h f; simp [normEns, normBond]

/-- the discrete scalar values the API produces (ints, strings, `None`, bools, floats, bytes) and every
tree built from them with tuples and dicts only are untouched by msgpack: `N v = v`. -/
theorem N_fixes_canonical (v : MVal) (h : v.canon = true) : N v = v := N_of_canon v h

/-- bond endpoints are integers, hence never changed -/
theorem norm_bond_endpoints (nA : Nat) (b : BondRec) (hw : b.WF nA) :
    (normBond b).get .a1 = b.get .a1 ∧ (normBond b).get .a2 = b.get .a2 ∧ (normBond b).get .f_order = b.get .f_order := by
  obtain ⟨⟨i, j, e1, e2, _, _⟩, ⟨x, ex⟩⟩ := hw
  simp [normBond, e1, e2, ex, N]

/-- the object with only its float arrays pushed through float32 -/
def r32Mol (m : MolRec) : MolRec :=
  { m with coords := m.coords.map (·.map rt32), charges := m.charges.map rt32 }
def r32Ens (e : EnsRec) : EnsRec :=
  { e with coords := e.coords.map (·.map (·.map rt32)), weights := e.weights.map rt32,
           charges := e.charges.map (·.map rt32) }

/-- list-free attributes, name a string, charge an integer, multiplicity a non-zero integer -/
structure PlainMol (m : MolRec) : Prop where
  name : ∃ s, m.name = .str s
  charge : ∃ i, m.charge = .int i
  mult : ∃ i, m.mult = .int i ∧ i ≠ 0
  attrib : ∃ l, m.attrib = .map l ∧ canonM l = true
  atoms : ∀ a ∈ m.atoms, ∀ f, (a.get f).canon = true
  bonds : ∀ b ∈ m.bonds, ∀ f, (b.get f).canon = true

theorem pyOr_int (i : Int) (d : Int) (h : i = 0 → d = 0) : pyOr (.int i) (.int d) = .int i := by
  unfold pyOr MVal.falsy
  by_cases hi : i = 0
  · simp [hi, h hi]
  · simp [hi]

/-- **`roundtrip_exact_partial`**: when no attribute contains a Python list, the round trip changes nothing
but the float arrays, and those only through float32. -/
theorem norm_mol_plain (m : MolRec) (hp : PlainMol m) : normMol m = r32Mol m := by
  obtain ⟨s, hs⟩ := hp.name
  obtain ⟨c, hc⟩ := hp.charge
  obtain ⟨k, hk, hk0⟩ := hp.mult
  obtain ⟨l, hl, hlc⟩ := hp.attrib
  have ha : m.atoms.map normAtom = m.atoms := by
    rw [List.map_congr_left (g := id)]
    · simp
    · intro a hain; apply AtomRec.ext'; intro f; simp [normAtom, N_of_canon _ (hp.atoms a hain f)]
  have hb : m.bonds.map normBond = m.bonds := by
    rw [List.map_congr_left (g := id)]
    · simp
    · intro b hbin; apply BondRec.ext'; intro f; simp [normBond, N_of_canon _ (hp.bonds b hbin f)]
  have hat : pyOr (N m.attrib) (.map []) = m.attrib := by
    rw [hl, N_of_canon (.map l) (by simpa [MVal.canon] using hlc)]
    unfold pyOr MVal.falsy
    cases l <;> simp
  have hch : pyOr (N m.charge) (.int 0) = m.charge := by rw [hc]; exact pyOr_int c 0 (fun _ => rfl)
  have hmu : pyOr (N m.mult) (.int 1) = m.mult := by rw [hk]; exact pyOr_int k 1 (fun h => absurd h hk0)
  have hnm : pyName (N m.name) = m.name := by rw [hs]; rfl
  cases m
  simp only [normMol, r32Mol] at *
  simp only [ha, hb, hat, hch, hmu, hnm]

structure PlainEns (e : EnsRec) : Prop where
  name : ∃ s, e.name = .str s
  charge : ∃ i, e.charge = .int i
  mult : ∃ i, e.mult = .int i ∧ i ≠ 0
  attrib : ∃ l, e.attrib = .map l ∧ canonM l = true
  atoms : ∀ a ∈ e.atoms, ∀ f, (a.get f).canon = true
  bonds : ∀ b ∈ e.bonds, ∀ f, (b.get f).canon = true

/-- the same for ensembles: without Python lists in attributes only the float arrays change, through float32 -/
theorem norm_ens_plain (e : EnsRec) (hp : PlainEns e) : normEns e = r32Ens e := by
  obtain ⟨s, hs⟩ := hp.name
  obtain ⟨c, hc⟩ := hp.charge
  obtain ⟨k, hk, hk0⟩ := hp.mult
  obtain ⟨l, hl, hlc⟩ := hp.attrib
  have ha : e.atoms.map normAtom = e.atoms := by
    rw [List.map_congr_left (g := id)]
    · simp
    · intro a hain; apply AtomRec.ext'; intro f; simp [normAtom, N_of_canon _ (hp.atoms a hain f)]
  have hb : e.bonds.map normBond = e.bonds := by
    rw [List.map_congr_left (g := id)]
    · simp
    · intro b hbin; apply BondRec.ext'; intro f; simp [normBond, N_of_canon _ (hp.bonds b hbin f)]
  have hat : pyOr (N e.attrib) (.map []) = e.attrib := by
    rw [hl, N_of_canon (.map l) (by simpa [MVal.canon] using hlc)]
    unfold pyOr MVal.falsy
    cases l <;> simp
  have hch : pyOr (N e.charge) (.int 0) = e.charge := by rw [hc]; exact pyOr_int c 0 (fun _ => rfl)
  have hmu : pyOr (N e.mult) (.int 1) = e.mult := by rw [hk]; exact pyOr_int k 1 (fun h => absurd h hk0)
  have hnm : pyName (N e.name) = e.name := by rw [hs]; rfl
  cases e
  simp only [normEns, r32Ens] at *
  simp only [ha, hb, hat, hch, hmu, hnm]

theorem ens_roundtrip_exact_partial (e : EnsRec) (hw : e.WF) (hno : NoOther e.atoms e.bonds) (hp : PlainEns e) :
    deserEns deserEnsV2 (N (serEns serEnsV2 e)) = .ok (r32Ens e) := by
  rw [ens_v2_roundtrip e hw hno, norm_ens_plain e hp]

/-- the full statement: every stored object reads back identical up to float32 on the arrays -/
def roundtrip_exact_statement : Prop :=
  ∀ m : MolRec, m.WF → NoOther m.atoms m.bonds →
    deserMol deserMolV2 (N (serMol serMolV2 m)) = .ok (r32Mol m)

/-- a molecule of no atoms whose attributes hold the list `[1]` -/
def listWitness : MolRec :=
  { name := .str [119], charge := .int 0, mult := .int 1,
    attrib := .map [(.str [97], .arr true [.int 1])], atoms := [], bonds := [], coords := [], charges := [] }

/-- **D01 (known finding)**: `attrib = {'a': [1]}` reads back as `{'a': (1,)}` — msgpack has a single array
type and the decoder is told `use_list=False`; the exact statement is false of the code. -/
theorem roundtrip_exact_counterexample : ¬ roundtrip_exact_statement := by
  intro h
  have hw : listWitness.WF := ⟨rfl, (by intro r hr; cases hr), rfl, (by intro b hb; cases hb)⟩
  have hno : NoOther listWitness.atoms listWitness.bonds := ⟨(by intro a ha; cases ha), (by intro b hb; cases hb)⟩
  have h1 := h listWitness hw hno
  rw [mol_v2_roundtrip listWitness hw hno] at h1
  have h2 : (normMol listWitness).attrib = (r32Mol listWitness).attrib := by
    injection h1 with h1; rw [h1]
  simp [normMol, r32Mol, listWitness, N, Nm, Nl, pyOr, MVal.falsy] at h2

/-- **strongest true statement**: exact for every object without Python lists in its attributes
(tuples, dicts with any keys, every scalar type are all preserved). -/
theorem roundtrip_exact_partial (m : MolRec) (hw : m.WF) (hno : NoOther m.atoms m.bonds) (hp : PlainMol m) :
    deserMol deserMolV2 (N (serMol serMolV2 m)) = .ok (r32Mol m) := by
  rw [mol_v2_roundtrip m hw hno, norm_mol_plain m hp]

/-- "coordinates, partial charges and conformer weights equal to at least single-float precision":
read-back arrays and stored arrays have the same float32 values (A-f32: widening a float32 and
narrowing it again is the identity). -/
theorem single_precision (hr : ∀ b, r32 (widen b) = b) (m : MolRec) :
    (normMol m).coords.map (·.map r32) = m.coords.map (·.map r32) ∧
    (normMol m).charges.map r32 = m.charges.map r32 := by
  simp [normMol, List.map_map, Function.comp_def, rt32, hr]

theorem single_precision_ens (hr : ∀ b, r32 (widen b) = b) (e : EnsRec) :
    (normEns e).coords.map (·.map (·.map r32)) = e.coords.map (·.map (·.map r32)) ∧
    (normEns e).weights.map r32 = e.weights.map r32 ∧
    (normEns e).charges.map (·.map r32) = e.charges.map (·.map r32) := by
  simp [normEns, List.map_map, Function.comp_def, rt32, hr]

/-- what has been read back once is stored and read back exactly (second generation): `norm` is idempotent
on the arrays and on every atom / bond field. -/
theorem second_roundtrip_arrays (hr : ∀ b, r32 (widen b) = b) (m : MolRec) :
    (normMol (normMol m)).coords = (normMol m).coords ∧ (normMol (normMol m)).charges = (normMol m).charges ∧
    (normMol (normMol m)).atoms.map (·.get) = (normMol m).atoms.map (·.get) := by
  refine ⟨?_, ?_, ?_⟩
  · simp [normMol, List.map_map, Function.comp_def, rt32, hr]
  · simp [normMol, List.map_map, Function.comp_def, rt32, hr]
  · simp [normMol, List.map_map, Function.comp_def, normAtom, N_idem]

/-! ### the library layer: same key, other records untouched -/

/-- "reads back, under the same key": after `lib[k] = m` in a library that did not hold `k`, `lib[k]` decodes
to `normMol m` and every other key still yields what it yielded before. -/
theorem library_roundtrip (l : Lib) (k : String) (m : MolRec) (hw : m.WF) (hno : NoOther m.atoms m.bonds)
    (hk : l.get k = none) :
    ∃ l', l.put k (serMol serMolV2 m) = some l' ∧
      (l'.get k).map (deserMol deserMolV2) = some (.ok (normMol m)) ∧
      ∀ k', k' ≠ k → l'.get k' = l.get k' := by
  have hget : ∀ (l : Lib) (k' : String) (v : MVal), (l ++ [(k, v)]).get k' = (l.get k').orElse (fun _ => if k = k' then some v else none) := by
    intro l k' v
    induction l with
    | nil => simp [Lib.get]
    | cons p l ih =>
      obtain ⟨k0, v0⟩ := p
      simp only [List.cons_append, Lib.get]
      by_cases e : k0 = k' <;> simp [e, ih]
  refine ⟨l ++ [(k, N (serMol serMolV2 m))], by simp [Lib.put, hk], ?_, ?_⟩
  · rw [hget, hk]; simp [mol_v2_roundtrip m hw hno]
  · intro k' hne
    rw [hget]
    cases h : l.get k' <;> simp [Ne.symm hne]

/-! ### the bond sequence is a list, not a set -/

/-- "bond sequence (endpoints, …)": a structure is a multigraph.  `MolRec.WF` asks nothing of the bond list beyond "endpoints are
atoms of the structure", so every theorem above covers lists with repeated endpoint pairs (parallel bonds in either
orientation, exact twins), self-bonds, and atoms without bonds; the round trip keeps the SEQUENCE - its length, its order,
every pair of endpoints, one entry per stored bond. -/
theorem bond_sequence_kept (m : MolRec) (hw : m.WF) :
    (normMol m).bonds.length = m.bonds.length ∧
    (normMol m).bonds.map (fun b => (b.get .a1, b.get .a2)) = m.bonds.map (fun b => (b.get .a1, b.get .a2)) := by
  refine ⟨by simp [normMol], ?_⟩
  simp only [normMol, List.map_map]
  apply List.map_congr_left
  intro b hb
  have h := norm_bond_endpoints m.atoms.length b (hw.bonds b hb)
  simp only [Function.comp, h.1, h.2.1]

theorem bond_sequence_kept_ens (e : EnsRec) (hw : e.WF) :
    (normEns e).bonds.length = e.bonds.length ∧
    (normEns e).bonds.map (fun b => (b.get .a1, b.get .a2)) = e.bonds.map (fun b => (b.get .a1, b.get .a2)) := by
  refine ⟨by simp [normEns], ?_⟩
  simp only [normEns, List.map_map]
  apply List.map_congr_left
  intro b hb
  have h := norm_bond_endpoints e.atoms.length b (hw.bonds b hb)
  simp only [Function.comp, h.1, h.2.1]

/-- three atoms; bonds 0-1, 1-0 (parallel, other orientation, other type), 0-1 again (an exact twin), 1-1 twice (self-bonds);
atom 2 has no bond -/
def mgAtom : AtomRec := AtomRec.ofList [.int 6, .nil, .str [67], .int 1, .int 0, .int 0, .int 0, .int 0, .map []]
def mgBond (i j t : Int) : BondRec :=
  BondRec.ofList [.int i, .int j, .str [100, 117, 112], .int t, .int 0, .f64 0x3ff0000000000000, .map []]
def multigraph : MolRec :=
  { name := .str [109], charge := .int 0, mult := .int 1, attrib := .map [],
    atoms := [mgAtom, mgAtom, mgAtom], bonds := [mgBond 0 1 1, mgBond 1 0 2, mgBond 0 1 1, mgBond 1 1 1, mgBond 1 1 3],
    coords := [[0, 0, 0], [0, 0, 0], [0, 0, 0]], charges := [0, 0, 0] }

theorem multigraph_wf : multigraph.WF := by
  refine ⟨rfl, ?_, rfl, ?_⟩
  · intro r hr; simp [multigraph] at hr; subst hr; rfl
  · intro b hb
    simp only [multigraph, List.mem_cons, List.mem_nil_iff, or_false] at hb
    rcases hb with rfl | rfl | rfl | rfl | rfl
    · exact ⟨⟨0, 1, rfl, rfl, by decide, by decide⟩, ⟨_, rfl⟩⟩
    · exact ⟨⟨1, 0, rfl, rfl, by decide, by decide⟩, ⟨_, rfl⟩⟩
    · exact ⟨⟨0, 1, rfl, rfl, by decide, by decide⟩, ⟨_, rfl⟩⟩
    · exact ⟨⟨1, 1, rfl, rfl, by decide, by decide⟩, ⟨_, rfl⟩⟩
    · exact ⟨⟨1, 1, rfl, rfl, by decide, by decide⟩, ⟨_, rfl⟩⟩

/-- all five bonds of the multigraph come back, in order -/
example : ∃ r, deserMol deserMolV2 (N (serMol serMolV2 multigraph)) = .ok r ∧ r.bonds.length = 5 ∧
    r.bonds.map (fun b => (b.get .a1, b.get .a2)) =
      [(.int 0, .int 1), (.int 1, .int 0), (.int 0, .int 1), (.int 1, .int 1), (.int 1, .int 1)] := by
  have hno : NoOther multigraph.atoms multigraph.bonds := by
    constructor
    · intro a ha; simp [multigraph] at ha; subst ha; rfl
    · intro b hb
      simp only [multigraph, List.mem_cons, List.mem_nil_iff, or_false] at hb
      rcases hb with rfl | rfl | rfl | rfl | rfl <;> rfl
  refine ⟨normMol multigraph, mol_v2_roundtrip multigraph multigraph_wf hno, ?_, ?_⟩
  · rw [(bond_sequence_kept multigraph multigraph_wf).1]; rfl
  · rw [(bond_sequence_kept multigraph multigraph_wf).2]; rfl

/-! ### reading is a function of what is stored, not of what the caller did with earlier results -/

/-- editing an object that was read earlier does not touch the library -/
theorem edit_leaves_library {α : Type} (dec : MVal → α) (w : LWorld α) (j : Nat) (f : α → α) :
    (lstep dec w (.edit j f)).1.lib = w.lib := rfl

/-- "what is stored is what is read back", every time: the result of `lib[k]` is the decoding of the value stored
under `k` - whatever objects the caller holds and however it has edited them -/
theorem get_function_of_stored {α : Type} (dec : MVal → α) (w : LWorld α) (k : String) :
    (lstep dec w (.get k)).2 = (w.lib.get k).map dec ∧ (lstep dec w (.get k)).1.lib = w.lib := by
  simp only [lstep]
  cases w.lib.get k <;> exact ⟨rfl, rfl⟩

/-- reads and edits of the caller's objects, in any number and order, leave the library as it is -/
theorem reads_and_edits_leave_library {α : Type} (dec : MVal → α) (ops : List (LOp α)) (w : LWorld α)
    (h : ∀ op ∈ ops, LOp.isPut op = false) : (lrun dec w ops).1.lib = w.lib := by
  induction ops generalizing w with
  | nil => rfl
  | cons o os ih =>
    simp only [lrun]
    rw [ih _ (fun op hop => h op (List.mem_cons_of_mem _ hop))]
    have ho := h o List.mem_cons_self
    cases o with
    | put k wire => simp [LOp.isPut] at ho
    | get k => exact (get_function_of_stored dec w k).2
    | edit j f => rfl

/-- **get after get equals get, independent of any caller-side mutation**: read `k`; then read other keys, read `k`
again, edit in place any of the objects obtained so far (name, charge, coordinates, labels, attributes, weights, bond
types - any function at all), in any order, in this or a later session; then read `k`: the same value as the first time. -/
theorem reread_equals_first_read {α : Type} (dec : MVal → α) (w : LWorld α) (k : String) (ops : List (LOp α))
    (h : ∀ op ∈ ops, LOp.isPut op = false) :
    (lstep dec (lrun dec (lstep dec w (.get k)).1 ops).1 (.get k)).2 = (lstep dec w (.get k)).2 := by
  rw [(get_function_of_stored dec _ k).1, (get_function_of_stored dec w k).1,
    reads_and_edits_leave_library dec ops _ h, (get_function_of_stored dec w k).2]

/-- instance: a MoleculeLibrary of the repository; the re-read after any caller-side edits is `normMol m` again -/
theorem mol_reread_after_edits (l : Lib) (held : List (Except Err MolRec)) (k : String) (m : MolRec) (hw : m.WF)
    (hno : NoOther m.atoms m.bonds) (hk : l.get k = none) (ops : List (LOp (Except Err MolRec)))
    (h : ∀ op ∈ ops, LOp.isPut op = false) :
    ∃ l', l.put k (serMol serMolV2 m) = some l' ∧
      (lstep (deserMol deserMolV2) (lrun (deserMol deserMolV2) (lstep (deserMol deserMolV2) ⟨l', held⟩ (.get k)).1 ops).1 (.get k)).2
        = some (.ok (normMol m)) := by
  obtain ⟨l', hput, hget, _⟩ := library_roundtrip l k m hw hno hk
  refine ⟨l', hput, ?_⟩
  rw [reread_equals_first_read _ _ _ _ h, (get_function_of_stored _ _ k).1]
  exact hget

/-- non-vacuity: read, edit the object read (a caller-side function: here "replace by an error"), read again -/
example : (lrun (deserMol deserMolV2) ⟨[("k", N (serMol serMolV2 sample))], []⟩
    [.get "k", .edit 0 (fun _ => .error .type), .get "k"]).2.getLast? =
    some (some (deserMol deserMolV2 (N (serMol serMolV2 sample)))) := by
  simp [lrun, lstep, Lib.get]

/-! ### libraries on different paths are independent -/

/-- a store into the library at one path leaves the library at every other path exactly as it is -/
theorem other_paths_untouched (L : Libs) (o : PutOp) (q : String) (h : q ≠ o.path) : (L.step o) q = L q := by
  simp [Libs.step, h]

/-- **the libraries of a process are a product of maps**: whatever stores are made into whichever libraries, in whatever
interleaving (sessions overlapping in time, same keys or different keys), the library at path `q` ends up exactly as if
only the stores addressed to `q` had been made, in their order -/
theorem libraries_are_a_product (ops : List PutOp) (L : Libs) (q : String) :
    (L.run ops) q = (ops.filter (fun o => o.path = q)).foldl (fun l o => l.putOr o.key o.wire) (L q) := by
  induction ops generalizing L with
  | nil => rfl
  | cons o os ih =>
    simp only [Libs.run, List.foldl_cons] at ih ⊢
    rw [ih (L.step o)]
    by_cases h : o.path = q
    · simp [List.filter_cons, h, Libs.step]
    · have hq : q ≠ o.path := fun e => h e.symm
      simp [List.filter_cons, h, other_paths_untouched L o q hq]

/-- … hence what `lib_q[k]` gives does not depend on the stores into other libraries -/
theorem read_ignores_other_libraries (ops : List PutOp) (L : Libs) (q k : String) :
    ((L.run ops) q).get k = ((L.run (ops.filter (fun o => o.path = q))) q).get k := by
  rw [libraries_are_a_product, libraries_are_a_product, List.filter_filter]
  simp

def noLibs : Libs := fun _ => []

example : Libs.run noLibs [⟨"a.mlib", "k", MVal.int 1⟩, ⟨"b.mlib", "k", MVal.int 2⟩, ⟨"a.mlib", "j", MVal.int 3⟩] "a.mlib"
      = [("k", MVal.int 1), ("j", MVal.int 3)] ∧
    Libs.run noLibs [⟨"a.mlib", "k", MVal.int 1⟩, ⟨"b.mlib", "k", MVal.int 2⟩, ⟨"a.mlib", "j", MVal.int 3⟩] "b.mlib"
      = [("k", MVal.int 2)] := by
  simp [Libs.run, Libs.step, Lib.putOr, Lib.put, Lib.get, N, noLibs]

/-! ### down to the bytes in the file -/

/-- msgpack's byte format (`Molli.Model.Msgpack`: smallest integer / length forms, float64, bin, str,
array, map headers): decoding the encoding of any value msgpack accepts gives exactly `N v` — the
normalisation used above is a theorem about the format, not an assumption. Unbounded nesting. -/
theorem msgpack_roundtrip (v : MVal) (hp : packable v = true) : loads (pack v) = some (N v) :=
  Molli.Lemmas.Msgpack.loads_pack v hp

/-- any bytes may follow (records are stored back to back in the file) -/
theorem msgpack_roundtrip_prefix (v : MVal) (hp : packable v = true) (rest : Bytes) :
    unpack (pack v).length (pack v ++ rest) = some (N v, rest) :=
  Molli.Lemmas.Msgpack.unpack_pack v hp _ rest (Molli.Lemmas.Msgpack.depth_le_length v)

/-- **MoleculeLibrary, bytes in, object out**: the value stored under a key is `pack (ser m)` (compared byte for
byte with the real files on every run); decoding those bytes and applying the decoder gives `normMol m`. -/
theorem mol_v2_bytes_roundtrip (m : MolRec) (hw : m.WF) (hno : NoOther m.atoms m.bonds)
    (hp : packable (serMol serMolV2 m) = true) :
    (loads (pack (serMol serMolV2 m))).map (deserMol deserMolV2) = some (.ok (normMol m)) := by
  rw [msgpack_roundtrip _ hp, Option.map_some, mol_v2_roundtrip m hw hno]

/-- **ConformerLibrary, bytes in, object out** -/
theorem ens_v2_bytes_roundtrip (e : EnsRec) (hw : e.WF) (hno : NoOther e.atoms e.bonds)
    (hp : packable (serEns serEnsV2 e) = true) :
    (loads (pack (serEns serEnsV2 e))).map (deserEns deserEnsV2) = some (.ok (normEns e)) := by
  rw [msgpack_roundtrip _ hp, Option.map_some, ens_v2_roundtrip e hw hno]

theorem mol_v1_bytes_roundtrip (m : MolRec) (hw : m.WF) (hno : NoOther m.atoms m.bonds)
    (hl : LegacyDomain m.attrib m.atoms m.bonds) (hp : packable (serMol serMolV1 m) = true) :
    (loads (pack (serMol serMolV1 m))).map (deserMol deserMolV1) = some (.ok (normMol m)) := by
  rw [msgpack_roundtrip _ hp, Option.map_some, mol_v1_roundtrip m hw hno hl]

theorem ens_v1_bytes_roundtrip (e : EnsRec) (hw : e.WF) (hno : NoOther e.atoms e.bonds)
    (hl : LegacyDomain e.attrib e.atoms e.bonds) (hp : packable (serEns serEnsV1 e) = true) :
    (loads (pack (serEns serEnsV1 e))).map (deserEns deserEnsV1) = some (.ok (normEns e)) := by
  rw [msgpack_roundtrip _ hp, Option.map_some, ens_v1_roundtrip e hw hno hl]

/-! ### non-vacuity: concrete objects meeting the hypotheses -/

/-- a two-atom, one-bond molecule with a nested attribute tree, a non-string key and a NaN coordinate -/
def sample : MolRec :=
  { name := .str [112, 114, 111, 98, 101], charge := .int (-2), mult := .int 3,
    attrib := .map [(.int 1, .str [97]), (.str [116], .arr false [.int 1, .f64 0x3fb999999999999a, .nil])],
    atoms := [AtomRec.ofList [.int 6, .int 13, .str [99, 49], .int 2, .int 10, .int 31, .int (-1), .int 1, .map [(.str [107], .bool true)]],
              AtomRec.ofList [.int 0, .nil, .nil, .int 1, .int 0, .int 0, .int 0, .int 0, .map []]],
    bonds := [BondRec.ofList [.int 1, .int 0, .nil, .int 20, .int 10, .f64 0x3fb999999999999a, .map []]],
    coords := [[0x3ff0000000000000, 0x4000000000000000, 0x7ff8000000000000], [0, 0x8000000000000000, 0x3fb999999999999a]],
    charges := [0x3fb999999999999a, 0xbfc999999999999a] }

theorem sample_wf : sample.WF := by
  refine ⟨rfl, ?_, rfl, ?_⟩
  · intro r hr; simp [sample] at hr; rcases hr with rfl | rfl <;> rfl
  · intro b hb
    simp only [sample, List.mem_singleton] at hb
    subst hb
    exact ⟨⟨1, 0, rfl, rfl, by decide, by decide⟩, ⟨_, rfl⟩⟩

theorem sample_noother : NoOther sample.atoms sample.bonds := by
  constructor
  · intro a ha; simp [sample] at ha; rcases ha with rfl | rfl <;> rfl
  · intro b hb; simp [sample] at hb; subst hb; rfl

example : deserMol deserMolV2 (N (serMol serMolV2 sample)) = .ok (normMol sample) :=
  mol_v2_roundtrip sample sample_wf sample_noother

example : packable (serMol serMolV2 sample) = true := by decide

example : PlainMol sample := by
  refine ⟨⟨_, rfl⟩, ⟨_, rfl⟩, ⟨3, rfl, by decide⟩, ⟨_, rfl, rfl⟩, ?_, ?_⟩
  · intro a ha f; simp [sample] at ha; rcases ha with rfl | rfl <;> cases f <;> rfl
  · intro b hb f; simp [sample] at hb; subst hb; cases f <;> rfl

/-- an ensemble of no conformers and one of two conformers of one atom are in the domain -/
example : (⟨.str [101], .int 0, .int 1, .map [], [], [], [], [], []⟩ : EnsRec).WF :=
  ⟨(by intro c hc; cases hc), (by intro c hc; cases hc), rfl, rfl, (by intro q hq; cases hq), (by intro b hb; cases hb)⟩

end Molli.Props.C01
