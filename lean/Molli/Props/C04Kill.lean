/-
C04 × C03 — sessions of processes that are KILLED inside a session (SIGKILL, OOM, node loss), interleaved with
everything else.

C04's text speaks of sessions that end with an exception; C03's of a process that dies at any byte of an append
session and of "any recovery history".  This file joins them in one transition system: any number of sessions, any
fault plans, any interleaving, at any moment any process may die (`Ev.kill`), and a write of a live session may
fail in the middle of a record (`Ev.tear`: I/O error, full device — the session then goes on with its cleanup).  The kernel drops the dead
process's lock; if it died in the middle of a record the library keeps a torn tail (`deadTail`) which, by
`Props.C03` (`crash_atomic`, `crash_stale_reopen`), no reader shows and the next writer cuts off when it opens the
library for appending.

Proved for every event sequence of any length:
  * `mutex_k`, `released_k`, `progress_k` — the C04 guarantees survive process deaths;
  * `file_prefix_k`, `no_lost_update_k` — nothing a completed session wrote is lost or altered;
  * `reader_sees_complete_k` — no read while a record is half written, and whatever a session has read is a
    prefix of the library (complete records, in order);
  * `no_append_behind_dead_tail` — a record is never written behind the torn tail of a dead writer (the next
    writer has opened the file itself, which cuts the tail): no hole, no garbage between records.
Side conditions on the control skeleton (`wellBracketed`, `opensBeforeWrite`) are re-proved for the skeleton
generated from the code on every run (`Molli.Gen.Sessions`).
-/
import Molli.Props.C04
import Molli.Lemmas.SessionsKill
namespace Molli.Props.C04
open Molli.Model.Ukv Molli.Model.Sessions Molli.Lemmas.Sessions

def kstartOf (sk : Skeleton) (file : List KV) (plans : List Plan) : KSys :=
  initKSys file (plans.map (program sk))

theorem program_opens (sk : Skeleton) (h : sk.opensBeforeWrite = true) (p : Plan) :
    opensFirst false (program sk p) = true := by
  apply program_opensFirst
  simp only [Skeleton.opensBeforeWrite, List.all_eq_true] at h
  apply h p.kind _ p.fault _
  · cases p.kind <;> simp [allKinds]
  · cases p.fault <;> simp [allFaults]

theorem kinv_init (file : List KV) (progs : List (List Act)) (hg : ∀ p ∈ progs, goodProg p = true)
    (ho : ∀ p ∈ progs, opensFirst false p = true) : KInv (initKSys file progs) := by
  refine ⟨inv_init file progs hg, ?_, ?_, ?_, ?_⟩
  · intro i hi
    simp only [initKSys, initSys] at hi ⊢
    simp only [newSess]
    exact ho _ (by rw [List.getD_eq_getElem?_getD, List.getElem?_eq_getElem hi]; simp)
  · intro i _ _ _; rfl
  · intro h; cases h
  · intro i _ l hl; simp [initKSys, initSys, newSess] at hl

theorem kinv_events (evs : List Ev) : ∀ k, KInv k → KInv (runEvents k evs) := by
  induction evs with
  | nil => intro k h; exact h
  | cons e rest ih => intro k h; exact ih _ (kinv_step k e h)

/-- **The invariant holds after every sequence of steps and process deaths**, of any length. -/
theorem kinv_reachable (sk : Skeleton) (hw : sk.wellBracketed = true) (ho : sk.opensBeforeWrite = true)
    (file : List KV) (plans : List Plan) (evs : List Ev) : KInv (runEvents (kstartOf sk file plans) evs) := by
  apply kinv_events
  apply kinv_init
  · intro p hp
    obtain ⟨pl, _, rfl⟩ := List.mem_map.mp hp
    exact program_good sk hw pl
  · intro p hp
    obtain ⟨pl, _, rfl⟩ := List.mem_map.mp hp
    exact program_opens sk ho pl

/-- writers stay mutually exclusive with every other session, whoever dies in between -/
theorem mutex_k (sk : Skeleton) (hw : sk.wellBracketed = true) (ho : sk.opensBeforeWrite = true)
    (file : List KV) (plans : List Plan) (evs : List Ev) (k : KSys) (hr : k = runEvents (kstartOf sk file plans) evs)
    (i j : Nat) : i < k.s.n → j < k.s.n → i ≠ j → (k.s.sess i).inCS = true → (k.s.sess j).inCS = true →
      (k.s.sess i).writer = false ∧ (k.s.sess j).writer = false := by
  subst hr
  exact (kinv_reachable sk hw ho file plans evs).sinv.excl i j

/-- a session that ended — by running to its end under whatever fault, or because its process died — holds no lock -/
theorem released_k (sk : Skeleton) (hw : sk.wellBracketed = true) (ho : sk.opensBeforeWrite = true)
    (file : List KV) (plans : List Plan) (evs : List Ev) (k : KSys) (hr : k = runEvents (kstartOf sk file plans) evs)
    (i : Nat) : i < k.s.n → (k.s.sess i).prog = [] → (k.s.sess i).inCS = false := by
  intro hi hp
  subst hr
  cases (kinv_reachable sk hw ho file plans evs).sinv.phase i hi with
  | pre _ hg => rw [hp] at hg; simp [goodProg] at hg
  | cs mid _ he _ => rw [hp] at he; simp at he
  | mw mid _ _ he _ => rw [hp] at he; cases he
  | done hc _ => exact hc

/-- the death of a process really ends its session: nothing left to run, no lock held -/
theorem kill_ends (k : KSys) (i : Nat) (hi : i < k.s.n) :
    ((ktick k (.kill i)).s.sess i).prog = [] ∨ (k.s.sess i).prog = [] := by
  by_cases hp : (k.s.sess i).prog = []
  · exact Or.inr hp
  · left; simp [ktick, hi, hp, killSess]

/-- no deadlock and nobody blocked forever, also after processes died inside their critical sections -/
theorem progress_k (sk : Skeleton) (hw : sk.wellBracketed = true) (ho : sk.opensBeforeWrite = true)
    (file : List KV) (plans : List Plan) (evs : List Ev) (k : KSys) (hr : k = runEvents (kstartOf sk file plans) evs) :
    (∃ i, i < k.s.n ∧ (k.s.sess i).prog ≠ []) → ∃ i, i < k.s.n ∧ enabled k.s i = true := by
  subst hr
  exact progress_of_inv _ (kinv_reachable sk hw ho file plans evs).sinv

theorem ktick_file (k : KSys) (e : Ev) : k.s.file <+: (ktick k e).s.file := by
  cases e with
  | run i => exact tick_file' k.s i
  | kill i =>
    simp only [ktick]
    split
    · exact List.prefix_refl _
    · exact List.prefix_refl _
  | tear i =>
    simp only [ktick]
    split <;> exact List.prefix_refl _

/-- the library only grows at its end, whatever happens: what is in it stays, in place, unaltered -/
theorem file_prefix_k (evs : List Ev) : ∀ k, k.s.file <+: (runEvents k evs).s.file := by
  induction evs with
  | nil => intro k; exact List.prefix_refl _
  | cons e rest ih => intro k; exact (ktick_file k e).trans (ih _)

/-- once a session has drained its queue, every record it ever put is in the library (and stays: `file_prefix_k`) -/
theorem no_lost_update_k (sk : Skeleton) (hw : sk.wellBracketed = true) (ho : sk.opensBeforeWrite = true)
    (file : List KV) (plans : List Plan) (evs : List Ev) (k : KSys) (hr : k = runEvents (kstartOf sk file plans) evs)
    (i : Nat) : i < k.s.n → (k.s.sess i).queue = [] → ∀ kv ∈ (k.s.sess i).enq, kv ∈ k.s.file := by
  intro hi hq kv hkv
  subst hr
  have hs := (kinv_reachable sk hw ho file plans evs).sinv
  rw [hs.ghost i hi, hq, List.append_nil] at hkv
  exact hs.infile i hi kv hkv

/-- a record a dead writer had completely written before it died is in the library and stays there -/
theorem dead_writer_records_kept (sk : Skeleton) (hw : sk.wellBracketed = true) (ho : sk.opensBeforeWrite = true)
    (file : List KV) (plans : List Plan) (evs : List Ev) (k : KSys) (hr : k = runEvents (kstartOf sk file plans) evs)
    (i : Nat) : i < k.s.n → ∀ kv ∈ (k.s.sess i).written, kv ∈ k.s.file := by
  intro hi kv hkv
  subst hr
  exact (kinv_reachable sk hw ho file plans evs).sinv.infile i hi kv hkv

/-- a reader never reads while a record is half written, and everything any session has read is a prefix of the
library — complete records only, in file order — even when torn tails of dead writers lie around -/
theorem reader_sees_complete_k (sk : Skeleton) (hw : sk.wellBracketed = true) (ho : sk.opensBeforeWrite = true)
    (file : List KV) (plans : List Plan) (evs : List Ev) (k : KSys) (hr : k = runEvents (kstartOf sk file plans) evs)
    (i : Nat) : i < k.s.n → (k.s.sess i).sawTorn = false ∧ ∀ l ∈ (k.s.sess i).seen, l <+: k.s.file := by
  intro hi
  subst hr
  have hk := kinv_reachable sk hw ho file plans evs
  exact ⟨hk.sinv.clean i hi, hk.seen i hi⟩

/-- **No record is ever written behind the torn tail of a dead writer.**  Whenever some session is about to write a
record or is in the middle of one, no dead tail exists: the writer opened the library itself, and opening for
appending cut the tail. -/
theorem no_append_behind_dead_tail (sk : Skeleton) (hw : sk.wellBracketed = true) (ho : sk.opensBeforeWrite = true)
    (file : List KV) (plans : List Plan) (evs : List Ev) (k : KSys) (hr : k = runEvents (kstartOf sk file plans) evs)
    (i : Nat) (hi : i < k.s.n) (t : List Act)
    (hp : (k.s.sess i).prog = .writeBegin :: t ∨ (k.s.sess i).prog = .writeEnd :: t) : k.deadTail = false := by
  subst hr
  have hk := kinv_reachable sk hw ho file plans evs
  have hph := hk.sinv.phase i hi
  cases hd : (runEvents (kstartOf sk file plans) evs).deadTail with
  | false => rfl
  | true =>
    exfalso
    rcases hp with hp | hp
    · obtain ⟨hc, hwr, _⟩ := phase_writeBegin hph hp
      have := hk.dead hd i hi hc hwr
      rw [hp] at this
      simp [opensFirst] at this
    · obtain ⟨hc, hwr, _⟩ := phase_writeEnd hph hp
      have := hk.dead hd i hi hc hwr
      rw [hp] at this
      simp [opensFirst] at this

/-- in particular: while a record is half written by a live writer there is no dead tail in front of it -/
theorem torn_excludes_dead_tail (sk : Skeleton) (hw : sk.wellBracketed = true) (ho : sk.opensBeforeWrite = true)
    (file : List KV) (plans : List Plan) (evs : List Ev) (k : KSys) (hr : k = runEvents (kstartOf sk file plans) evs) :
    k.s.torn = true → k.deadTail = false := by
  intro ht
  have hs : SInv k.s := by subst hr; exact (kinv_reachable sk hw ho file plans evs).sinv
  obtain ⟨i, hi, _, _, t, hp⟩ := hs.torn ht
  exact no_append_behind_dead_tail sk hw ho file plans evs k hr i hi t (Or.inr hp)

/-- a writer that opens the library cuts the dead tail -/
theorem open_cuts_dead_tail (k : KSys) (i : Nat) (h : opensForAppend k.s i = true) :
    (ktick k (.run i)).deadTail = false := by
  simp [ktick, h]

/-- a failed write leaves its torn tail exactly when the failing writer will not write again before a reopen -/
theorem tear_leaves_dead_tail (k : KSys) (i : Nat) (h : canTear k.s i = true) :
    (ktick k (.tear i)).deadTail = true ∧ (ktick k (.tear i)).s = k.s := by
  simp [ktick, h]

/-! ### non-vacuity: a hand-written skeleton of the shape the generator finds, a writer killed in the middle of a
record, a reader and a second writer carrying on -/

def exSk : Skeleton :=
  ⟨fun k f => match k, f with
    | _, .atBegin => [.acquire, .begin, .release]
    | .reading, _ => [.acquire, .begin, .update, .body, .end_, .release]
    | .writing, _ => [.acquire, .begin, .update, .body, .flush, .end_, .release]⟩

example : exSk.wellBracketed = true ∧ exSk.opensBeforeWrite = true := by decide

def exPlans : List Plan :=
  [⟨.writing, .none, [⟨[1], [10]⟩, ⟨[2], [20]⟩], 0⟩, ⟨.reading, .none, [], 0⟩, ⟨.writing, .none, [⟨[3], [30]⟩], 0⟩]

/-- writer 0: acquire, open, update, two puts, first record written, second record begun — then its process dies.
The library holds the first record and a dead tail. -/
example :
    let k := runEvents (kstartOf exSk [] exPlans) ((List.replicate 8 (Ev.run 0)) ++ [.kill 0])
    k.s.file = [⟨[1], [10]⟩] ∧ k.deadTail = true ∧ k.s.torn = false ∧ (k.s.sess 0).inCS = false := by decide

/-- … then the reader runs (it sees the one complete record), then writer 2 runs: its open cuts the tail, its record
follows the complete one directly. -/
example :
    let k := runEvents (kstartOf exSk [] exPlans)
      ((List.replicate 8 (Ev.run 0)) ++ [.kill 0] ++ List.replicate 6 (Ev.run 1) ++ List.replicate 8 (Ev.run 2))
    k.s.file = [⟨[1], [10]⟩, ⟨[3], [30]⟩] ∧ k.deadTail = false ∧ (k.s.sess 1).seen = [[⟨[1], [10]⟩]] ∧
      (k.s.sess 2).prog = [] := by decide

/-- writer 0 wrote its first record; the write of the second one fails part-way (the flush raises: its plan is
`atFlush` with one complete write), the session still closes the file and releases the lock; writer 2 then opens, which
cuts the tail, and appends directly behind the complete record. -/
example :
    let plans : List Plan := [⟨.writing, .atFlush, [⟨[1], [10]⟩, ⟨[2], [20]⟩], 1⟩, ⟨.writing, .none, [⟨[3], [30]⟩], 0⟩]
    let k1 := runEvents (kstartOf exSk [] plans) (List.replicate 7 (Ev.run 0) ++ [.tear 0])
    let k2 := runEvents k1 (List.replicate 2 (Ev.run 0) ++ List.replicate 8 (Ev.run 1))
    k1.s.file = [⟨[1], [10]⟩] ∧ k1.deadTail = true ∧ (k1.s.sess 0).inCS = true ∧
    k2.s.file = [⟨[1], [10]⟩, ⟨[3], [30]⟩] ∧ k2.deadTail = false ∧ (k2.s.sess 0).inCS = false ∧ (k2.s.sess 1).prog = [] := by
  decide

end Molli.Props.C04
