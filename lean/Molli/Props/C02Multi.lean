/-
C02 (several collection objects) — "through one handle or several handles on the same path".

`Props.C02Backend` follows ONE collection object through its sessions.  Here any number of long-lived collection
objects (of one program or of several processes) share the library, each with its own `UKVFile` handle object whose
cached table of contents goes stale whenever another object writes.  Sessions do not overlap (that is C04's
guarantee, `Props.C04.mutex`); their order is arbitrary.

  * `step_frame`, `flushQ_frame`, `bstep_frame`, `brun_frame` — an operation of one object never touches another
    object or another handle;
  * `cnew_first`, `cnew_joins` — constructing the first object creates the library, constructing a further one on the
    existing library changes nothing;
  * `interleaved_sessions_accumulate` — for every list of (object, records) sessions in any order, every buffer size:
    the file ends as the well-formed file of all records in session order, all objects idle, nothing open;
  * `fresh_library_interleaved` — the same from a path that does not exist yet, for two objects.
-/
import Molli.Props.C02Backend
namespace Molli.Props.C02Backend
open Molli.Util Molli.Model.Ukv Molli.Model.Backend Molli.Lemmas.Ukv Molli.Props.C02

/-- the handle object an operation works on -/
def opTarget : Op → Nat
  | .new i _ _ _ _ => i
  | .reopen i _ => i
  | .close i => i
  | .put i _ _ => i
  | .get i _ => i
  | .keys i => i

/-- an operation on one handle object never touches another handle object -/
theorem step_frame (w : World) (op : Op) (j : Nat) (hj : j ≠ opTarget op) : getH (step w op).1 j = getH w j := by
  cases op with
  | new i m a b c =>
    simp only [opTarget] at hj
    simp only [step]
    split <;> simp [getH, setH, hj]
  | reopen i m =>
    simp only [opTarget] at hj
    simp only [step]
    split
    · rfl
    · split
      · rfl
      · split <;> simp [getH, setH, hj]
  | close i =>
    simp only [opTarget] at hj
    simp only [step]
    split <;> simp [getH, setH, hj]
  | put i k v =>
    simp only [opTarget] at hj
    simp only [step]
    split
    · rfl
    · rfl
    · split
      · rfl
      · split
        · rfl
        · split
          · rfl
          · simp [getH, setH, hj]
  | get i k =>
    simp only [step]
    split
    · rfl
    · rfl
    · split
      · rfl
      · split <;> rfl
  | keys i =>
    simp only [step]
    split <;> rfl


theorem flushQ_frame (q : List KV) : ∀ (w : World) (slot j : Nat), j ≠ slot → getH (flushQ w slot q).1 j = getH w j := by
  induction q with
  | nil => intro w slot j _; rfl
  | cons kv rest ih =>
    intro w slot j hj
    simp only [flushQ]
    have hf := step_frame w (.put slot kv.key kv.val) j (by simpa [opTarget] using hj)
    cases hst : step w (.put slot kv.key kv.val) with
    | mk w' o =>
      have hw' : w' = (step w (.put slot kv.key kv.val)).1 := by rw [hst]
      cases o with
      | err e => simp only []; rw [hw']; exact hf
      | ok => simp only []; rw [ih w' slot j hj, hw']; exact hf
      | val _ => simp only []; rw [ih w' slot j hj, hw']; exact hf
      | keys _ => simp only []; rw [ih w' slot j hj, hw']; exact hf

theorem flush_frame (bw : BWorld) (c : Nat) (b : Backend) :
    (∀ j, j ≠ c → getB (flush bw c b).1 j = getB bw j) ∧
    (∀ s, s ≠ b.slot → getH (flush bw c b).1.w s = getH bw.w s) ∧
    (getB (flush bw c b).1 c).map (·.slot) = some b.slot := by
  unfold flush
  have hq := flushQ_frame b.queue bw.w b.slot
  cases hfq : flushQ bw.w b.slot b.queue with
  | mk w' r =>
    have hw : w' = (flushQ bw.w b.slot b.queue).1 := by rw [hfq]
    cases r with
    | mk q' e =>
      cases e with
      | some e =>
        refine ⟨fun j hj => by simp [getB, setB, hj], fun s hs => ?_, by simp [getB, setB]⟩
        simp only [setB_w]; rw [hw]; exact hq s hs
      | none =>
        refine ⟨fun j hj => by simp [getB, setB, hj], fun s hs => ?_, by simp [getB, setB]⟩
        simp only [setB_w]; rw [hw]; exact hq s hs

/-- the collection object an operation works on (constructors excluded) -/
def bopTarget : BOp → Option Nat
  | .cnew _ _ _ _ _ => none
  | .begin c _ => some c
  | .end_ c => some c
  | .put c _ _ _ => some c
  | .get c _ => some c
  | .keys c => some c
  | .flush c => some c
  | .endFault c => some c
  | .endFaultTorn c _ => some c

theorem frame_id (bw : BWorld) (c : Nat) (b : Backend) (hb : getB bw c = some b) :
    (∀ j, j ≠ c → getB bw j = getB bw j) ∧ (∀ s, s ≠ b.slot → getH bw.w s = getH bw.w s) ∧
    (getB bw c).map (·.slot) = some b.slot := ⟨fun _ _ => rfl, fun _ _ => rfl, by simp [hb]⟩

/-- **Frame**: a session operation of collection object `c` leaves every other collection object and every other
handle object exactly as it was, and `c` keeps its handle slot. -/
theorem bstep_frame (bw : BWorld) (op : BOp) (c : Nat) (b : Backend) (ht : bopTarget op = some c)
    (hb : getB bw c = some b) :
    (∀ j, j ≠ c → getB (bstep bw op).1 j = getB bw j) ∧
    (∀ s, s ≠ b.slot → getH (bstep bw op).1.w s = getH bw.w s) ∧
    (getB (bstep bw op).1 c).map (·.slot) = some b.slot := by
  cases op with
  | cnew _ _ _ _ _ => simp [bopTarget] at ht
  | begin c' wr =>
    simp only [bopTarget, Option.some.injEq] at ht; subst ht
    simp only [bstep, hb]
    split
    · exact frame_id bw c' b hb
    · have hw : ∀ s, s ≠ b.slot →
          getH (if b.hasFile = true then step bw.w (.reopen b.slot (some (if wr = true then Mode.a else Mode.r)))
                else step bw.w (.new b.slot (if wr = true then Mode.a else Mode.r) [] [] [])).1 s = getH bw.w s := by
        intro s hs
        split <;> exact step_frame _ _ s (by simpa [opTarget] using hs)
      split <;>
        exact ⟨fun j hj => by simp [getB, setB, hj], fun s hs => by simpa using hw s hs, by simp [getB, setB]⟩
  | end_ c' =>
    simp only [bopTarget, Option.some.injEq] at ht; subst ht
    simp only [bstep, hb]
    split
    · exact frame_id bw c' b hb
    · refine ⟨fun j hj => by simp [getB, setB, hj], fun s hs => ?_, by simp [getB, setB]⟩
      simp only [setB_w]
      exact step_frame _ _ s (by simpa [opTarget] using hs)
    · obtain ⟨f1, f2, f3⟩ := flush_frame bw c' b
      cases hg : getB (flush bw c' b).1 c' with
      | none => rw [hg] at f3; simp at f3
      | some b1 =>
        rw [hg] at f3
        simp only [Option.map_some, Option.some.injEq] at f3
        refine ⟨fun j hj => ?_, fun s hs => ?_, by simp [getB, setB, f3]⟩
        · simp only [getB, setB, hj, if_false]; exact f1 j hj
        · simp only [setB_w]
          rw [step_frame _ _ s (by simpa [opTarget] using hs)]
          exact f2 s hs
  | put c' k v klen =>
    simp only [bopTarget, Option.some.injEq] at ht; subst ht
    simp only [bstep, hb]
    split
    · exact frame_id bw c' b hb
    · split
      · exact frame_id bw c' b hb
      · split
        · exact frame_id bw c' b hb
        · split
          · obtain ⟨f1, f2, f3⟩ := flush_frame (setB bw c' (some { b with queue := b.queue ++ [⟨k, v⟩], keys := b.keys ++ [k], usedmem := b.usedmem + klen + v.length })) c'
              { b with queue := b.queue ++ [⟨k, v⟩], keys := b.keys ++ [k], usedmem := b.usedmem + klen + v.length }
            refine ⟨fun j hj => ?_, fun s hs => ?_, f3⟩
            · rw [f1 j hj]; simp [getB, setB, hj]
            · rw [f2 s hs]; rfl
          · exact ⟨fun j hj => by simp [getB, setB, hj], fun _ _ => rfl, by simp [getB, setB]⟩
  | get c' k =>
    simp only [bopTarget, Option.some.injEq] at ht; subst ht
    simp only [bstep, hb]
    split
    · exact frame_id bw c' b hb
    · split <;> exact frame_id bw c' b hb
  | keys c' =>
    simp only [bopTarget, Option.some.injEq] at ht; subst ht
    simp only [bstep, hb]
    simp
  | flush c' =>
    simp only [bopTarget, Option.some.injEq] at ht; subst ht
    simp only [bstep, hb]
    exact flush_frame bw c' b
  | endFault c' =>
    simp only [bopTarget, Option.some.injEq] at ht; subst ht
    simp only [bstep, hb]
    refine ⟨fun j hj => by simp [getB, setB, hj], fun s hs => ?_, by simp [getB, setB]⟩
    simp only [setB_w]
    exact step_frame _ _ s (by simpa [opTarget] using hs)

  | endFaultTorn c' n =>
    simp only [bopTarget, Option.some.injEq] at ht; subst ht
    simp only [bstep, hb]
    cases hq : b.queue with
    | nil =>
      refine ⟨fun j hj => by simp [getB, setB, hj], fun s hs => ?_, by simp [getB, setB]⟩
      simp only [setB_w]
      exact step_frame _ _ s (by simpa [opTarget] using hs)
    | cons kv q' =>
      refine ⟨fun j hj => by simp [getB, setB, hj], fun s hs => ?_, by simp [getB, setB]⟩
      simp only [setB_w]
      rw [step_frame _ _ s (by simpa [opTarget] using hs)]
      rfl

theorem brun_frame (c : Nat) (ops : List BOp) : ∀ (bw : BWorld) (b : Backend),
    (∀ op ∈ ops, bopTarget op = some c) → getB bw c = some b →
    (∀ j, j ≠ c → getB (brun bw ops) j = getB bw j) ∧
    (∀ s, s ≠ b.slot → getH (brun bw ops).w s = getH bw.w s) ∧
    (getB (brun bw ops) c).map (·.slot) = some b.slot := by
  induction ops with
  | nil => intro bw b _ hb; exact ⟨fun _ _ => rfl, fun _ _ => rfl, by simp [brun, hb]⟩
  | cons op rest ih =>
    intro bw b hops hb
    obtain ⟨f1, f2, f3⟩ := bstep_frame bw op c b (hops op (by simp)) hb
    cases hg : getB (bstep bw op).1 c with
    | none => rw [hg] at f3; simp at f3
    | some b1 =>
      rw [hg] at f3
      simp only [Option.map_some, Option.some.injEq] at f3
      obtain ⟨g1, g2, g3⟩ := ih (bstep bw op).1 b1 (fun o ho => hops o (by simp [ho])) hg
      simp only [brun, List.foldl_cons] at g1 g2 g3 ⊢
      refine ⟨fun j hj => by rw [g1 j hj, f1 j hj], fun s hs => ?_, by rw [g3, f3]⟩
      rw [g2 s (by rw [f3]; exact hs), f2 s hs]

theorem sessionOps_target (c : Nat) (ps : List KV) : ∀ op ∈ sessionOps c ps, bopTarget op = some c := by
  intro op hop
  simp only [sessionOps, putOpsB, List.mem_cons, List.mem_append, List.mem_map, List.not_mem_nil, or_false] at hop
  rcases hop with rfl | ⟨kv, _, rfl⟩ | rfl <;> rfl

theorem slotOf_inj {c d : Nat} (h : slotOf c = slotOf d) : c = d := by
  simp only [slotOf] at h; omega

/-- the collection objects `cs` are all between sessions, each with its own handle slot -/
def AllIdle (bw : BWorld) (cs : List Nat) : Prop := ∀ c ∈ cs, ∃ b, Idle bw c b ∧ b.slot = slotOf c

def interleaved (sessions : List (Nat × List KV)) : List BOp := sessions.flatMap fun s => sessionOps s.1 s.2

/-- **Several long-lived collection objects, sessions in any order** (the serialised histories C04 guarantees):
whatever object runs which session, with whatever buffer sizes and however stale the cached table of contents of
the object that comes next, the library ends up holding every record of every completed session, in order, every
object is idle again and no handle is left open. -/
theorem interleaved_sessions_accumulate {h1 h2 b0 : Bytes} (cs : List Nat) (sessions : List (Nat × List KV)) :
    ∀ {bw : BWorld} {recs : List KV}, WF bw.w h1 h2 b0 recs → AllClosed bw.w → AllIdle bw cs →
    (∀ s ∈ sessions, s.1 ∈ cs) → (∀ s ∈ sessions, ∀ kv ∈ s.2, kv.ok) →
    ((recs ++ (sessions.map (·.2)).flatten).map (·.key)).Nodup →
    WF (brun bw (interleaved sessions)).w h1 h2 b0 (recs ++ (sessions.map (·.2)).flatten) ∧
      AllClosed (brun bw (interleaved sessions)).w ∧ AllIdle (brun bw (interleaved sessions)) cs := by
  induction sessions with
  | nil => intro bw recs hw hc hi _ _ _; simpa [interleaved, brun] using ⟨hw, hc, hi⟩
  | cons s rest ih =>
    intro bw recs hw hc hi hin hok hnd
    obtain ⟨c, ps⟩ := s
    have hcin : c ∈ cs := hin (c, ps) (by simp)
    obtain ⟨b, hib, hsl⟩ := hi c hcin
    have hnd1 : ((recs ++ ps).map (·.key)).Nodup := by
      have : (recs ++ (((c, ps) :: rest).map (·.2)).flatten) = (recs ++ ps) ++ (rest.map (·.2)).flatten := by
        simp [List.append_assoc]
      rw [this, List.map_append] at hnd
      exact (List.nodup_append.mp hnd).1
    obtain ⟨b1, hw1, hc1, hi1⟩ := session_commits hw hc hib ps (hok (c, ps) (by simp)) hnd1
    obtain ⟨f1, f2, f3⟩ := brun_frame c (sessionOps c ps) bw b (sessionOps_target c ps) hib.here
    have hidle1 : AllIdle (brun bw (sessionOps c ps)) cs := by
      intro d hd
      by_cases hdc : d = c
      · subst hdc
        refine ⟨b1, hi1, ?_⟩
        rw [hi1.here] at f3
        simp only [Option.map_some, Option.some.injEq] at f3
        rw [f3, hsl]
      · obtain ⟨bd, hid, hsd⟩ := hi d hd
        have hne : bd.slot ≠ b.slot := by
          rw [hsd, hsl]; exact fun h => hdc (slotOf_inj h)
        exact ⟨bd, ⟨by rw [f1 d hdc]; exact hid.here, hid.rw_, hid.empty, by rw [f2 _ hne]; exact hid.slot⟩, hsd⟩
    obtain ⟨hw2, hc2, hi2⟩ := ih hw1 hc1 hidle1 (fun s hs => hin s (by simp [hs]))
      (fun s hs => hok s (by simp [hs])) (by simpa [List.append_assoc] using hnd)
    refine ⟨?_, ?_, ?_⟩
    · simpa [interleaved, List.flatMap_cons, brun_append, List.append_assoc] using hw2
    · simpa [interleaved, List.flatMap_cons, brun_append] using hc2
    · simpa [interleaved, List.flatMap_cons, brun_append] using hi2


theorem slot_tmp_ne (c d : Nat) : slotOf d ≠ tmpSlot c := by simp only [slotOf, tmpSlot]; omega

/-- **One more collection object is constructed on the existing library** (a second process or a second object in the
same program): nothing changes in the file, every other object stays idle, the new object is idle with an empty
handle slot of its own. -/
theorem cnew_joins {h1 h2 b0 : Bytes} {bw : BWorld} {recs : List KV} (cs : List Nat) (c : Nat) (bufsize : Int)
    (comment : Bytes) (hw : WF bw.w h1 h2 b0 recs) (hc : AllClosed bw.w) (hi : AllIdle bw cs) (hnew : c ∉ cs) :
    WF (bstep bw (.cnew c bufsize false false comment)).1.w h1 h2 b0 recs ∧
      AllClosed (bstep bw (.cnew c bufsize false false comment)).1.w ∧
      AllIdle (bstep bw (.cnew c bufsize false false comment)).1 (c :: cs) := by
  have hfile : bw.w.file.isNone = false := by rw [hw.file]; rfl
  have hbw : (bstep bw (.cnew c bufsize false false comment)).1 =
      setB { bw with w := setH (setH bw.w (tmpSlot c) none) (slotOf c) none } c
        (some { slot := slotOf c, hasFile := false, readonly := false, bufsize := bufsize, queue := [], keys := [],
                usedmem := 0, state := .idle }) := by
    simp [bstep, hfile]
  rw [hbw]
  refine ⟨?_, ?_, ?_⟩
  · exact wf_setH (wf_setH hw (tmpSlot c) none (fun h he => by cases he)) (slotOf c) none (fun h he => by cases he)
  · intro j h hg
    simp only [setB_w] at hg
    by_cases hj1 : j = slotOf c
    · subst hj1; rw [getH_setH_same] at hg; cases hg
    · rw [getH_setH_other _ _ _ _ hj1] at hg
      by_cases hj2 : j = tmpSlot c
      · subst hj2; rw [getH_setH_same] at hg; cases hg
      · rw [getH_setH_other _ _ _ _ hj2] at hg; exact hc j h hg
  · intro d hd
    rcases List.mem_cons.mp hd with rfl | hd
    · refine ⟨{ slot := slotOf d, hasFile := false, readonly := false, bufsize := bufsize, queue := [], keys := [],
                usedmem := 0, state := .idle }, ⟨by simp [getB, setB], rfl, rfl, ?_⟩, rfl⟩
      simp only [setB_w, getH_setH_same]; rfl
    · have hdc : d ≠ c := fun h => hnew (h ▸ hd)
      obtain ⟨bd, hid, hsd⟩ := hi d hd
      refine ⟨bd, ⟨by simp [getB, setB, hdc]; exact hid.here, hid.rw_, hid.empty, ?_⟩, hsd⟩
      simp only [setB_w]
      rw [getH_setH_other _ _ _ _ (by rw [hsd]; exact fun h => hdc (slotOf_inj h)),
          getH_setH_other _ _ _ _ (by rw [hsd]; exact slot_tmp_ne c d)]
      exact hid.slot


theorem cnew_first (c : Nat) (bufsize : Int) (comment : Bytes) (hcm : comment.length < 65536) :
    WF (bstep initB (.cnew c bufsize false false comment)).1.w defaultH1 comment [] [] ∧
      AllClosed (bstep initB (.cnew c bufsize false false comment)).1.w ∧
      AllIdle (bstep initB (.cnew c bufsize false false comment)).1 [c] := by
  obtain ⟨b, hw, hc, hi⟩ := cnew_establishes c bufsize comment hcm
  refine ⟨hw, hc, ?_⟩
  intro d hd
  simp only [List.mem_singleton] at hd; subst hd
  refine ⟨b, hi, ?_⟩
  have hg : getB (bstep initB (.cnew d bufsize false false comment)).1 d =
      some { slot := slotOf d, hasFile := false, readonly := false, bufsize := bufsize, queue := [], keys := [],
             usedmem := 0, state := .idle } := by
    simp [bstep, initB, initWorld, getB, setB]
  rw [hi.here] at hg
  rw [Option.some.inj hg]

/-- **From nothing, end to end**: two collection objects (say, two processes) are constructed on a path that does
not exist yet — the first creates the library, the second finds it — and then run writing sessions in ANY order, with
any buffer sizes.  The library ends as the well-formed file of all records of all sessions in session order; both
objects are idle; no handle is open. -/
theorem fresh_library_interleaved (c d : Nat) (hcd : d ≠ c) (bufc bufd : Int) (comment x : Bytes)
    (hcm : comment.length < 65536) (sessions : List (Nat × List KV))
    (hin : ∀ s ∈ sessions, s.1 = c ∨ s.1 = d) (hok : ∀ s ∈ sessions, ∀ kv ∈ s.2, kv.ok)
    (hnd : (((sessions.map (·.2)).flatten).map (·.key)).Nodup) :
    WF (brun (bstep (bstep initB (.cnew c bufc false false comment)).1 (.cnew d bufd false false x)).1
          (interleaved sessions)).w defaultH1 comment [] ((sessions.map (·.2)).flatten) ∧
      AllClosed (brun (bstep (bstep initB (.cnew c bufc false false comment)).1 (.cnew d bufd false false x)).1
          (interleaved sessions)).w := by
  obtain ⟨hw0, hc0, hi0⟩ := cnew_first c bufc comment hcm
  obtain ⟨hw1, hc1, hi1⟩ := cnew_joins [c] d bufd x hw0 hc0 hi0 (by simpa using hcd)
  obtain ⟨hw2, hc2, _⟩ := interleaved_sessions_accumulate (d :: [c]) sessions hw1 hc1 hi1
    (fun s hs => by rcases hin s hs with h | h <;> simp [h]) hok (by simpa using hnd)
  exact ⟨by simpa using hw2, hc2⟩


/-! ### non-vacuity: two objects (large buffer / unbuffered), four sessions in mixed order, run by the model -/

example :
    (brun initB ([.cnew 0 1000000 false false [104, 105], .cnew 1 0 false false []] ++
        interleaved [(0, [⟨[97], [1]⟩]), (1, [⟨[98], [2]⟩, ⟨[99], []⟩]), (0, [⟨[100], [4]⟩]), (1, [])])).w.file.map absFile =
      some [⟨[97], [1]⟩, ⟨[98], [2]⟩, ⟨[99], []⟩, ⟨[100], [4]⟩] := by decide +kernel

end Molli.Props.C02Backend
