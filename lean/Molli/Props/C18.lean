/-
C18 — jobmap computes each item once, reuses only valid results, resumes cleanly.

  "Mapping a job over a source library fills the destination with exactly the processed results of the
   items whose commands succeeded; items already in the destination and items with a cached output from the
   same input (same hash, success) are not executed again; a cached output from a different input or a
   failed run is not reused; a rerun after partial failure executes only what is still missing, for single
   and vectorised jobs alike; and keys present only in the destination are left alone."

Reading.  Model: `Molli.Model.Jobmap`.  `runRepaired src r st` is one call of `jobmap` (source items `src`,
arguments/behaviour `r`, state `st` = destination + cache directory + execution counters); `runs` is a history
of calls.  An item is stored iff *all* of its jobs (one, or the `n` sub-jobs of a vectorised item) have a usable
output — every statement below is about job names, so it covers single and vectorised jobs alike
(`vectorised_same` spells the two shapes out).  Histories are handled by induction (`dest_stable_history`,
`wf_runs`, `rerun_fixpoint`, `executed_only_for_missing_history`).
The pinned commit's deviations are closed counterexamples (D35, D36, D37).
-/
import Molli.Lemmas.Jobmap
namespace Molli.Props.C18
open Molli.Model.Jobmap Molli.Lemmas.Jobmap

/-! ## one run -/

/-- "items already in the destination and items with a cached output from the same input (same hash, success)
are not executed again; … not reused": a job is executed in this run iff it belongs to a source item that is
not in the destination and its cache entry is not valid. -/
theorem executed_exactly (src : List Item) (r : Run) (st : St) (j : String) :
    j ∈ (runRepaired src r st).2 ↔
      (∃ it ∈ src, st.dest it.key = none ∧ j ∈ jobNames it) ∧ validCache r st j = false := by
  simp only [runRepaired, toRun, todo, List.mem_filter, List.mem_flatMap, Option.isNone_iff_eq_none,
    Bool.not_eq_true', and_assoc]

/-- "a cached output from a different input or a failed run is not reused" -/
theorem invalid_cache_not_reused (src : List Item) (r : Run) (st : St) (hs : r.strict = true) (j : String) (e : Ent)
    (it : Item) (hit : it ∈ src) (hd : st.dest it.key = none) (hj : j ∈ jobNames it)
    (hc : st.cache j = some e) (hbad : e.tag ≠ r.tag ∨ e.code ≠ 0) :
    j ∈ (runRepaired src r st).2 := by
  rw [executed_exactly]
  refine ⟨⟨it, hit, hd, hj⟩, ?_⟩
  cases hv : validCache r st j with
  | false => rfl
  | true =>
    obtain ⟨e', he', ht, hc0⟩ := (validCache_iff r st j hs).mp hv
    rw [hc] at he'; cases he'
    rcases hbad with h | h
    · exact absurd ht h
    · exact absurd hc0 h

/-- a job whose cache output is missing or unreadable (torn, empty, not a JobOutput: all modelled as "no entry") is
computed again whenever its item is still to do -/
theorem missing_cache_executed (src : List Item) (r : Run) (st : St) (it : Item) (hit : it ∈ src)
    (hd : st.dest it.key = none) (j : String) (hj : j ∈ jobNames it) (hc : st.cache j = none) :
    j ∈ (runRepaired src r st).2 := by
  rw [executed_exactly]
  exact ⟨⟨it, hit, hd, hj⟩, by simp [validCache, hc]⟩

/-- a job without any cache entry is executed; one with a valid entry is not (whatever else happens) -/
theorem valid_cache_reused (src : List Item) (r : Run) (st : St) (j : String) (h : validCache r st j = true) :
    j ∉ (runRepaired src r st).2 := by
  rw [executed_exactly]; intro hh; rw [h] at hh; cases hh.2

/-- "computes each item once": an executed job runs exactly once in this run, nothing else runs at all, and the
cache then holds what that execution produced; all other cache entries are unchanged. -/
theorem executed_once (src : List Item) (r : Run) (st : St) (j : String) :
    (j ∈ (runRepaired src r st).2 →
        (runRepaired src r st).1.attempts j = st.attempts j + 1 ∧
        (runRepaired src r st).1.cache j = some (entOf r j (st.attempts j + 1))) ∧
    (j ∉ (runRepaired src r st).2 →
        (runRepaired src r st).1.attempts j = st.attempts j ∧ (runRepaired src r st).1.cache j = st.cache j) := by
  constructor
  · intro h
    have h' : j ∈ toRun src r st := h
    simp only [runRepaired, h', if_true, and_self]
  · intro h
    have h' : j ∉ toRun src r st := h
    simp only [runRepaired, h', if_false, and_self]

/-- "fills the destination with exactly the processed results of the items whose commands succeeded … and keys
present only in the destination are left alone": entry by entry, the destination after the run is the old
entry if there was one, else the processed result of the source item with that key provided all its outputs are
usable, else nothing. -/
theorem dest_exactly (src : List Item) (r : Run) (st : St) (k : String) :
    (runRepaired src r st).1.dest k =
      match st.dest k with
      | some v => some v
      | none => match src.find? (fun it => it.key == k) with
        | some it => postOf .repaired (runRepaired src r st).1.cache r it
        | none => none := by
  cases hk : st.dest k with
  | some v => simp only [runRepaired, hk]
  | none =>
    simp only [runRepaired, hk, find_todo src st k hk]
    cases src.find? (fun it => it.key == k) <;> rfl

/-- a job one of whose commands fails — by exit status or killed by a signal — is a failed run, whatever its later
commands would do (a tolerant collect step that exits 0 and writes the return file included): its record has the first
failing command's non-zero code, so its item is not stored (`postOf_isSome_iff`) and the job runs again
(`invalid_cache_not_reused`). -/
theorem failing_command_fails_job (r : Run) (j : String) (a : Nat) (p : Plan) (hp : p ∈ r.plan j)
    (hc : (outcome p a).1 ≠ 0) : (entOf r j a).code ≠ 0 := by
  have hne : (jobOutcome (r.plan j) a).1 ≠ 0 := fun h0 => hc ((jobOutcome_code_zero_iff _ a).mp h0 p hp)
  unfold entOf
  rcases ho : jobOutcome (r.plan j) a with ⟨c, w⟩
  rw [ho] at hne
  simp only at hne
  simp [hne]

theorem killed_job_is_a_failed_run (r : Run) (j : String) (a s : Nat) (h : Plan.killed s ∈ r.plan j) (hs : 0 < s) :
    (entOf r j a).code ≠ 0 :=
  failing_command_fails_job r j a _ h (by simp only [outcome]; omega)

theorem failed_item_not_stored (src : List Item) (r : Run) (st : St) (it : Item) (j : String) (p : Plan)
    (hj : j ∈ jobNames it) (hex : j ∈ (runRepaired src r st).2) (hp : p ∈ r.plan j)
    (hc : (outcome p (st.attempts j + 1)).1 ≠ 0) :
    postOf .repaired (runRepaired src r st).1.cache r it = none := by
  cases hpo : postOf .repaired (runRepaired src r st).1.cache r it with
  | none => rfl
  | some v =>
    have := (postOf_isSome_iff (runRepaired src r st).1.cache r it).mp (by rw [hpo]; rfl) j hj
    obtain ⟨e, he, hc0, _⟩ := this
    rw [((executed_once src r st j).1 hex).2] at he
    cases he
    exact absurd hc0 (failing_command_fails_job r j _ p hp hc)

/-- "keys present only in the destination are left alone" (and so is every other existing entry) -/
theorem dest_only_keys_untouched (src : List Item) (r : Run) (st : St) (k v : String) (h : st.dest k = some v) :
    (runRepaired src r st).1.dest k = some v := by
  rw [dest_exactly, h]

/-- nothing appears under a key that is not a source key -/
theorem dest_no_foreign_keys (src : List Item) (r : Run) (st : St) (k : String) (h : st.dest k = none)
    (hk : ∀ it ∈ src, it.key ≠ k) : (runRepaired src r st).1.dest k = none := by
  rw [dest_exactly, h]
  have : src.find? (fun it => it.key == k) = none := by
    rw [List.find?_eq_none]; intro it hit; simpa using hk it hit
  simp only [this]

/-! ## reruns -/

/-- the destination only grows -/
theorem todo_shrinks (src : List Item) (r : Run) (st : St) (it : Item)
    (h : it ∈ todo src (runRepaired src r st).1) : it ∈ todo src st := by
  simp only [todo, List.mem_filter, Option.isNone_iff_eq_none] at h ⊢
  refine ⟨h.1, ?_⟩
  cases hk : st.dest it.key with
  | none => rfl
  | some v => rw [dest_only_keys_untouched src r st _ v hk] at h; cases h.2

/-- after a run, every job of an item that was to be done has a cache entry made for this run's arguments
(strict hash) -/
theorem cache_after_run (src : List Item) (r : Run) (st : St) (hs : r.strict = true) (it : Item)
    (hit : it ∈ todo src st) (j : String) (hj : j ∈ jobNames it) :
    ∃ e, (runRepaired src r st).1.cache j = some e ∧ e.tag = r.tag := by
  by_cases hex : j ∈ (runRepaired src r st).2
  · exact ⟨_, ((executed_once src r st j).1 hex).2, by simp [entOf]⟩
  · rw [((executed_once src r st j).2 hex).2]
    have hv : validCache r st j = true := by
      cases hv : validCache r st j with
      | true => rfl
      | false =>
        exfalso; apply hex
        simp only [todo, List.mem_filter, Option.isNone_iff_eq_none] at hit
        exact (executed_exactly src r st j).mpr ⟨⟨it, hit.1, hit.2, hj⟩, hv⟩
    obtain ⟨e, he, ht, _⟩ := (validCache_iff r st j hs).mp hv
    exact ⟨e, he, ht⟩

/-- "a rerun after partial failure executes only what is still missing": in a second run with the same
arguments, a job is executed only on behalf of an item that is still missing from the destination, and only if
its latest recorded result is a failure (non-zero exit code); in particular nothing that succeeded — in the
first run or earlier — is executed again. -/
theorem rerun_executes_only_missing (src : List Item) (r r' : Run) (st : St)
    (hs : r.strict = true) (hs' : r'.strict = true) (htag : r'.tag = r.tag) (j : String)
    (h : j ∈ (runRepaired src r' (runRepaired src r st).1).2) :
    (∃ it ∈ src, (runRepaired src r st).1.dest it.key = none ∧ j ∈ jobNames it) ∧
    (∃ e, (runRepaired src r st).1.cache j = some e ∧ e.code ≠ 0) := by
  obtain ⟨⟨it, hit, hd, hj⟩, hv⟩ := (executed_exactly src r' _ j).mp h
  refine ⟨⟨it, hit, hd, hj⟩, ?_⟩
  have hit2 : it ∈ todo src (runRepaired src r st).1 := by
    simp only [todo, List.mem_filter, Option.isNone_iff_eq_none]; exact ⟨hit, hd⟩
  obtain ⟨e, he, ht⟩ := cache_after_run src r st hs it (todo_shrinks src r st it hit2) j hj
  refine ⟨e, he, fun hc => ?_⟩
  have : validCache r' (runRepaired src r st).1 j = true :=
    (validCache_iff r' _ j hs').mpr ⟨e, he, by rw [ht, htag], hc⟩
  rw [this] at hv; cases hv

/-- … and what it then produces is stored: an item still missing whose jobs all succeed now (or succeeded
before) ends up in the destination. -/
theorem rerun_completes (src : List Item) (r : Run) (st : St) (it : Item)
    (hfirst : src.find? (fun i => i.key == it.key) = some it)
    (hall : ∀ j ∈ jobNames it, ∃ e, (runRepaired src r st).1.cache j = some e ∧ e.code = 0 ∧ e.payload.isSome) :
    ((runRepaired src r st).1.dest it.key).isSome := by
  rw [dest_exactly]
  cases st.dest it.key with
  | some v => rfl
  | none => simp only [hfirst]; exact (postOf_isSome_iff _ r it).mpr hall

/-! ## histories (induction over the list of runs) -/

/-- whatever runs follow, an entry of the destination is never changed or removed -/
theorem dest_stable_history (src : List Item) (rs : List Run) (st : St) (k v : String) (h : st.dest k = some v) :
    (runs src st rs).1.dest k = some v := by
  induction rs generalizing st with
  | nil => exact h
  | cons r rs ih => simp only [runs]; exact ih _ (dest_only_keys_untouched src r st k v h)

/-- a key that is not a source key never appears -/
theorem dest_no_foreign_keys_history (src : List Item) (rs : List Run) (st : St) (k : String)
    (h : st.dest k = none) (hk : ∀ it ∈ src, it.key ≠ k) : (runs src st rs).1.dest k = none := by
  induction rs generalizing st with
  | nil => exact h
  | cons r rs ih => simp only [runs]; exact ih _ (dest_no_foreign_keys src r st k h hk)

/-- cache files written by the runner are consistent: exit code 0 implies the requested file is there -/
def WF (st : St) : Prop := ∀ j e, st.cache j = some e → e.code = 0 → e.payload.isSome

theorem wf_empty : WF emptySt := by intro j e h; cases h

theorem wf_run (src : List Item) (r : Run) (st : St) (h : WF st) : WF (runRepaired src r st).1 := by
  intro j e he hc
  by_cases hex : j ∈ (runRepaired src r st).2
  · rw [((executed_once src r st j).1 hex).2] at he
    cases he
    unfold entOf at hc ⊢
    rcases ho : jobOutcome (r.plan j) (st.attempts j + 1) with ⟨c, w⟩
    rw [ho] at hc
    cases w <;> by_cases hc0 : c = 0 <;> simp_all
  · rw [((executed_once src r st j).2 hex).2] at he
    exact h j e he hc

theorem wf_runs (src : List Item) (rs : List Run) (st : St) (h : WF st) : WF (runs src st rs).1 := by
  induction rs generalizing st with
  | nil => exact h
  | cons r rs ih => simp only [runs]; exact ih _ (wf_run src r st h)

/-- every run of the history executes jobs only on behalf of items that are missing at that moment -/
theorem executed_only_for_missing_history (src : List Item) (rs : List Run) (st : St) :
    ∀ ex ∈ (runs src st rs).2, ∀ j ∈ ex, ∃ it ∈ src, j ∈ jobNames it ∧ st.dest it.key = none := by
  induction rs generalizing st with
  | nil => intro ex h; cases h
  | cons r rs ih =>
    intro ex hex j hj
    simp only [runs, List.mem_cons] at hex
    rcases hex with rfl | hex
    · obtain ⟨⟨it, hit, hd, hjn⟩, _⟩ := (executed_exactly src r st j).mp hj
      exact ⟨it, hit, hjn, hd⟩
    · obtain ⟨it, hit, hjn, hd⟩ := ih _ ex hex j hj
      refine ⟨it, hit, hjn, ?_⟩
      cases hk : st.dest it.key with
      | none => rfl
      | some v => rw [dest_only_keys_untouched src r st _ v hk] at hd; cases hd

/-- a run in which every job behaves is complete … -/
def AllOk (r : Run) : Prop := ∀ j a, jobOutcome (r.plan j) a = (0, true)

theorem complete_after_ok_run (src : List Item) (r : Run) (st : St) (hwf : WF st) (hok : AllOk r) (hs : r.strict = true) :
    ∀ it ∈ src, ((runRepaired src r st).1.dest it.key).isSome := by
  intro it hit
  rw [dest_exactly]
  cases hk : st.dest it.key with
  | some v => rfl
  | none =>
    have hfind : ∃ it0, src.find? (fun i => i.key == it.key) = some it0 ∧ it0 ∈ src ∧ it0.key = it.key := by
      cases hf : src.find? (fun i => i.key == it.key) with
      | none => rw [List.find?_eq_none] at hf; exact absurd (hf it hit) (by simp)
      | some it0 => exact ⟨it0, rfl, List.mem_of_find?_eq_some hf, by simpa using List.find?_some hf⟩
    obtain ⟨it0, hf, hmem, hkey⟩ := hfind
    simp only [hf]
    rw [postOf_isSome_iff]
    intro j hj
    have htodo : it0 ∈ todo src st := by
      simp only [todo, List.mem_filter, Option.isNone_iff_eq_none]; exact ⟨hmem, by rw [hkey]; exact hk⟩
    by_cases hex : j ∈ (runRepaired src r st).2
    · refine ⟨_, ((executed_once src r st j).1 hex).2, ?_⟩
      exact (entOf_usable_iff r j _).mpr (hok j _)
    · rw [((executed_once src r st j).2 hex).2]
      have hv : validCache r st j = true := by
        cases hv : validCache r st j with
        | true => rfl
        | false =>
          exfalso; apply hex
          exact (executed_exactly src r st j).mpr ⟨⟨it0, hmem, by rw [hkey]; exact hk, hj⟩, hv⟩
      obtain ⟨e, he, _, hc⟩ := (validCache_iff r st j hs).mp hv
      exact ⟨e, he, hc, hwf j e he hc⟩

/-- … and "resumes cleanly": once every source item is in the destination, any further history of runs
(any arguments, any behaviour of the commands) executes nothing and changes nothing. -/
theorem rerun_fixpoint (src : List Item) (rs : List Run) (st : St)
    (hdone : ∀ it ∈ src, (st.dest it.key).isSome) :
    (∀ ex ∈ (runs src st rs).2, ex = []) ∧ (∀ k, (runs src st rs).1.dest k = st.dest k) ∧
    (∀ j, (runs src st rs).1.attempts j = st.attempts j) := by
  induction rs generalizing st with
  | nil => exact ⟨fun ex h => (by cases h), fun _ => rfl, fun _ => rfl⟩
  | cons r rs ih =>
    have hnil : (runRepaired src r st).2 = [] := by
      apply List.eq_nil_iff_forall_not_mem.mpr
      intro j hj
      obtain ⟨⟨it, hit, hd, _⟩, _⟩ := (executed_exactly src r st j).mp hj
      have := hdone it hit
      rw [hd] at this; cases this
    have hdest : ∀ k, (runRepaired src r st).1.dest k = st.dest k := by
      intro k
      rw [dest_exactly]
      cases hk : st.dest k with
      | some v => rfl
      | none =>
        cases hf : src.find? (fun it => it.key == k) with
        | none => rfl
        | some it =>
          have hmem := List.mem_of_find?_eq_some hf
          have hkey : it.key = k := by simpa using List.find?_some hf
          have := hdone it hmem
          rw [hkey, hk] at this; cases this
    have hatt : ∀ j, (runRepaired src r st).1.attempts j = st.attempts j := by
      intro j
      have : j ∉ (runRepaired src r st).2 := by rw [hnil]; exact List.not_mem_nil
      exact ((executed_once src r st j).2 this).1
    have hdone' : ∀ it ∈ src, ((runRepaired src r st).1.dest it.key).isSome := by
      intro it hit; rw [hdest]; exact hdone it hit
    obtain ⟨h1, h2, h3⟩ := ih (runRepaired src r st).1 hdone'
    simp only [runs]
    refine ⟨?_, fun k => by rw [h2, hdest], fun j => by rw [h3, hatt]⟩
    intro ex hex
    rcases List.mem_cons.mp hex with rfl | hex
    · exact hnil
    · exact h1 ex hex

/-- the two together: after ANY history, one run in which all commands succeed makes every later run a no-op -/
theorem resume_after_history (src : List Item) (before after : List Run) (r : Run) (hok : AllOk r) (hs : r.strict = true) :
    let st1 := (runRepaired src r (runs src emptySt before).1).1
    (∀ it ∈ src, (st1.dest it.key).isSome) ∧ (∀ ex ∈ (runs src st1 after).2, ex = []) ∧
    (∀ k, (runs src st1 after).1.dest k = st1.dest k) := by
  have hwf := wf_runs src before emptySt wf_empty
  have hdone := complete_after_ok_run src r _ hwf hok hs
  obtain ⟨h1, h2, _⟩ := rerun_fixpoint src after _ hdone
  exact ⟨hdone, h1, h2⟩

/-! ## single and vectorised jobs -/

/-- "for single and vectorised jobs alike": a single-job item is stored iff its one output is usable; a vectorised
item with `n` sub-jobs iff all outputs `<key>.0 … <key>.(n-1)` are; and exactly the sub-jobs without a valid cache
entry are executed. -/
theorem vectorised_same (cache : String → Option Ent) (r : Run) (k : String) (n : Nat) :
    ((postOf .repaired cache r ⟨k, none⟩).isSome ↔ ∃ e, cache k = some e ∧ e.code = 0 ∧ e.payload.isSome) ∧
    ((postOf .repaired cache r ⟨k, some n⟩).isSome ↔
      ∀ i < n, ∃ e, cache (k ++ "." ++ toString i) = some e ∧ e.code = 0 ∧ e.payload.isSome) := by
  constructor
  · rw [postOf_isSome_iff]; simp [jobNames]
  · rw [postOf_isSome_iff]
    simp only [jobNames, List.mem_map, List.mem_range]
    constructor
    · intro h i hi
      exact h (k ++ "." ++ toString i) ⟨i, hi, rfl⟩
    · intro h j hj
      obtain ⟨i, hi, rfl⟩ := hj
      exact h i hi

theorem vectorised_executed (src : List Item) (r : Run) (st : St) (k : String) (n i : Nat)
    (hit : (⟨k, some n⟩ : Item) ∈ src) (hd : st.dest k = none) (hi : i < n)
    (hv : validCache r st (k ++ "." ++ toString i) = false) :
    (k ++ "." ++ toString i) ∈ (runRepaired src r st).2 := by
  rw [executed_exactly]
  refine ⟨⟨⟨k, some n⟩, hit, hd, ?_⟩, hv⟩
  simp only [jobNames, List.mem_map, List.mem_range]
  exact ⟨i, hi, rfl⟩

/-! ## concrete histories (non-vacuity) and the pinned commit -/

def demoSrc : List Item := [⟨"m0", none⟩, ⟨"m1", none⟩, ⟨"m2", none⟩, ⟨"e", some 2⟩]
def demoPlan : String → List Plan := fun j =>
  if j = "m1" then [.fail 3, .ok] else if j = "m2" then [.okFrom 2 5] else if j = "e.1" then [.omit] else [.omit, .ok]
def demoSt : St := { emptySt with dest := fun k => if k = "m0" then some "pre" else if k = "zz" then some "only" else none }
def runA : Run := { tag := "A", plan := demoPlan }
def runOk : Run := { tag := "A", plan := fun _ => [.ok] }

example : (runRepaired demoSrc runA demoSt).2 = ["m1", "m2", "e.0", "e.1"] ∧
    (runRepaired demoSrc runA (runRepaired demoSrc runA demoSt).1).2 = ["m1", "m2", "e.1"] ∧
    ((runs demoSrc demoSt [runA, runA, runOk, runA]).1.dest "m2" = some "A|m2:A:2") ∧
    ((runs demoSrc demoSt [runA, runA, runOk, runA]).1.dest "e" = some "A|e.0:A:1,e.1:A:3") ∧
    ((runs demoSrc demoSt [runA, runA, runOk, runA]).1.dest "zz" = some "only") ∧
    ((runs demoSrc demoSt [runA, runA, runOk, runA]).2 = [["m1", "m2", "e.0", "e.1"], ["m1", "m2", "e.1"], ["m1", "e.1"], []]) := by
  decide

example : AllOk runOk := fun _ _ => rfl

example : (runs [⟨"m", none⟩] emptySt [{ tag := "A", plan := fun _ => [.killed 9, .ok] }, { tag := "A", plan := fun _ => [.killed 9, .ok] }]).2 = [["m"], ["m"]] ∧
    (runs [⟨"m", none⟩] emptySt [{ tag := "A", plan := fun _ => [.killed 9, .ok] }]).1.dest "m" = none ∧
    ((runs [⟨"m", none⟩] emptySt [{ tag := "A", plan := fun _ => [.killed 9, .ok] }]).1.cache "m").map (·.code) = some (-9) := by
  decide

/-- D35 (pinned commit): a key present only in the destination makes the call raise. -/
theorem dest_only_key_shipped_counterexample :
    (runShipped demoSrc ["m0", "zz"] runA demoSt).isNone = true ∧
    (runRepaired demoSrc runA demoSt).1.dest "zz" = some "only" := by
  decide

/-- D36 (pinned commit): rerunning a vectorised job with an output file in the cache raises. -/
theorem vectorised_rerun_shipped_counterexample :
    (runShipped demoSrc ["m0"] runA (runRepaired demoSrc runA { demoSt with dest := fun k => if k = "m0" then some "pre" else none }).1).isNone = true := by
  decide

/-- D37 (pinned commit): an item whose command wrote its file but exited 3 is stored in the destination. -/
theorem failed_item_stored_shipped_counterexample :
    ((runShipped [⟨"m", none⟩] [] { tag := "A", plan := fun _ => [.failWrote 3] } emptySt).map (fun p => p.1.dest "m")) = some (some "A|m:A:1") ∧
    (runRepaired [⟨"m", none⟩] { tag := "A", plan := fun _ => [.failWrote 3] } emptySt).1.dest "m" = none := by
  decide

end Molli.Props.C18
