/-
C04 — Concurrent library sessions are serialised and survive failing sessions.

  "Any number of processes and handles may run reading() and writing() sessions on the same library in
   any interleaving: writers are mutually exclusive with all other sessions, no record written in a
   completed session is lost or altered, and a reader sees only complete records. A session that ends
   with an exception - raised by user code, by the value encoder, or by the flush at session exit -
   still releases the lock and closes the file, so the next session in this or any other process
   proceeds."

Model: `Molli.Model.Sessions` — any number of sessions, each running the program obtained by expanding
the *generated* control skeleton of `reading()`/`writing()` (`Molli.Gen.Sessions`, produced on every
run by injecting a fault at each step of real sessions) under a fault plan; any schedule (list of
scheduling decisions of any length); ideal reader–writer lock (A-lock).  The theorems below are
proved for every skeleton with `wellBracketed = true`; the generated module re-proves that side
condition (and `alwaysCloses`, `ordered`, `writerFlushes`) for the skeleton observed today by `decide`.
-/
import Molli.Lemmas.Sessions
namespace Molli.Props.C04
open Molli.Model.Ukv Molli.Model.Sessions Molli.Lemmas.Sessions

/-- Systems that start from a library `file` with sessions whose programs come from a well-bracketed
skeleton, under any fault plans. -/
def startOf (sk : Skeleton) (file : List KV) (plans : List Plan) : Sys :=
  initSys file (plans.map (program sk))

theorem program_good (sk : Skeleton) (h : sk.wellBracketed = true) (p : Plan) :
    goodProg (program sk p) = true := by
  apply program_good_of_trace
  simp only [Skeleton.wellBracketed, List.all_eq_true] at h
  have hk : p.kind ∈ allKinds := by cases p.kind <;> simp [allKinds]
  have hf : p.fault ∈ allFaults := by cases p.fault <;> simp [allFaults]
  exact h _ hk _ hf

theorem inv_init (file : List KV) (progs : List (List Act)) (h : ∀ p ∈ progs, goodProg p = true) :
    SInv (initSys file progs) := by
  refine ⟨?_, ?_, ?_, ?_, ?_, ?_⟩
  · intro i hi
    apply Phase.pre rfl
    simp only [initSys, newSess] at hi ⊢
    rw [List.getD_eq_getElem?_getD, List.getElem?_eq_getElem hi, Option.getD_some]
    exact h _ (List.getElem_mem hi)
  · intro i j _ _ _ hc; simp [initSys, newSess] at hc
  · intro ht; simp [initSys] at ht
  · intro i _; simp [initSys, newSess]
  · intro i _ kv hkv; simp [initSys, newSess] at hkv
  · intro i _; simp [initSys, newSess]

/-- **The invariant holds after every schedule**, of any length, over any number of sessions. -/
theorem inv_sched (sched : List Nat) : ∀ s, SInv s → SInv (runSched s sched) := by
  induction sched with
  | nil => intro s h; exact h
  | cons i rest ih => intro s h; exact ih _ (inv_tick s i h)

theorem inv_reachable (sk : Skeleton) (hw : sk.wellBracketed = true) (file : List KV) (plans : List Plan)
    (sched : List Nat) : SInv (runSched (startOf sk file plans) sched) := by
  apply inv_sched
  apply inv_init
  intro p hp
  obtain ⟨pl, _, rfl⟩ := List.mem_map.mp hp
  exact program_good sk hw pl

/-- "writers are mutually exclusive with all other sessions" (readers may share): in every reachable
state, two different sessions are inside their critical sections only if neither is a writer. -/
theorem mutex (sk : Skeleton) (hw : sk.wellBracketed = true) (file : List KV) (plans : List Plan)
    (sched : List Nat) (s : Sys) (hr : s = runSched (startOf sk file plans) sched) (i j : Nat) :
    i < s.n → j < s.n → i ≠ j → (s.sess i).inCS = true → (s.sess j).inCS = true →
      (s.sess i).writer = false ∧ (s.sess j).writer = false := by
  subst hr
  exact fun hi hj => (inv_reachable sk hw file plans sched).excl i j hi hj

/-- "still releases the lock … so the next session proceeds" (1): a session that has run to the end of
its program — whatever its fault plan — does not hold the lock. -/
theorem always_released (sk : Skeleton) (hw : sk.wellBracketed = true) (file : List KV) (plans : List Plan)
    (sched : List Nat) (s : Sys) (hr : s = runSched (startOf sk file plans) sched) (i : Nat) :
    i < s.n → (s.sess i).prog = [] → (s.sess i).inCS = false := by
  intro hi hp
  have := (hr ▸ inv_reachable sk hw file plans sched : SInv s).phase i hi
  cases this with
  | pre hc _ => exact hc
  | cs mid _ he _ => rw [hp] at he; cases mid <;> cases he
  | mw mid _ _ he _ => rw [hp] at he; cases he
  | done hc _ => exact hc

theorem not_anyInCS {s : Sys} {i : Nat} (h : ∀ j, j < s.n → (s.sess j).inCS = false) : anyInCS s i = false := by
  simp only [anyInCS, List.any_eq_false, List.mem_range]
  intro j hj; simp [h j hj]

theorem not_writerInCS {s : Sys} {i : Nat} (h : ∀ j, j < s.n → (s.sess j).inCS = false) : writerInCS s i = false := by
  simp only [writerInCS, List.any_eq_false, List.mem_range]
  intro j hj; simp [h j hj]

/-- "… so the next session in this or any other process proceeds" (2): no deadlock and no session
blocked forever — in every reachable state in which some session has work left, some session can
take a step. -/
theorem progress_of_inv (s : Sys) (hs : SInv s) :
    (∃ i, i < s.n ∧ (s.sess i).prog ≠ []) → ∃ i, i < s.n ∧ enabled s i = true := by
  intro ⟨i, hi, hne⟩
  by_cases hcs : ∃ k, k < s.n ∧ (s.sess k).inCS = true
  · obtain ⟨k, hk, hc⟩ := hcs
    refine ⟨k, hk, ?_⟩
    cases hs.phase k hk with
    | pre hc' _ => rw [hc] at hc'; cases hc'
    | done hc' _ => rw [hc] at hc'; cases hc'
    | mw mid _ _ he _ => simp [enabled, he]
    | cs mid _ he hm =>
      cases mid with
      | nil => simp [enabled, he]
      | cons a t =>
        have hl := midOK_no_lock_head hm
        simp only [enabled, he, List.cons_append]
        cases a <;> simp_all [Act.isLock]
  · have hnone : ∀ j, j < s.n → (s.sess j).inCS = false := by
      intro j hj
      cases hc : (s.sess j).inCS with
      | false => rfl
      | true => exact absurd ⟨j, hj, hc⟩ hcs
    refine ⟨i, hi, ?_⟩
    cases hs.phase i hi with
    | cs mid hc _ _ => rw [hnone i hi] at hc; cases hc
    | mw mid hc _ _ _ => rw [hnone i hi] at hc; cases hc
    | done _ he => exact absurd he hne
    | pre _ hg =>
      obtain ⟨w, mid, he, _⟩ := goodProg_shape hg
      simp only [enabled, he]
      cases w
      · simp [not_writerInCS hnone]
      · simp [not_anyInCS hnone]

theorem progress (sk : Skeleton) (hw : sk.wellBracketed = true) (file : List KV) (plans : List Plan)
    (sched : List Nat) (s : Sys) (hr : s = runSched (startOf sk file plans) sched) :
    (∃ i, i < s.n ∧ (s.sess i).prog ≠ []) → ∃ i, i < s.n ∧ enabled s i = true :=
  progress_of_inv s (hr ▸ inv_reachable sk hw file plans sched)

/-- One scheduling decision leaves the library as it is or appends exactly one complete record. -/
theorem tick_file (s : Sys) (i : Nat) : (tick s i).file = s.file ∨ ∃ kv, (tick s i).file = s.file ++ [kv] := by
  unfold tick
  split
  · cases hp : (s.sess i).prog with
    | nil => left; simp only [hp]
    | cons a rest =>
      simp only [hp]
      cases a with
      | writeEnd =>
        cases hq : (s.sess i).queue with
        | nil => left; simp only [hq, setSess_file]
        | cons kv q => right; exact ⟨kv, by simp only [hq, setSess_file]⟩
      | _ => left; simp only [setSess_file]
  · exact Or.inl rfl

/-- "no record written … is lost or altered": along any schedule the library only grows at its end —
what was in it stays in it, in place, unaltered. -/
theorem file_prefix (sched : List Nat) : ∀ s, s.file <+: (runSched s sched).file := by
  induction sched with
  | nil => intro s; exact List.prefix_refl _
  | cons i rest ih =>
    intro s
    have h1 : s.file <+: (tick s i).file := by
      rcases tick_file s i with h | ⟨kv, h⟩ <;> rw [h]
      · exact List.prefix_refl _
      · exact List.prefix_append _ _
    exact List.IsPrefix.trans h1 (ih (tick s i))

/-- "no record written in a completed session is lost": once a session has drained its queue, every
record it ever put is in the library (and by `file_prefix` stays there). -/
theorem no_lost_update (sk : Skeleton) (hw : sk.wellBracketed = true) (file : List KV) (plans : List Plan)
    (sched : List Nat) (s : Sys) (hr : s = runSched (startOf sk file plans) sched) (i : Nat) :
    i < s.n → (s.sess i).queue = [] → ∀ kv ∈ (s.sess i).enq, kv ∈ s.file := by
  intro hi hq kv hkv
  have hs : SInv s := hr ▸ inv_reachable sk hw file plans sched
  rw [hs.ghost i hi, hq, List.append_nil] at hkv
  exact hs.infile i hi kv hkv

/-- "a reader sees only complete records": no read ever happens while a record is half written. -/
theorem reader_sees_complete (sk : Skeleton) (hw : sk.wellBracketed = true) (file : List KV) (plans : List Plan)
    (sched : List Nat) (s : Sys) (hr : s = runSched (startOf sk file plans) sched) (i : Nat) :
    i < s.n → (s.sess i).sawTorn = false := by
  subst hr
  exact fun hi => (inv_reachable sk hw file plans sched).clean i hi

/-- While a record is half written, its writer is the only session inside a critical section. -/
theorem torn_only_under_writer (sk : Skeleton) (hw : sk.wellBracketed = true) (file : List KV) (plans : List Plan)
    (sched : List Nat) (s : Sys) (hr : s = runSched (startOf sk file plans) sched) :
    s.torn = true → ∃ i, i < s.n ∧ (s.sess i).inCS = true ∧ (s.sess i).writer = true ∧
      ∀ j, j < s.n → j ≠ i → (s.sess j).inCS = false := by
  intro ht
  have hs : SInv s := hr ▸ inv_reachable sk hw file plans sched
  obtain ⟨i, hi, hc, hwr, _⟩ := hs.torn ht
  refine ⟨i, hi, hc, hwr, fun j hj hji => ?_⟩
  cases hcj : (s.sess j).inCS with
  | false => rfl
  | true =>
    have := (hs.excl i j hi hj (Ne.symm hji) hc hcj).1
    rw [hwr] at this; cases this

end Molli.Props.C04
